//! Channel "art": compressed-graph artefacts produced through the library's public
//! compression entry points, printed with the input graph and configuration so that the
//! model driver can decode / re-encode / check them.
use crate::util::*;
use anyhow::Result;
use dsi_bitstream::prelude::*;
use std::io::Write;
use std::path::Path;
use webgraph::prelude::*;

#[derive(Clone, Debug)]
pub struct Conf {
    pub w: usize,
    pub mr: usize, // usize::MAX = unbounded
    pub l: usize,
    pub codes: [Codes; 5],
    pub le: bool,
    pub zuck: bool,
    pub chunk: usize,
}

pub const ALL_CODES: [Codes; 15] = [
    Codes::Unary, Codes::Gamma, Codes::Delta, Codes::Omega,
    Codes::Zeta(1), Codes::Zeta(2), Codes::Zeta(3), Codes::Zeta(4), Codes::Zeta(5),
    Codes::Zeta(6), Codes::Zeta(7), Codes::Pi(1), Codes::Pi(2), Codes::Pi(3), Codes::Pi(4),
];

pub fn code_name(c: Codes) -> String {
    match c {
        Codes::Unary => "U".into(),
        Codes::Gamma => "G".into(),
        Codes::Delta => "D".into(),
        Codes::Omega => "O".into(),
        Codes::Zeta(k) => format!("Z{k}"),
        Codes::Pi(k) => format!("P{k}"),
        other => format!("X{other:?}"),
    }
}

impl Conf {
    pub fn flags(&self) -> CompFlags {
        CompFlags {
            outdegrees: self.codes[0],
            references: self.codes[1],
            blocks: self.codes[2],
            intervals: self.codes[3],
            residuals: self.codes[4],
            min_interval_length: self.l,
            compression_window: self.w,
            max_ref_count: self.mr,
        }
    }
    pub fn describe(&self) -> String {
        format!(
            "comp={} chunk={} w={} mr={} L={} codes={} le={}",
            if self.zuck { "zuck" } else { "greedy" },
            self.chunk,
            self.w,
            if self.mr == usize::MAX { "inf".to_string() } else { self.mr.to_string() },
            self.l,
            self.codes.iter().map(|c| code_name(*c)).collect::<Vec<_>>().join(","),
            self.le as u8
        )
    }
    /// Random configuration.  `unary_ok`: allow unary for components whose values can be
    /// large (kept off for big graphs so that codewords stay short).
    pub fn random(rng: &mut Rng, n: usize) -> Conf {
        let mut codes = [Codes::Gamma, Codes::Unary, Codes::Gamma, Codes::Gamma, Codes::Zeta(3)];
        match rng.below(6) {
            0 | 1 => {} // defaults
            2 => {
                // version-0 family: old codes sharing one zeta parameter
                let k = rng.range(1, 7);
                let old = [Codes::Unary, Codes::Gamma, Codes::Delta, Codes::Zeta(k)];
                for (i, c) in codes.iter_mut().enumerate() {
                    if rng.chance(1, 2) { *c = rng.pick(&old); }
                    if *c == Codes::Unary && i != 1 && n > 64 { *c = Codes::Gamma; }
                }
            }
            3 => {
                // old codes with possibly different zeta parameters (unrepresentable when
                // big-endian) and often the default residual code
                for (i, c) in codes.iter_mut().enumerate() {
                    if i == 4 && rng.chance(1, 2) { continue; }
                    if rng.chance(1, 2) { *c = Codes::Zeta(rng.range(1, 7)); }
                    else if rng.chance(1, 2) { *c = rng.pick(&[Codes::Gamma, Codes::Delta]); }
                }
            }
            _ => {
                for (i, c) in codes.iter_mut().enumerate() {
                    loop {
                        *c = rng.pick(&ALL_CODES);
                        // unary on residuals/intervals/outdegrees of a large graph is legal but
                        // produces very long codewords; keep it for small graphs only
                        if *c == Codes::Unary && i != 1 && n > 64 { continue; }
                        break;
                    }
                }
            }
        }
        Conf {
            w: rng.pick(&[0, 1, 1, 2, 3, 5, 7, 7, 9, 64]),
            mr: rng.pick(&[0, 1, 2, 3, 3, 5, usize::MAX]),
            l: rng.pick(&[0, 2, 2, 3, 4, 4, 7]),
            codes,
            le: rng.chance(1, 2),
            zuck: rng.chance(2, 5),
            chunk: rng.pick(&[1, 2, 3, 7, 10, 10000]),
        }
    }
}

pub fn vec_graph(g: &Graph) -> VecGraph {
    let mut vg = VecGraph::empty(g.len());
    for (x, l) in g.iter().enumerate() {
        for &y in l {
            vg.add_arc(x, y);
        }
    }
    vg
}

fn conf_builder(base: &Path, c: &Conf) -> BvCompConf {
    let mut b = BvComp::with_basename(base).comp_flags(c.flags());
    if c.zuck {
        b = b.bvgraphz().chunk_size(c.chunk);
    }
    b
}

pub enum How {
    CompGraph,
    CompLender,
    /// explicit cutpoints, pool size, optional imposed completion order
    Par { cuts: Vec<usize>, threads: usize, order: Option<Vec<usize>> },
    /// uniform split into k parts through `ParGraph::new`
    ParUniform { parts: usize, threads: usize },
    /// degree-balanced split through `ParGraph::with_dcf`
    ParDcf { parts: usize, threads: usize },
    /// `par_comp(&VecGraph)`: as many uniform parts as pool threads
    ParVec { threads: usize },
    /// `par_comp(&BvGraphSeq)` on a sequentially compressed copy (sequential splitter)
    ParSeqGraph { threads: usize },
}

/// Imposes a completion order on the parallel-compression workers through the
/// `verif_hooks` call-out: job `order[i]` may send only after `order[0..i]` have sent.
pub fn with_job_order<T>(order: Option<Vec<usize>>, f: impl FnOnce() -> T) -> T {
    use std::sync::{Arc, Condvar, Mutex};
    match order {
        None => f(),
        Some(order) => {
            let state = Arc::new((Mutex::new(0usize), Condvar::new()));
            let st2 = state.clone();
            let ord = order.clone();
            *webgraph::verif_hooks::BEFORE_JOB_SEND.write().unwrap() = Some(Box::new(move |id| {
                let (m, cv) = &*st2;
                let mut pos = m.lock().unwrap();
                let my = match ord.iter().position(|&j| j == id) { Some(p) => p, None => return };
                let deadline = std::time::Instant::now() + std::time::Duration::from_secs(5);
                while *pos < my {
                    let (g, to) = cv.wait_timeout(pos, std::time::Duration::from_millis(200)).unwrap();
                    pos = g;
                    if to.timed_out() && std::time::Instant::now() > deadline { break; }
                    // jobs that never send (empty lenders) must not block the others
                }
                if *pos <= my { *pos = my + 1; }
                cv.notify_all();
            }));
            let r = f();
            *webgraph::verif_hooks::BEFORE_JOB_SEND.write().unwrap() = None;
            r
        }
    }
}

fn run_comp<E: Endianness>(base: &Path, c: &Conf, g: &Graph, how: &How) -> Result<u64>
where
    BufBitWriter<E, WordAdapter<usize, std::io::BufWriter<std::fs::File>>>: CodesWrite<E>,
    BufBitReader<E, WordAdapter<u32, std::io::BufReader<std::fs::File>>>: BitRead<E>,
{
    let vg = vec_graph(g);
    let mut b = conf_builder(base, c);
    match how {
        How::CompGraph => b.comp_graph::<E>(&vg),
        How::CompLender => {
            // the expected number of nodes is only a hint (see lab.rs)
            let n = g.len();
            let hint = match (n + num_arcs(g)) % 4 { 0 => None, 1 => Some(n), 2 => Some(n + 3), _ => Some(n.saturating_sub(2)) };
            b.comp_lender::<E, _>(vg.iter(), hint)
        }
        How::Par { cuts, threads, order } => {
            let pg = ParGraph::with_cutpoints(vg, cuts.clone());
            let pool = rayon::ThreadPoolBuilder::new().num_threads(*threads).build()?;
            with_job_order(order.clone(), || pool.install(|| b.par_comp::<E, _>(&pg)))
        }
        How::ParUniform { parts, threads } => {
            let pg = ParGraph::new(vg, *parts);
            let pool = rayon::ThreadPoolBuilder::new().num_threads(*threads).build()?;
            pool.install(|| b.par_comp::<E, _>(&pg))
        }
        How::ParVec { threads } => {
            let pool = rayon::ThreadPoolBuilder::new().num_threads(*threads).build()?;
            pool.install(|| b.par_comp::<E, _>(&vg))
        }
        How::ParSeqGraph { threads } => {
            let src = base.with_file_name("src");
            BvComp::with_basename(&src).comp_graph::<BE>(&vg)?;
            let seq = BvGraphSeq::with_basename(&src).endianness::<BE>().load()?;
            let pool = rayon::ThreadPoolBuilder::new().num_threads(*threads).build()?;
            pool.install(|| b.par_comp::<E, _>(&seq))
        }
        How::ParDcf { parts, threads } => {
            let dcf = vg.build_dcf();
            let arcs = num_arcs(g) as u64;
            let pg = ParGraph::with_dcf(vg, arcs, dcf, *parts);
            let pool = rayon::ThreadPoolBuilder::new().num_threads(*threads).build()?;
            pool.install(|| b.par_comp::<E, _>(&pg))
        }
    }
}

pub struct Artefact {
    pub status: String, // "ok" or "err:<msg>" or "panic:<msg>"
    pub graph: Vec<u8>,
    pub offsets: Vec<u8>,
    pub props: String,
    pub written_bits: u64,
}

pub fn produce(dir: &Path, c: &Conf, g: &Graph, how: &How) -> Artefact {
    let base = dir.join("g");
    for ext in ["graph", "offsets", "properties"] {
        let _ = std::fs::remove_file(base.with_extension(ext));
    }
    let res = catch(std::panic::AssertUnwindSafe(|| {
        if c.le { run_comp::<LE>(&base, c, g, how) } else { run_comp::<BE>(&base, c, g, how) }
    }));
    let (status, bits) = match res {
        Ok(Ok(b)) => ("ok".to_string(), b),
        Ok(Err(e)) => (format!("err:{}", sanitize(&format!("{e:#}"))), 0),
        Err(p) => (format!("panic:{}", sanitize(&p)), 0),
    };
    Artefact {
        status,
        graph: std::fs::read(base.with_extension("graph")).unwrap_or_default(),
        offsets: std::fs::read(base.with_extension("offsets")).unwrap_or_default(),
        props: std::fs::read_to_string(base.with_extension("properties")).unwrap_or_default(),
        written_bits: bits,
    }
}

pub fn props_get(props: &str, key: &str) -> Option<String> {
    props.lines().find_map(|l| l.strip_prefix(&format!("{key}=")).map(|v| v.to_string()))
}

/// Prints an "art" case line.
pub fn emit(out: &mut impl Write, id: &str, path: &str, c: &Conf, g: &Graph, cuts: &[usize], a: &Artefact) {
    let glen = props_get(&a.props, "length").and_then(|v| v.parse::<u64>().ok()).unwrap_or(a.written_bits);
    writeln!(
        out,
        "art id={id} path={path} {} n={} cuts={} status={} glen={} pnodes={} parcs={} arcs={} g={} graph={} offsets={} props={}",
        c.describe(),
        g.len(),
        fmt_ints(cuts),
        a.status,
        glen,
        props_get(&a.props, "nodes").unwrap_or("?".into()),
        props_get(&a.props, "arcs").unwrap_or("?".into()),
        num_arcs(g),
        fmt_lists(g),
        hex(&a.graph),
        hex(&a.offsets),
        hex(a.props.as_bytes()),
    )
    .unwrap();
}

/// Sequential reload through the library (C01): returns the lists, or an error string.
pub fn reload_seq(dir: &Path, le: bool) -> Result<Graph, String> {
    reload_seq_base(&dir.join("g"), le)
}

/// Reloads in a child process: decoding a corrupt stream may abort the process (e.g. an
/// absurd allocation), which must not take the harness down.
pub fn reload_seq_base(base: &Path, le: bool) -> Result<Graph, String> {
    let exe = std::env::current_exe().map_err(|e| e.to_string())?;
    let mut child = std::process::Command::new(exe)
        .arg("reload-exec").arg(base).arg(if le { "1" } else { "0" })
        .stdin(std::process::Stdio::null())
        .stdout(std::process::Stdio::piped())
        .stderr(std::process::Stdio::null())
        .spawn().map_err(|e| e.to_string())?;
    let start = std::time::Instant::now();
    // read stdout in a thread to avoid pipe back-pressure
    let mut so = child.stdout.take().unwrap();
    let reader = std::thread::spawn(move || { let mut v = Vec::new(); let _ = std::io::Read::read_to_end(&mut so, &mut v); v });
    loop {
        match child.try_wait() {
            Ok(Some(_)) => break,
            Ok(None) => {
                if start.elapsed().as_secs() > 60 { let _ = child.kill(); let _ = child.wait(); return Err("timeout".into()); }
                std::thread::sleep(std::time::Duration::from_millis(1));
            }
            Err(e) => return Err(e.to_string()),
        }
    }
    let status = child.wait().map_err(|e| e.to_string())?;
    let out = String::from_utf8_lossy(&reader.join().unwrap_or_default()).to_string();
    if !status.success() && !out.starts_with("ERR ") && !out.starts_with("OK ") {
        return Err(format!("abort:{:?}", status.code()));
    }
    if let Some(rest) = out.strip_prefix("OK ") {
        Ok(parse_lists(rest.trim_end_matches('\n')))
    } else {
        Err(out.trim_start_matches("ERR ").trim().to_string())
    }
}

/// Body of the `reload-exec` child mode.
pub fn reload_exec(base: &Path, le: bool) {
    match reload_in_process(base, le) {
        Ok(g) => println!("OK {}", fmt_lists(&g)),
        Err(e) => println!("ERR {e}"),
    }
}

fn reload_in_process(base: &Path, le: bool) -> Result<Graph, String> {
    catch(std::panic::AssertUnwindSafe(|| -> Result<Graph> {
        let mut out = Vec::new();
        if le {
            let s = BvGraphSeq::with_basename(base).endianness::<LE>().load()?;
            let mut it = s.iter();
            while let Some((_x, succ)) = lender::Lender::next(&mut it) { out.push(succ.into_iter().collect()); }
        } else {
            let s = BvGraphSeq::with_basename(base).endianness::<BE>().load()?;
            let mut it = s.iter();
            while let Some((_x, succ)) = lender::Lender::next(&mut it) { out.push(succ.into_iter().collect()); }
        }
        Ok(out)
    }))
    .map_err(|p| format!("panic:{}", sanitize(&p)))
    .and_then(|r| r.map_err(|e| format!("err:{}", sanitize(&format!("{e:#}")))))
}

/// Random non-decreasing cut sequence from 0 to n.
pub fn gen_cuts(rng: &mut Rng, n: usize, allow_inner_empty: bool) -> Vec<usize> {
    let parts = rng.range(1, 6);
    let mut cuts: Vec<usize> = (0..parts.saturating_sub(1)).map(|_| rng.below(n + 1)).collect();
    cuts.push(0);
    cuts.push(n);
    cuts.sort_unstable();
    if !allow_inner_empty {
        // keep only trailing empty segments: remove duplicates except repeats of n
        let mut c2: Vec<usize> = Vec::new();
        for &c in &cuts {
            if c2.last() != Some(&c) || c == n { c2.push(c); }
        }
        // a leading empty segment [0,0) also counts as inner-empty unless n = 0
        cuts = c2;
        if n > 0 { while cuts.len() > 2 && cuts[1] == 0 { cuts.remove(1); } }
    }
    cuts
}

/// Bundled data sets written by the Java implementation: the library's sequential
/// decoder provides the lists, the file provides the bytes.
pub fn run_data(max_n: usize, out: &mut impl Write) {
    for name in ["cnr-2000", "cnr-2000-t"] {
        let base = std::path::Path::new("/repo/data").join(name);
        let (n, arcs, cf) = parse_properties::<BE>(base.with_extension("properties")).unwrap();
        let seq = BvGraphSeq::with_basename(&base).endianness::<BE>().load().unwrap();
        let take = if max_n == 0 { n } else { n.min(max_n) };
        let mut g: Graph = Vec::with_capacity(take);
        let mut it = seq.iter();
        while g.len() < take {
            let (_x, succ) = lender::Lender::next(&mut it).unwrap();
            g.push(succ.into_iter().collect());
        }
        let bytes = std::fs::read(base.with_extension("graph")).unwrap();
        let c = Conf { w: cf.compression_window, mr: cf.max_ref_count, l: cf.min_interval_length,
            codes: [cf.outdegrees, cf.references, cf.blocks, cf.intervals, cf.residuals], le: false, zuck: false, chunk: 0 };
        writeln!(out, "art id=data-{name} path=dataset {} n={} cuts=0,{} status=ok partial=1 glen={} pnodes={} parcs={} arcs={} total_nodes={} total_arcs={} g={} graph={}",
            c.describe().replace("comp=greedy", "comp=any"), take, take, bytes.len() * 8, take, num_arcs(&g), num_arcs(&g), n, arcs,
            fmt_lists(&g), hex(&bytes)).unwrap();
        // the same files through the library's other decoders: complete sequential scans
        // under the in-memory load modes and random access to the first and the LAST nodes
        // (cnr-2000-t.graph is byte-granular: its length is not a multiple of the word size,
        // which only the end of the stream can reveal); all must agree with the
        // memory-mapped sequential scan.  File mode is left out: it is documented to need
        // files padded to the word size (`webgraph run pad`).
        let reload = crate::util::catch(std::panic::AssertUnwindSafe(|| -> Result<(), String> {
            fn scan<F: webgraph::prelude::SequentialDecoderFactory>(s: &BvGraphSeq<F>) -> (usize, u64, u64, Vec<Vec<usize>>) {
                let (mut nodes, mut arcs, mut h) = (0usize, 0u64, 0xcbf29ce484222325u64);
                let mut tail: std::collections::VecDeque<Vec<usize>> = Default::default();
                let mut it = s.iter();
                while let Some((x, succ)) = lender::Lender::next(&mut it) {
                    let l: Vec<usize> = succ.into_iter().collect();
                    h = (h ^ x as u64).wrapping_mul(0x100000001b3);
                    for &y in &l { h = (h ^ y as u64).wrapping_mul(0x100000001b3); }
                    nodes += 1; arcs += l.len() as u64;
                    tail.push_back(l); if tail.len() > 300 { tail.pop_front(); }
                }
                (nodes, arcs, h, tail.into_iter().collect())
            }
            let reference = scan(&seq);
            if reference.0 != n || reference.1 != arcs { return Err(format!("FAIL(mmap-scan:nodes={}/{};arcs={}/{})", reference.0, n, reference.1, arcs)); }
            macro_rules! mode { ($M:ident) => {{
                let s = BvGraphSeq::with_basename(&base).endianness::<BE>().graph_mode::<$M>().load().map_err(|e| format!("FAIL({}:load:{e})", stringify!($M)))?;
                let r = scan(&s);
                if (r.0, r.1, r.2) != (reference.0, reference.1, reference.2) { return Err(format!("FAIL(scan-differs:{})", stringify!($M))); }
                let g2 = BvGraph::with_basename(&base).endianness::<BE>().graph_mode::<$M>().load().map_err(|e| format!("FAIL({}:load-ra:{e})", stringify!($M)))?;
                let t = reference.3.len();
                for (i, l) in reference.3.iter().enumerate() {
                    let x = n - t + i;
                    let got: Vec<usize> = g2.successors(x).into_iter().collect();
                    if &got != l || g2.outdegree(x) != l.len() { return Err(format!("FAIL(random-access-differs:{}:node{x})", stringify!($M))); }
                }
                for x in 0..g.len().min(300) {
                    let got: Vec<usize> = g2.successors(x).into_iter().collect();
                    if got != g[x] { return Err(format!("FAIL(random-access-differs:{}:node{x})", stringify!($M))); }
                }
            }}; }
            mode!(Mmap); mode!(LoadMem); mode!(LoadMmap);
            Ok(())
        }));
        let rl = match reload { Ok(Ok(())) => "ok".to_string(), Ok(Err(e)) => sanitize(&e), Err(p) => sanitize(&format!("FAIL(panic:{p})")) };
        writeln!(out, "#impl id=data-{name} reload={rl}").unwrap();
    }
}

fn parse_code(s: &str) -> Codes {
    match s {
        "U" => Codes::Unary, "G" => Codes::Gamma, "D" => Codes::Delta, "O" => Codes::Omega,
        _ => {
            let k: usize = s[1..].parse().unwrap();
            if s.starts_with('Z') { Codes::Zeta(k) } else { Codes::Pi(k) }
        }
    }
}

/// Re-runs the implementation on the cases recorded in a replay / case file ("art" lines).
pub fn run_replay(path: &str, out: &mut impl Write) {
    let dir = tempfile::Builder::new().prefix("wgverif-art").tempdir().unwrap();
    let text = std::fs::read_to_string(path).unwrap();
    for line in text.lines() {
        if !line.starts_with("art ") { continue; }
        let kv: std::collections::HashMap<&str, &str> = line.split(' ').skip(1)
            .filter_map(|t| t.split_once('=')).collect();
        if kv.get("path") == Some(&"dataset") { continue; }
        let codes: Vec<Codes> = kv["codes"].split(',').map(parse_code).collect();
        let c = Conf {
            w: kv["w"].parse().unwrap(),
            mr: if kv["mr"] == "inf" { usize::MAX } else { kv["mr"].parse().unwrap() },
            l: kv["L"].parse().unwrap(),
            codes: [codes[0], codes[1], codes[2], codes[3], codes[4]],
            le: kv["le"] == "1", zuck: kv["comp"] == "zuck", chunk: kv["chunk"].parse().unwrap(),
        };
        let g = parse_lists(kv["g"]);
        let cuts = parse_ints(kv["cuts"]);
        let p = kv["path"];
        let how = if p == "comp_graph" { How::CompGraph }
            else if p == "comp_lender" { How::CompLender }
            else if let Some(o) = p.strip_prefix("par_order_") {
                let order: Vec<usize> = o.split('-').filter(|t| !t.is_empty()).map(|t| t.parse().unwrap()).collect();
                How::Par { cuts: cuts.clone(), threads: cuts.len() + 1, order: Some(order) }
            } else { How::Par { cuts: cuts.clone(), threads: 4, order: None } };
        let a = produce(dir.path(), &c, &g, &how);
        let reload = if a.status == "ok" { reload_seq(dir.path(), c.le) } else { Err("skipped".into()) };
        emit(out, kv["id"], p, &c, &g, &cuts, &a);
        emit_reload(out, kv["id"], &g, reload);
    }
}

/// The generated stream of artefacts for the codec properties.
pub fn run(seed: u64, count: usize, max_n: usize, mode: &str, out: &mut impl Write) {
    if mode == "data" {
        return run_data(max_n, out);
    }
    if let Some(path) = mode.strip_prefix("replay:") {
        return run_replay(path, out);
    }
    let mut rng = Rng::new(seed);
    let dir = tempfile::Builder::new().prefix("wgverif-art").tempdir().unwrap();
    if mode == "parperm" {
        // every permutation of completion order for up to 5 chunks
        for i in 0..count {
            let n = rng.range(5, max_n.max(6));
            let g = gen_graph(&mut rng, n);
            let mut c = Conf::random(&mut rng, n);
            c.chunk = rng.pick(&[1, 2, 3, 10000]);
            let k = rng.range(2, 5);
            let mut cuts: Vec<usize> = (0..k - 1).map(|_| rng.below(n + 1)).collect();
            cuts.push(0); cuts.push(n); cuts.sort_unstable();
            let nonempty: Vec<usize> = (0..k).filter(|&j| cuts[j] < cuts[j + 1]).collect();
            let mut perms: Vec<Vec<usize>> = Vec::new();
            permutations(&nonempty, &mut Vec::new(), &mut perms);
            for (pi, order) in perms.into_iter().enumerate() {
                let how = How::Par { cuts: cuts.clone(), threads: k + 1, order: Some(order.clone()) };
                let a = produce(dir.path(), &c, &g, &how);
                let reload = if a.status == "ok" { reload_seq(dir.path(), c.le) } else { Err("skipped".into()) };
                let id = format!("perm{i}-{pi}");
                emit(out, &id, &format!("par_order_{}", fmt_ints(&order).replace(',', "-")), &c, &g, &cuts, &a);
                emit_reload(out, &id, &g, reload);
            }
        }
        return;
    }
    for i in 0..count {
        let n = if rng.chance(1, 10) { rng.below(3) } else { rng.range(1, max_n) };
        let (g, mut c) = if mode == "zchain" {
            // small graphs of highly similar lists: branching reference forests in which the
            // Zuckerli DP prunes references and the greedy pass re-adds others
            let n = rng.range(4, max_n.clamp(5, 14));
            let universe = rng.range(8, 30);
            let base: Vec<usize> = (0..rng.range(5, 10)).map(|_| rng.below(universe)).collect();
            let mut g: Graph = Vec::new();
            for x in 0..n {
                let mut l = if x > 0 && rng.chance(1, 2) { let b = 1 + rng.below(x.min(3)); g[x - b].clone() } else { base.clone() };
                for _ in 0..rng.below(3) {
                    if !l.is_empty() && rng.chance(1, 2) { let i = rng.below(l.len()); l.remove(i); } else { l.push(rng.below(universe)); }
                }
                l.sort_unstable(); l.dedup();
                g.push(l);
            }
            // successors must be nodes: pad with empty lists
            while g.len() < universe { g.push(Vec::new()); }
            let mut c = Conf::random(&mut rng, n);
            c.zuck = true;
            c.w = rng.pick(&[1, 2, 3, 4, 7]);
            c.mr = rng.pick(&[1, 1, 2, 2, 3]);
            c.l = rng.pick(&[0, 0, 2, 4]);
            c.chunk = rng.pick(&[3, 5, 7, 100, 10000]);
            if rng.chance(1, 2) { c.codes = [Codes::Gamma, Codes::Unary, Codes::Gamma, Codes::Gamma, Codes::Zeta(3)]; }
            (g, c)
        } else if mode == "chain" {
            // long reference chains: near-duplicates of the previous list, small max_ref
            let mut g: Graph = Vec::new();
            let mut cur: Vec<usize> = (0..rng.range(4, 12)).map(|_| rng.below(4 * n + 8)).collect();
            for _ in 0..n {
                cur.sort_unstable(); cur.dedup();
                g.push(cur.clone());
                if rng.chance(1, 12) { cur = (0..rng.range(4, 12)).map(|_| rng.below(4 * n + 8)).collect(); }
                else if rng.chance(1, 2) { let k = rng.below(cur.len().max(1)); if !cur.is_empty() { cur[k] = rng.below(4 * n + 8); } }
            }
            // successors must be nodes: pad with empty lists
            while g.len() < 4 * n + 8 { g.push(Vec::new()); }
            let mut c = Conf::random(&mut rng, n);
            c.w = rng.pick(&[1, 2, 3, 7, 9]);
            c.mr = rng.pick(&[0, 1, 2, 3, 5, usize::MAX]);
            c.chunk = rng.range(1, 12);
            (g, c)
        } else {
            let g = gen_graph(&mut rng, n);
            let c = Conf::random(&mut rng, n);
            (g, c)
        };
        let n = g.len();
        if mode == "chain" && rng.chance(1, 2) { c.zuck = true; }
        let (how, path, cuts): (How, &str, Vec<usize>) = match mode {
            "seq" | "chain" | "zchain" => {
                if rng.chance(1, 2) { (How::CompGraph, "comp_graph", vec![0, n]) }
                else { (How::CompLender, "comp_lender", vec![0, n]) }
            }
            _ => {
                // parallel
                let inner = rng.chance(1, 4);
                let cuts = gen_cuts(&mut rng, n, inner);
                let chunks = cuts.len() - 1;
                if rng.chance(1, 5) {
                    // degree-balanced split: the boundaries are whatever the library derives;
                    // they are read back from into_par_lenders for the chunk-locality check
                    let parts = rng.range(1, 6);
                    let vg = vec_graph(&g);
                    let dcf = vg.build_dcf();
                    let bounds = catch(std::panic::AssertUnwindSafe(|| {
                        let pg = ParGraph::with_dcf(vg, num_arcs(&g) as u64, dcf, parts);
                        let (_l, b) = (&pg).into_par_lenders();
                        b.to_vec()
                    })).unwrap_or_else(|_| vec![0, n]);
                    (How::ParDcf { parts, threads: rng.range(1, 16) }, "par_dcf", bounds)
                } else if rng.chance(1, 6) {
                    // the graph itself as source: one uniform part per pool thread
                    let threads = rng.range(1, 16);
                    let step = n.div_ceil(threads);
                    let ucuts: Vec<usize> = (0..=threads).map(|i| (i * step).min(n)).collect();
                    if rng.chance(1, 2) { (How::ParVec { threads }, "par_vecgraph", ucuts) }
                    else { (How::ParSeqGraph { threads }, "par_bvgraphseq", ucuts) }
                } else if rng.chance(1, 8) {
                    // uniform split through ParGraph::new (possibly more parts than nodes)
                    let parts = rng.range(1, 2 * n + 3);
                    let step = n.div_ceil(parts).max(0);
                    let ucuts: Vec<usize> = (0..=parts).map(|i| (i * step).min(n)).collect();
                    (How::ParUniform { parts, threads: rng.range(1, 16) }, "par_uniform", ucuts)
                } else {
                    let impose = chunks <= 12 && rng.chance(2, 3);
                    let threads = if impose { chunks.max(1) + rng.below(3) } else { rng.range(1, 16) };
                    let order = if impose {
                        // only chunks with at least one node ever report a real job
                        let mut o: Vec<usize> = (0..chunks).filter(|&j| cuts[j] < cuts[j + 1]).collect();
                        rng.shuffle(&mut o);
                        Some(o)
                    } else { None };
                    (How::Par { cuts: cuts.clone(), threads, order }, "par_cut", cuts)
                }
            }
        };
        let a = produce(dir.path(), &c, &g, &how);
        let reload = if a.status == "ok" { reload_seq(dir.path(), c.le) } else { Err("skipped".into()) };
        let id = format!("{mode}{i}");
        if path == "par_dcf" && a.status == "ok" {
            // the degree cumulative function built by the library (`build_dcf`), read back
            // entry by entry, travels with the case
            let mut buf: Vec<u8> = Vec::new();
            emit(&mut buf, &id, path, &c, &g, &cuts, &a);
            let line = String::from_utf8(buf).unwrap();
            let dcf = catch(std::panic::AssertUnwindSafe(|| {
                use value_traits::slices::SliceByValue;
                let d = vec_graph(&g).build_dcf();
                (0..d.len()).map(|i| d.index_value(i) as usize).collect::<Vec<_>>()
            }));
            let extra = match dcf { Ok(v) => format!("dcf={}", fmt_ints(&v)), Err(e) => format!("dcf=panic:{}", sanitize(&e)) };
            writeln!(out, "{} {}", line.trim_end(), extra).unwrap();
        } else {
            emit(out, &id, path, &c, &g, &cuts, &a);
        }
        emit_reload(out, &id, &g, reload);
    }
}

fn emit_reload(out: &mut impl Write, id: &str, g: &Graph, reload: Result<Graph, String>) {
    let rl = match reload {
        Ok(g2) => if &g2 == g { "ok".to_string() } else { format!("diff:{}", sanitize(&fmt_lists(&g2))) },
        Err(e) => e,
    };
    writeln!(out, "#impl id={id} reload={rl}").unwrap();
}

fn permutations(items: &[usize], cur: &mut Vec<usize>, out: &mut Vec<Vec<usize>>) {
    if cur.len() == items.len() { out.push(cur.clone()); return; }
    for &x in items {
        if !cur.contains(&x) { cur.push(x); permutations(items, cur, out); cur.pop(); }
    }
}
