//! Channel "acc" (C03): a graph compressed through the library is read back through EVERY
//! access path — random access, outdegree, sequential iteration from the start and from
//! any node, the sequential-only graph, the degrees-and-offsets scan from the start and
//! from any node, the `next_successors` loop, the library's own `check_impl` — under every
//! combination of load mode for the graph and for the offsets, dynamic and (for the
//! default codes) static dispatch, in the endianness of the file.  One line per case with
//! the input, the bytes, the Elias–Fano offsets and, per path, `ok` (equal to the input
//! lists under every variant) or the first difference.
use crate::art::{self, Conf, How};
use crate::util::*;
use dsi_bitstream::prelude::*;
use dsi_progress_logger::no_logging;
use lender::*;
use std::io::Write;
use std::panic::AssertUnwindSafe;
use std::path::Path;
use value_traits::slices::SliceByValue;
use webgraph::prelude::*;

pub const PATHS: [&str; 12] = [
    "ra", "ralen", "outdeg", "iter", "iter_from", "next_from", "seq_iter", "seq_iter_from",
    "seq_next", "offdeg", "offdeg_from", "check_impl",
];

/// Results of all variants of one case: first failure per path, the scan of the first
/// variant.
pub struct Out {
    pub fail: std::collections::BTreeMap<&'static str, String>,
    pub scan: Option<Vec<(u64, usize)>>,
    pub variants: usize,
    pub load: String,
}

impl Out {
    fn new() -> Out {
        Out { fail: Default::default(), scan: None, variants: 0, load: "ok".into() }
    }
    fn bad(&mut self, path: &'static str, variant: &str, detail: String) {
        self.fail.entry(path).or_insert_with(|| sanitize_long(&format!("{variant};{detail}")));
    }
}

fn sanitize_long(s: &str) -> String {
    s.chars().map(|c| if c.is_whitespace() || c == '=' { '_' } else { c }).take(400).collect()
}

/// Runs one path; a panic inside it is reported as that path's first difference.
fn guard(out: &mut Out, path: &'static str, v: &str, ctx: String, f: impl FnOnce(&mut Out)) {
    let mut local = Out::new();
    let r = catch(AssertUnwindSafe(|| {
        f(&mut local);
        local
    }));
    match r {
        Ok(l) => {
            for (p, d) in l.fail {
                out.fail.entry(p).or_insert(d);
            }
            if out.scan.is_none() {
                out.scan = l.scan;
            }
        }
        Err(p) => out.bad(path, v, format!("{ctx};panic:{p}")),
    }
}

/// compares a list read through a path with the expected one
fn cmp_list(out: &mut Out, path: &'static str, v: &str, k: usize, x: usize, got: &[usize], exp: &[usize]) {
    if got != exp {
        out.bad(path, v, format!("k:{k};x:{x};got:{}", fmt_ints(got)));
    }
}

/// Everything that needs the random-access graph.
fn read_ra<F>(g: &BvGraph<F>, exp: &Graph, ef: &[u64], ks: &[usize], v: &str, out: &mut Out)
where
    F: RandomAccessDecoderFactory + SequentialDecoderFactory,
    for<'a> <F as RandomAccessDecoderFactory>::Decoder<'a>: Decode + BitSeek,
    for<'a> <F as SequentialDecoderFactory>::Decoder<'a>: Decode + BitSeek,
{
    let n = exp.len();
    if g.num_nodes() != n {
        out.bad("iter", v, format!("num_nodes:{}", g.num_nodes()));
        return;
    }
    // random access, its ExactSizeIterator length, outdegree
    for x in 0..n {
        guard(out, "ra", v, format!("x:{x}"), |o| {
            let it = g.successors(x);
            let len = it.len();
            let got: Vec<usize> = it.collect();
            cmp_list(o, "ra", v, x, x, &got, &exp[x]);
            if len != exp[x].len() {
                o.bad("ralen", v, format!("x:{x};got:{len}"));
            }
        });
        guard(out, "outdeg", v, format!("x:{x}"), |o| {
            let d = g.outdegree(x);
            if d != exp[x].len() {
                o.bad("outdeg", v, format!("x:{x};got:{d}"));
            }
        });
    }
    // sequential iteration from the start
    guard(out, "iter", v, String::new(), |o| {
        let mut it = g.iter();
        let mut x = 0;
        while let Some((y, succ)) = it.next() {
            let got: Vec<usize> = succ.into_iter().collect();
            if y != x || x >= n {
                o.bad("iter", v, format!("x:{x};node:{y}"));
                break;
            }
            cmp_list(o, "iter", v, 0, x, &got, &exp[x]);
            x += 1;
        }
        if x != n {
            o.bad("iter", v, format!("count:{x}"));
        }
    });
    // sequential iteration from every (sampled) node, by the lender and by next_successors
    for &k in ks {
        guard(out, "iter_from", v, format!("k:{k}"), |o| {
            let mut it = g.iter_from(k);
            let mut x = k;
            while let Some((y, succ)) = it.next() {
                let got: Vec<usize> = succ.into_iter().collect();
                if y != x || x >= n {
                    o.bad("iter_from", v, format!("k:{k};x:{x};node:{y}"));
                    break;
                }
                cmp_list(o, "iter_from", v, k, x, &got, &exp[x]);
                x += 1;
            }
            if x != n {
                o.bad("iter_from", v, format!("k:{k};count:{x}"));
            }
        });
        guard(out, "next_from", v, format!("k:{k}"), |o| {
            let mut it = g.iter_from(k);
            for x in k..n {
                match it.next_successors() {
                    Ok(got) => cmp_list(o, "next_from", v, k, x, got, &exp[x]),
                    Err(e) => {
                        o.bad("next_from", v, format!("k:{k};x:{x};err:{e}"));
                        break;
                    }
                }
            }
        });
    }
    // degrees-and-offsets scan from the start
    guard(out, "offdeg", v, String::new(), |o| {
        let scan: Vec<(u64, usize)> = g.offset_deg_iter().collect();
        check_scan(o, "offdeg", v, 0, &scan, exp, ef);
        o.scan = Some(scan);
    });
    // ... and from every (sampled) node
    for &k in ks {
        guard(out, "offdeg_from", v, format!("k:{k}"), |o| {
            let scan: Vec<(u64, usize)> = g.offset_deg_iter_from(k).collect();
            check_scan(o, "offdeg_from", v, k, &scan, exp, ef);
        });
    }
    // the library's own comparator
    guard(out, "check_impl", v, String::new(), |o| {
        if let Err(e) = labels::check_impl(g) {
            o.bad("check_impl", v, format!("{e}"));
        }
    });
}

fn check_scan(out: &mut Out, path: &'static str, v: &str, k: usize, scan: &[(u64, usize)], exp: &Graph, ef: &[u64]) {
    let n = exp.len();
    if scan.len() != n - k {
        out.bad(path, v, format!("k:{k};count:{}", scan.len()));
        return;
    }
    for (i, &(off, deg)) in scan.iter().enumerate() {
        let x = k + i;
        if deg != exp[x].len() || off != ef[x] {
            out.bad(path, v, format!("k:{k};x:{x};got:{off},{deg}"));
            return;
        }
    }
}

/// Everything on the sequential-only graph.
fn read_seq<F>(s: &BvGraphSeq<F>, exp: &Graph, ef: &[u64], ks: &[usize], v: &str, out: &mut Out)
where
    F: SequentialDecoderFactory,
    for<'a> <F as SequentialDecoderFactory>::Decoder<'a>: Decode + BitSeek,
{
    let n = exp.len();
    if s.num_nodes() != n {
        out.bad("seq_iter", v, format!("num_nodes:{}", s.num_nodes()));
        return;
    }
    guard(out, "seq_iter", v, String::new(), |o| {
        let mut it = s.iter();
        let mut x = 0;
        while let Some((y, succ)) = it.next() {
            let got: Vec<usize> = succ.into_iter().collect();
            if y != x || x >= n {
                o.bad("seq_iter", v, format!("x:{x};node:{y}"));
                break;
            }
            cmp_list(o, "seq_iter", v, 0, x, &got, &exp[x]);
            x += 1;
        }
        if x != n {
            o.bad("seq_iter", v, format!("count:{x}"));
        }
    });
    for &k in ks {
        guard(out, "seq_iter_from", v, format!("k:{k}"), |o| {
            let mut it = s.iter_from(k);
            let mut x = k;
            while let Some((y, succ)) = it.next() {
                let got: Vec<usize> = succ.into_iter().collect();
                if y != x || x >= n {
                    o.bad("seq_iter_from", v, format!("k:{k};x:{x};node:{y}"));
                    break;
                }
                cmp_list(o, "seq_iter_from", v, k, x, &got, &exp[x]);
                x += 1;
            }
            if x != n {
                o.bad("seq_iter_from", v, format!("k:{k};count:{x}"));
            }
        });
    }
    // slices pulled one by one from the sequential decoder
    guard(out, "seq_next", v, String::new(), |o| {
        let mut it = s.iter();
        for x in 0..n {
            match it.next_successors() {
                Ok(got) => cmp_list(o, "seq_next", v, 0, x, got, &exp[x]),
                Err(e) => {
                    o.bad("seq_next", v, format!("x:{x};err:{e}"));
                    break;
                }
            }
        }
    });
    guard(out, "offdeg", v, String::new(), |o| {
        let scan: Vec<(u64, usize)> = s.offset_deg_iter().collect();
        check_scan(o, "offdeg", v, 0, &scan, exp, ef);
        o.scan = Some(scan);
    });
}

/// One variant: load both graph flavours with the given type parameters and read them.
macro_rules! variant {
    ($E:ty, $D:ty, $dn:expr, $GM:ident, $OM:ident, $base:expr, $exp:expr, $ef:expr, $ks:expr, $out:expr) => {{
        let name = format!("{}/{}/{}", $dn, stringify!($GM), stringify!($OM));
        let r = catch(AssertUnwindSafe(|| -> anyhow::Result<Out> {
            let mut o = Out::new();
            let g = BvGraph::with_basename($base)
                .endianness::<$E>()
                .dispatch::<$D>()
                .graph_mode::<$GM>()
                .offsets_mode::<$OM>()
                .load()?;
            read_ra(&g, $exp, $ef, $ks, &name, &mut o);
            let s = BvGraphSeq::with_basename($base)
                .endianness::<$E>()
                .dispatch::<$D>()
                .graph_mode::<$GM>()
                .load()?;
            read_seq(&s, $exp, $ef, $ks, &name, &mut o);
            Ok(o)
        }));
        $out.variants += 1;
        match r {
            Ok(Ok(o)) => {
                for (p, d) in o.fail {
                    $out.fail.entry(p).or_insert(d);
                }
                match (&$out.scan, &o.scan) {
                    (None, Some(_)) => $out.scan = o.scan,
                    (Some(a), Some(b)) if a != b => $out.bad("offdeg", &name, "differs-from-first-variant".into()),
                    _ => {}
                }
            }
            Ok(Err(e)) => {
                if $out.load == "ok" {
                    $out.load = sanitize_long(&format!("FAIL({name};err:{e:#})"));
                }
            }
            Err(p) => {
                if $out.load == "ok" {
                    $out.load = sanitize_long(&format!("FAIL({name};panic:{p})"));
                }
            }
        }
    }};
}

macro_rules! all_offsets_modes {
    ($E:ty, $D:ty, $dn:expr, $GM:ident, $base:expr, $exp:expr, $ef:expr, $ks:expr, $out:expr) => {{
        variant!($E, $D, $dn, $GM, Mmap, $base, $exp, $ef, $ks, $out);
        variant!($E, $D, $dn, $GM, LoadMem, $base, $exp, $ef, $ks, $out);
        variant!($E, $D, $dn, $GM, LoadMmap, $base, $exp, $ef, $ks, $out);
        variant!($E, $D, $dn, $GM, File, $base, $exp, $ef, $ks, $out);
    }};
}

macro_rules! all_modes {
    ($E:ty, $D:ty, $dn:expr, $base:expr, $exp:expr, $ef:expr, $ks:expr, $out:expr) => {{
        all_offsets_modes!($E, $D, $dn, Mmap, $base, $exp, $ef, $ks, $out);
        all_offsets_modes!($E, $D, $dn, LoadMem, $base, $exp, $ef, $ks, $out);
        all_offsets_modes!($E, $D, $dn, LoadMmap, $base, $exp, $ef, $ks, $out);
        all_offsets_modes!($E, $D, $dn, File, $base, $exp, $ef, $ks, $out);
    }};
}

fn default_codes(c: &Conf) -> bool {
    c.codes == [Codes::Gamma, Codes::Unary, Codes::Gamma, Codes::Gamma, Codes::Zeta(3)]
}

/// Two fixed non-default assignments for which compile-time dispatch is instantiated.
const STATIC_A1: [Codes; 5] = [Codes::Delta, Codes::Gamma, Codes::Delta, Codes::Delta, Codes::Zeta(5)];
const STATIC_A2: [Codes; 5] = [Codes::Zeta(2), Codes::Unary, Codes::Gamma, Codes::Delta, Codes::Gamma];
use dsi_bitstream::dispatch::code_consts as cc;
type StaticA1 = Static<{ cc::DELTA }, { cc::GAMMA }, { cc::DELTA }, { cc::DELTA }, { cc::ZETA5 }>;
type StaticA2 = Static<{ cc::ZETA2 }, { cc::UNARY }, { cc::GAMMA }, { cc::DELTA }, { cc::GAMMA }>;

/// Reads the graph at `base` through every path and variant.
pub fn read_all(base: &Path, c: &Conf, exp: &Graph, ef: &[u64], ks: &[usize]) -> Out {
    let mut out = Out::new();
    if c.le {
        all_modes!(LE, Dynamic, "dyn", base, exp, ef, ks, out);
        if default_codes(c) {
            all_modes!(LE, Static, "static", base, exp, ef, ks, out);
        } else if c.codes == STATIC_A1 {
            all_offsets_modes!(LE, StaticA1, "static1", Mmap, base, exp, ef, ks, out);
            all_offsets_modes!(LE, StaticA1, "static1", LoadMem, base, exp, ef, ks, out);
        } else if c.codes == STATIC_A2 {
            all_offsets_modes!(LE, StaticA2, "static2", Mmap, base, exp, ef, ks, out);
            all_offsets_modes!(LE, StaticA2, "static2", File, base, exp, ef, ks, out);
        }
    } else {
        all_modes!(BE, Dynamic, "dyn", base, exp, ef, ks, out);
        if default_codes(c) {
            all_modes!(BE, Static, "static", base, exp, ef, ks, out);
        } else if c.codes == STATIC_A1 {
            all_offsets_modes!(BE, StaticA1, "static1", Mmap, base, exp, ef, ks, out);
            all_offsets_modes!(BE, StaticA1, "static1", LoadMem, base, exp, ef, ks, out);
        } else if c.codes == STATIC_A2 {
            all_offsets_modes!(BE, StaticA2, "static2", Mmap, base, exp, ef, ks, out);
            all_offsets_modes!(BE, StaticA2, "static2", File, base, exp, ef, ks, out);
        }
    }
    out
}

/// Builds `.ef` from `.offsets` through the library and reads its entries back.
pub fn build_ef_entries(base: &Path, n: usize) -> Result<Vec<u64>, String> {
    catch(AssertUnwindSafe(|| -> anyhow::Result<Vec<u64>> {
        let _ = std::fs::remove_file(base.with_extension("ef"));
        store_ef_with_data(
            n,
            base.with_extension("graph"),
            base.with_extension("offsets"),
            base.with_extension("ef"),
            &mut no_logging![],
        )?;
        let ef = unsafe { <webgraph::graphs::bvgraph::EF as epserde::deser::Deserialize>::load_full(base.with_extension("ef")) }?;
        Ok((0..=n).map(|i| ef.index_value(i)).collect())
    }))
    .map_err(|p| format!("panic:{}", sanitize(&p)))
    .and_then(|r| r.map_err(|e| format!("err:{}", sanitize(&format!("{e:#}")))))
}

pub fn sample_ks(rng: &mut Rng, n: usize, w: usize) -> Vec<usize> {
    if n <= 40 {
        return (0..=n).collect();
    }
    let mut ks = vec![0, 1, n - 1, n, w.min(n), (w + 1).min(n), (2 * w + 1).min(n)];
    for _ in 0..8 {
        ks.push(rng.below(n + 1));
    }
    ks.sort_unstable();
    ks.dedup();
    ks
}

/// Mode "mi": the public `MaskedIter` alone, over a `Vec` iterator, on (referenced list,
/// block list) pairs: canonical ones (what the compressor emits), decoder-shaped ones (first
/// block >= 0, later blocks >= 1, sum within the list, any parity) and malformed ones (zero
/// blocks anywhere, sums beyond the list, empty list).  Reports `len()` right after `new`,
/// the drained items, or the panic.
fn run_mi(seed: u64, count: usize, out: &mut impl Write) {
    let mut rng = Rng::new(seed);
    let dbg = cfg!(debug_assertions) as usize;
    for i in 0..count {
        let n = if rng.chance(1, 10) { 0 } else { rng.range(1, 14) };
        let mut l: Vec<usize> = Vec::new();
        let mut v = rng.below(5);
        for _ in 0..n {
            l.push(v);
            v += 1 + rng.below(4);
        }
        let class = rng.below(10);
        let mut bs: Vec<usize> = Vec::new();
        if class < 4 {
            // canonical: alternate copy/skip runs over the list, drop the block that
            // reaches the end
            let mut left = n;
            let mut first = true;
            while left > 0 {
                let b = if first && rng.chance(1, 3) { 0 } else { rng.range(1, left) };
                first = false;
                if b == left { break; }
                bs.push(b);
                left -= b;
            }
        } else if class < 8 {
            // decoder-shaped: sum within the list, any parity, possibly reaching the end
            let mut left = n;
            let k = rng.below(6);
            for j in 0..k {
                let lo = if j == 0 { 0 } else { 1 };
                if left < lo { break; }
                let b = if rng.chance(1, 3) { left } else { rng.range(lo, left) };
                bs.push(b);
                left -= b;
            }
        } else {
            // malformed: anything small
            let k = rng.below(6);
            for _ in 0..k {
                bs.push(if rng.chance(1, 4) { 0 } else { rng.below(n + 3) });
            }
        }
        let (l2, bs2) = (l.clone(), bs.clone());
        let r = catch(AssertUnwindSafe(move || {
            let mut it = MaskedIter::new(l2.into_iter(), bs2);
            let len = it.len();
            let mut got: Vec<usize> = Vec::new();
            for _ in 0..10_000 {
                match it.next() {
                    Some(x) => got.push(x),
                    None => break,
                }
            }
            (len, got)
        }));
        let head = format!("acc id=mi{i} kind=mi dbg={dbg} class={class} l={} bs={}", fmt_ints(&l), fmt_ints(&bs));
        match r {
            Ok((len, got)) => writeln!(out, "{head} status=ok len={len} out={}", fmt_ints(&got)).unwrap(),
            Err(e) => writeln!(out, "{head} status=panic msg={}", sanitize(&e)).unwrap(),
        }
    }
}

pub fn run(seed: u64, count: usize, max_n: usize, mode: &str, out: &mut impl Write) {
    if mode == "mi" {
        return run_mi(seed, count, out);
    }
    let mut rng = Rng::new(seed);
    let dir = tempfile::Builder::new().prefix("wgverif-acc").tempdir().unwrap();
    for i in 0..count {
        let n = if rng.chance(1, 12) { rng.range(1, 3) } else { rng.range(1, max_n) };
        let (g, c) = if mode == "chain" {
            // long reference chains: near-duplicates of the previous list
            let mut g: Graph = Vec::new();
            let mut cur: Vec<usize> = (0..rng.range(4, 12)).map(|_| rng.below(n)).collect();
            for _ in 0..n {
                cur.sort_unstable();
                cur.dedup();
                g.push(cur.clone());
                if rng.chance(1, 12) {
                    cur = (0..rng.range(0, 12)).map(|_| rng.below(n)).collect();
                } else if rng.chance(1, 2) {
                    let k = rng.below(cur.len().max(1));
                    if !cur.is_empty() { cur[k] = rng.below(n); }
                }
            }
            let mut c = Conf::random(&mut rng, n);
            c.w = rng.pick(&[1, 2, 3, 7, 9]);
            c.mr = rng.pick(&[1, 2, 3, 5, 50, usize::MAX]);
            c.chunk = rng.range(1, 12);
            if rng.chance(1, 2) { c.zuck = true; }
            if rng.chance(1, 6) { c.codes = STATIC_A1; } else if rng.chance(1, 6) { c.codes = STATIC_A2; }
            (g, c)
        } else {
            let g = gen_graph(&mut rng, n);
            let mut c = Conf::random(&mut rng, n);
            if rng.chance(1, 6) { c.codes = STATIC_A1; } else if rng.chance(1, 6) { c.codes = STATIC_A2; }
            (g, c)
        };
        let n = g.len();
        let a = art::produce(dir.path(), &c, &g, &How::CompGraph);
        let id = format!("{mode}{i}");
        let base = dir.path().join("g");
        let ks = sample_ks(&mut rng, n, c.w);
        let head = format!(
            "acc id={id} path=comp_graph {} n={} arcs={} status={} g={}",
            c.describe(), n, num_arcs(&g), a.status, fmt_lists(&g)
        );
        if a.status != "ok" {
            // the format cannot express this code assignment (C01/C12 judge refusals)
            writeln!(out, "{head} skipped=1").unwrap();
            continue;
        }
        let glen = art::props_get(&a.props, "length").and_then(|v| v.parse::<u64>().ok()).unwrap_or(a.written_bits);
        let ef = match build_ef_entries(&base, n) {
            Ok(e) => e,
            Err(e) => {
                writeln!(out, "{head} glen={glen} graph={} ef_status={e}", hex(&a.graph)).unwrap();
                continue;
            }
        };
        let o = read_all(&base, &c, &g, &ef, &ks);
        let mut line = format!(
            "{head} glen={glen} graph={} ef_status=ok ef={} ks={} variants={} load={}",
            hex(&a.graph),
            ef.iter().map(|x| x.to_string()).collect::<Vec<_>>().join(","),
            fmt_ints(&ks),
            o.variants,
            o.load
        );
        for p in PATHS {
            match o.fail.get(p) {
                None => line.push_str(&format!(" {p}=ok")),
                Some(d) => line.push_str(&format!(" {p}=DIFF({d})")),
            }
        }
        match &o.scan {
            Some(s) => line.push_str(&format!(
                " scan=1 scan_offs={} scan_degs={}",
                s.iter().map(|x| x.0.to_string()).collect::<Vec<_>>().join(","),
                s.iter().map(|x| x.1.to_string()).collect::<Vec<_>>().join(",")
            )),
            None => line.push_str(" scan=0"),
        }
        writeln!(out, "{line}").unwrap();
    }
}
