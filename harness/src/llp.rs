//! Channels of property C17 (layered label propagation):
//!  * `llpcomb`  — `combine_labels` on arbitrary label families written to a work directory
//!    in the format of `layered_label_propagation_labels_only` (plus a malformed stream);
//!  * `llpranks` — `labels_to_ranks` on arbitrary label vectors;
//!  * `llpinv`   — `invert_permutation` on permutations;
//!  * `llprun`   — real LLP runs on small symmetric loopless graphs (gamma lists, seeds,
//!    granularities, stopping predicates, pools 1..16): the stored per-gamma labelings are
//!    read back, combined, ranked, and the graph is permuted.  The runs happen in a child
//!    process watched by the parent (a hang is reported as `status=hang`).
use crate::art::vec_graph;
use crate::util::*;
use dsi_bitstream::prelude::BE;
use dsi_progress_logger::prelude::*;
use epserde::prelude::*;
use predicates::prelude::*;
use std::io::{BufRead, Write};
use std::path::Path;
use webgraph::prelude::*;
use webgraph_algo::llp::preds::*;
use webgraph_algo::llp::{self, LabelsAndGamma};

/// the key by which `f64::total_cmp` orders
fn cost_key(f: f64) -> i64 {
    let mut b = f.to_bits() as i64;
    b ^= (((b >> 63) as u64) >> 1) as i64;
    b
}

fn with_pool<T: Send>(t: usize, f: impl FnOnce() -> T + Send) -> T {
    rayon::ThreadPoolBuilder::new().num_threads(t).build().unwrap().install(f)
}

fn write_family(dir: &Path, fam: &[Vec<usize>], costs: &[f64], nogap: Option<usize>) {
    for (i, l) in fam.iter().enumerate() {
        let p = dir.join(format!("labels_{i}.bin"));
        let s = LabelsAndGamma { gamma: 1.0 / (i + 1) as f64, labels: l.as_slice() };
        unsafe { s.store(&p).unwrap() };
        if nogap != Some(i) {
            unsafe { costs[i].store(p.with_extension("gap")).unwrap() };
        }
    }
}

/// the order in which `combine_labels` meets the stored labelings
fn dir_order(dir: &Path) -> Vec<usize> {
    std::fs::read_dir(dir)
        .unwrap()
        .filter_map(Result::ok)
        .filter(|e| {
            let n = e.file_name();
            let s = n.to_string_lossy();
            s.starts_with("labels_") && s.ends_with(".bin") && e.file_type().is_ok_and(|t| t.is_file())
        })
        .map(|e| {
            let n = e.file_name();
            let s = n.to_string_lossy();
            s["labels_".len()..s.len() - 4].parse::<usize>().unwrap()
        })
        .collect()
}

fn fmt_keys(costs: &[f64]) -> String {
    costs.iter().map(|&c| cost_key(c).to_string()).collect::<Vec<_>>().join(",")
}

fn status3<T>(r: Result<anyhow::Result<T>, String>) -> (String, Option<T>) {
    match r {
        Ok(Ok(v)) => ("ok".to_string(), Some(v)),
        Ok(Err(e)) => (format!("err:{}", sanitize(&format!("{e:#}"))), None),
        Err(p) => (format!("panic:{}", sanitize(&p)), None),
    }
}

/// A random labeling of `n` nodes by node identifiers, in one of several shapes.
fn gen_labels(rng: &mut Rng, n: usize) -> Vec<usize> {
    if n == 0 {
        return vec![];
    }
    match rng.below(8) {
        0 => (0..n).collect(),                                  // all distinct
        1 => vec![rng.below(n); n],                             // single class
        2 => { let k = rng.range(1, 3); (0..n).map(|_| rng.below(k.min(n))).collect() } // few classes, small labels
        3 => { let k = rng.range(1, 4); let ls: Vec<usize> = (0..k).map(|_| rng.below(n)).collect();
               (0..n).map(|_| ls[rng.below(k)]).collect() }     // few classes, sparse labels
        4 => { let b = rng.range(1, 5); (0..n).map(|x| (x / b * b + b - 1).min(n - 1)).collect() } // blocks, label = last of block
        5 => { let mut p: Vec<usize> = (0..n).collect(); rng.shuffle(&mut p); p } // permutation
        6 => (0..n).map(|x| if rng.chance(1, 2) { x } else { n - 1 - x }).collect(),
        _ => (0..n).map(|_| rng.below(n)).collect(),
    }
}

fn run_comb(seed: u64, count: usize, maxn: usize, out: &mut impl Write) {
    let mut rng = Rng::new(seed ^ 0xC17C);
    // a few cases large enough for the parallel sorts to split the work
    let big_period = (count / (3 + count / 1500)).max(8);
    for i in 0..count {
        let dir = tempfile::Builder::new().prefix("wgverif-llpc").tempdir().unwrap();
        // sizes: mostly small, a few large enough for the parallel sort to split
        let n = match rng.below(20) {
            0 => 1,
            1 => 2,
            2..=11 => rng.range(1, 12),
            12..=17 => rng.range(1, maxn.max(1)),
            _ => rng.range(maxn, 4 * maxn.max(1)),
        };
        let n = if i % big_period == 7 { rng.range(2000, 4000) } else { n };
        let m = match rng.below(10) { 0..=2 => 1, 3..=5 => 2, 6..=7 => 3, 8 => rng.range(4, 6), _ => rng.range(1, 9) };
        let m = if n > 1000 { m.min(3) } else { m };
        let mut fam: Vec<Vec<usize>> = (0..m).map(|_| gen_labels(&mut rng, n)).collect();
        if m >= 2 && rng.chance(1, 5) { let j = rng.below(m - 1); fam[m - 1] = fam[j].clone(); } // repeated labeling
        // costs: small integers with ties, sometimes negative, sometimes fractional
        let costs: Vec<f64> = (0..m).map(|_| match rng.below(6) {
            0 => rng.below(3) as f64,
            1 => -(rng.below(3) as f64) - 1.0,
            2 => rng.below(1000) as f64 / 8.0,
            _ => rng.below(2 * m + 1) as f64,
        }).collect();
        // malformed stream
        let mal = if rng.chance(1, 8) { rng.range(1, 6) } else { 0 };
        let mut nogap = None;
        let mut extras = 0;
        match mal {
            1 => { fam.clear(); }                                                   // empty directory
            2 => { for l in fam.iter_mut() { l.clear(); } }                         // zero nodes
            3 => { if m >= 2 { let j = rng.below(m); fam[j].push(0); } else { fam.push(vec![0; n + 1]); } } // length mismatch
            4 => { if n >= 2 { let j = rng.below(fam.len()); let a = rng.below(n); fam[j][a] = n + rng.below(3); } } // label out of range
            5 => { nogap = Some(rng.below(fam.len().max(1))); }                     // gap cost missing
            6 => { extras = 1; }                                                    // files to be ignored
            _ => {}
        }
        let costs: Vec<f64> = (0..fam.len()).map(|j| costs.get(j).copied().unwrap_or(1.0)).collect();
        write_family(dir.path(), &fam, &costs, nogap);
        if extras == 1 {
            std::fs::write(dir.path().join("labels_7.txt"), b"x").unwrap();
            std::fs::write(dir.path().join("other.bin"), b"x").unwrap();
            std::fs::create_dir(dir.path().join("labels_99.bin")).unwrap();
        }
        let order = dir_order(dir.path());
        let t = rng.range(1, 16);
        let p = dir.path().to_path_buf();
        let (status, res) = status3(catch(std::panic::AssertUnwindSafe(|| with_pool(t, || llp::combine_labels(&p)))));
        // a second call on the same directory must give the same answer (the directory is only read)
        let again = match &res {
            Some(r) => {
                let (s2, r2) = status3(catch(std::panic::AssertUnwindSafe(|| with_pool(1, || llp::combine_labels(&p)))));
                if s2 == "ok" && r2.as_deref() == Some(&**r) { "same" } else { "differs" }
            }
            None => "-",
        };
        let nn = fam.first().map(|l| l.len()).unwrap_or(0);
        writeln!(out, "llpcomb id=c{i} n={nn} m={} t={t} mal={mal} nogap={} order={} costs={} fam={} status={status} again={again} out={}",
            fam.len(), nogap.map(|x| x as isize).unwrap_or(-1), fmt_ints(&order), fmt_keys(&costs),
            fmt_lists(&fam), res.map(|r| fmt_ints(&r)).unwrap_or_default()).unwrap();
    }
}

fn run_ranks(seed: u64, count: usize, maxn: usize, out: &mut impl Write) {
    let mut rng = Rng::new(seed ^ 0x4A2C);
    let big_period = (count / (3 + count / 1500)).max(8);
    for i in 0..count {
        let n = match rng.below(20) {
            0 => 0,
            1 => 1,
            2..=12 => rng.range(1, 12),
            13..=18 => rng.range(1, maxn.max(1)),
            _ => rng.range(maxn, 4 * maxn.max(1)),
        };
        let n = if i % big_period == 3 { rng.range(2000, 5000) } else { n };
        // labels need not be node identifiers here
        let mut labels = gen_labels(&mut rng, n);
        if rng.chance(1, 4) { for l in labels.iter_mut() { *l = *l * 1000 + 7; } }
        let t = rng.range(1, 16);
        let r = catch(std::panic::AssertUnwindSafe(|| with_pool(t, || webgraph_algo::labels_to_ranks(&labels))));
        let (status, ranks) = match r { Ok(v) => ("ok".to_string(), fmt_ints(&v)), Err(p) => (format!("panic:{}", sanitize(&p)), String::new()) };
        writeln!(out, "llpranks id=k{i} n={n} t={t} labels={} status={status} ranks={ranks}", fmt_ints(&labels)).unwrap();

        // invert_permutation on a permutation (the destination starts with arbitrary content)
        let mut p: Vec<usize> = (0..n).collect();
        match rng.below(4) { 0 => {}, 1 => p.reverse(), 2 => { if n > 0 { p.rotate_left(rng.below(n)); } }, _ => rng.shuffle(&mut p) }
        let fill = rng.below(n + 1);
        let r = catch(std::panic::AssertUnwindSafe(|| with_pool(t, || {
            let mut inv = vec![fill; n];
            webgraph_algo::invert_permutation(&p, &mut inv);
            inv
        })));
        let (status, inv) = match r { Ok(v) => ("ok".to_string(), fmt_ints(&v)), Err(p) => (format!("panic:{}", sanitize(&p)), String::new()) };
        writeln!(out, "llpinv id=i{i} n={n} t={t} perm={} status={status} inv={inv}", fmt_ints(&p)).unwrap();
    }
    // Large inputs around the minimum task length of the parallel loops (RAYON_MIN_LEN =
    // 100000): too large for the quadratic checkers of the model, so the data are printed
    // and judged in the driver by the proved n log n checkers big_check_inverse /
    // big_check_ranks (aspect "big").  The two specifications (inverse; ranks = a
    // permutation monotone in the label, ties broken by node) are ALSO evaluated here by plain
    // linear scans (key hverdict): an unproved verdict the driver compares with its own
    // (aspect "bigagree").
    for (j, &n) in [99_999usize, 100_000, 100_001, 200_000, 250_003].iter().enumerate() {
        let t = [1usize, 2, 3, 8, 16][j];
        let a = { let mut a = rng.range(1, n - 1); while gcd(a, n) != 1 { a += 1; } a };
        let b = rng.below(n);
        let p: Vec<usize> = (0..n).map(|i| (a * i + b) % n).collect();
        let r = catch(std::panic::AssertUnwindSafe(|| with_pool(t, || {
            let mut inv = vec![0usize; n];
            webgraph_algo::invert_permutation(&p, &mut inv);
            inv
        })));
        let (status, v, inv) = match r {
            Ok(inv) => {
                let v = match (0..n).find(|&i| inv[p[i]] != i) { None => "ok".to_string(), Some(i) => format!("FAIL(inv[perm[{i}]]={})", inv[p[i]]) };
                ("ok".to_string(), v, fmt_ints(&inv))
            }
            Err(m) => { let s = format!("panic:{}", sanitize(&m)); (s.clone(), format!("FAIL({s})"), String::new()) }
        };
        writeln!(out, "llpbig id=bi{j} kind=invert n={n} t={t} a={a} b={b} status={status} hverdict={v} perm={} inv={inv}", fmt_ints(&p)).unwrap();
        let labels: Vec<usize> = (0..n).map(|i| ((a * i + b) % n) / 3).collect();
        let r = catch(std::panic::AssertUnwindSafe(|| with_pool(t, || webgraph_algo::labels_to_ranks(&labels).to_vec())));
        let (status, v, ranks) = match r {
            Ok(ranks) => {
                let mut at = vec![usize::MAX; n];
                let mut bad = None;
                if ranks.len() != n { bad = Some("length".to_string()); }
                else {
                    for (x, &r) in ranks.iter().enumerate() { if r >= n || at[r] != usize::MAX { bad = Some(format!("not-a-permutation:node{x}")); break; } at[r] = x; }
                    // increasing in (label, node): the sort of labels_to_ranks is stable
                    if bad.is_none() { for r in 1..n { if (labels[at[r - 1]], at[r - 1]) >= (labels[at[r]], at[r]) { bad = Some(format!("not-monotone:rank{r}")); break; } } }
                }
                let v = match bad { None => "ok".to_string(), Some(b) => format!("FAIL({b})") };
                ("ok".to_string(), v, fmt_ints(&ranks))
            }
            Err(m) => { let s = format!("panic:{}", sanitize(&m)); (s.clone(), format!("FAIL({s})"), String::new()) }
        };
        writeln!(out, "llpbig id=br{j} kind=ranks n={n} t={t} a={a} b={b} status={status} hverdict={v} labels={} ranks={ranks}", fmt_ints(&labels)).unwrap();
    }
}

fn gcd(a: usize, b: usize) -> usize { if b == 0 { a } else { gcd(b, a % b) } }

// ---------------------------------------------------------------------------------------
// real runs

/// A symmetric loopless graph.
fn gen_sym_graph(rng: &mut Rng, n: usize) -> (String, Graph) {
    let mut g: Graph = vec![vec![]; n];
    let add = |g: &mut Graph, x: usize, y: usize| { if x != y && x < n && y < n { g[x].push(y); g[y].push(x); } };
    let kind = match rng.below(10) {
        0 => "path", 1 => "cycle", 2 => "clique", 3 => "star", 4 => "cliques", 5 => "empty", 6 => "grid", 7 => "sparse", 8 => "dense", _ => "twoparts",
    };
    match kind {
        "path" => for x in 1..n { add(&mut g, x - 1, x); },
        "cycle" => for x in 0..n { add(&mut g, x, (x + 1) % n.max(1)); },
        "clique" => for x in 0..n { for y in 0..x { add(&mut g, x, y); } },
        "star" => { let c = rng.below(n.max(1)); for x in 0..n { add(&mut g, c, x); } },
        "cliques" => { let b = rng.range(2, 6); for x in 0..n { for y in 0..x { if x / b == y / b { add(&mut g, x, y); } } }
                       if rng.chance(1, 2) { for x in (b..n).step_by(b) { add(&mut g, x - 1, x); } } }
        "empty" => {}
        "grid" => { let w = rng.range(1, 6); for x in 0..n { if (x + 1) % w != 0 { add(&mut g, x, x + 1); } add(&mut g, x, x + w); } }
        "sparse" => for _ in 0..n { let x = rng.below(n.max(1)); let y = rng.below(n.max(1)); add(&mut g, x, y); },
        "dense" => for x in 0..n { for y in 0..x { if rng.chance(1, 3) { add(&mut g, x, y); } } },
        _ => { let h = n / 2; for x in 0..n { for y in 0..x { if (x < h) == (y < h) && rng.chance(1, 2) { add(&mut g, x, y); } } }
               if n >= 2 && rng.chance(1, 2) { add(&mut g, 0, n - 1); } }
    }
    for l in g.iter_mut() { l.sort_unstable(); l.dedup(); }
    (kind.to_string(), g)
}

fn gamma_of(p: (usize, usize)) -> f64 {
    p.0 as f64 * (0.5_f64).powf(p.1 as f64)
}

struct RunCase {
    gpairs: Vec<(usize, usize)>,
    n: usize, kind: String, g: Graph, gammas: Vec<f64>, seed: u64, gran: (u8, usize), t: usize, t2: usize,
    pred: usize, maxupd: usize, funcperm: bool, entry: usize,
}

fn gen_run_case(seed: u64, i: usize, maxn: usize) -> RunCase {
    let mut base = Rng::new(seed ^ 0x11F0);
    let mut rng = Rng(base.next() ^ (i as u64 + 1).wrapping_mul(0xD6E8FEB86659FD93));
    let n = match rng.below(20) {
        0 => if rng.chance(1, 3) { 0 } else { 1 }, 1 => 2, 2 => 3,
        3..=12 => rng.range(2, 16),
        13..=18 => rng.range(2, maxn.max(2)),
        _ => rng.range(maxn.max(2), 6 * maxn.max(2)),
    };
    let (kind, g) = gen_sym_graph(&mut rng, n);
    let ng = rng.range(1, 5);
    // gammas as (numerator, exponent) pairs of the command-line syntax "num-exp" = num * 2^-exp
    let pool: [(usize, usize); 9] = [(0, 0), (1, 0), (1, 1), (1, 2), (1, 3), (1, 6), (1, 10), (2, 0), (8, 0)];
    let mut gpairs: Vec<(usize, usize)> = (0..ng).map(|_| rng.pick(&pool)).collect();
    if rng.chance(1, 2) { gpairs.sort_by(|a, b| gamma_of(*a).total_cmp(&gamma_of(*b))); }
    let gammas: Vec<f64> = gpairs.iter().map(|&p| gamma_of(p)).collect();
    let gran = (rng.below(2) as u8, rng.pick(&[1usize, 2, 3, 10, 100, 100000]));
    RunCase {
        gpairs, n, kind, g, gammas, seed: rng.next(), gran, t: rng.range(1, 16), t2: rng.range(1, 16),
        pred: rng.below(5), maxupd: rng.pick(&[1usize, 2, 3, 10, 100]), funcperm: rng.chance(2, 3), entry: rng.pick(&[0usize, 0, 1, 1, 2]),
    }
}

fn graph_lists<G: SequentialGraph>(g: &G) -> Graph {
    let mut out = Vec::new();
    let mut it = g.iter();
    while let Some((_x, succ)) = lender::Lender::next(&mut it) { out.push(succ.into_iter().collect()); }
    out
}

fn run_one(c: &RunCase, i: usize, out: &mut impl Write) {
    let dir = tempfile::Builder::new().prefix("wgverif-llpr").tempdir().unwrap();
    let vg = vec_graph(&c.g);
    let gran = if c.gran.0 == 0 { Granularity::Nodes(c.gran.1) } else { Granularity::Arcs(c.gran.1 as u64) };
    let head = format!("n={} kind={} t={} t2={} gran={}{} pred={} maxupd={} funcperm={} entry={} seed={} gammas={} g={}",
        c.n, c.kind, c.t, c.t2, if c.gran.0 == 0 { "N" } else { "A" }, c.gran.1, c.pred, c.maxupd, c.funcperm as u8, c.entry,
        c.seed, c.gammas.iter().map(|x| x.to_string()).collect::<Vec<_>>().join(","), fmt_lists(&c.g));
    writeln!(out, "# start r{i} {head}").unwrap();
    out.flush().unwrap();
    // what the stored labelings are indexed by: the command line sorts the gammas
    let mut gammas = c.gammas.clone();
    if c.entry == 2 { gammas.sort_by(|a, b| a.total_cmp(b)); }
    let cli_perm = dir.path().join("cli.perm");
    let cli_perm2 = dir.path().join("cli2.perm");
    let wd = if c.entry == 2 { dir.path().join("wd") } else { dir.path().to_path_buf() };
    std::fs::create_dir_all(&wd).unwrap();
    let path = wd.clone();
    let run = || -> anyhow::Result<Option<Box<[usize]>>> {
        if c.entry == 2 {
            // the command-line entry points: webgraph run llp / llp-combine on a BvGraph on disk
            let base = dir.path().join("g");
            BvComp::with_basename(&base).comp_graph::<BE>(&vg)?;
            let b = base.to_string_lossy().to_string();
            webgraph_cli::cli_main(["webgraph", "build", "ef", &b])?;
            webgraph_cli::cli_main(["webgraph", "build", "dcf", &b])?;
            let mut a: Vec<String> = ["webgraph", "run", "llp", &b, &cli_perm.to_string_lossy(), "--work-dir", &wd.to_string_lossy(),
                "--fmt", "ascii", "--num-threads", &c.t.to_string(), "--seed", &c.seed.to_string(),
                "--max-updates", &c.maxupd.to_string()].iter().map(|x| x.to_string()).collect();
            a.push("--gammas".into());
            a.push(c.gpairs.iter().map(|(n, e)| format!("{n}-{e}")).collect::<Vec<_>>().join(","));
            a.push(if c.gran.0 == 0 { "--node-granularity".into() } else { "--arc-granularity".into() });
            a.push(c.gran.1.to_string());
            if !c.funcperm { a.push("--no-perm".into()); }
            match c.pred { 3 => a.push("--modified".into()), 4 => { a.push("--perc-modified".into()); a.push("10".into()); } _ => {} }
            webgraph_cli::cli_main(a)?;
            webgraph_cli::cli_main(["webgraph", "run", "llp-combine", &wd.to_string_lossy(), &cli_perm2.to_string_lossy(),
                "--fmt", "ascii", "--num-threads", &c.t2.to_string()])?;
            return Ok(None);
        }
        let dcf = vg.build_dcf();
        let mut pred = MaxUpdates::from(c.maxupd).boxed();
        match c.pred {
            0 => {}
            1 => { pred = pred.or(MinGain::try_from(MinGain::DEFAULT_THRESHOLD)?).boxed(); }
            2 => { pred = pred.or(MinAvgImprov::try_from(MinAvgImprov::DEFAULT_THRESHOLD)?).boxed(); }
            3 => { pred = pred.or(MinModified::default()).boxed(); }
            _ => { pred = pred.or(PercModified::try_from(10.0)?).or(MinGain::try_from(0.01)?).boxed(); }
        }
        let fp = c.funcperm;
        let gen_perm = move |n: usize, s0: u64, s1: u64| {
            let f = if fp { Some(funcperm::murmur(n as u64, s0, s1)) } else { None };
            move |x: u64| match &f { None => x, Some(f) => f.get(x) }
        };
        if c.entry == 0 {
            llp::layered_label_propagation_labels_only(&vg, &dcf, c.gammas.clone(), gran, c.seed, pred, gen_perm, &path)?;
            Ok(None)
        } else {
            Ok(Some(llp::layered_label_propagation(&vg, &dcf, c.gammas.clone(), gran, c.seed, pred, gen_perm, &path)?))
        }
    };
    let (status, full) = status3(catch(std::panic::AssertUnwindSafe(|| with_pool(c.t, run))));
    if status != "ok" {
        writeln!(out, "llprun id=r{i} {head} status={status}").unwrap();
        return;
    }
    // read back what was stored
    let mut stored: Vec<Vec<usize>> = Vec::new();
    let mut costs: Vec<f64> = Vec::new();
    let mut rstatus = "ok".to_string();
    for j in 0..gammas.len() {
        let p = wd.join(format!("labels_{j}.bin"));
        let l = unsafe { <LabelsAndGamma<Vec<usize>>>::load_full(&p) };
        let gc = unsafe { f64::load_full(p.with_extension("gap")) };
        match (l, gc) {
            (Ok(l), Ok(gc)) => {
                if l.gamma.to_bits() != gammas[j].to_bits() { rstatus = format!("gamma-mismatch-{j}"); }
                stored.push(l.labels);
                costs.push(gc);
            }
            (l, gc) => { rstatus = format!("missing-{j}-{}-{}", l.is_ok() as u8, gc.is_ok() as u8); break; }
        }
    }
    let order = dir_order(&wd);
    if rstatus != "ok" {
        writeln!(out, "llprun id=r{i} {head} status=stored:{rstatus}").unwrap();
        return;
    }
    // combine (again, in a pool of another size), rank, permute
    let (cstatus, comb) = status3(catch(std::panic::AssertUnwindSafe(|| with_pool(c.t2, || llp::combine_labels(&path)))));
    let comb = match comb { Some(x) => x, None => {
        writeln!(out, "llprun id=r{i} {head} status=combine:{cstatus} order={} costs={} stored={}", fmt_ints(&order), fmt_keys(&costs), fmt_lists(&stored)).unwrap();
        return;
    } };
    let fullsame = match full.flatten() { None => "-", Some(f) => if *f == *comb { "same" } else { "differs" } };
    let r = catch(std::panic::AssertUnwindSafe(|| with_pool(c.t2, || -> anyhow::Result<(Vec<usize>, Graph)> {
        let ranks = webgraph_algo::labels_to_ranks(&comb).to_vec();
        let pg = permute_seq(&vg, &ranks, MemoryUsage::BatchSize(1 + c.n), no_logging![])?;
        let lists = graph_lists(&pg);
        Ok((ranks, lists))
    })));
    let (pstatus, rp) = status3(r);
    let (ranks, pg) = rp.unwrap_or_default();
    let fullsame = if c.entry == 2 {
        let rd = |p: &Path| -> Option<Vec<usize>> {
            std::fs::read_to_string(p).ok().map(|t| t.split_whitespace().filter_map(|x| x.parse().ok()).collect())
        };
        if rd(&cli_perm).as_deref() == Some(&ranks[..]) && rd(&cli_perm2).as_deref() == Some(&ranks[..]) { "same" } else { "differs" }
    } else { fullsame };
    writeln!(out, "llprun id=r{i} {head} status={} order={} costs={} stored={} full={fullsame} combined={} ranks={} pg={}",
        if pstatus == "ok" { "ok".to_string() } else { format!("permute:{pstatus}") },
        fmt_ints(&order), fmt_keys(&costs), fmt_lists(&stored), fmt_ints(&comb), fmt_ints(&ranks), fmt_lists(&pg)).unwrap();
}

pub fn run_child(seed: u64, count: usize, maxn: usize, from: usize, out: &mut impl Write) {
    for i in from..count {
        let c = gen_run_case(seed, i, maxn);
        run_one(&c, i, out);
        out.flush().unwrap();
    }
}

/// Runs the cases in child processes; a child that prints nothing for `LIMIT` seconds is
/// killed, the case is reported as hanging and the next child resumes after it.
fn run_parent(seed: u64, count: usize, maxn: usize, out: &mut impl Write) {
    const LIMIT: u64 = 120;
    let exe = std::env::current_exe().unwrap();
    let mut from = 0usize;
    while from < count {
        let mut child = std::process::Command::new(&exe)
            .args(["llp", "--mode", "runchild", "--seed", &seed.to_string(), "--count", &count.to_string(),
                "--maxn", &maxn.to_string(), "--from", &from.to_string()])
            .stdout(std::process::Stdio::piped())
            .stderr(std::process::Stdio::null())
            .spawn()
            .unwrap();
        let stdout = child.stdout.take().unwrap();
        let (tx, rx) = std::sync::mpsc::channel::<String>();
        let reader = std::thread::spawn(move || {
            for line in std::io::BufReader::new(stdout).lines() {
                match line { Ok(l) => { if tx.send(l).is_err() { break; } } Err(_) => break }
            }
        });
        let mut last_start = String::new();
        loop {
            match rx.recv_timeout(std::time::Duration::from_secs(LIMIT)) {
                Ok(l) => {
                    if l.starts_with("llprun ") { from += 1; last_start.clear(); }
                    else if l.starts_with("# start") { last_start = l.clone(); }
                    writeln!(out, "{l}").unwrap();
                }
                Err(std::sync::mpsc::RecvTimeoutError::Timeout) => {
                    let _ = child.kill();
                    let head = last_start.splitn(4, ' ').nth(3).unwrap_or("").to_string();
                    writeln!(out, "llprun id=r{from} {head} status=hang").unwrap();
                    from += 1;
                    break;
                }
                Err(std::sync::mpsc::RecvTimeoutError::Disconnected) => {
                    // the child ended: normally, or by an abort in the middle of a case
                    let st = child.wait().ok();
                    if from < count && !last_start.is_empty() {
                        let head = last_start.splitn(4, ' ').nth(3).unwrap_or("").to_string();
                        writeln!(out, "llprun id=r{from} {head} status=abort:{}", st.map(|s| sanitize(&s.to_string())).unwrap_or_default()).unwrap();
                        from += 1;
                    } else if from < count {
                        writeln!(out, "llprun id=r{from} status=abort:nostart").unwrap();
                        from += 1;
                    }
                    break;
                }
            }
        }
        let _ = child.wait();
        let _ = reader.join();
    }
}

pub fn run(seed: u64, count: usize, maxn: usize, mode: &str, args: &[String], out: &mut impl Write) {
    let from: usize = args.iter().position(|a| a == "--from").and_then(|i| args.get(i + 1)).and_then(|s| s.parse().ok()).unwrap_or(0);
    match mode {
        "comb" => run_comb(seed, count, maxn, out),
        "ranks" => run_ranks(seed, count, maxn, out),
        "run" => run_parent(seed, count, maxn, out),
        "runchild" => run_child(seed, count, maxn, from, out),
        _ => {
            run_comb(seed, count, maxn, out);
            run_ranks(seed, count, maxn, out);
            run_parent(seed, count / 4 + 1, maxn, out);
        }
    }
}
