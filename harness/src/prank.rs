//! Channel "prank": `webgraph_algo::rank::pagerank::PageRank` (C18).
//!
//! Every case is a graph (given to the library, as its constructor requires, by its
//! transpose), a damping factor, a preference vector (the built-in uniform one or an
//! explicit slice), a mode, a threshold, a granularity and a thread pool.  The
//! implementation is run until `L1Norm(eps)` holds (an iteration cap is or-ed in so that a
//! non-converging run is reported instead of hanging); the result vector, the number of
//! iterations and the final norm delta are printed.  A second, single-threaded run of the
//! same configuration for `k` iterations (`MaxIter(k)`) gives the deterministic
//! Gauss-Seidel trajectory that the model's sweep is compared with.  Rationals are printed
//! as numerator/denominator; f64 values as their 64 bits in hexadecimal (exact), with a
//! 17-significant-digit rendering on a `#impl` line.
use crate::art::vec_graph;
use crate::util::*;
use predicates::prelude::*;
use std::io::Write;
use webgraph::utils::Granularity;
use webgraph_algo::rank::pagerank::{Mode, PageRank, preds};

const ITER_CAP: usize = 20_000;

fn transpose(g: &Graph) -> Graph {
    let mut t: Graph = vec![Vec::new(); g.len()];
    for (x, l) in g.iter().enumerate() {
        for &y in l {
            t[y].push(x);
        }
    }
    for l in t.iter_mut() {
        l.sort_unstable();
        l.dedup();
    }
    t
}

/// graphs that exercise the corrections of the update: dangling nodes, nodes whose only
/// arc is a loop, loops on ordinary nodes, isolated nodes, cliques, cycles, stars
fn gen_pr_graph(rng: &mut Rng, n: usize) -> (Graph, &'static str) {
    let mut g: Graph = vec![Vec::new(); n];
    if n == 0 {
        return (g, "empty");
    }
    let style = rng.below(12);
    let name = match style {
        0 => {
            // sparse random with dangling nodes and loops
            for x in 0..n {
                if rng.chance(1, 3) { continue; }
                for _ in 0..rng.range(1, 3) { g[x].push(rng.below(n)); }
                if rng.chance(1, 5) { g[x].push(x); }
            }
            "sparse"
        }
        1 => {
            for x in 0..n { for y in 0..n { if x != y { g[x].push(y); } } }
            if rng.chance(1, 2) { let x = rng.below(n); g[x].push(x); }
            "clique"
        }
        2 => {
            for x in 0..n { g[x].push((x + 1) % n); }
            "cycle"
        }
        3 => {
            // star: hub 0 to all, leaves dangling or pointing back
            let back = rng.chance(1, 2);
            for y in 1..n { g[0].push(y); if back && rng.chance(2, 3) { g[y].push(0); } }
            "star"
        }
        4 => {
            // in-star: everybody points to the hub, which is dangling or loops
            let h = rng.below(n);
            for x in 0..n { if x != h { g[x].push(h); } }
            if rng.chance(1, 2) { g[h].push(h); }
            "instar"
        }
        5 => "noarcs",
        6 => {
            // only loops on some nodes, the rest isolated
            for x in 0..n { if rng.chance(1, 2) { g[x].push(x); } }
            "loops"
        }
        7 => {
            // path ending in a dangling node or in a node with only a loop
            for x in 0..n.saturating_sub(1) { g[x].push(x + 1); }
            if rng.chance(1, 2) { g[n - 1].push(n - 1); }
            "path"
        }
        8 => {
            // clique + cycle with a bridge (the shape of the repository's tests)
            let k = (n / 2).max(1);
            for x in 0..k { for y in 0..k { if x != y { g[x].push(y); } } }
            let p = n - k;
            for i in 0..p { g[k + i].push(k + (i + 1) % p); }
            if p > 0 {
                match rng.below(4) { 0 => { g[k - 1].push(k); g[k].push(k - 1); } 1 => g[k - 1].push(k), 2 => g[k].push(k - 1), _ => {} }
            }
            "cliquecycle"
        }
        9 => {
            // dense random with a few dangling nodes
            // (the dense block is limited to 24 nodes, the rest stays isolated: the exact
            // rational solver of the model driver is cubic in the size of the dense block
            // with numbers of thousands of bits)
            let m = n.min(24);
            for x in 0..m {
                if rng.chance(1, 6) { continue; }
                for y in 0..m { if rng.chance(1, 2) { g[x].push(y); } }
            }
            "dense"
        }
        10 => {
            g = gen_graph(rng, n);
            "structured"
        }
        _ => {
            // two components, one of them a sink component
            let k = (n / 2).max(1);
            for x in 0..k { g[x].push((x + 1) % k); if rng.chance(1, 3) { g[x].push(rng.below(n)); } }
            for x in k..n { if rng.chance(2, 3) { g[x].push(k + rng.below(n - k)); } }
            "twocomp"
        }
    };
    for l in g.iter_mut() {
        l.sort_unstable();
        l.dedup();
    }
    (g, name)
}

fn fmt_f64s(x: &[f64]) -> String {
    x.iter().map(|v| format!("{:016x}", v.to_bits())).collect::<Vec<_>>().join(",")
}
fn fmt_dec(x: &[f64]) -> String {
    x.iter().map(|v| format!("{:.16e}", v)).collect::<Vec<_>>().join(",")
}

#[derive(Clone)]
pub struct PrConf {
    pub an: u64,
    pub ad: u64,
    /// integer weights of the explicit preference vector; empty = built-in uniform
    pub weights: Vec<u64>,
    pub mode: u8,
    pub epsexp: u32,
    pub gran: (u8, u64),
    pub threads: usize,
    pub reuse: bool,
    pub k: usize,
    /// iteration cap or-ed to the stopping predicate
    pub cap: usize,
}

fn mode_of(m: u8) -> Mode {
    match m { 0 => Mode::StronglyPreferential, 1 => Mode::WeaklyPreferential, _ => Mode::PseudoRank }
}
fn gran_of(g: (u8, u64)) -> Granularity {
    if g.0 == 0 { Granularity::Nodes(g.1 as usize) } else { Granularity::Arcs(g.1) }
}

pub struct PrOut {
    pub x: Vec<f64>,
    pub iters: usize,
    pub nd: f64,
    pub xk: Vec<f64>,
    pub ndk: f64,
    pub itk: usize,
}

/// runs the library; `converge` = until L1Norm(eps) (or the cap), then the k-iteration
/// single-threaded run on a fresh structure
pub fn run_impl(gt: &Graph, c: &PrConf) -> PrOut {
    let vg = vec_graph(gt);
    let n = gt.len();
    let alpha = c.an as f64 / c.ad as f64;
    let eps = 10f64.powi(-(c.epsexp as i32));
    let wsum: u64 = c.weights.iter().sum();
    let pref: Vec<f64> = c.weights.iter().map(|&w| w as f64 / wsum as f64).collect();
    let pool = rayon::ThreadPoolBuilder::new().num_threads(c.threads).build().unwrap();
    let pool1 = rayon::ThreadPoolBuilder::new().num_threads(1).build().unwrap();
    let stop = || preds::L1Norm::try_from(eps).unwrap().or(preds::MaxIter::from(c.cap));
    macro_rules! body {
        ($pr:expr) => {{
            let mut pr = $pr;
            if c.reuse {
                // a first computation with other parameters on the same structure (the
                // documentation recommends reuse: the inverse outdegrees are cached)
                pr.alpha(0.5).mode(mode_of((c.mode + 1) % 3)).granularity(Granularity::Nodes(3));
                pool.install(|| pr.run(preds::MaxIter::from(2)));
            }
            pr.alpha(alpha).mode(mode_of(c.mode)).granularity(gran_of(c.gran));
            pool.install(|| pr.run(stop()));
            let x = pr.rank().to_vec();
            let (iters, nd) = (pr.iterations(), pr.norm_delta());
            (x, iters, nd)
        }};
    }
    macro_rules! body_k {
        ($pr:expr) => {{
            let mut pr = $pr;
            pr.alpha(alpha).mode(mode_of(c.mode)).granularity(gran_of(c.gran));
            pool1.install(|| pr.run(preds::MaxIter::from(c.k)));
            (pr.rank().to_vec(), pr.norm_delta(), pr.iterations())
        }};
    }
    let _ = n;
    let ((x, iters, nd), (xk, ndk, itk)) = if c.weights.is_empty() {
        (body!(PageRank::new(&vg)), body_k!(PageRank::new(&vg)))
    } else {
        (body!(PageRank::new(&vg).preference(pref.as_slice())), body_k!(PageRank::new(&vg).preference(pref.as_slice())))
    };
    PrOut { x, iters, nd, xk, ndk, itk }
}

pub fn case_line(id: &str, shape: &str, gt: &Graph, c: &PrConf, r: &Result<PrOut, String>) -> String {
    let n = gt.len();
    let mut s = format!(
        "prank id={id} shape={shape} n={n} arcs={} gt={} an={} ad={} pref={} mode={} epsexp={} gran={}{} threads={} reuse={} k={}",
        num_arcs(gt), fmt_lists(gt), c.an, c.ad,
        if c.weights.is_empty() { "u".to_string() } else { c.weights.iter().map(|w| w.to_string()).collect::<Vec<_>>().join(",") },
        ["s", "w", "p"][c.mode as usize], c.epsexp, if c.gran.0 == 0 { "n" } else { "a" }, c.gran.1, c.threads, c.reuse as u8, c.k);
    match r {
        Ok(o) => {
            let status = if o.iters >= c.cap { "cap" } else { "ok" };
            s.push_str(&format!(" status={status} iters={} nd={:016x} x={} itk={} ndk={:016x} xk={}",
                o.iters, o.nd.to_bits(), fmt_f64s(&o.x), o.itk, o.ndk.to_bits(), fmt_f64s(&o.xk)));
            s.push_str(&format!("\n#impl id={id} nd={:.16e} xdec={}", o.nd, fmt_dec(&o.x)));
        }
        Err(p) => s.push_str(&format!(" status=panic:{}", sanitize(p))),
    }
    s
}

/// The command-line entry point (`webgraph rank pagerank`): the transpose is written as a
/// BvGraph with its Elias-Fano offsets, the preference vector as an ASCII file, and the
/// ranks are read back from the ASCII output (shortest round-trip representation).
pub fn run_cli(dir: &std::path::Path, gt: &Graph, c: &PrConf, parse: bool) -> Result<Vec<f64>, String> {
    use dsi_bitstream::prelude::BE;
    let base = dir.join("gt");
    for ext in ["graph", "offsets", "properties", "ef"] {
        let _ = std::fs::remove_file(base.with_extension(ext));
    }
    let vg = vec_graph(gt);
    webgraph::prelude::BvComp::with_basename(&base).comp_graph::<BE>(&vg).map_err(|e| format!("comp:{e:#}"))?;
    let b = base.to_str().unwrap().to_string();
    webgraph_cli::cli_main(vec!["webgraph".to_string(), "build".into(), "ef".into(), b.clone()]).map_err(|e| format!("ef:{e:#}"))?;
    let outp = dir.join("ranks.txt");
    let _ = std::fs::remove_file(&outp);
    let alpha = c.an as f64 / c.ad as f64;
    let mut args: Vec<String> = vec!["webgraph-rank".into(), "pagerank".into(), b, "--output".into(), outp.to_str().unwrap().into(),
        "--alpha".into(), format!("{alpha}"), "--threshold".into(), format!("1e-{}", c.epsexp), "--max-iter".into(), c.cap.to_string(),
        "--mode".into(), ["strongly-preferential", "weakly-preferential", "pseudo-rank"][c.mode as usize].into(),
        "--num-threads".into(), c.threads.to_string()];
    if c.gran.0 == 0 { args.push("--node-granularity".into()); } else { args.push("--arc-granularity".into()); }
    args.push(c.gran.1.to_string());
    let mut pref_path = None;
    if !c.weights.is_empty() {
        let wsum: u64 = c.weights.iter().sum();
        let pp = dir.join("pref.txt");
        let text: String = c.weights.iter().map(|&w| format!("{}\n", w as f64 / wsum as f64)).collect();
        std::fs::write(&pp, text).map_err(|e| e.to_string())?;
        args.push("--preference".into());
        args.push(pp.to_str().unwrap().into());
        pref_path = Some(pp);
    }
    if parse {
        webgraph_cli::rank::cli_main(args).map_err(|e| format!("cli:{e:#}"))?;
    } else {
        // the same command with the argument structure built directly (no clap parsing)
        use webgraph_cli::rank::pagerank::{CliArgs, CliMode};
        use webgraph_cli::{FloatSliceFormat, GranularityArgs, LogIntervalArg, NumThreadsArg};
        let a = CliArgs {
            transpose: base.clone(),
            output: outp.clone(),
            alpha,
            max_iter: Some(c.cap),
            threshold: 10f64.powi(-(c.epsexp as i32)),
            preference: pref_path,
            preference_fmt: FloatSliceFormat::Ascii,
            mode: [CliMode::StronglyPreferential, CliMode::WeaklyPreferential, CliMode::PseudoRank][c.mode as usize],
            fmt: FloatSliceFormat::Ascii,
            precision: None,
            num_threads: NumThreadsArg { num_threads: c.threads },
            granularity: GranularityArgs {
                arc_granularity: if c.gran.0 == 1 { Some(c.gran.1) } else { None },
                node_granularity: if c.gran.0 == 0 { Some(c.gran.1 as usize) } else { None },
            },
            log_interval: LogIntervalArg { log_interval: std::time::Duration::from_secs(10) },
        };
        webgraph_cli::rank::pagerank::main(a).map_err(|e| format!("climain:{e:#}"))?;
    }
    let text = std::fs::read_to_string(&outp).map_err(|e| format!("out:{e}"))?;
    text.split_whitespace().map(|t| t.parse::<f64>().map_err(|e| format!("parse:{e}"))).collect()
}

pub fn gen_conf(rng: &mut Rng, n: usize, arcs: usize) -> PrConf {
    let (an, ad) = rng.pick(&[(0u64, 1u64), (1, 2), (85, 100), (99, 100), (85, 100), (9, 10), (1, 4), (1, 100)]);
    let weights: Vec<u64> = if n == 0 || rng.chance(2, 5) {
        Vec::new()
    } else {
        let mut w: Vec<u64> = match rng.below(4) {
            0 => (0..n).map(|_| rng.below(4) as u64).collect(),          // skewed, with zeros
            1 => { let mut w = vec![0u64; n]; w[rng.below(n)] = 1; w }   // point mass
            2 => (0..n).map(|_| 1 + rng.below(3) as u64).collect(),      // positive
            _ => (0..n).map(|i| if i % 2 == 0 { 1 } else { 0 }).collect(),
        };
        if w.iter().all(|&x| x == 0) { w[0] = 1; }
        w
    };
    PrConf {
        an, ad, weights,
        mode: rng.below(3) as u8,
        epsexp: rng.pick(&[6u32, 7, 9, 10, 12]),
        gran: rng.pick(&[(0u8, 1u64), (0, 2), (0, 3), (0, 7), (0, 10000), (1, 1), (1, 5), (1, 1000)]),
        threads: rng.pick(&[1usize, 2, 3, 4, 8, 16]),
        reuse: rng.chance(1, 4),
        // exact rational sweeps are expensive: fewer iterations on bigger graphs
        cap: ITER_CAP,
        k: if arcs <= 40 { rng.range(1, 4) } else if arcs <= 120 { rng.range(1, 2) } else { 1 },
    }
}

pub fn run(seed: u64, count: usize, maxn: usize, out: &mut impl Write) {
    let mut rng = Rng::new(seed ^ 0x9A6E);
    let dir = tempfile::Builder::new().prefix("wgverif-prank").tempdir().unwrap();
    // fixed witness of the known finding "stopping criterion unreachable": arc 1 -> 0,
    // alpha = 0.99, weakly preferential, eps = 1e-12; the f64 iteration enters a cycle of
    // period 2 after 2129 iterations with norm delta 1.4e-12
    {
        let gt: Graph = vec![vec![1], vec![]];
        let c = PrConf { an: 99, ad: 100, weights: vec![], mode: 1, epsexp: 12, gran: (0, 10000), threads: 1, reuse: false, k: 2, cap: 20_000 };
        let (gt2, c2) = (gt.clone(), c.clone());
        let r = catch(std::panic::AssertUnwindSafe(move || run_impl(&gt2, &c2)));
        writeln!(out, "{}", case_line("w0", "witness", &gt, &c, &r)).unwrap();
    }
    let mut unexpected_caps = 0usize;
    for i in 0..count {
        let n = match rng.below(10) {
            0 => rng.range(0, 2),
            1..=5 => rng.range(2, 8.min(maxn)),
            6..=8 => rng.range(2, 16.min(maxn)),
            _ => rng.range(2, maxn.max(2)),
        };
        let (g, shape) = gen_pr_graph(&mut rng, n);
        let gt = transpose(&g);
        let mut c = gen_conf(&mut rng, n, num_arcs(&gt));
        // after a dozen runs that hit the iteration cap outside the known class (alpha >= 0.99
        // with threshold <= 1e-12) the cap of the remaining cases is lowered: a broken update
        // rule that never converges must not make the run take hours (every capped run is
        // still reported as such; no legitimate run needs more than about 2800 iterations)
        if unexpected_caps >= 12 { c.cap = c.cap.min(5_000); }
        let (gt2, c2) = (gt.clone(), c.clone());
        let r = catch(std::panic::AssertUnwindSafe(move || run_impl(&gt2, &c2)));
        if let Ok(o) = &r {
            if o.iters >= c.cap && !(c.an * 100 >= 99 * c.ad && c.epsexp >= 12) { unexpected_caps += 1; }
        }
        writeln!(out, "{}", case_line(&format!("p{i}"), shape, &gt, &c, &r)).unwrap();
        if n > 0 && (i % 10 == 3 || i % 200 == 7) {
            // the same configuration through the command-line entry point: mostly with the
            // argument structure built directly, sometimes through the argument parser
            let parse = i % 200 == 7;
            let (gt2, c2, d2) = (gt.clone(), c.clone(), dir.path().to_path_buf());
            let rc = catch(std::panic::AssertUnwindSafe(move || run_cli(&d2, &gt2, &c2, parse)));
            let rc: Result<PrOut, String> = match rc {
                Ok(Ok(x)) => match &r {
                    // the trajectory part is the library's (the CLI has no separate one)
                    Ok(o) => Ok(PrOut { x, iters: 1, nd: 0.0, xk: o.xk.clone(), ndk: o.ndk, itk: o.itk }),
                    Err(p) => Err(p.clone()),
                },
                Ok(Err(e)) => Err(format!("err:{e}")),
                Err(p) => Err(p),
            };
            let entry = if parse { " entry=cli shape=" } else { " entry=climain shape=" };
            writeln!(out, "{}", case_line(&format!("c{i}"), shape, &gt, &c, &rc).replace(" shape=", entry)).unwrap();
        }
    }
}
