//! Channel "pmf" (property C11): the parallel map-fold primitives of
//! `webgraph::traits::ParMapFold` (`par_map_fold`, `par_map_fold_with`, `par_map_fold2`,
//! `par_map_fold2_with`, `par_map_fold_ord`, `par_map_fold_ord_with`) and the graph-level
//! `par_node_apply` / `par_apply` built on them, for pool sizes 1..16, input lengths below
//! and above the channel capacities, and four kinds of call site.
//!
//! Every run happens in a child process (this executable re-executed with the sub-command
//! `pmfchild`, `RAYON_NUM_THREADS` set to the wanted size of the global pool) under a
//! watchdog, because the property is about termination: a deadlock is reported as
//! `terminated=0`, never as a hang of the harness.
//!
//! The case line carries `cpool` (size of the caller's own pool when the call site is a pool
//! worker, `none` outside any pool); the child reports what the sequential-branch test of
//! the ordered variant sees (`threads` = `current_num_threads()`, `worker` =
//! `current_thread_index().is_some()`) and, for the ordered variant, `oncaller`, the number
//! of items mapped on the calling thread (all of them in the sequential branch, none
//! otherwise).  The class that deadlocked before the repair of defect 7b (ordered variant,
//! task of a global pool of one thread) is part of both tiers, all lengths.
use crate::util::*;
use std::io::Write;
use std::process::{Command, Stdio};
use std::sync::atomic::{AtomicUsize, Ordering};
use std::sync::Mutex;
use std::time::{Duration, Instant};
use webgraph::prelude::*;
use webgraph::traits::ParMapFold;

pub const PRIMS: [&str; 8] = ["pmf", "pmf_with", "pmf2", "pmf2_with", "ord", "ord_with", "node_apply", "apply"];
const POOLS: [usize; 6] = [1, 2, 3, 4, 8, 16];
const GLOBALS: [usize; 3] = [1, 2, 16];
const ORD_MOD: u64 = 1_000_000_007;

/// the map function: a value depending on the item in a non-linear way
pub fn f(i: usize) -> u64 {
    let i = i as u64;
    (i * i + 7 * i + 1) % 1_000_003
}

fn is_ord(prim: &str) -> bool { prim == "ord" || prim == "ord_with" }

/// the sequential fold the result is compared with
pub fn expect(prim: &str, len: usize) -> u64 {
    if is_ord(prim) {
        (0..len).fold(7u64, |a, i| (a * 31 + f(i)) % ORD_MOD)
    } else {
        (0..len).map(f).sum()
    }
}

/// Runs one primitive on the current thread; returns (value, upper size hint, items) and,
/// for the ordered variant, the number of items that were mapped on the calling thread
/// (all of them in the sequential branch, none when the consumers do the mapping).
fn run_prim(prim: &str, len: usize) -> ((u64, Option<usize>, usize), Option<usize>) {
    let me = std::thread::current().id();
    let on = AtomicUsize::new(0);
    let note = || if std::thread::current().id() == me { on.fetch_add(1, Ordering::Relaxed); };
    let r = run_prim0(prim, len, &note);
    (r, if is_ord(prim) { Some(on.load(Ordering::Relaxed)) } else { None })
}

fn run_prim0(prim: &str, len: usize, note: &(impl Fn() + Sync)) -> (u64, Option<usize>, usize) {
    match prim {
        "pmf" => {
            let mut it = 0..len;
            let h = it.size_hint().1;
            (it.par_map_fold(f, |a, b| a + b), h, len)
        }
        "pmf_with" => {
            let mut it = 0..len;
            let h = it.size_hint().1;
            (it.par_map_fold_with(5u64, |t: &mut u64, i| f(i) + *t - 5, |a, b| a + b), h, len)
        }
        "pmf2" => {
            // item results are u32, the accumulator is u64
            let mut it = 0..len;
            let h = it.size_hint().1;
            (it.par_map_fold2(|i| f(i) as u32, |a: u64, r: u32| a + r as u64, |a: u64, b: u64| a + b), h, len)
        }
        "pmf2_with" => {
            let mut it = 0..len;
            let h = it.size_hint().1;
            (it.par_map_fold2_with(5u32, |t: &mut u32, i| f(i) as u32 + *t - 5,
                |a: u64, r: u32| a + r as u64, |a: u64, b: u64| a + b), h, len)
        }
        "ord" => {
            let mut it = 0..len;
            let h = it.size_hint().1;
            (it.par_map_fold_ord(|i| { note(); f(i) }, 7u64, |a, r| (a * 31 + r) % ORD_MOD), h, len)
        }
        "ord_with" => {
            let mut it = 0..len;
            let h = it.size_hint().1;
            (it.par_map_fold_ord_with(5u64, |t: &mut u64, i| { note(); f(i) + *t - 5 }, 7u64, |a, r| (a * 31 + r) % ORD_MOD), h, len)
        }
        "node_apply" => {
            // one chunk per node
            let g = if len == 0 { VecGraph::empty(0) } else { VecGraph::from_arcs((0..len).map(|i| (i, (i + 1) % len))) };
            let chunks = g.num_nodes().div_ceil(1);
            let h = (0..chunks).size_hint().1;
            let v = g.par_node_apply(|r| r.map(f).sum::<u64>(), |a, b| a + b, Granularity::Nodes(1),
                dsi_progress_logger::no_logging![]);
            (v, h, chunks)
        }
        "apply" => {
            // a cycle: every node has one arc, arc granularity 1
            let g = if len == 0 { VecGraph::empty(0) } else { VecGraph::from_arcs((0..len).map(|i| (i, (i + 1) % len))) };
            let dcf = g.build_dcf();
            let target = Granularity::Arcs(1).arc_granularity(g.num_nodes(), Some(g.num_arcs())) as u64;
            let chunks_it = sux::utils::FairChunks::new(target, &dcf);
            let h = chunks_it.size_hint().1;
            let chunks = chunks_it.count();
            let v = g.par_apply(|r| r.map(f).sum::<u64>(), |a, b| a + b, Granularity::Arcs(1), &dcf,
                dsi_progress_logger::no_logging![]);
            (v, h, chunks)
        }
        _ => panic!("unknown primitive {prim}"),
    }
}

fn fnv(bytes: &[u8]) -> u64 {
    let mut h = 0xcbf29ce484222325u64;
    for b in bytes { h ^= *b as u64; h = h.wrapping_mul(0x100000001b3); }
    h >> 2
}

/// CLI commands built on the primitives, run as the user runs them with `--num-threads t`
/// (each command builds a pool of t threads and calls the primitive inside `install`):
/// `build dcf` (ordered variant), `analyze codes` (par_map_fold_with), `run llp`
/// (par_apply inside layered label propagation, which also computes the gap cost).
/// Returns (value, expected value, number of chunks).
fn run_cli(what: &str, n: usize, t: usize) -> anyhow::Result<(u64, u64, usize)> {
    let dir = tempfile::Builder::new().prefix("wgverif-pmfcli").tempdir()?;
    let base = dir.path().join("g");
    // a symmetric graph: ring with chords
    let mut arcs = Vec::new();
    for i in 0..n {
        for d in [1usize, 7, 31] {
            let j = (i + d) % n;
            if i != j { arcs.push((i, j)); arcs.push((j, i)); }
        }
    }
    arcs.sort_unstable();
    arcs.dedup();
    let vg = VecGraph::from_arcs(arcs);
    BvComp::with_basename(&base).comp_graph::<dsi_bitstream::prelude::BE>(&vg)?;
    let b = base.to_str().unwrap().to_string();
    let ts = t.to_string();
    let cli = |a: &[&str]| -> anyhow::Result<()> {
        let mut v = vec!["webgraph"];
        v.extend_from_slice(a);
        webgraph_cli::cli_main(v)
    };
    cli(&["build", "ef", &b])?;
    let chunks = n.div_ceil(100);
    match what {
        "cli_dcf" => {
            cli(&["build", "dcf", &b, "-t", &ts, "--node-granularity", "100"])?;
            let par = std::fs::read(base.with_extension("dcf"))?;
            std::fs::remove_file(base.with_extension("dcf"))?;
            cli(&["build", "dcf", &b, "--sequential"])?;
            let seq = std::fs::read(base.with_extension("dcf"))?;
            Ok((fnv(&par), fnv(&seq), chunks))
        }
        "cli_codes" => {
            cli(&["analyze", "codes", &b, "-t", &ts, "--node-granularity", "100"])?;
            Ok((1, 1, chunks))
        }
        "cli_llp" => {
            cli(&["build", "dcf", &b, "--sequential"])?;
            let perm = dir.path().join("g.perm");
            cli(&["run", "llp", &b, perm.to_str().unwrap(), "-t", &ts, "--node-granularity", "100",
                  "-g=-0,-1", "-u", "4"])?;
            // the output is a permutation of the nodes
            // default format: ASCII, one integer per line
            let text = std::fs::read_to_string(&perm)?;
            let mut p: Vec<u64> = text.split_whitespace().map(|c| c.parse().unwrap()).collect();
            p.sort_unstable();
            let ok = p.len() == n && p.iter().enumerate().all(|(i, x)| *x == i as u64);
            Ok((ok as u64, 1, chunks + 1))
        }
        _ => anyhow::bail!("unknown command {what}"),
    }
}

/// Child mode: `harness pmfchild <prim> <len> <site> <pool>`; prints one line.
pub fn child(args: &[String]) {
    let prim = args[2].clone();
    let len: usize = args[3].parse().unwrap();
    let site = args[4].clone();
    let pool: usize = args[5].parse().unwrap();
    if prim.starts_with("cli_") {
        let r = catch(std::panic::AssertUnwindSafe(|| run_cli(&prim, len, pool)));
        // the commands print to stdout: our line starts on a fresh line
        match r {
            Ok(Ok((v, e, items))) => println!("\nstatus=ok value={v} cliexpect={e} hint=none items={items} threads={pool}"),
            Ok(Err(e)) => println!("\nstatus=err:{}", sanitize(&format!("{e:#}"))),
            Err(p) => println!("\nstatus=panic:{}", sanitize(&p)),
        }
        return;
    }
    let work = move || {
        // what the sequential-branch test of the ordered variant looks at
        let threads = rayon::current_num_threads();
        let worker = rayon::current_thread_index().is_some();
        let ((v, h, items), oncaller) = run_prim(&prim, len);
        (v, h, items, threads, worker, oncaller)
    };
    let r = catch(std::panic::AssertUnwindSafe(move || match site.as_str() {
        // the test thread, outside any pool: tasks go to the global pool
        "outside" => work(),
        // how every CLI command runs its body when --num-threads is given
        "install" => rayon::ThreadPoolBuilder::new().num_threads(pool).build().unwrap().install(work),
        // a task of a scope of the global pool
        "gspawn" => {
            let mut r = None;
            rayon::scope(|s| s.spawn(|_| r = Some(work())));
            r.unwrap()
        }
        // a detached task of the global pool; the main thread waits on a channel
        "gdetach" => {
            let (tx, rx) = std::sync::mpsc::channel();
            rayon::spawn(move || { let _ = tx.send(catch(std::panic::AssertUnwindSafe(work))); });
            match rx.recv().unwrap() { Ok(x) => x, Err(p) => panic!("{p}") }
        }
        // a task of a scope of a custom pool
        "cspawn" => {
            let p = rayon::ThreadPoolBuilder::new().num_threads(pool).build().unwrap();
            let mut r = None;
            p.scope(|s| s.spawn(|_| r = Some(work())));
            r.unwrap()
        }
        // PROBE ONLY, not part of the matrix (the model has one caller): two tasks of one
        // scope of the global pool call the primitive concurrently
        "gpair" => {
            let (mut r1, mut r2) = (None, None);
            rayon::scope(|s| {
                s.spawn(|_| r1 = Some(work()));
                s.spawn(|_| r2 = Some(work()));
            });
            let _ = r2.unwrap();
            r1.unwrap()
        }
        other => panic!("unknown site {other}"),
    }));
    match r {
        Ok((v, h, items, threads, worker, oncaller)) => println!(
            "status=ok value={v} hint={} items={items} threads={threads} worker={}{}",
            h.map(|x| x.to_string()).unwrap_or("none".into()), worker as u8,
            oncaller.map(|x| format!(" oncaller={x}")).unwrap_or_default()),
        Err(p) => println!("status=panic:{}", sanitize(&p)),
    }
}

#[derive(Clone)]
struct Case { prim: &'static str, len: usize, site: &'static str, pool: usize, g: usize, seed: u64 }

/// Runs the child under a watchdog; returns its output line, or None on timeout.
fn run_child(c: &Case, watchdog: Duration) -> Option<String> {
    let exe = std::env::current_exe().unwrap();
    let mut ch = Command::new(exe)
        .args(["pmfchild", c.prim, &c.len.to_string(), c.site, &c.pool.to_string()])
        .env("RAYON_NUM_THREADS", c.g.to_string())
        .stdin(Stdio::null()).stdout(Stdio::piped()).stderr(Stdio::null())
        .spawn().unwrap();
    let t0 = Instant::now();
    let mut nap = Duration::from_micros(500);
    loop {
        match ch.try_wait().unwrap() {
            Some(_) => {
                let mut s = String::new();
                use std::io::Read;
                ch.stdout.take().unwrap().read_to_string(&mut s).unwrap();
                let line = s.lines().find(|l| l.starts_with("status=")).unwrap_or("status=panic:no-output").to_string();
                return Some(line);
            }
            None => {
                if t0.elapsed() > watchdog {
                    let _ = ch.kill();
                    let _ = ch.wait();
                    return None;
                }
                std::thread::sleep(nap);
                if nap < Duration::from_millis(20) { nap *= 2; }
            }
        }
    }
}

fn lens_for(pool: usize, big: bool) -> Vec<usize> {
    // T <= pool consumers; the input channel holds 2T items
    let mut v = vec![0, 1, 2, 3, 2 * pool - 1, 2 * pool, 2 * pool + 1, 1000];
    if big { v.push(100_000); }
    v.sort_unstable();
    v.dedup();
    v
}

/// the class for which the ordered variant used to deadlock (DESIGN.md 7b, repaired: the
/// only thread of a pool now folds sequentially).  Kept as regression cases in both tiers;
/// a deadlock here is deterministic, so a timeout is not retried.
fn formerly_deadlocking(c: &Case) -> bool {
    is_ord(c.prim) && (c.site == "gspawn" || c.site == "gdetach") && c.g == 1
}

/// size of the caller's own pool when the caller is a pool worker, "none" for a thread
/// outside any pool
fn caller_pool(c: &Case) -> String {
    match c.site {
        "outside" => "none".to_string(),
        "gspawn" | "gdetach" => c.g.to_string(),
        _ => c.pool.to_string(),
    }
}

pub fn run(seed: u64, mode: &str, out: &mut impl Write) {
    let thorough = mode == "thorough";
    let mut rng = Rng::new(seed ^ 0xC11);
    let mut cases: Vec<Case> = Vec::new();
    let mut rot = 0usize;
    for prim in PRIMS {
        // outside any pool: the global pool has `pool` threads
        for pool in POOLS {
            let big = thorough || pool == 1 || pool == 3 || (pool == 16 && (prim == "pmf2_with" || prim == "ord_with"));
            for len in lens_for(pool, big) {
                cases.push(Case { prim, len, site: "outside", pool, g: pool, seed: rng.next() });
            }
        }
        // inside install / inside a task of a custom pool of `pool` threads; the global
        // pool (which executes the consumers of the ordered variant) has g threads
        for site in ["install", "cspawn"] {
            for pool in POOLS {
                let gs: Vec<usize> = if !is_ord(prim) { vec![2] }
                    else if thorough { GLOBALS.to_vec() }
                    else { rot += 1; vec![GLOBALS[rot % 3]] };
                for g in gs {
                    let big = thorough || pool == 1 || pool == 3 || (pool == 16 && (prim == "pmf2_with" || prim == "ord_with"));
                    for len in lens_for(pool, big) {
                        cases.push(Case { prim, len, site, pool, g, seed: rng.next() });
                    }
                }
            }
        }
        // inside a task of the global pool of g threads
        for site in ["gspawn", "gdetach"] {
            for g in GLOBALS {
                for len in lens_for(g, thorough || g == 1) {
                    // g == 1 with the ordered variant: the formerly deadlocking class, all
                    // lengths (among them the three witnesses of the finding: ord/gspawn/0,
                    // ord_with/gspawn/3, ord/gdetach/1000)
                    cases.push(Case { prim, len, site, pool: g, g, seed: rng.next() });
                }
            }
        }
    }
    if thorough {
        // random lengths and pool sizes 1..16
        for _ in 0..600 {
            let prim = PRIMS[rng.below(PRIMS.len())];
            let pool = rng.range(1, 16);
            let len = match rng.below(4) { 0 => rng.below(8), 1 => rng.range(pool, 4 * pool + 2), 2 => rng.below(3000), _ => rng.below(100_000) };
            let site = ["outside", "install", "cspawn", "gspawn", "gdetach"][rng.below(5)];
            let g = if site == "install" || site == "cspawn" { rng.range(1, 16) } else { pool };
            cases.push(Case { prim, len, site, pool, g, seed: rng.next() });
        }
    }
    // the CLI commands with --num-threads t, global pool of g threads
    for (prim, n) in [("cli_dcf", 3000usize), ("cli_codes", 3000), ("cli_llp", 3000), ("cli_dcf", 150), ("cli_llp", 250)] {
        for (t, g) in [(1usize, 1usize), (1, 4), (2, 1), (4, 4)] {
            if !thorough && n < 1000 && t != 1 { continue; }
            cases.push(Case { prim, len: n, site: "cli", pool: t, g, seed: rng.next() });
        }
    }
    let watchdog = Duration::from_secs(10);
    let results: Vec<Mutex<Option<String>>> = cases.iter().map(|_| Mutex::new(None)).collect();
    let next = AtomicUsize::new(0);
    // confirmed hangs so far: after a dozen of them the remaining cases are skipped (the
    // verdict is already a violation and every further hang costs more than a minute)
    let hangs = AtomicUsize::new(0);
    let runners = 4;
    std::thread::scope(|s| {
        for _ in 0..runners {
            s.spawn(|| loop {
                let i = next.fetch_add(1, Ordering::SeqCst);
                if i >= cases.len() { break; }
                let c = &cases[i];
                if hangs.load(Ordering::SeqCst) >= 12 {
                    *results[i].lock().unwrap() = Some("terminated=skipped status=skipped-after-repeated-hangs ms=0".to_string());
                    continue;
                }
                let t0 = Instant::now();
                let mut r = run_child(c, watchdog);
                if r.is_none() && !formerly_deadlocking(c) {
                    // a loaded machine must not produce a false deadlock: once more, patiently
                    r = run_child(c, Duration::from_secs(60));
                }
                let ms = t0.elapsed().as_millis();
                if r.is_none() { hangs.fetch_add(1, Ordering::SeqCst); }
                let line = match r {
                    Some(l) => format!("terminated=1 {l} ms={ms}"),
                    None => format!("terminated=0 status=timeout ms={ms}"),
                };
                *results[i].lock().unwrap() = Some(line);
            });
        }
    });
    for (i, c) in cases.iter().enumerate() {
        let r = results[i].lock().unwrap().take().unwrap();
        let ord = is_ord(c.prim) || c.prim == "cli_dcf";
        let e = if c.prim.starts_with("cli_") { 0 } else { expect(c.prim, c.len) };
        writeln!(out, "pmf id=p{i} prim={} variant={} len={} site={} pool={} g={} cpool={} seed={} expect={} {}",
            c.prim, if ord { "ord" } else { "unord" }, c.len, c.site, c.pool, c.g, caller_pool(c), c.seed % 1_000_000, e, r).unwrap();
    }
}
