//! Channel "cli": pipelines of `webgraph` CLI commands run in child processes
//! (`harness cli-exec ...` calls `webgraph_cli::cli_main`).  Every produced file set is
//! printed as an "art" case (bytes + the graph it must decode to), together with the
//! Elias-Fano / DCF entries read back through the library and the exit statuses.
use crate::art::{code_name, emit, props_get, Artefact, Conf};
use crate::util::*;
use dsi_bitstream::prelude::Codes;
use epserde::prelude::*;
use std::io::Write;
use std::path::{Path, PathBuf};
use std::process::{Command, Stdio};
use value_traits::slices::SliceByValue;
use webgraph::prelude::*;

pub struct Exec { pub code: i32, pub stdout: Vec<u8>, pub stderr: String }

/// Runs one CLI command in a child process with a watchdog.
pub fn exec(args: &[String], stdin: Option<&[u8]>, timeout_s: u64) -> Exec {
    let exe = std::env::current_exe().unwrap();
    let mut child = Command::new(exe)
        .arg("cli-exec")
        .args(args)
        .env("RUST_LOG", "error")
        .stdin(Stdio::piped())
        .stdout(Stdio::piped())
        .stderr(Stdio::piped())
        .spawn()
        .unwrap();
    {
        let mut si = child.stdin.take().unwrap();
        if let Some(data) = stdin { let _ = si.write_all(data); }
    }
    let start = std::time::Instant::now();
    loop {
        match child.try_wait().unwrap() {
            Some(_) => break,
            None => {
                if start.elapsed().as_secs() > timeout_s {
                    let _ = child.kill();
                    let _ = child.wait();
                    return Exec { code: -9, stdout: vec![], stderr: "timeout".into() };
                }
                std::thread::sleep(std::time::Duration::from_millis(2));
            }
        }
    }
    let out = child.wait_with_output().unwrap();
    Exec { code: out.status.code().unwrap_or(-1), stdout: out.stdout, stderr: String::from_utf8_lossy(&out.stderr).to_string() }
}

fn priv_code(c: Codes) -> String {
    match c {
        Codes::Unary => "unary".into(), Codes::Gamma => "gamma".into(), Codes::Delta => "delta".into(),
        Codes::Omega => "omega".into(), Codes::Zeta(k) => format!("zeta{k}"), Codes::Pi(k) => format!("pi{k}"),
        _ => "gamma".into(),
    }
}

/// compression options as CLI flags (the CLI always uses gamma for intervals)
fn comp_args(c: &Conf) -> Vec<String> {
    let mut v = vec![
        "-E".to_string(), if c.le { "little".into() } else { "big".into() },
        "-w".into(), c.w.to_string(), "-i".into(), c.l.to_string(),
        format!("--max-ref-count={}", if c.mr == usize::MAX { "-1".to_string() } else { c.mr.to_string() }),
        "--outdegrees".into(), priv_code(c.codes[0]), "--references".into(), priv_code(c.codes[1]),
        "--blocks".into(), priv_code(c.codes[2]), "--residuals".into(), priv_code(c.codes[4]),
    ];
    if c.zuck { v.push("--bvgraphz".into()); v.push("--chunk-size".into()); v.push(c.chunk.to_string()); }
    v
}

fn s(x: &str) -> String { x.to_string() }
fn p(x: &Path) -> String { x.display().to_string() }

fn read_artefact(base: &Path, status: String) -> Artefact {
    Artefact {
        status,
        graph: std::fs::read(base.with_extension("graph")).unwrap_or_default(),
        offsets: std::fs::read(base.with_extension("offsets")).unwrap_or_default(),
        props: std::fs::read_to_string(base.with_extension("properties")).unwrap_or_default(),
        written_bits: 0,
    }
}

fn conf_from_props(base: &Path, zuck: bool, chunk: usize) -> Option<Conf> {
    let le = webgraph::graphs::bvgraph::get_endianness(base).ok()? == "little";
    let r = if le { parse_properties::<dsi_bitstream::prelude::LE>(base.with_extension("properties")) }
            else { parse_properties::<dsi_bitstream::prelude::BE>(base.with_extension("properties")) };
    let (_, _, cf) = r.ok()?;
    Some(Conf { w: cf.compression_window, mr: cf.max_ref_count, l: cf.min_interval_length,
        codes: [cf.outdegrees, cf.references, cf.blocks, cf.intervals, cf.residuals], le, zuck, chunk })
}

fn read_ef(base: &Path) -> Result<Vec<usize>, String> {
    catch(std::panic::AssertUnwindSafe(|| -> anyhow::Result<Vec<usize>> {
        let ef = unsafe { EF::mmap(base.with_extension("ef"), Flags::default()) }?;
        let ef = ef.uncase();
        Ok((0..ef.len()).map(|i| ef.index_value(i) as usize).collect())
    })).map_err(|e| format!("panic:{}", sanitize(&e))).and_then(|r| r.map_err(|e| format!("err:{}", sanitize(&format!("{e:#}")))))
}

fn read_dcf(base: &Path) -> Result<Vec<usize>, String> {
    catch(std::panic::AssertUnwindSafe(|| -> anyhow::Result<Vec<usize>> {
        let d = unsafe { DCF::mmap(base.with_extension("dcf"), Flags::default()) }?;
        let d = d.uncase();
        Ok((0..d.len()).map(|i| d.index_value(i) as usize).collect())
    })).map_err(|e| format!("panic:{}", sanitize(&e))).and_then(|r| r.map_err(|e| format!("err:{}", sanitize(&format!("{e:#}")))))
}

fn transpose(g: &Graph) -> Graph {
    let mut t: Graph = vec![vec![]; g.len()];
    for (x, l) in g.iter().enumerate() { for &y in l { t[y].push(x); } }
    for l in t.iter_mut() { l.sort_unstable(); l.dedup(); }
    t
}

fn symmetrize(g: &Graph, no_loops: bool) -> Graph {
    let t = transpose(g);
    let mut r: Graph = Vec::new();
    for x in 0..g.len() {
        let mut l: Vec<usize> = g[x].iter().chain(t[x].iter()).copied().filter(|&y| !(no_loops && y == x)).collect();
        l.sort_unstable(); l.dedup();
        r.push(l);
    }
    r
}

fn map_graph(g: &Graph, f: &[usize], n2: usize) -> Graph {
    let mut r: Graph = vec![vec![]; n2];
    for (x, l) in g.iter().enumerate() { for &y in l { r[f[x]].push(f[y]); } }
    for l in r.iter_mut() { l.sort_unstable(); l.dedup(); }
    r
}

struct Ctx<'a, W: Write> { out: &'a mut W, dir: PathBuf, case: String, step: usize }

impl<'a, W: Write> Ctx<'a, W> {
    /// Emits the file set at `base` as an art case expected to decode to `g`.
    fn emit_set(&mut self, name: &str, base: &Path, g: &Graph, e: &Exec, intended: &Conf, extra: &str) {
        let (zuck, chunk) = (intended.zuck, intended.chunk);
        self.step += 1;
        let id = format!("{}-{}-{}", self.case, self.step, name);
        let status = if e.code == 0 { "ok".to_string() } else { format!("err:exit{}_{}", e.code, sanitize(e.stderr.lines().last().unwrap_or(""))) };
        let a = read_artefact(base, status.clone());
        let c = conf_from_props(base, zuck, chunk).unwrap_or(intended.clone());
        let mut buf: Vec<u8> = Vec::new();
        emit(&mut buf, &id, &format!("cli_{name}"), &c, g, &[0, g.len()], &a);
        let mut line = String::from_utf8(buf).unwrap();
        // a selection comparison only makes sense for sequential single-chunk compression
        line = line.replace("comp=greedy", "comp=any").replace("comp=zuck", "comp=any");
        let line = line.trim_end().to_string() + " " + extra;
        writeln!(self.out, "{}", line.trim_end()).unwrap();
        // reload through the library
        let reload = if e.code == 0 { crate::art::reload_seq_base(base, c.le) } else { Err("skipped".into()) };
        let rl = match reload { Ok(g2) => if &g2 == g { "ok".to_string() } else { format!("diff:{}", sanitize(&fmt_lists(&g2))) }, Err(e) => e };
        writeln!(self.out, "#impl id={id} reload={rl}").unwrap();
    }
    fn note(&mut self, name: &str, kv: &str) {
        self.step += 1;
        writeln!(self.out, "clistep id={}-{}-{} {}", self.case, self.step, name, kv).unwrap();
    }
}

pub fn run(seed: u64, count: usize, max_n: usize, out: &mut impl Write) {
    let mut rng = Rng::new(seed ^ 0xC11);
    let tmp = tempfile::Builder::new().prefix("wgverif-cli").tempdir().unwrap();
    for i in 0..count {
        let n = rng.range(1, max_n.max(2));
        let g = gen_graph(&mut rng, n);
        let dir = tmp.path().join(format!("c{i}"));
        std::fs::create_dir_all(&dir).unwrap();
        let mut cx = Ctx { out, dir: dir.clone(), case: format!("cli{i}"), step: 0 };
        let threads = rng.pick(&[1usize, 1, 2, 16]);
        let t = threads.to_string();
        // 1. from arcs: shuffled arcs with duplicates, tab separated
        let mut arcs: Vec<(usize, usize)> = g.iter().enumerate().flat_map(|(x, l)| l.iter().map(move |&y| (x, y))).collect();
        let dups = rng.below(arcs.len() / 3 + 1);
        for _ in 0..dups { if !arcs.is_empty() { let a = arcs[rng.below(arcs.len())]; arcs.push(a); } }
        rng.shuffle(&mut arcs);
        // input-format options of the ingester: comment lines anywhere (ignored), and, one case
        // in four, --lines-to-skip S / --max-arcs K, which select arcs S .. S+K of the list
        // (comment lines are not counted by either, as documented)
        let all_arcs = arcs.clone();
        let (skip, maxa) = if arcs.len() >= 2 && rng.chance(1, 4) {
            let sk = if rng.chance(1, 2) { rng.below(arcs.len() / 2 + 1) } else { 0 };
            let mx = if rng.chance(2, 3) { Some(rng.range(1, arcs.len() - sk)) } else { None };
            (sk, mx)
        } else { (0, None) };
        let arcs: Vec<(usize, usize)> = all_arcs.iter().skip(skip).take(maxa.unwrap_or(usize::MAX)).copied().collect();
        let g: Graph = {
            let mut h: Graph = vec![Vec::new(); n];
            for &(x, y) in &arcs { h[x].push(y); }
            for l in h.iter_mut() { l.sort_unstable(); l.dedup(); }
            h
        };
        // (no comment lines together with --lines-to-skip: the documentation says comment lines
        // are not counted, the implementation skips raw lines; neither reading is asserted)
        let comments = rng.chance(1, 3) && skip == 0;
        let mut text = String::new();
        if comments && rng.chance(1, 2) { text.push_str("# arcs\n"); }
        for (a, b) in &all_arcs {
            text.push_str(&format!("{a}\t{b}\n"));
            if comments && rng.chance(1, 4) { text.push_str("#\tcomment\t7\n"); }
        }
        let mut c0 = Conf::random(&mut rng, n);
        c0.codes[3] = Codes::Gamma;
        let base0 = dir.join("g0");
        let mut a = vec![s("from"), s("arcs"), p(&base0), s("--num-nodes"), n.to_string(), s("-t"), t.clone()];
        if skip > 0 { a.push(s("--lines-to-skip")); a.push(skip.to_string()); }
        if let Some(k) = maxa { a.push(s("--max-arcs")); a.push(k.to_string()); }
        a.extend(comp_args(&c0));
        // malformed stream: the same input with a fault in the middle (a line that is not
        // valid UTF-8, or a non-numeric field) must make the command fail, not ingest a prefix
        if !arcs.is_empty() && rng.chance(1, 5) {
            let cut = text.as_bytes().iter().enumerate().filter(|(_, b)| **b == b'\n').map(|(i, _)| i + 1)
                .nth(rng.below(arcs.len().max(1))).unwrap_or(0);
            let mut bad: Vec<u8> = text.as_bytes()[..cut].to_vec();
            let kind = rng.below(2);
            if kind == 0 { bad.extend_from_slice(&[b'3', b'\t', 0xFF, 0xFE, b'\n']); } else { bad.extend_from_slice(b"1\tx7\n"); }
            bad.extend_from_slice(&text.as_bytes()[cut..]);
            let baseb = dir.join("bad");
            let mut ab = vec![s("from"), s("arcs"), p(&baseb), s("--num-nodes"), n.to_string(), s("-t"), t.clone()];
            ab.extend(comp_args(&c0));
            let eb = exec(&ab, Some(&bad), 60);
            cx.note("from_arcs_badinput", &format!("badexit={} kind={} bfiles={}", eb.code, if kind == 0 { "utf8" } else { "nonnumeric" },
                baseb.with_extension("properties").exists() as u8));
        }
        let e = exec(&a, Some(text.as_bytes()), 60);
        if arcs.is_empty() {
            // no arcs at all: recorded separately (the command writes nothing)
            cx.note("from_arcs_empty", &format!("exit={} files={}", e.code, base0.with_extension("graph").exists() as u8));
            continue;
        }
        cx.emit_set("from_arcs", &base0, &g, &e, &c0, &format!("threads={threads}"));
        if e.code != 0 { continue; }
        // 2. to arcs
        let e2 = exec(&[s("to"), s("arcs"), p(&base0)], None, 60);
        let listed: Vec<(usize, usize)> = String::from_utf8_lossy(&e2.stdout).lines()
            .filter_map(|l| { let mut it = l.split('\t'); Some((it.next()?.parse().ok()?, it.next()?.parse().ok()?)) }).collect();
        let mut expect: Vec<(usize, usize)> = arcs.clone(); expect.sort_unstable(); expect.dedup();
        cx.note("to_arcs", &format!("exit={} arcs={}", e2.code, if listed == expect { "ok".to_string() } else { format!("FAIL({}vs{})", listed.len(), expect.len()) }));
        // 3. build ef / dcf / offsets and check ef
        let e_ef = exec(&[s("build"), s("ef"), p(&base0)], None, 60);
        let e_dcf = exec(&[s("build"), s("dcf"), p(&base0)], None, 60);
        let e_chk = exec(&[s("check"), s("ef"), p(&base0)], None, 60);
        let ef = read_ef(&base0);
        let dcf = read_dcf(&base0);
        let _ = std::fs::remove_file(base0.with_extension("offsets"));
        // without an .offsets file `build ef` scans the graph itself
        let _ = std::fs::remove_file(base0.with_extension("ef"));
        let e_ef2 = exec(&[s("build"), s("ef"), p(&base0)], None, 60);
        let ef2 = read_ef(&base0);
        let e_off = exec(&[s("build"), s("offsets"), p(&base0)], None, 60);
        let extra = format!("ef={} ef2={} dcf={} exits={},{},{},{},{}",
            match &ef { Ok(v) => fmt_ints(v), Err(e) => e.clone() },
            match &ef2 { Ok(v) => fmt_ints(v), Err(e) => e.clone() },
            match &dcf { Ok(v) => fmt_ints(v), Err(e) => e.clone() },
            e_ef.code, e_dcf.code, e_chk.code, e_off.code, e_ef2.code);
        cx.emit_set("build", &base0, &g, &e_off, &c0, &extra);
        // 4. to bvgraph (recompression), optionally sequential / dcf / with permutation
        let mut c1 = Conf::random(&mut rng, n);
        c1.codes[3] = Codes::Gamma;
        let base1 = dir.join("g1");
        let variant = rng.below(4);
        let mut a = vec![s("to"), s("bvgraph"), p(&base0), p(&base1), s("-t"), rng.pick(&[1usize, 2, 16]).to_string()];
        let mut g1 = g.clone();
        match variant {
            0 => a.push(s("-s")),
            1 => a.push(s("--dcf")),
            2 => {
                let mut perm: Vec<usize> = (0..n).collect(); rng.shuffle(&mut perm);
                let pp = dir.join("perm.txt");
                std::fs::write(&pp, perm.iter().map(|x| format!("{x}\n")).collect::<String>()).unwrap();
                a.push(s("--permutation")); a.push(p(&pp));
                g1 = map_graph(&g, &perm, n);
            }
            _ => {}
        }
        a.extend(comp_args(&c1));
        let e = exec(&a, None, 60);
        let xinfo = if variant == 2 {
            let perm: Vec<usize> = std::fs::read_to_string(dir.join("perm.txt")).unwrap().lines().map(|l| l.parse().unwrap()).collect();
            format!("xsrc={} xop=perm:{}", fmt_lists(&g), fmt_ints(&perm))
        } else { format!("xsrc={} xop=id", fmt_lists(&g)) };
        cx.emit_set(&format!("to_bvgraph_v{variant}"), &base1, &g1, &e, &c1, &xinfo);
        // 5. to endianness
        let base2 = dir.join("g2");
        let e = exec(&[s("to"), s("endianness"), p(&base0), p(&base2)], None, 60);
        let mut c2 = c0.clone(); c2.le = !c0.le; c2.zuck = false; c2.chunk = 0;
        cx.emit_set("to_endianness", &base2, &g, &e, &c2, "");
        if e.code == 0 {
            let e_ef = exec(&[s("build"), s("ef"), p(&base2)], None, 60);
            let e_chk = exec(&[s("check"), s("ef"), p(&base2)], None, 60);
            cx.note("endianness_check_ef", &format!("exits={},{}", e_ef.code, e_chk.code));
        }
        // 6. transforms
        let mut c3 = Conf::random(&mut rng, n);
        c3.codes[3] = Codes::Gamma;
        let which = rng.below(5);
        let base3 = dir.join("g3");
        let tt = rng.pick(&[1usize, 2, 16]).to_string();
        let mut xop = String::new();
        let (name, mut a, g3): (&str, Vec<String>, Graph) = match which {
            0 => { xop = "transpose".into(); ("transpose", vec![s("transform"), s("transpose"), p(&base0), p(&base3), s("-t"), tt], transpose(&g)) }
            1 => { xop = "symm".into(); ("symmetrize", vec![s("transform"), s("symmetrize"), p(&base0), p(&base3), s("-t"), tt], symmetrize(&g, false)) }
            2 => { xop = "symmnl".into(); ("symmetrize_noloops", vec![s("transform"), s("symmetrize"), p(&base0), p(&base3), s("--no-loops"), s("-t"), tt], symmetrize(&g, true)) }
            3 => {
                let mut perm: Vec<usize> = (0..n).collect(); rng.shuffle(&mut perm);
                let pp = dir.join("perm2.txt");
                std::fs::write(&pp, perm.iter().map(|x| format!("{x}\n")).collect::<String>()).unwrap();
                xop = format!("perm:{}", fmt_ints(&perm));
                ("perm", vec![s("transform"), s("perm"), p(&base0), p(&base3), p(&pp), s("-t"), tt], map_graph(&g, &perm, n))
            }
            _ => {
                let n2 = rng.range(1, n + 3);
                let f: Vec<usize> = (0..n).map(|_| rng.below(n2)).collect();
                let pp = dir.join("map.txt");
                std::fs::write(&pp, f.iter().map(|x| format!("{x}\n")).collect::<String>()).unwrap();
                xop = format!("map:{}:{}", n2, fmt_ints(&f));
                // a declared number of nodes that the map exceeds cannot be honoured: the
                // command must fail (exit status != 0), not write a graph with successors
                // outside its node range
                if rng.chance(4, 5) {
                    let top = *f.iter().max().unwrap();
                    let m = if rng.chance(2, 3) { top } else { rng.below(top + 1) };
                    let baseb = dir.join("badmap");
                    let mut ab = vec![s("transform"), s("map"), p(&base0), p(&baseb), p(&pp), s("--num-nodes"), m.to_string(), s("-t"), s("1")];
                    if rng.chance(1, 2) { ab.push(s("-s")); }
                    let eb = exec(&ab, None, 60);
                    cx.note("map_badnum", &format!("badexit={} kind=numnodes{}of{} bfiles={}", eb.code, m, top + 1,
                        baseb.with_extension("properties").exists() as u8));
                }
                ("map", vec![s("transform"), s("map"), p(&base0), p(&base3), p(&pp), s("--num-nodes"), n2.to_string(), s("-t"), tt], map_graph(&g, &f, n2))
            }
        };
        if rng.chance(1, 3) { a.push(s("-s")); }
        // symmetrization with a precomputed transpose (--transpose): the transpose is built
        // with the CLI itself; if that fails the step is run without the option
        if (which == 1 || which == 2) && rng.chance(1, 2) {
            let base_t = dir.join("gt");
            let et = exec(&[s("transform"), s("transpose"), p(&base0), p(&base_t), s("-t"), s("2")], None, 60);
            let ee = if et.code == 0 { exec(&[s("build"), s("ef"), p(&base_t)], None, 60).code } else { 1 };
            if et.code == 0 && ee == 0 { a.push(s("--transpose")); a.push(p(&base_t)); }
        }
        a.extend(comp_args(&c3));
        let e = exec(&a, None, 60);
        cx.emit_set(name, &base3, &g3, &e, &c3, &format!("xsrc={} xop={}", fmt_lists(&g), xop));
        let _ = std::fs::remove_dir_all(&cx.dir);
    }
}
