//! Channel "lab": labelled compression (C07).  A random labelled graph is compressed
//! through `comp_labeled_graph` / `comp_labeled_lender` / `par_comp_labeled` with a
//! `BitStreamStoreLabelsConf` (plain or zstd-compressed parts; fixed-width labels of 1..64
//! bits or a γ-coded custom serializer), then read back through
//! `Zip(BvGraphSeq, BitStreamLabelingSeq)` and `Zip(BvGraph, BitStreamLabeling)`.  The
//! case line carries the input, the bytes of the graph, label and label-offsets files and
//! everything that was read back.
use crate::art::{gen_cuts, props_get, with_job_order, Conf};
use crate::util::*;
use anyhow::Result;
use dsi_bitstream::prelude::*;
use dsi_progress_logger::no_logging;
use std::fmt::Write as _;
use std::fs::File;
use std::io::{BufReader, BufWriter, Write};
use std::path::Path;
use webgraph::graphs::bvgraph::store_ef_with_data;
use webgraph::graphs::vec_graph::LabeledVecGraph;
use webgraph::prelude::*;

pub type LGraph = Vec<Vec<(usize, u64)>>;

/// A custom variable-length label serializer: γ code of the value.
#[derive(Clone, Copy, Debug)]
pub struct GammaSer;

impl<E: Endianness, BW: BitWrite<E> + GammaWrite<E>> BitSerializer<E, BW> for GammaSer {
    type SerType = u64;
    fn serialize(&self, value: &u64, bitstream: &mut BW) -> Result<usize, BW::Error> {
        bitstream.write_gamma(*value)
    }
    fn name(&self) -> String {
        "GammaSer".to_string()
    }
}

impl<E: Endianness, BR: BitRead<E> + GammaRead<E>> BitDeserializer<E, BR> for GammaSer {
    type DeserType = u64;
    fn deserialize(&self, bitstream: &mut BR) -> Result<u64, BR::Error> {
        bitstream.read_gamma()
    }
    fn name(&self) -> String {
        "GammaSer".to_string()
    }
}

#[derive(Clone, Copy, Debug, PartialEq)]
pub enum Ser {
    Fixed(usize),
    Gamma,
}

impl Ser {
    fn describe(&self) -> String {
        match self {
            Ser::Fixed(w) => format!("F{w}"),
            Ser::Gamma => "G".to_string(),
        }
    }
    fn name(&self) -> String {
        match self {
            Ser::Fixed(64) => "FixedWidth<u64>".to_string(),
            Ser::Fixed(w) => format!("FixedWidth<u64>({w})"),
            Ser::Gamma => "GammaSer".to_string(),
        }
    }
}

pub enum How {
    CompGraph,
    CompLender,
    /// explicit cutpoints, pool size, optional imposed completion order
    Par { cuts: Vec<usize>, threads: usize, order: Option<Vec<usize>> },
    /// `ParGraph::new(g, parts)`
    ParUniform { parts: usize, threads: usize },
    /// `&LabeledVecGraph` itself: one lender per thread of the current pool
    ParDefault { threads: usize },
}

pub fn fmt_lgraph(g: &[Vec<(usize, u64)>]) -> String {
    if g.len() == 1 && g[0].is_empty() {
        return "-".to_string();
    }
    let mut s = String::new();
    for (i, l) in g.iter().enumerate() {
        if i > 0 { s.push(';'); }
        for (j, (y, lab)) in l.iter().enumerate() {
            if j > 0 { s.push(','); }
            write!(s, "{y}:{lab:x}").unwrap();
        }
    }
    s
}

pub fn fmt_hexlists(g: &[Vec<u64>]) -> String {
    if g.len() == 1 && g[0].is_empty() {
        return "-".to_string();
    }
    let mut s = String::new();
    for (i, l) in g.iter().enumerate() {
        if i > 0 { s.push(';'); }
        for (j, lab) in l.iter().enumerate() {
            if j > 0 { s.push(','); }
            write!(s, "{lab:x}").unwrap();
        }
    }
    s
}

fn lvec_graph(lg: &LGraph) -> LabeledVecGraph<u64> {
    let mut vg = LabeledVecGraph::<u64>::empty(lg.len());
    for (x, l) in lg.iter().enumerate() {
        for &(y, lab) in l {
            vg.add_arc(x, y, lab);
        }
    }
    vg
}

fn conf_builder(base: &Path, c: &Conf) -> BvCompConf {
    let mut b = BvComp::with_basename(base).comp_flags(c.flags());
    if c.zuck {
        b = b.bvgraphz().chunk_size(c.chunk);
    }
    b
}

fn run_with<E: Endianness, SLC>(base: &Path, c: &Conf, lvg: LabeledVecGraph<u64>, how: &How, slc: SLC) -> Result<u64>
where
    SLC: StoreLabelsConf + Send + Sync,
    SLC::StoreLabels: StoreLabels<Label = u64> + Send,
    BufBitWriter<E, WordAdapter<usize, BufWriter<File>>>: CodesWrite<E>,
    BufBitReader<E, WordAdapter<u32, BufReader<File>>>: BitRead<E>,
{
    let mut b = conf_builder(base, c);
    let n = lvg.num_nodes();
    match how {
        How::CompGraph => b.comp_labeled_graph::<E, _, _>(&lvg, slc),
        How::CompLender => {
            // the expected number of nodes is only a hint for the progress logger: exact,
            // absent, too large or too small, the output must be the same (the choice is a
            // function of the input so that replays reproduce it)
            let hint = match (n + lvg.num_arcs() as usize) % 4 { 0 => None, 1 => Some(n), 2 => Some(n + 3), _ => Some(n.saturating_sub(2)) };
            b.comp_labeled_lender::<E, _, _>(lvg.iter(), slc, hint)
        }
        How::Par { cuts, threads, order } => {
            let pg = ParGraph::with_cutpoints(lvg, cuts.clone());
            let pool = rayon::ThreadPoolBuilder::new().num_threads(*threads).build()?;
            with_job_order(order.clone(), || pool.install(|| b.par_comp_labeled::<E, _, _>(&pg, slc)))
        }
        How::ParUniform { parts, threads } => {
            let pg = ParGraph::new(lvg, *parts);
            let pool = rayon::ThreadPoolBuilder::new().num_threads(*threads).build()?;
            pool.install(|| b.par_comp_labeled::<E, _, _>(&pg, slc))
        }
        How::ParDefault { threads } => {
            let pool = rayon::ThreadPoolBuilder::new().num_threads(*threads).build()?;
            pool.install(|| b.par_comp_labeled::<E, _, _>(&lvg, slc))
        }
    }
}

#[derive(Default)]
pub struct ReadBack {
    /// labels alone, sequential labeling
    pub lseq: Vec<Vec<u64>>,
    /// `Zip(BvGraphSeq, BitStreamLabelingSeq)`, sequential iteration
    pub zseq: LGraph,
    /// labels alone, random access
    pub lra: Vec<Vec<u64>>,
    /// outdegrees according to the random-access labeling
    pub ldeg: Vec<usize>,
    /// `Zip(BvGraph, BitStreamLabeling)`, `labels(x)` for every node
    pub zra: LGraph,
    /// the same zip iterated sequentially
    pub zras: LGraph,
    /// `Zip::verify` of both zips
    pub verify: (bool, bool),
    /// `iter_from(n / 2)` of the sequential and of the random-access labeling
    pub from_seq: Vec<Vec<u64>>,
    pub from_ra: Vec<Vec<u64>>,
}

macro_rules! read_back {
    ($E:ty, $deser:expr, $base:expr, $lbase:expr, $n:expr) => {{
        (|| -> Result<ReadBack> {
            let mut rb = ReadBack::default();
            let seq = BvGraphSeq::with_basename($base).endianness::<$E>().load()?;
            let lab = BitStreamLabelingSeq::<$E, _, _>::load($lbase, $deser)?;
            {
                let mut it = lab.iter();
                while let Some((_x, ls)) = lender::Lender::next(&mut it) {
                    rb.lseq.push(ls.into_iter().collect::<Vec<u64>>());
                }
            }
            {
                let mut it = lab.iter_from($n / 2);
                while let Some((_x, ls)) = lender::Lender::next(&mut it) {
                    rb.from_seq.push(ls.into_iter().collect::<Vec<u64>>());
                }
            }
            let z = Zip(seq, lab);
            {
                let mut it = z.iter();
                while let Some((_x, sl)) = lender::Lender::next(&mut it) {
                    rb.zseq.push(sl.into_iter().collect::<Vec<(usize, u64)>>());
                }
            }
            rb.verify.0 = z.verify();
            store_ef_with_data($n, $base.with_extension("graph"), $base.with_extension("offsets"),
                $base.with_extension("ef"), &mut no_logging![])?;
            store_ef_with_data($n, $lbase.with_extension("labels"), $lbase.with_extension("offsets"),
                $lbase.with_extension("ef"), &mut no_logging![])?;
            let ra = BvGraph::with_basename($base).endianness::<$E>().load()?;
            let rlab = BitStreamLabeling::<$E, _, _, _>::load($lbase, $deser)?;
            for x in 0..$n {
                rb.lra.push(RandomAccessLabeling::labels(&rlab, x).collect::<Vec<u64>>());
                rb.ldeg.push(RandomAccessLabeling::outdegree(&rlab, x));
            }
            {
                let mut it = rlab.iter_from($n / 2);
                while let Some((_x, ls)) = lender::Lender::next(&mut it) {
                    rb.from_ra.push(ls.into_iter().collect::<Vec<u64>>());
                }
            }
            let rz = Zip(ra, rlab);
            for x in 0..$n {
                rb.zra.push(RandomAccessLabeling::labels(&rz, x).collect::<Vec<(usize, u64)>>());
            }
            {
                let mut it = rz.iter();
                while let Some((_x, sl)) = lender::Lender::next(&mut it) {
                    rb.zras.push(sl.into_iter().collect::<Vec<(usize, u64)>>());
                }
            }
            rb.verify.1 = rz.verify();
            Ok(rb)
        })()
    }};
}

macro_rules! dispatch {
    ($E:ty, $base:expr, $lbase:expr, $c:expr, $lg:expr, $how:expr, $ser:expr, $zstd:expr) => {{
        let lvg = lvec_graph($lg);
        let n = $lg.len();
        let comp: Result<u64> = match ($ser, $zstd) {
            (Ser::Fixed(w), false) => run_with::<$E, _>($base, $c, lvg, $how,
                BitStreamStoreLabelsConf::<$E, _>::new(FixedWidth::<u64>::with_bits(w))),
            (Ser::Fixed(w), true) => run_with::<$E, _>($base, $c, lvg, $how,
                BitStreamStoreLabelsConf::<$E, _>::new(FixedWidth::<u64>::with_bits(w)).zstd()),
            (Ser::Gamma, false) => run_with::<$E, _>($base, $c, lvg, $how,
                BitStreamStoreLabelsConf::<$E, _>::new(GammaSer)),
            (Ser::Gamma, true) => run_with::<$E, _>($base, $c, lvg, $how,
                BitStreamStoreLabelsConf::<$E, _>::new(GammaSer).zstd()),
        };
        match comp {
            Err(e) => (Err(e), None),
            Ok(bits) => {
                let rb = catch(std::panic::AssertUnwindSafe(|| match $ser {
                    Ser::Fixed(w) => read_back!($E, FixedWidth::<u64>::with_bits(w), $base, $lbase, n),
                    Ser::Gamma => read_back!($E, GammaSer, $base, $lbase, n),
                }));
                (Ok(bits), Some(rb))
            }
        }
    }};
}

pub struct Outcome {
    pub status: String,
    pub written_bits: u64,
    pub graph: Vec<u8>,
    pub offsets: Vec<u8>,
    pub props: String,
    pub labels: Vec<u8>,
    pub loffsets: Vec<u8>,
    pub lprops: String,
    pub rstatus: String,
    pub rb: ReadBack,
    pub leftovers: usize,
}

pub fn produce(dir: &Path, c: &Conf, lg: &LGraph, how: &How, ser: Ser, zstd: bool) -> Outcome {
    let base = dir.join("g");
    let lbase = BvCompConf::default_labels_basename(&base);
    for (b, exts) in [(&base, ["graph", "offsets", "properties", "ef"]), (&lbase, ["labels", "offsets", "properties", "ef"])] {
        for ext in exts {
            let _ = std::fs::remove_file(b.with_extension(ext));
        }
    }
    let res = catch(std::panic::AssertUnwindSafe(|| {
        if c.le {
            dispatch!(LE, &base, &lbase, c, lg, how, ser, zstd)
        } else {
            dispatch!(BE, &base, &lbase, c, lg, how, ser, zstd)
        }
    }));
    let mut rb = ReadBack::default();
    let mut rstatus = "skipped".to_string();
    let (status, bits) = match res {
        Ok((Ok(b), r)) => {
            match r {
                Some(Ok(Ok(x))) => { rb = x; rstatus = "ok".into(); }
                Some(Ok(Err(e))) => { rstatus = format!("err:{}", sanitize(&format!("{e:#}"))); }
                Some(Err(p)) => { rstatus = format!("panic:{}", sanitize(&p)); }
                None => {}
            }
            ("ok".to_string(), b)
        }
        Ok((Err(e), _)) => (format!("err:{}", sanitize(&format!("{e:#}"))), 0),
        Err(p) => (format!("panic:{}", sanitize(&p)), 0),
    };
    // part files must have been consumed: nothing but the final files in the directory
    let leftovers = std::fs::read_dir(dir).map(|d| d.filter_map(|e| e.ok())
        .filter(|e| {
            let name = e.file_name().to_string_lossy().to_string();
            !(name.starts_with("g.") || name.starts_with("g-labels."))
        }).count()).unwrap_or(0);
    Outcome {
        status,
        written_bits: bits,
        graph: std::fs::read(base.with_extension("graph")).unwrap_or_default(),
        offsets: std::fs::read(base.with_extension("offsets")).unwrap_or_default(),
        props: std::fs::read_to_string(base.with_extension("properties")).unwrap_or_default(),
        labels: std::fs::read(lbase.with_extension("labels")).unwrap_or_default(),
        loffsets: std::fs::read(lbase.with_extension("offsets")).unwrap_or_default(),
        lprops: std::fs::read_to_string(lbase.with_extension("properties")).unwrap_or_default(),
        rstatus,
        rb,
        leftovers,
    }
}

#[allow(clippy::too_many_arguments)]
pub fn emit(out: &mut impl Write, id: &str, path: &str, c: &Conf, lg: &LGraph, cuts: &[usize], threads: usize,
            order: &Option<Vec<usize>>, ser: Ser, zstd: bool, o: &Outcome) {
    let glen = props_get(&o.props, "length").and_then(|v| v.parse::<u64>().ok()).unwrap_or(o.written_bits);
    let arcs: usize = lg.iter().map(|l| l.len()).sum();
    write!(out,
        "lab id={id} path={path} {} ser={} zstd={} n={} arcs={} cuts={} threads={} order={} status={} lg={} glen={} graph={} offsets={} \
         pnodes={} parcs={} labels={} loffsets={} llen={} lnodes={} larcs={} lser={} lend={} sername={} rstatus={}",
        c.describe(), ser.describe(), zstd as u8, lg.len(), arcs, fmt_ints(cuts), threads,
        match order { Some(o) => if o.is_empty() { "-".to_string() } else { fmt_ints(o) }, None => "os".to_string() },
        o.status, fmt_lgraph(lg), glen, hex(&o.graph), hex(&o.offsets),
        props_get(&o.props, "nodes").unwrap_or("?".into()), props_get(&o.props, "arcs").unwrap_or("?".into()),
        hex(&o.labels), hex(&o.loffsets),
        props_get(&o.lprops, "length").unwrap_or("?".into()), props_get(&o.lprops, "nodes").unwrap_or("?".into()),
        props_get(&o.lprops, "arcs").unwrap_or("?".into()),
        sanitize(&props_get(&o.lprops, "serializer").unwrap_or("?".into())),
        props_get(&o.lprops, "endianness").unwrap_or("?".into()),
        sanitize(&ser.name()), o.rstatus).unwrap();
    if o.rstatus == "ok" {
        write!(out, " fromseq={} fromra={}", fmt_hexlists(&o.rb.from_seq), fmt_hexlists(&o.rb.from_ra)).unwrap();
        write!(out, " zseq={} lseq={} zra={} lra={} zras={} ldeg={} verify={}{} leftovers={}",
            fmt_lgraph(&o.rb.zseq), fmt_hexlists(&o.rb.lseq), fmt_lgraph(&o.rb.zra), fmt_hexlists(&o.rb.lra),
            fmt_lgraph(&o.rb.zras), fmt_ints(&o.rb.ldeg), o.rb.verify.0 as u8, o.rb.verify.1 as u8, o.leftovers).unwrap();
    }
    writeln!(out).unwrap();
}

pub const WIDTHS: [usize; 7] = [1, 3, 7, 8, 13, 32, 64];

fn gen_label(rng: &mut Rng, ser: Ser) -> u64 {
    match ser {
        Ser::Fixed(w) => {
            let mask = if w == 64 { u64::MAX } else { (1u64 << w) - 1 };
            match rng.below(8) {
                0 => 0,
                1 => mask,
                2 => mask >> 1,
                3 => (mask >> 1).wrapping_add(1) & mask,
                _ => rng.next() & mask,
            }
        }
        Ser::Gamma => {
            // values of very different code lengths, so that offsets are irregular
            let k = rng.below(41);
            let v = rng.next() & ((1u64 << k) - 1).max(0);
            if rng.chance(1, 6) { 0 } else { v }
        }
    }
}

pub fn gen_lgraph(rng: &mut Rng, n: usize, ser: Ser) -> LGraph {
    let g = gen_graph(rng, n);
    g.into_iter().map(|l| l.into_iter().map(|y| (y, gen_label(rng, ser))).collect()).collect()
}

fn gen_ser(rng: &mut Rng) -> Ser {
    if rng.chance(1, 5) { Ser::Gamma } else {
        if rng.chance(1, 8) { Ser::Fixed(rng.range(1, 64)) } else { Ser::Fixed(rng.pick(&WIDTHS)) }
    }
}

/// Codes that the properties file of either endianness can name (so that no case is a
/// legitimate refusal).
fn nameable_conf(rng: &mut Rng, n: usize) -> Conf {
    Conf::random(rng, n)
}

fn permutations(items: &[usize], cur: &mut Vec<usize>, out: &mut Vec<Vec<usize>>) {
    if cur.len() == items.len() { out.push(cur.clone()); return; }
    for &x in items {
        if !cur.contains(&x) { cur.push(x); permutations(items, cur, out); cur.pop(); }
    }
}

pub fn run(seed: u64, count: usize, max_n: usize, mode: &str, out: &mut impl Write) {
    let mut rng = Rng::new(seed ^ 0x1AB);
    let dir = tempfile::Builder::new().prefix("wgverif-lab").tempdir().unwrap();
    if mode == "parperm" {
        // every completion order of up to 4 chunks (24 orders), uneven cuts with empty segments
        for i in 0..count {
            let n = rng.range(4, max_n.max(5));
            let ser = gen_ser(&mut rng);
            let lg = gen_lgraph(&mut rng, n, ser);
            let mut c = nameable_conf(&mut rng, n);
            c.chunk = rng.pick(&[1, 2, 3, 10000]);
            let zstd = rng.chance(1, 2);
            let k = rng.range(2, 4);
            let mut cuts: Vec<usize> = (0..k - 1).map(|_| rng.below(n + 1)).collect();
            cuts.push(0); cuts.push(n); cuts.sort_unstable();
            let nonempty: Vec<usize> = (0..k).filter(|&j| cuts[j] < cuts[j + 1]).collect();
            let mut perms: Vec<Vec<usize>> = Vec::new();
            permutations(&nonempty, &mut Vec::new(), &mut perms);
            for (pi, order) in perms.into_iter().enumerate() {
                let order = Some(order);
                let how = How::Par { cuts: cuts.clone(), threads: k + 1, order: order.clone() };
                let o = produce(dir.path(), &c, &lg, &how, ser, zstd);
                emit(out, &format!("lperm{i}-{pi}"), "par_cut", &c, &lg, &cuts, k + 1, &order, ser, zstd, &o);
            }
        }
        return;
    }
    for i in 0..count {
        let big = mode == "big";
        let n = if big { rng.range(max_n / 2, max_n) } else if rng.chance(1, 10) { rng.below(3) } else { rng.range(1, max_n) };
        // big: label parts beyond the 8 KiB writer buffers
        let ser = if big { rng.pick(&[Ser::Fixed(64), Ser::Fixed(32), Ser::Fixed(61), Ser::Gamma]) } else { gen_ser(&mut rng) };
        let lg = gen_lgraph(&mut rng, n, ser);
        let c = nameable_conf(&mut rng, n);
        // the sequential entry points have no part files: a zstd configuration is sampled less often there
        let zstd = if mode == "seq" { rng.chance(1, 6) } else { rng.chance(1, 2) };
        let zstd = if big { rng.chance(2, 3) } else { zstd };
        let seq_path = mode == "seq" || (big && !zstd && rng.chance(1, 3));
        let (how, path, cuts, threads, order): (How, &str, Vec<usize>, usize, Option<Vec<usize>>) = match seq_path {
            true => {
                if rng.chance(1, 2) { (How::CompGraph, "comp_labeled_graph", vec![0, n], 1, None) }
                else { (How::CompLender, "comp_labeled_lender", vec![0, n], 1, None) }
            }
            _ => {
                let pick = rng.below(10);
                if pick == 0 {
                    let parts = rng.range(1, 2 * n + 3);
                    let step = n.div_ceil(parts);
                    let ucuts: Vec<usize> = (0..=parts).map(|i| (i * step).min(n)).collect();
                    let threads = rng.range(1, 16);
                    (How::ParUniform { parts, threads }, "par_uniform", ucuts, threads, None)
                } else if pick == 1 {
                    let threads = rng.range(1, 16);
                    let step = n.div_ceil(threads);
                    let ucuts: Vec<usize> = (0..=threads).map(|i| (i * step).min(n)).collect();
                    (How::ParDefault { threads }, "par_default", ucuts, threads, None)
                } else {
                    let inner = rng.chance(1, 2);
                    let cuts = gen_cuts(&mut rng, n, inner);
                    let chunks = cuts.len() - 1;
                    let impose = chunks <= 12 && rng.chance(2, 3);
                    let threads = if impose { chunks.max(1) + rng.below(3) } else { rng.range(1, 16) };
                    let order = if impose {
                        let mut o: Vec<usize> = (0..chunks).filter(|&j| cuts[j] < cuts[j + 1]).collect();
                        rng.shuffle(&mut o);
                        Some(o)
                    } else { None };
                    (How::Par { cuts: cuts.clone(), threads, order: order.clone() }, "par_cut", cuts, threads, order)
                }
            }
        };
        let o = produce(dir.path(), &c, &lg, &how, ser, zstd);
        emit(out, &format!("l{mode}{i}"), path, &c, &lg, &cuts, threads, &order, ser, zstd, &o);
    }
}
