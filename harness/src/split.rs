//! Channel "split" (C10): every `SplitLabeling` / `IntoParLenders` implementor and wrapper
//! is split at generated cutpoint sequences (`split_iter_at`), uniformly (`split_iter`)
//! and through `into_par_lenders`; `par_node_apply` / `par_apply` are run with a recording
//! closure.  Each case line carries the input (graphs, permutation, cutpoints), the
//! full sequential scan computed through `iter()`, and what the implementation returned.
//!
//! Line kinds (first token): `split` (parts of a labeling: op=at|k|ipl|ipl_cp|ipl_dcf),
//! `ranges` (node ranges handed to the closure of `par_node_apply`), `chunks` (the same
//! for `par_apply`).
use crate::art::vec_graph;
use crate::util::*;
use dsi_bitstream::prelude::*;
use dsi_progress_logger::no_logging;
use lender::*;
use std::io::Write;
use std::panic::AssertUnwindSafe;
use std::sync::Mutex;
use webgraph::graphs::arc_list_graph::ArcListGraph;
use webgraph::graphs::union_graph::UnionGraph;
use webgraph::graphs::vec_graph::LabeledVecGraph;
use webgraph::graphs::btree_graph::LabeledBTreeGraph;
use webgraph::graphs::csr_graph::CompressedCsrGraph;
use webgraph::prelude::*;
use webgraph::traits::graph::{UnitLabelGraph, UnitLabelParLenders};

type Part = Vec<(usize, Vec<usize>)>;

/// `x:1,2;y:;z:3`
fn fmt_part(p: &Part) -> String {
    p.iter().map(|(x, s)| format!("{x}:{}", fmt_ints(s))).collect::<Vec<_>>().join(";")
}

/// parts separated by `/`; no part at all is `none`
fn fmt_parts(ps: &[Part]) -> String {
    if ps.is_empty() { return "none".into(); }
    ps.iter().map(fmt_part).collect::<Vec<_>>().join("/")
}

macro_rules! collect_lender {
    ($l:expr) => {{
        let mut l = $l;
        let mut v: Part = Vec::new();
        while let Some((x, s)) = l.next() {
            v.push((x, s.into_iter().collect()));
        }
        v
    }};
}

/// The type-specific operations of one labeling, as closures over a concrete type.
struct Ops<'a> {
    n: usize,
    scan: &'a dyn Fn() -> Part,
    split_at: &'a dyn Fn(&[usize]) -> Vec<Part>,
    split_k: &'a dyn Fn(usize) -> Vec<Part>,
    /// into_par_lenders of `&G` inside the given pool
    ipl: Option<&'a dyn Fn(&rayon::ThreadPool) -> (Vec<Part>, Vec<usize>)>,
}

macro_rules! ops {
    ($g:expr, ipl) => {
        Ops {
            n: $g.num_nodes(),
            scan: &|| collect_lender!($g.iter()),
            split_at: &|c: &[usize]| $g.split_iter_at(c.iter().copied()).into_iter().map(|l| collect_lender!(l)).collect(),
            split_k: &|k: usize| $g.split_iter(k).into_iter().map(|l| collect_lender!(l)).collect(),
            ipl: Some(&|pool: &rayon::ThreadPool| {
                let (ls, bs) = pool.install(|| (&$g).into_par_lenders());
                (ls.into_vec().into_iter().map(|l| collect_lender!(l)).collect(), bs.into_vec())
            }),
        }
    };
    ($g:expr) => {
        Ops {
            n: $g.num_nodes(),
            scan: &|| collect_lender!($g.iter()),
            split_at: &|c: &[usize]| $g.split_iter_at(c.iter().copied()).into_iter().map(|l| collect_lender!(l)).collect(),
            split_k: &|k: usize| $g.split_iter(k).into_iter().map(|l| collect_lender!(l)).collect(),
            ipl: None,
        }
    };
}

fn panic_status(msg: &str) -> String {
    let kind = if msg.contains("at least 2") { "toofew" }
        else if msg.contains("non-decreasing") { "decreasing" }
        else if msg.contains("must be <= num_nodes") { "beyond" }
        else { "other" };
    format!("panic:{kind}:{}", sanitize(msg))
}

/// Legal cut sequences (non-decreasing, >= 2 elements, last <= n) of several styles.
fn gen_legal_cuts(rng: &mut Rng, n: usize) -> Vec<usize> {
    let style = rng.below(8);
    let len = match style {
        0 => 2,
        1 => rng.range(2, 4),
        2 => rng.range(n + 2, n + 6),          // more parts than nodes
        _ => rng.range(2, 9),
    };
    let mut cuts: Vec<usize> = (0..len).map(|_| rng.below(n + 1)).collect();
    match style {
        3 => { cuts[0] = 0; cuts[1] = n; }                    // full cover
        4 => { cuts[0] = 0; cuts[1] = n; let c = rng.below(n + 1); for x in cuts.iter_mut().skip(2) { *x = c; } } // repeats
        5 => { let c = rng.below(n + 1); for x in cuts.iter_mut() { *x = c; } } // all equal
        6 => { cuts[0] = n; }                                  // trailing empties
        _ => {}
    }
    cuts.sort_unstable();
    cuts
}

/// Malformed cut sequences: too few, decreasing, beyond the end.
fn gen_illegal_cuts(rng: &mut Rng, n: usize) -> Vec<usize> {
    match rng.below(4) {
        0 => if rng.chance(1, 2) { vec![] } else { vec![rng.below(n + 1)] },
        1 => {
            let mut c = gen_legal_cuts(rng, n.max(2));
            c.sort_unstable_by(|a, b| b.cmp(a));
            if c.windows(2).all(|w| w[0] <= w[1]) { c = vec![n.max(2), 0]; }
            c
        }
        2 => {
            let mut c = gen_legal_cuts(rng, n);
            let k = c.len();
            c[k - 1] = n + rng.range(1, 3);
            c
        }
        _ => {
            let mut c = gen_legal_cuts(rng, n + 3);
            if *c.last().unwrap() <= n { c.push(n + 2); }
            c
        }
    }
}

struct Ctx<'a, W: Write> {
    out: &'a mut W,
    id: usize,
    pools: &'a [(usize, rayon::ThreadPool)],
}

/// Exercises one labeling: `inputs` is the textual description of the inputs
/// (`shape=.. g0=.. ...`) understood by the model driver.
fn exercise<W: Write>(cx: &mut Ctx<W>, rng: &mut Rng, ops: &Ops, imp: &str, inputs: &str, reps: usize) {
    let n = ops.n;
    let scan = match catch(AssertUnwindSafe(|| (ops.scan)())) {
        Ok(s) => s,
        Err(m) => {
            writeln!(cx.out, "split id=s{} impl={imp} {inputs} op=scan n={n} status={}", cx.id, panic_status(&m)).unwrap();
            cx.id += 1;
            return;
        }
    };
    let scan_s = fmt_part(&scan);
    let mut emit = |cx: &mut Ctx<W>, op: &str, args: String, r: Result<(Vec<Part>, Option<Vec<usize>>), String>| {
        let (status, parts, bounds) = match r {
            Ok((ps, bs)) => ("ok".to_string(), fmt_parts(&ps), bs.map(|b| fmt_ints(&b)).unwrap_or("-".into())),
            Err(m) => (panic_status(&m), "none".into(), "-".into()),
        };
        writeln!(cx.out, "split id=s{} impl={imp} {inputs} op={op} {args} n={n} status={status} scan={scan_s} parts={parts} bounds={bounds}",
            cx.id).unwrap();
        cx.id += 1;
    };
    for r in 0..reps {
        // split_iter_at on legal cuts
        let cuts = gen_legal_cuts(rng, n);
        let res = catch(AssertUnwindSafe(|| (ops.split_at)(&cuts)));
        emit(cx, "at", format!("legal=1 cuts={}", fmt_ints(&cuts)), res.map(|p| (p, None)));
        // malformed stream
        if r % 4 == 0 {
            let cuts = gen_illegal_cuts(rng, n);
            let res = catch(AssertUnwindSafe(|| (ops.split_at)(&cuts)));
            emit(cx, "at", format!("legal=0 cuts={}", fmt_ints(&cuts)), res.map(|p| (p, None)));
        }
        // split_iter(k), k in 1..64
        let k = if rng.chance(1, 3) { rng.range(1, 64) } else { rng.range(1, (n + 3).min(64)) };
        let res = catch(AssertUnwindSafe(|| (ops.split_k)(k)));
        emit(cx, "k", format!("k={k}"), res.map(|p| (p, None)));
        // into_par_lenders under a pool of t threads
        if let Some(ipl) = ops.ipl {
            let (t, pool) = &cx.pools[rng.below(cx.pools.len())];
            let res = catch(AssertUnwindSafe(|| ipl(pool)));
            emit(cx, "ipl", format!("k={t}"), res.map(|(p, b)| (p, Some(b))));
        }
    }
}

fn labeled_vec_graph(g: &Graph, labels: &Graph) -> LabeledVecGraph<usize> {
    let mut vg = LabeledVecGraph::<usize>::empty(g.len());
    for (x, l) in g.iter().enumerate() {
        for (j, &y) in l.iter().enumerate() {
            vg.add_arc(x, y, labels[x][j]);
        }
    }
    vg
}

fn btree_graph(g: &Graph) -> BTreeGraph {
    let mut bg = BTreeGraph::empty(g.len());
    for (x, l) in g.iter().enumerate() {
        for &y in l { bg.add_arc(x, y); }
    }
    bg
}

fn arcs_of(g: &Graph) -> Vec<(usize, usize)> {
    let mut a = Vec::new();
    for (x, l) in g.iter().enumerate() { for &y in l { a.push((x, y)); } }
    a
}

fn gen_perm(rng: &mut Rng, n: usize) -> Vec<usize> {
    let mut p: Vec<usize> = (0..n).collect();
    rng.shuffle(&mut p);
    p
}

/// hub-heavy degree distributions: a few nodes carry most arcs, many nodes none
fn gen_hub_graph(rng: &mut Rng, n: usize) -> Graph {
    let mut g: Graph = vec![Vec::new(); n];
    if n == 0 { return g; }
    let style = rng.below(5);
    for x in 0..n {
        let d = match style {
            0 => 0,                                                     // no arcs at all
            1 => if rng.chance(1, 6) { rng.range(n / 2, n) } else { 0 }, // hubs and isolated nodes
            2 => if x == n - 1 || x == 0 { n } else { rng.below(2) },    // hubs at the ends
            3 => rng.below(3),
            _ => if rng.chance(1, 3) { rng.range(0, n) } else { rng.below(3) },
        };
        let mut l: Vec<usize> = (0..d).map(|_| rng.below(n)).collect();
        l.sort_unstable(); l.dedup();
        g[x] = l;
    }
    g
}

/// Compresses `g` and loads it both sequentially and for random access.
fn compress(dir: &std::path::Path, g: &Graph, rng: &mut Rng) -> anyhow::Result<std::path::PathBuf> {
    let base = dir.join(format!("b{}", rng.next() % 1_000_000));
    let vg = vec_graph(g);
    let flags = CompFlags { compression_window: rng.pick(&[0usize, 1, 3, 7]), max_ref_count: rng.pick(&[0usize, 1, 3]),
        min_interval_length: rng.pick(&[0usize, 2, 4]), ..CompFlags::default() };
    BvComp::with_basename(&base).comp_flags(flags).comp_graph::<BE>(&vg)?;
    store_ef_with_data(g.len(), base.with_extension("graph"), base.with_extension("offsets"), base.with_extension("ef"), no_logging![])?;
    Ok(base)
}

pub fn run(seed: u64, count: usize, maxn: usize, mode: &str, out: &mut impl Write) {
    let mut rng = Rng::new(seed ^ 0x5917);
    let dir = tempfile::Builder::new().prefix("wgverif-split").tempdir().unwrap();
    let pools: Vec<(usize, rayon::ThreadPool)> = [1usize, 2, 3, 4, 5, 8, 13, 16, 33, 64]
        .iter().map(|&t| (t, rayon::ThreadPoolBuilder::new().num_threads(t).build().unwrap())).collect();
    let mut cx = Ctx { out, id: 0, pools: &pools };
    if mode == "ranges" {
        return run_ranges(&mut cx, &mut rng, count, maxn);
    }
    for _ in 0..count {
        let n0 = if rng.chance(1, 8) { rng.below(3) } else { rng.range(1, maxn) };
        // the second operand of unions: same size or a different one
        let n1 = if rng.chance(1, 2) { n0 } else if rng.chance(1, 8) { rng.below(3) } else { rng.range(1, maxn) };
        let g0 = gen_graph(&mut rng, n0);
        let g1 = gen_graph(&mut rng, n1);
        let lab0: Graph = g0.iter().map(|l| l.iter().map(|_| rng.below(1000)).collect()).collect();
        let perm = gen_perm(&mut rng, n0);
        let (s0, s1, sl, sp) = (fmt_lists(&g0), fmt_lists(&g1), fmt_lists(&lab0), fmt_ints(&perm));
        let reps = 2;
        let v0 = vec_graph(&g0);
        let v1 = vec_graph(&g1);

        // ---- plain representations
        exercise(&mut cx, &mut rng, &ops!(v0, ipl), "VecGraph", &format!("shape=ra0 g0={s0}"), reps);
        let b0 = btree_graph(&g0);
        exercise(&mut cx, &mut rng, &ops!(b0, ipl), "BTreeGraph", &format!("shape=ra0 g0={s0}"), reps);
        let c0 = CsrGraph::from_seq_graph(&v0);
        exercise(&mut cx, &mut rng, &ops!(c0, ipl), "CsrGraph", &format!("shape=csr0 g0={s0}"), reps);
        let cs0 = CsrSortedGraph::from_seq_graph(&v0);
        exercise(&mut cx, &mut rng, &ops!(cs0, ipl), "CsrSortedGraph", &format!("shape=csr0 g0={s0}"), reps);
        let cs1 = CsrSortedGraph::from_seq_graph(&v1);
        let arcs0 = arcs_of(&g0);
        let al0 = ArcListGraph::new(n0, arcs0.clone().into_iter());
        exercise(&mut cx, &mut rng, &ops!(al0, ipl), "Left<ArcListGraph>", &format!("shape=seq0 g0={s0}"), reps);
        let lv0 = labeled_vec_graph(&g0, &lab0);
        let left0 = Left(lv0.clone());
        exercise(&mut cx, &mut rng, &ops!(left0, ipl), "Left<LabeledVecGraph>", &format!("shape=lra0.left g0={s0} l0={sl}"), reps);
        let right0 = Right(lv0.clone());
        exercise(&mut cx, &mut rng, &ops!(right0, ipl), "Right<LabeledVecGraph>", &format!("shape=lra0.right g0={s0} l0={sl}"), reps);
        let mut lb0 = LabeledBTreeGraph::<usize>::empty(n0);
        for (x, l) in g0.iter().enumerate() { for (j, &y) in l.iter().enumerate() { lb0.add_arc(x, y, lab0[x][j]); } }
        let leftb0 = Left(lb0.clone());
        exercise(&mut cx, &mut rng, &ops!(leftb0, ipl), "Left<LabeledBTreeGraph>", &format!("shape=lra0.left g0={s0} l0={sl}"), reps);
        let rightb0 = Right(lb0);
        exercise(&mut cx, &mut rng, &ops!(rightb0, ipl), "Right<LabeledBTreeGraph>", &format!("shape=lra0.right g0={s0} l0={sl}"), reps);
        if n0 >= 1 {
            match CompressedCsrGraph::try_from_graph(&v0) {
                Ok(cc0) => exercise(&mut cx, &mut rng, &ops!(cc0, ipl), "CompressedCsrGraph", &format!("shape=csr0 g0={s0}"), reps),
                Err(e) => { writeln!(cx.out, "split id=s{} impl=CompressedCsrGraph shape=csr0 g0={s0} op=setup n={n0} status=err:{}", cx.id, sanitize(&format!("{e:#}"))).unwrap(); cx.id += 1; }
            }
        }
        let lu0 = Left(UnitLabelGraph(v0.clone()));
        exercise(&mut cx, &mut rng, &ops!(lu0, ipl), "Left<UnitLabelGraph<VecGraph>>", &format!("shape=ra0.unit.left g0={s0}"), reps);

        // ---- compressed graphs (need at least one node)
        if n0 >= 1 && n1 >= 1 {
            let r = catch(AssertUnwindSafe(|| -> anyhow::Result<()> {
                let base0 = compress(dir.path(), &g0, &mut rng)?;
                let base1 = compress(dir.path(), &g1, &mut rng)?;
                let bv0 = BvGraph::with_basename(&base0).load()?;
                let bv1 = BvGraph::with_basename(&base1).load()?;
                let sq0 = BvGraphSeq::with_basename(&base0).load()?;
                let sq1 = BvGraphSeq::with_basename(&base1).load()?;
                exercise(&mut cx, &mut rng, &ops!(bv0, ipl), "BvGraph", &format!("shape=ra0 g0={s0}"), reps);
                exercise(&mut cx, &mut rng, &ops!(sq0, ipl), "BvGraphSeq", &format!("shape=seq0 g0={s0}"), reps);
                // wrappers over compressed graphs (wrappers own their operands: the
                // higher-ranked bounds of the wrappers do not accept borrowed compressed graphs)
                let lbv0 = || BvGraph::with_basename(&base0).load().unwrap();
                let lbv1 = || BvGraph::with_basename(&base1).load().unwrap();
                let lsq0 = || BvGraphSeq::with_basename(&base0).load().unwrap();
                let lsq1 = || BvGraphSeq::with_basename(&base1).load().unwrap();
                let w = NoSelfLoopsGraph(lbv0());
                exercise(&mut cx, &mut rng, &ops!(w, ipl), "NoSelfLoops<BvGraph>", &format!("shape=ra0.noloops g0={s0}"), reps);
                let w = NoSelfLoopsGraph(lsq0());
                exercise(&mut cx, &mut rng, &ops!(w, ipl), "NoSelfLoops<BvGraphSeq>", &format!("shape=seq0.noloops g0={s0}"), reps);
                let w = PermutedGraph::new(&bv0, &perm);
                exercise(&mut cx, &mut rng, &ops!(w, ipl), "Permuted<BvGraph>", &format!("shape=ra0.perm g0={s0} perm={sp}"), reps);
                let w = PermutedGraph::new(&sq0, &perm);
                exercise(&mut cx, &mut rng, &ops!(w, ipl), "Permuted<BvGraphSeq>", &format!("shape=seq0.perm g0={s0} perm={sp}"), reps);
                let w = UnionGraph(lbv0(), lbv1());
                exercise(&mut cx, &mut rng, &ops!(w, ipl), "Union<BvGraph,BvGraph>", &format!("shape=ra0.ra1.union g0={s0} g1={s1}"), reps);
                let w = UnionGraph(lsq0(), lbv1());
                exercise(&mut cx, &mut rng, &ops!(w, ipl), "Union<BvGraphSeq,BvGraph>", &format!("shape=seq0.ra1.union g0={s0} g1={s1}"), reps);
                let w = UnionGraph(lbv0(), lsq1());
                exercise(&mut cx, &mut rng, &ops!(w, ipl), "Union<BvGraph,BvGraphSeq>", &format!("shape=ra0.seq1.union g0={s0} g1={s1}"), reps);
                let w = UnionGraph(lsq0(), lsq1());
                exercise(&mut cx, &mut rng, &ops!(w, ipl), "Union<BvGraphSeq,BvGraphSeq>", &format!("shape=seq0.seq1.union g0={s0} g1={s1}"), reps);
                // depth 2
                let w = NoSelfLoopsGraph(UnionGraph(lbv0(), lsq1()));
                exercise(&mut cx, &mut rng, &ops!(w, ipl), "NoSelfLoops<Union<BvGraph,BvGraphSeq>>", &format!("shape=ra0.seq1.union.noloops g0={s0} g1={s1}"), reps);
                let w = UnionGraph(NoSelfLoopsGraph(lsq0()), lbv1());
                exercise(&mut cx, &mut rng, &ops!(w, ipl), "Union<NoSelfLoops<BvGraphSeq>,BvGraph>", &format!("shape=seq0.noloops.ra1.union g0={s0} g1={s1}"), reps);
                let nl1 = NoSelfLoopsGraph(lbv0());
                let w = PermutedGraph::new(&nl1, &perm);
                exercise(&mut cx, &mut rng, &ops!(w, ipl), "Permuted<NoSelfLoops<BvGraph>>", &format!("shape=ra0.noloops.perm g0={s0} perm={sp}"), reps);
                let w = Left(UnitLabelGraph(UnionGraph(lbv0(), lsq1())));
                exercise(&mut cx, &mut rng, &ops!(w, ipl), "Left<UnitLabel<Union<BvGraph,BvGraphSeq>>>", &format!("shape=ra0.seq1.union.unit.left g0={s0} g1={s1}"), reps);
                if n0 == n1 {
                    let u = UnionGraph(lbv0(), lsq1());
                    let w = PermutedGraph::new(&u, &perm);
                    exercise(&mut cx, &mut rng, &ops!(w, ipl), "Permuted<Union<BvGraph,BvGraphSeq>>", &format!("shape=ra0.seq1.union.perm g0={s0} g1={s1} perm={sp}"), reps);
                }
                Ok(())
            }));
            match r {
                Ok(Ok(())) => {}
                Ok(Err(e)) => { writeln!(cx.out, "split id=s{} impl=compressed shape=ra0 g0={s0} op=setup n={n0} status=err:{}", cx.id, sanitize(&format!("{e:#}"))).unwrap(); cx.id += 1; }
                Err(m) => { writeln!(cx.out, "split id=s{} impl=compressed shape=ra0 g0={s0} op=setup n={n0} status={}", cx.id, panic_status(&m)).unwrap(); cx.id += 1; }
            }
        }

        // ---- wrappers over in-memory representations
        let w = UnionGraph(v0.clone(), v1.clone());
        exercise(&mut cx, &mut rng, &ops!(w, ipl), "Union<VecGraph,VecGraph>", &format!("shape=ra0.ra1.union g0={s0} g1={s1}"), reps);
        let w = UnionGraph(b0.clone(), cs1.clone());
        exercise(&mut cx, &mut rng, &ops!(w, ipl), "Union<BTreeGraph,CsrSortedGraph>", &format!("shape=ra0.csr1.union g0={s0} g1={s1}"), reps);
        let w = UnionGraph(cs0.clone(), v1.clone());
        exercise(&mut cx, &mut rng, &ops!(w, ipl), "Union<CsrSortedGraph,VecGraph>", &format!("shape=csr0.ra1.union g0={s0} g1={s1}"), reps);
        let w = NoSelfLoopsGraph(cs0.clone());
        exercise(&mut cx, &mut rng, &ops!(w), "NoSelfLoops<CsrSortedGraph>", &format!("shape=csr0.noloops g0={s0}"), reps);
        let w = NoSelfLoopsGraph(al0.clone());
        exercise(&mut cx, &mut rng, &ops!(w, ipl), "NoSelfLoops<ArcListGraph>", &format!("shape=seq0.noloops g0={s0}"), reps);
        let w = PermutedGraph::new(&al0, &perm);
        exercise(&mut cx, &mut rng, &ops!(w, ipl), "Permuted<ArcListGraph>", &format!("shape=seq0.perm g0={s0} perm={sp}"), reps);
        // depth 2
        let uu = UnionGraph(UnionGraph(cs0.clone(), cs1.clone()), cs1.clone());
        exercise(&mut cx, &mut rng, &ops!(uu, ipl), "Union<Union<CsrSortedGraph,CsrSortedGraph>,CsrSortedGraph>", &format!("shape=csr0.csr1.union.csr1.union g0={s0} g1={s1}"), reps);
        let w = UnionGraph(NoSelfLoopsGraph(cs0.clone()), v1.clone());
        exercise(&mut cx, &mut rng, &ops!(w), "Union<NoSelfLoops<CsrSortedGraph>,VecGraph>", &format!("shape=csr0.noloops.ra1.union g0={s0} g1={s1}"), reps);
        let w = Left(UnitLabelGraph(UnionGraph(cs0.clone(), cs1.clone())));
        exercise(&mut cx, &mut rng, &ops!(w, ipl), "Left<UnitLabel<Union<CsrSortedGraph,CsrSortedGraph>>>", &format!("shape=csr0.csr1.union.unit.left g0={s0} g1={s1}"), reps);

        // ---- ParGraph: split_iter_at forwards; into_par_lenders follows the configured splitting
        par_graph_cases(&mut cx, &mut rng, &g0, &g1, &s0, &s1);
    }
}

/// `ParGraph::{new, with_cutpoints, with_dcf}` over several wrapped graphs.
fn par_graph_cases<W: Write>(cx: &mut Ctx<W>, rng: &mut Rng, g0: &Graph, g1: &Graph, s0: &str, s1: &str) {
    let n0 = g0.len();
    let v0 = vec_graph(g0);
    let v1 = vec_graph(g1);
    let emit = |cx: &mut Ctx<W>, imp: &str, inputs: &str, op: &str, args: String, n: usize, scan: &Part,
                    r: Result<(Vec<Part>, Vec<usize>), String>| {
        let (status, parts, bounds) = match r {
            Ok((ps, bs)) => ("ok".to_string(), fmt_parts(&ps), fmt_ints(&bs)),
            Err(m) => (panic_status(&m), "none".into(), "-".into()),
        };
        writeln!(cx.out, "split id=s{} impl={imp} {inputs} op={op} {args} n={n} status={status} scan={} parts={parts} bounds={bounds}",
            cx.id, fmt_part(scan)).unwrap();
        cx.id += 1;
    };
    macro_rules! ipl_of {
        ($pg:expr) => {
            catch(AssertUnwindSafe(|| {
                let (ls, bs) = (&$pg).into_par_lenders();
                (ls.into_vec().into_iter().map(|l| collect_lender!(l)).collect::<Vec<Part>>(), bs.into_vec())
            }))
        };
    }
    // uniform
    for _ in 0..2 {
        let k = if rng.chance(1, 3) { rng.range(1, 64) } else { rng.range(1, (n0 + 3).min(64)) };
        let pg = ParGraph::new(v0.clone(), k);
        let scan: Part = collect_lender!(pg.iter());
        emit(cx, "ParGraph::new<VecGraph>", &format!("shape=ra0.par g0={s0}"), "ipl", format!("k={k}"), n0, &scan, ipl_of!(pg));
        // split_iter_at is forwarded
        let cuts = gen_legal_cuts(rng, n0);
        let res = catch(AssertUnwindSafe(|| pg.split_iter_at(cuts.iter().copied()).into_iter().map(|l| collect_lender!(l)).collect::<Vec<Part>>()));
        emit(cx, "ParGraph::new<VecGraph>", &format!("shape=ra0.par g0={s0}"), "at", format!("legal=1 cuts={}", fmt_ints(&cuts)), n0, &scan,
            res.map(|p| (p, vec![])));
        let u = UnionGraph(v0.clone(), v1.clone());
        let nu = u.num_nodes();
        let pg = ParGraph::new(u, k);
        let scan: Part = collect_lender!(pg.iter());
        emit(cx, "ParGraph::new<Union<VecGraph,VecGraph>>", &format!("shape=ra0.ra1.union.par g0={s0} g1={s1}"), "ipl", format!("k={k}"), nu, &scan, ipl_of!(pg));
    }
    // explicit cutpoints (legal, from 0 to n as the constructor documents, and arbitrary legal ones)
    for r in 0..2 {
        let mut cuts = gen_legal_cuts(rng, n0);
        if r == 0 { cuts[0] = 0; let k = cuts.len(); cuts[k - 1] = n0; }
        let pg = ParGraph::with_cutpoints(v0.clone(), cuts.clone());
        let scan: Part = collect_lender!(pg.iter());
        emit(cx, "ParGraph::with_cutpoints<VecGraph>", &format!("shape=ra0.par g0={s0}"), "ipl_cp", format!("legal=1 cuts={}", fmt_ints(&cuts)), n0, &scan, ipl_of!(pg));
        let arcs = arcs_of(g0);
        let al = ArcListGraph::new(n0, arcs.clone().into_iter());
        let pg = ParGraph::with_cutpoints(al, cuts.clone());
        emit(cx, "ParGraph::with_cutpoints<ArcListGraph>", &format!("shape=seq0.par g0={s0}"), "ipl_cp", format!("legal=1 cuts={}", fmt_ints(&cuts)), n0, &scan, ipl_of!(pg));
    }
    // degree-balanced: the DCF of the graph itself, hub-heavy variants included
    for r in 0..3 {
        let h = if r == 0 { g0.clone() } else { gen_hub_graph(rng, n0) };
        let sh = fmt_lists(&h);
        let vh = vec_graph(&h);
        let k = if rng.chance(1, 3) { rng.range(1, 64) } else { rng.range(1, (n0 + 3).min(64)) };
        let res = catch(AssertUnwindSafe(|| {
            let dcf = vh.build_dcf();
            let arcs = vh.num_arcs();
            let pg = ParGraph::with_dcf(vh.clone(), arcs, dcf, k);
            let (ls, bs) = (&pg).into_par_lenders();
            (ls.into_vec().into_iter().map(|l| collect_lender!(l)).collect::<Vec<Part>>(), bs.into_vec())
        }));
        let scan: Part = collect_lender!(vh.iter());
        emit(cx, "ParGraph::with_dcf<VecGraph>", &format!("shape=ra0.par g0={sh}"), "ipl_dcf", format!("k={k}"), n0, &scan, res);
    }
    // UnitLabelParLenders: forwards into_par_lenders and relabels
    {
        let (t, pool) = &cx.pools[rng.below(cx.pools.len())];
        let res = catch(AssertUnwindSafe(|| {
            let (ls, bs) = pool.install(|| UnitLabelParLenders(&v0).into_par_lenders());
            (ls.into_vec().into_iter().map(|mut l| {
                let mut v: Part = Vec::new();
                while let Some((x, s)) = l.next() { v.push((x, s.into_iter().map(|(y, ())| y).collect())); }
                v
            }).collect::<Vec<Part>>(), bs.into_vec())
        }));
        let scan: Part = collect_lender!(v0.iter());
        emit(cx, "UnitLabelParLenders<VecGraph>", &format!("shape=ra0 g0={s0}"), "ipl", format!("k={t}"), n0, &scan, res);
    }
    // ParSortedGraph: boundaries decided by the sort
    {
        let k = rng.range(1, 9);
        let res = catch(AssertUnwindSafe(|| -> anyhow::Result<(Part, Vec<Part>, Vec<usize>)> {
            let sorted = ParSortedGraph::config().num_lenders(k).sort_graph(&v0)?;
            let scan: Part = collect_lender!(sorted.iter());
            let (ls, bs) = (&sorted).into_par_lenders();
            Ok((scan, ls.into_vec().into_iter().map(|l| collect_lender!(l)).collect::<Vec<Part>>(), bs.into_vec()))
        }));
        match res {
            Ok(Ok((scan, ps, bs))) => emit(cx, "ParSortedGraph", &format!("shape=psorted g0={s0}"), "ipl_sorted", format!("k={k}"), n0, &scan, Ok((ps, bs))),
            Ok(Err(e)) => emit(cx, "ParSortedGraph", &format!("shape=psorted g0={s0}"), "ipl_sorted", format!("k={k}"), n0, &vec![], Err(format!("{e:#}"))),
            Err(m) => emit(cx, "ParSortedGraph", &format!("shape=psorted g0={s0}"), "ipl_sorted", format!("k={k}"), n0, &vec![], Err(m)),
        }
    }
}

/// `par_node_apply` / `par_apply` with a recording closure.
fn run_ranges<W: Write>(cx: &mut Ctx<W>, rng: &mut Rng, count: usize, maxn: usize) {
    for _ in 0..count {
        let n = if rng.chance(1, 8) { rng.below(3) } else { rng.range(1, maxn) };
        // one graph in ten has nodes but no arcs at all (average degree exactly zero)
        let g = if rng.chance(1, 10) { vec![Vec::new(); n] } else if rng.chance(1, 2) { gen_hub_graph(rng, n) } else { gen_graph(rng, n) };
        let vg = vec_graph(&g);
        let degs: Vec<usize> = g.iter().map(|l| l.len()).collect();
        let arcs = num_arcs(&g);
        let (t, pool) = &cx.pools[rng.below(cx.pools.len())];
        // node granularity 1..n+1, directly and through an arc granularity
        for _ in 0..3 {
            // one request in twelve is extreme ("do not split": the largest representable value)
            let gran = if rng.chance(1, 12) { if rng.chance(1, 2) { Granularity::Nodes(usize::MAX) } else { Granularity::Arcs(u64::MAX) } }
                else if rng.chance(2, 3) { Granularity::Nodes(rng.range(1, n + 1)) } else { Granularity::Arcs(rng.range(1, arcs + 2) as u64) };
            let (gs, ng) = match gran {
                Granularity::Nodes(x) => (format!("nodes:{x}"), gran.node_granularity(n, Some(arcs as u64))),
                Granularity::Arcs(x) => (format!("arcs:{x}"), gran.node_granularity(n, Some(arcs as u64))),
            };
            let rec: Mutex<Vec<(usize, usize)>> = Mutex::new(Vec::new());
            let res = catch(AssertUnwindSafe(|| pool.install(|| {
                vg.par_node_apply(|r| { rec.lock().unwrap().push((r.start, r.end)); }, |_, _| (), gran, no_logging![])
            })));
            let mut v = rec.into_inner().unwrap();
            v.sort_unstable();
            let status = match res { Ok(()) => "ok".to_string(), Err(m) => panic_status(&m) };
            writeln!(cx.out, "ranges id=s{} n={n} gran={gs} g={ng} threads={t} degs={} status={status} ranges={}", cx.id,
                fmt_ints(&degs), v.iter().map(|(a, b)| format!("{a}-{b}")).collect::<Vec<_>>().join(",")).unwrap();
            cx.id += 1;
        }
        // arc granularity over the DCF
        for _ in 0..3 {
            let gran = if rng.chance(1, 12) { if rng.chance(1, 2) { Granularity::Nodes(usize::MAX) } else { Granularity::Arcs(u64::MAX) } }
                else if rng.chance(2, 3) { Granularity::Arcs(rng.range(1, arcs + 2) as u64) } else { Granularity::Nodes(rng.range(1, n + 1)) };
            let (gs, ag) = match gran {
                Granularity::Nodes(x) => (format!("nodes:{x}"), gran.arc_granularity(n, Some(arcs as u64))),
                Granularity::Arcs(x) => (format!("arcs:{x}"), gran.arc_granularity(n, Some(arcs as u64))),
            };
            let rec: Mutex<Vec<(usize, usize)>> = Mutex::new(Vec::new());
            let res = catch(AssertUnwindSafe(|| {
                let dcf = vg.build_dcf();
                pool.install(|| {
                    vg.par_apply(|r| { rec.lock().unwrap().push((r.start, r.end)); }, |_, _| (), gran, &dcf, no_logging![])
                })
            }));
            let mut v = rec.into_inner().unwrap();
            v.sort_unstable();
            let status = match res { Ok(()) => "ok".to_string(), Err(m) => panic_status(&m) };
            writeln!(cx.out, "chunks id=s{} n={n} gran={gs} g={ag} threads={t} degs={} status={status} ranges={}", cx.id,
                fmt_ints(&degs), v.iter().map(|(a, b)| format!("{a}-{b}")).collect::<Vec<_>>().join(",")).unwrap();
            cx.id += 1;
        }
        // the same over a labeling that does not know its number of arcs (an arc list): the
        // granularity must come from the degree cumulative function that is passed in
        {
            let gran = if rng.chance(1, 2) { Granularity::Arcs(rng.range(1, arcs + 2) as u64) } else { Granularity::Nodes(rng.range(1, n + 1)) };
            let (gs, ag) = match gran {
                Granularity::Nodes(x) => (format!("nodes:{x}"), gran.arc_granularity(n, Some(arcs as u64))),
                Granularity::Arcs(x) => (format!("arcs:{x}"), gran.arc_granularity(n, Some(arcs as u64))),
            };
            let pairs: Vec<(usize, usize)> = g.iter().enumerate().flat_map(|(x, l)| l.iter().map(move |&y| (x, y))).collect();
            let al = webgraph::graphs::arc_list_graph::ArcListGraph::new(n, pairs);
            let rec: Mutex<Vec<(usize, usize)>> = Mutex::new(Vec::new());
            let res = catch(AssertUnwindSafe(|| {
                let dcf = vg.build_dcf();
                pool.install(|| {
                    al.par_apply(|r| { rec.lock().unwrap().push((r.start, r.end)); }, |_, _| (), gran, &dcf, no_logging![])
                })
            }));
            let mut v = rec.into_inner().unwrap();
            v.sort_unstable();
            let status = match res { Ok(()) => "ok".to_string(), Err(m) => panic_status(&m) };
            writeln!(cx.out, "chunks id=s{} n={n} src=arclist gran={gs} g={ag} threads={t} degs={} status={status} ranges={}", cx.id,
                fmt_ints(&degs), v.iter().map(|(a, b)| format!("{a}-{b}")).collect::<Vec<_>>().join(",")).unwrap();
            cx.id += 1;
        }
    }
}
