//! Channel "visit" (C13): breadth-first visits `Seq`, `ParFairPred`, `ParFairNoPred`,
//! `ParLowMem` (webgraph::visits::breadth_first) with recording callbacks, and the
//! iterators `BfsOrder` / `BfsOrderFromRoots`.
//!
//! One case = one graph, one kind of visitor, a granularity, a pool size and a SEQUENCE of
//! visits on the same visitor (each with a root multiset, a filter on node and distance, and
//! a flag saying whether `reset()` is called before it).  The callbacks and the filter of
//! the parallel visits yield / sleep pseudo-randomly to perturb the schedule.
//!
//! Line: `visit id=.. kind=seq|fair|fairnp|lowmem|order|fromroots n=.. g=<succ lists>
//!        gran=.. thr=.. nv=<k> status=ok|panic:..|err:..`
//!       and for visit i: `x<i>=<reset 0/1> r<i>=<roots> b<i>=<blocked nodes> m<i>=<max distance>
//!        s<i>=<salt> e<i>=<events>` with events `I`, `V<node>:<pred>:<dist>`, `W<node>:<dist>`
//!       (no pred), `R<node>:<pred>`, `Q<node>`, `F<dist>:<size>`, `D`, joined by `,`.
//! The parent process re-executes itself as a child and watches for progress, so that a
//! deadlock in a parallel visit is reported as `status=hang` instead of blocking the run.
use crate::art::vec_graph;
use crate::util::*;
use std::io::{BufRead, Write};
use std::ops::ControlFlow::{self, Continue};
use std::sync::atomic::{AtomicU64, Ordering};
use std::sync::Mutex;
use dsi_bitstream::prelude::BE;
use dsi_progress_logger::prelude::*;
use webgraph::prelude::*;
use webgraph::utils::Granularity;
use webgraph::visits::breadth_first::{self, EventNoPred, EventPred};
use webgraph::visits::{Parallel, Sequential};

pub const NO_MAXD: usize = 1_000_000;

#[derive(Clone)]
struct Filt {
    blocked: Vec<usize>,
    bl: Vec<bool>,
    maxd: usize,
    salt: usize,
}
impl Filt {
    fn ok(&self, node: usize, d: usize) -> bool {
        !self.bl[node] && d <= self.maxd && (self.salt == 0 || (node * 7 + d * 13 + self.salt) % 5 != 0)
    }
}

#[derive(Clone)]
struct VisitSpec {
    reset: bool,
    roots: Vec<usize>,
    filt: Filt,
}

#[derive(Clone, Copy, PartialEq, Eq, Debug)]
enum Kind { Seq, Fair, FairNp, LowMem, Order, FromRoots, CliPerm }
impl Kind {
    fn name(self) -> &'static str {
        match self {
            Kind::Seq => "seq", Kind::Fair => "fair", Kind::FairNp => "fairnp",
            Kind::LowMem => "lowmem", Kind::Order => "order", Kind::FromRoots => "fromroots", Kind::CliPerm => "cliperm",
        }
    }
}

fn ev_pred(e: EventPred) -> String {
    match e {
        EventPred::Init {} => "I".to_string(),
        EventPred::Visit { node, pred, distance } => format!("V{node}:{pred}:{distance}"),
        EventPred::Revisit { node, pred } => format!("R{node}:{pred}"),
        EventPred::FrontierSize { distance, size } => format!("F{distance}:{size}"),
        EventPred::Done {} => "D".to_string(),
    }
}
fn ev_nopred(e: EventNoPred) -> String {
    match e {
        EventNoPred::Init {} => "I".to_string(),
        EventNoPred::Visit { node, distance } => format!("W{node}:{distance}"),
        EventNoPred::Revisit { node } => format!("Q{node}"),
        EventNoPred::FrontierSize { distance, size } => format!("F{distance}:{size}"),
        EventNoPred::Done {} => "D".to_string(),
    }
}

/// timing perturbation inside callbacks: `level` 0 = none, 1 = yields, 2 = yields and sleeps
struct Jitter { seed: u64, ctr: AtomicU64, level: u32 }
impl Jitter {
    fn hit(&self, x: usize) {
        if self.level == 0 { return; }
        let c = self.ctr.fetch_add(1, Ordering::Relaxed);
        let mut z = self.seed ^ c.wrapping_mul(0x9E3779B97F4A7C15) ^ (x as u64).wrapping_mul(0xBF58476D1CE4E5B9);
        z = (z ^ (z >> 30)).wrapping_mul(0xBF58476D1CE4E5B9);
        z ^= z >> 27;
        match z % 32 {
            0 if self.level >= 2 => std::thread::sleep(std::time::Duration::from_micros((z >> 8) % 40)),
            1..=6 => std::thread::yield_now(),
            7 => { for _ in 0..((z >> 8) % 200) { std::hint::spin_loop(); } }
            _ => {}
        }
    }
}

fn gran_of(gran: i64) -> Granularity {
    if gran >= 0 { Granularity::Nodes(gran as usize) } else { Granularity::Arcs((-gran) as u64) }
}

fn run_par<V, A>(pool: &rayon::ThreadPool, mut visit: V, visits: &[VisitSpec], jit: &Jitter,
                 conv: fn(A) -> String, args: fn(&A::FilterArgs) -> (usize, usize)) -> Vec<String>
where V: Parallel<A> + Send, A: webgraph::visits::Event + Send,
{
    let mut logs = Vec::new();
    for spec in visits {
        if spec.reset { visit.reset(); }
        let log: Mutex<Vec<String>> = Mutex::new(Vec::new());
        let _r: ControlFlow<(), ()> = pool.install(|| {
            visit.par_visit_filtered(
                spec.roots.clone(),
                |e| {
                    jit.hit(1);
                    let s = conv(e);
                    log.lock().unwrap().push(s);
                    jit.hit(2);
                    Continue(())
                },
                |a| {
                    let (node, d) = args(&a);
                    jit.hit(node);
                    let r = spec.filt.ok(node, d);
                    jit.hit(node + 1);
                    r
                },
            )
        });
        logs.push(log.into_inner().unwrap().join(","));
    }
    logs
}

/// compresses the graph (default BvComp flags), builds the Elias-Fano offsets and loads it
/// as a random-access `BvGraph`
fn run_case_bv(g: &Graph, kind: Kind, gran: i64, pool: &rayon::ThreadPool, visits: &[VisitSpec], jit: &Jitter)
               -> Result<Vec<String>, String> {
    let dir = tempfile::Builder::new().prefix("wgverif-visit").tempdir().map_err(|e| e.to_string())?;
    let base = dir.path().join("g");
    let vg = vec_graph(g);
    BvComp::with_basename(&base).comp_graph::<BE>(&vg).map_err(|e| format!("{e:#}"))?;
    store_ef_with_data(g.len(), base.with_extension("graph"), base.with_extension("offsets"),
                       base.with_extension("ef"), &mut no_logging![]).map_err(|e| format!("{e:#}"))?;
    let bv = BvGraph::with_basename(&base).load().map_err(|e| format!("{e:#}"))?;
    run_case_on(&bv, g.len(), kind, gran, pool, visits, jit)
}

/// `webgraph perm bfs`: compresses the graph, runs the command-line entry point and reads
/// the permutation it stored (ASCII, one integer per line)
fn run_cli_perm(g: &Graph) -> Result<Vec<String>, String> {
    let dir = tempfile::Builder::new().prefix("wgverif-visit").tempdir().map_err(|e| e.to_string())?;
    let base = dir.path().join("g");
    let vg = vec_graph(g);
    BvComp::with_basename(&base).comp_graph::<BE>(&vg).map_err(|e| format!("{e:#}"))?;
    store_ef_with_data(g.len(), base.with_extension("graph"), base.with_extension("offsets"),
                       base.with_extension("ef"), &mut no_logging![]).map_err(|e| format!("{e:#}"))?;
    let perm = dir.path().join("g.perm");
    let args = webgraph_cli::perm::bfs::CliArgs {
        basename: base.clone(),
        perm: perm.clone(),
        fmt: webgraph_cli::IntSliceFormat::Ascii,
        log_interval: webgraph_cli::LogIntervalArg { log_interval: std::time::Duration::from_secs(3600) },
    };
    webgraph_cli::perm::bfs::main(args).map_err(|e| format!("{e:#}"))?;
    let text = std::fs::read_to_string(&perm).map_err(|e| e.to_string())?;
    let vals: Vec<String> = text.lines().map(|l| format!("P{}", l.trim())).collect();
    Ok(vec![vals.join(",")])
}

fn run_case(g: &Graph, kind: Kind, gran: i64, pool: &rayon::ThreadPool, visits: &[VisitSpec], jit: &Jitter)
            -> Result<Vec<String>, String> {
    if kind == Kind::CliPerm { return run_cli_perm(g); }
    let vg = vec_graph(g);
    run_case_on(&vg, g.len(), kind, gran, pool, visits, jit)
}

fn run_case_on<G: RandomAccessGraph + Sync>(vg: &G, n: usize, kind: Kind, gran: i64, pool: &rayon::ThreadPool,
                                            visits: &[VisitSpec], jit: &Jitter) -> Result<Vec<String>, String> {
    match kind {
        Kind::Seq => {
            let mut visit = breadth_first::Seq::new(vg);
            let mut logs = Vec::new();
            for spec in visits {
                if spec.reset { visit.reset(); }
                // One visit in three (of those not preceded by a reset) is preceded by an
                // ABANDONED visit from the same roots, whose callback breaks after a few events:
                // the nodes it reported stay marked as visited (they are listed for the model),
                // and whatever it left in the queue must not leak into the next visit.
                let mut abandoned: Option<Vec<usize>> = None;
                if !spec.reset && spec.roots.len() % 3 == 1 {
                    let stop = 1 + (spec.roots.len() + spec.roots.iter().sum::<usize>()) % 5;
                    let mut seen: Vec<usize> = Vec::new();
                    let mut cnt = 0usize;
                    let _r: ControlFlow<(), ()> = visit.visit_filtered(
                        spec.roots.clone(),
                        |e| {
                            if let EventPred::Visit { node, .. } = e { seen.push(node); }
                            cnt += 1;
                            if cnt >= stop { std::ops::ControlFlow::Break(()) } else { Continue(()) }
                        },
                        |a| spec.filt.ok(a.node, a.distance));
                    abandoned = Some(seen);
                }
                let mut log: Vec<String> = Vec::new();
                let mut overrun = false;
                let _r: ControlFlow<(), ()> = visit.visit_filtered(
                    spec.roots.clone(),
                    |e| {
                        log.push(ev_pred(e));
                        // a visit that never ends (leftover level separators) must not hang the harness
                        if log.len() > 4 * (n + vg.num_arcs() as usize) + 64 { overrun = true; std::ops::ControlFlow::Break(()) } else { Continue(()) }
                    },
                    |a| spec.filt.ok(a.node, a.distance));
                if overrun { log.push("OVERRUN".to_string()); }
                match abandoned {
                    Some(a) => logs.push(format!("@{}@{}", fmt_ints(&a), log.join(","))),
                    None => logs.push(log.join(",")),
                }
            }
            Ok(logs)
        }
        Kind::Fair => Ok(run_par::<_, EventPred>(pool, breadth_first::ParFairPred::with_granularity(vg, gran_of(gran)),
                                visits, jit, ev_pred, |a| (a.node, a.distance))),
        Kind::FairNp => Ok(run_par::<_, EventNoPred>(pool, breadth_first::ParFairNoPred::with_granularity(vg, gran_of(gran)),
                                visits, jit, ev_nopred, |a| (a.node, a.distance))),
        Kind::LowMem => Ok(run_par::<_, EventPred>(pool, breadth_first::ParLowMem::with_granularity(vg, gran_of(gran)),
                                visits, jit, ev_pred, |a| (a.node, a.distance))),
        Kind::Order => {
            // the visitor may have been used before: BfsOrder resets it
            let mut visit = breadth_first::Seq::new(vg);
            let mut logs = Vec::new();
            for spec in visits {
                if !spec.roots.is_empty() {
                    let _r: ControlFlow<(), ()> = visit.visit(spec.roots.clone(), |_e| Continue(()));
                }
                // an enumeration abandoned half way (iterator dropped with a non-empty queue)
                // must not influence the next one: BfsOrder::new resets the visitor
                if spec.roots.len() % 2 == 1 && n >= 2 {
                    let mut it0 = (&mut visit).into_iter();
                    for _ in 0..(n + 1) / 2 { if it0.next().is_none() { break; } }
                }
                let mut items = Vec::new();
                let mut lenok = true;
                let mut it = (&mut visit).into_iter();
                if it.len() != n { lenok = false; }
                let mut k = 0usize;
                while let Some(e) = it.next() {
                    k += 1;
                    if it.len() != n.wrapping_sub(k) { lenok = false; }
                    items.push(format!("V{}:{}:{}:{}", e.root, e.parent, e.node, e.distance));
                    if k > 4 * n + 8 { items.push("OVERRUN".to_string()); break; }
                }
                // BfsOrder implements FusedIterator: it must keep returning None
                if k <= 4 * n + 8 {
                    match catch(std::panic::AssertUnwindSafe(|| it.next().is_some())) {
                        Ok(false) => {}
                        Ok(true) => items.push("NOTFUSED".to_string()),
                        Err(_) => items.push("FUSEDPANIC".to_string()),
                    }
                }
                items.push(if lenok { "L1".to_string() } else { "L0".to_string() });
                logs.push(items.join(","));
            }
            Ok(logs)
        }
        Kind::CliPerm => Err("cliperm-needs-a-basename".to_string()),
        Kind::FromRoots => {
            let mut visit = breadth_first::Seq::new(vg);
            let mut logs = Vec::new();
            for spec in visits {
                // same for the enumeration from roots
                if spec.roots.len() % 2 == 0 && n >= 2 {
                    if let Ok(mut it0) = visit.iter_from_roots(spec.roots.clone()) {
                        for _ in 0..(n + 1) / 2 { if it0.next().is_none() { break; } }
                    }
                }
                let mut items = Vec::new();
                match visit.iter_from_roots(spec.roots.clone()) {
                    Err(_) => items.push("ERR".to_string()),
                    Ok(it) => {
                        let mut k = 0usize;
                        for e in it {
                            k += 1;
                            items.push(format!("V{}:{}:{}", e.parent, e.node, e.distance));
                            if k > 4 * n + 4 * spec.roots.len() + 8 { items.push("OVERRUN".to_string()); break; }
                        }
                    }
                }
                logs.push(items.join(","));
            }
            Ok(logs)
        }
    }
}

/// graphs with many shared successors
fn gen_shared(rng: &mut Rng, n: usize) -> Graph {
    let mut g: Graph = vec![Vec::new(); n];
    if n == 0 { return g; }
    match rng.below(8) {
        0 => {
            // layers, dense between consecutive layers
            let width = rng.range(1, (n / 2).max(1));
            for x in 0..n {
                let layer = x / width;
                let lo = (layer + 1) * width;
                let hi = ((layer + 2) * width).min(n);
                for y in lo..hi { if rng.chance(3, 4) { g[x].push(y); } }
                if rng.chance(1, 10) { g[x].push(rng.below(n)); }
            }
        }
        1 => {
            // G(n, p)
            let den = rng.range(2, 12);
            for x in 0..n { for y in 0..n { if rng.chance(1, den) { g[x].push(y); } } }
        }
        2 => return gen_graph(rng, n),
        3 => {
            // hubs: everybody points to a few targets, which point to many
            let h = rng.range(1, 4.min(n));
            let hubs: Vec<usize> = (0..h).map(|_| rng.below(n)).collect();
            for x in 0..n {
                for &t in &hubs { if rng.chance(4, 5) { g[x].push(t); } }
                if rng.chance(1, 3) { g[x].push(rng.below(n)); }
            }
            for &t in &hubs { for y in 0..n { if rng.chance(2, 3) { g[t].push(y); } } }
        }
        4 => {
            // complete (with or without loops)
            let loops = rng.chance(1, 2);
            for x in 0..n { for y in 0..n { if loops || x != y { g[x].push(y); } } }
        }
        5 => {
            // path with chords, possibly several components
            for x in 0..n {
                if x + 1 < n && !rng.chance(1, 12) { g[x].push(x + 1); }
                if rng.chance(1, 4) { g[x].push(rng.below(n)); }
            }
        }
        6 => {
            // two-level fan: root -> all mids -> all leaves
            let mids = rng.range(1, n.max(2) / 2);
            for y in 1..=mids.min(n - 1) { g[0].push(y); }
            for x in 1..=mids.min(n - 1) { for y in (mids + 1)..n { g[x].push(y); } }
        }
        _ => {
            // sparse random
            for x in 0..n { for _ in 0..rng.below(3) { g[x].push(rng.below(n)); } }
        }
    }
    for l in g.iter_mut() { l.sort_unstable(); l.dedup(); }
    g
}

fn gen_filter(rng: &mut Rng, n: usize) -> Filt {
    let mut blocked = Vec::new();
    let mut maxd = NO_MAXD;
    let mut salt = 0;
    match rng.below(8) {
        0 | 1 | 2 => {}
        3 => { for x in 0..n { if rng.chance(1, 5) { blocked.push(x); } } }
        4 => { maxd = rng.below(4); }
        5 => { for x in 0..n { if rng.chance(1, 8) { blocked.push(x); } } maxd = rng.range(1, 5); }
        6 => { salt = rng.range(1, 50); }
        _ => { if n > 0 { blocked.push(rng.below(n)); } }
    }
    let mut bl = vec![false; n];
    for &x in &blocked { bl[x] = true; }
    Filt { blocked, bl, maxd, salt }
}

fn gen_roots(rng: &mut Rng, n: usize) -> Vec<usize> {
    if n == 0 { return vec![]; }
    match rng.below(8) {
        0 => vec![0],
        1 => vec![rng.below(n)],
        2 => (0..rng.range(1, 4)).map(|_| rng.below(n)).collect(),
        3 => { let r = rng.below(n); vec![r, rng.below(n), r] } // a duplicate
        4 => (0..n).collect(),
        5 => { let mut v: Vec<usize> = (0..n).collect(); rng.shuffle(&mut v); v.truncate(rng.range(1, n)); v }
        6 => vec![],
        _ => (0..rng.range(1, 2 * n.min(6))).map(|_| rng.below(n)).collect(),
    }
}

fn gen_visits(rng: &mut Rng, n: usize, kind: Kind) -> Vec<VisitSpec> {
    let nv = match kind { Kind::Order => rng.range(1, 2), _ => rng.range(1, 3) };
    let mut v = Vec::new();
    for i in 0..nv {
        let mut roots = gen_roots(rng, n);
        let mut filt = gen_filter(rng, n);
        if kind == Kind::Order {
            // roots here are a preliminary visit that dirties the visitor (BfsOrder must reset it)
            if i == 0 && rng.chance(1, 2) { roots.clear(); }
            filt = Filt { blocked: vec![], bl: vec![false; n], maxd: NO_MAXD, salt: 0 };
        }
        if kind == Kind::FromRoots {
            filt = Filt { blocked: vec![], bl: vec![false; n], maxd: NO_MAXD, salt: 0 };
        }
        v.push(VisitSpec { reset: i > 0 && rng.chance(1, 3), roots, filt });
    }
    v
}

struct Pools { pools: Vec<rayon::ThreadPool> }
impl Pools {
    fn new() -> Self {
        Pools { pools: (1..=16).map(|t| rayon::ThreadPoolBuilder::new().num_threads(t).build().unwrap()).collect() }
    }
    fn get(&self, t: usize) -> &rayon::ThreadPool { &self.pools[t - 1] }
}

fn emit_case(out: &mut impl Write, id: &str, g: &Graph, kind: Kind, gran: i64, thr: usize, visits: &[VisitSpec],
             pools: &Pools, jit: &Jitter) {
    emit_case_on(out, id, g, kind, gran, thr, visits, pools, jit, false)
}

fn emit_case_on(out: &mut impl Write, id: &str, g: &Graph, kind: Kind, gran: i64, thr: usize, visits: &[VisitSpec],
                pools: &Pools, jit: &Jitter, bv: bool) {
    // announce the case so that the watchdog can name it
    writeln!(out, "#start id={id}").unwrap();
    out.flush().unwrap();
    let r = catch(std::panic::AssertUnwindSafe(|| {
        if bv { run_case_bv(g, kind, gran, pools.get(thr), visits, jit) } else { run_case(g, kind, gran, pools.get(thr), visits, jit) }
    }));
    let (status, logs) = match r {
        Ok(Ok(l)) => ("ok".to_string(), l),
        Ok(Err(e)) => (format!("err:{}", sanitize(&e)), vec![]),
        Err(p) => (format!("panic:{}", sanitize(&p)), vec![]),
    };
    let mut line = format!("visit id={id} kind={} n={} g={} gran={gran} thr={thr} bv={} nv={} status={status}",
                           kind.name(), g.len(), fmt_lists(g), bv as u8, visits.len());
    for (i, s) in visits.iter().enumerate() {
        line.push_str(&format!(" x{i}={} r{i}={} b{i}={} m{i}={} s{i}={}", s.reset as u8, fmt_ints(&s.roots),
                               fmt_ints(&s.filt.blocked), s.filt.maxd, s.filt.salt));
        if let Some(l) = logs.get(i) {
            // "@nodes@events": the nodes reported by an abandoned visit that preceded this one
            match l.strip_prefix('@').and_then(|r| r.split_once('@')) {
                Some((a, ev)) => line.push_str(&format!(" a{i}={a} e{i}={ev}")),
                None => line.push_str(&format!(" e{i}={l}")),
            }
        }
    }
    writeln!(out, "{line}").unwrap();
}

fn all_digraphs(n: usize) -> Vec<Graph> {
    let bits = n * n;
    let mut v = Vec::new();
    for mask in 0u64..(1u64 << bits) {
        let mut g: Graph = vec![Vec::new(); n];
        for x in 0..n { for y in 0..n { if (mask >> (x * n + y)) & 1 == 1 { g[x].push(y); } } }
        v.push(g);
    }
    v
}

const PAR_KINDS: [Kind; 3] = [Kind::Fair, Kind::FairNp, Kind::LowMem];
const ALL_KINDS: [Kind; 6] = [Kind::Seq, Kind::Fair, Kind::FairNp, Kind::LowMem, Kind::Order, Kind::FromRoots];

fn gen_gran(rng: &mut Rng, n: usize) -> i64 {
    match rng.below(6) {
        0 => 1,
        1 => rng.range(1, n.max(1)) as i64,
        2 => n.max(1) as i64,
        3 => 128,
        4 => -(rng.range(1, 4 * n.max(1)) as i64), // arc granularity
        _ => rng.range(1, 4) as i64,
    }
}

fn child(seed: u64, count: usize, exh: usize, out: &mut impl Write) {
    let mut rng = Rng::new(seed ^ 0xBF5);
    let pools = Pools::new();
    // hand-written edge cases
    let fixed: Vec<(Graph, Vec<usize>)> = vec![
        (vec![], vec![]),
        (vec![vec![]], vec![0]),
        (vec![vec![0]], vec![0, 0]),
        (vec![vec![1], vec![2], vec![0], vec![]], vec![1, 1, 3]),
        (vec![vec![1, 2], vec![3], vec![3], vec![]], vec![0]),
    ];
    let mut idx = 0usize;
    for (g, roots) in &fixed {
        for &kind in &ALL_KINDS {
            let n = g.len();
            let v = vec![
                VisitSpec { reset: false, roots: roots.clone(), filt: Filt { blocked: vec![], bl: vec![false; n], maxd: NO_MAXD, salt: 0 } },
                VisitSpec { reset: false, roots: (0..n).collect(), filt: Filt { blocked: vec![], bl: vec![false; n], maxd: NO_MAXD, salt: 0 } },
            ];
            let jit = Jitter { seed: rng.next(), ctr: AtomicU64::new(0), level: 1 };
            emit_case(out, &format!("f{idx}"), g, kind, 1, 1 + idx % 4, &v, &pools, &jit);
            idx += 1;
        }
    }
    // exhaustive small digraphs
    for n in 0..=exh {
        for (gi, g) in all_digraphs(n).iter().enumerate() {
            let kinds: Vec<Kind> = if n <= 3 { ALL_KINDS.to_vec() } else {
                vec![Kind::Seq, rng.pick(&PAR_KINDS), rng.pick(&ALL_KINDS[1..])]
            };
            for kind in kinds {
                let visits = gen_visits(&mut rng, n, kind);
                let thr = rng.range(1, 16);
                let gran = gen_gran(&mut rng, n);
                let jit = Jitter { seed: rng.next(), ctr: AtomicU64::new(0), level: 1 };
                emit_case(out, &format!("x{n}_{gi}_{}", kind.name()), g, kind, gran, thr, &visits, &pools, &jit);
            }
        }
    }
    // random graphs with many shared successors
    for i in 0..count {
        let n = match rng.below(10) {
            0 => rng.range(0, 4),
            1..=4 => rng.range(5, 30),
            5..=7 => rng.range(31, 100),
            _ => rng.range(101, 300),
        };
        let g = gen_shared(&mut rng, n);
        let kind = match rng.below(10) {
            0 | 1 => Kind::Seq,
            2 | 3 | 4 => Kind::Fair,
            5 => Kind::FairNp,
            6 | 7 => Kind::LowMem,
            8 => Kind::Order,
            _ => Kind::FromRoots,
        };
        let visits = gen_visits(&mut rng, n, kind);
        let thr = rng.range(1, 16);
        let gran = gen_gran(&mut rng, n);
        let level = if n <= 100 { 2 } else { 1 };
        let jit = Jitter { seed: rng.next(), ctr: AtomicU64::new(0), level };
        // one case in six runs on the compressed BvGraph instead of the VecGraph
        let bv = n > 0 && rng.chance(1, 6);
        emit_case_on(out, &format!("r{i}"), &g, kind, gran, thr, &visits, &pools, &jit, bv);
    }
    // the command-line BFS permutation (cli/src/perm/bfs.rs) on compressed graphs
    for i in 0..(count / 25).max(4) {
        let n = rng.range(1, 60);
        let g = gen_shared(&mut rng, n);
        let v = vec![VisitSpec { reset: false, roots: vec![], filt: Filt { blocked: vec![], bl: vec![false; n], maxd: NO_MAXD, salt: 0 } }];
        let jit = Jitter { seed: 1, ctr: AtomicU64::new(0), level: 0 };
        emit_case(out, &format!("c{i}"), &g, Kind::CliPerm, 1, 1, &v, &pools, &jit);
    }
    // malformed: a root outside the graph must be refused with a panic, never a wrong answer
    for i in 0..4 {
        let n = rng.range(1, 6);
        let g = gen_shared(&mut rng, n);
        let kind = ALL_KINDS[i % 4];
        let v = vec![VisitSpec { reset: false, roots: vec![0, n + rng.below(3)],
                                 filt: Filt { blocked: vec![], bl: vec![false; n + 3], maxd: NO_MAXD, salt: 0 } }];
        let jit = Jitter { seed: 1, ctr: AtomicU64::new(0), level: 0 };
        emit_case(out, &format!("m{i}"), &g, kind, 1, 2, &v, &pools, &jit);
    }
}

/// parent: runs the generator in a child process and forwards its output; if the child
/// makes no progress for `HANG_SECS`, it is killed and the case in progress is reported
const HANG_SECS: u64 = 240;

pub fn run(seed: u64, count: usize, exh: usize, mode: &str, out: &mut impl Write) {
    if mode == "child" {
        child(seed, count, exh, out);
        return;
    }
    let exe = std::env::current_exe().unwrap();
    let mut ch = std::process::Command::new(exe)
        .args(["visit", "--seed", &seed.to_string(), "--count", &count.to_string(), "--maxn", &exh.to_string(),
               "--mode", "child"])
        .stdout(std::process::Stdio::piped())
        .spawn()
        .unwrap();
    let stdout = ch.stdout.take().unwrap();
    let (tx, rx) = std::sync::mpsc::channel::<String>();
    let reader = std::thread::spawn(move || {
        for line in std::io::BufReader::new(stdout).lines() {
            match line { Ok(l) => { if tx.send(l).is_err() { break; } } Err(_) => break }
        }
    });
    let mut last = String::from("none");
    loop {
        match rx.recv_timeout(std::time::Duration::from_secs(HANG_SECS)) {
            Ok(l) => {
                if let Some(rest) = l.strip_prefix("#start id=") { last = rest.to_string(); continue; }
                writeln!(out, "{l}").unwrap();
            }
            Err(std::sync::mpsc::RecvTimeoutError::Timeout) => {
                let _ = ch.kill();
                writeln!(out, "visit id={last} kind=hang n=0 g= gran=1 thr=1 nv=0 status=hang").unwrap();
                break;
            }
            Err(std::sync::mpsc::RecvTimeoutError::Disconnected) => break,
        }
    }
    let st = ch.wait();
    let _ = reader.join();
    if let Ok(st) = st {
        if !st.success() && st.code().is_some() {
            writeln!(out, "visit id={last} kind=crash n=0 g= gran=1 thr=1 nv=0 status=crash:{:?}", st.code()).unwrap();
        }
    }
}
