fn main() { println!("hello"); }
