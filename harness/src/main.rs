//! Correspondence harness: runs the implementation on generated cases and prints one case
//! line per case ("<channel> key=value ...") for the model driver.
mod acc;
mod art;
mod cli;
mod codes;
mod dfs;
mod ess;
mod flags;
mod hball;
mod llp;
mod pmf;
mod lab;
mod prank;
mod probe;
mod split;
mod scc;
mod sort;
mod util;
mod visit;
mod xform;

use std::io::Write;

fn arg(args: &[String], key: &str, def: &str) -> String {
    args.iter()
        .position(|a| a == key)
        .and_then(|i| args.get(i + 1))
        .cloned()
        .unwrap_or_else(|| def.to_string())
}

fn main() {
    let args: Vec<String> = std::env::args().collect();
    if args.len() < 2 {
        eprintln!("usage: harness <channel> [--seed S] [--count N] [--maxn N] [--mode M] [--out FILE]");
        std::process::exit(2);
    }
    if args[1] == "cli-exec" {
        // child mode: run one CLI command of the real `webgraph` tool
        let mut a: Vec<String> = vec!["webgraph".to_string()];
        a.extend(args[2..].iter().cloned());
        match webgraph_cli::cli_main(a) {
            Ok(()) => std::process::exit(0),
            Err(e) => { eprintln!("{e:#}"); std::process::exit(1) }
        }
    }
    if args[1] == "reload-exec" {
        std::panic::set_hook(Box::new(|_| {}));
        art::reload_exec(std::path::Path::new(&args[2]), args[3] == "1");
        return;
    }
    if args[1] == "pmfchild" {
        // child mode of the pmf channel: one primitive at one call site, one output line
        std::panic::set_hook(Box::new(|_| {}));
        pmf::child(&args);
        return;
    }
    // silence the default panic message: panics are caught per case and reported
    std::panic::set_hook(Box::new(|_| {}));
    let seed: u64 = arg(&args, "--seed", "1").parse().unwrap();
    let count: usize = arg(&args, "--count", "100").parse().unwrap();
    let maxn: usize = arg(&args, "--maxn", "40").parse().unwrap();
    let mode = arg(&args, "--mode", "seq");
    let outp = arg(&args, "--out", "-");
    let mut out: Box<dyn Write> = if outp == "-" {
        Box::new(std::io::BufWriter::new(std::io::stdout()))
    } else {
        Box::new(std::io::LineWriter::new(std::fs::File::create(&outp).unwrap()))
    };
    match args[1].as_str() {
        "acc" => acc::run(seed, count, maxn, &mode, &mut out),
        "art" => art::run(seed, count, maxn, &mode, &mut out),
        "flags" => flags::run(seed, count, &mut out),
        "codes" => codes::run(seed, count, &mut out),
        "dfs" => dfs::run(seed, count, maxn, &mode, &mut out),
        "hball" => hball::run(seed, count, maxn, &mode, &mut out),
        "llp" => llp::run(seed, count, maxn, &mode, &args, &mut out),
        "ess" => ess::run(seed, count, maxn, &mode, &mut out),
        "pmf" => pmf::run(seed, &mode, &mut out),
        "lab" => lab::run(seed, count, maxn, &mode, &mut out),
        "prank" => prank::run(seed, count, maxn, &mut out),
        "probe" => probe::run(&mode),
        "cli" => cli::run(seed, count, maxn, &mut out),
        "visit" => visit::run(seed, count, maxn, &mode, &mut out),
        "split" => split::run(seed, count, maxn, &mode, &mut out),
        "scc" => scc::run(seed, count, maxn, &mode, &mut out),
        "sort" => sort::run(seed, count, maxn, &mode, &mut out),
        "xform" => xform::run(seed, count, maxn, &mode, &mut out),
        other => {
            eprintln!("unknown channel {other}");
            std::process::exit(2);
        }
    }
    out.flush().unwrap();
}
