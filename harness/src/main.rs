//! Correspondence harness: runs the implementation on generated cases and prints one case
//! line per case ("<channel> key=value ...") for the model driver.
mod art;
mod flags;
mod prank;
mod probe;
mod util;

use std::io::Write;

fn arg(args: &[String], key: &str, def: &str) -> String {
    args.iter()
        .position(|a| a == key)
        .and_then(|i| args.get(i + 1))
        .cloned()
        .unwrap_or_else(|| def.to_string())
}

fn main() {
    let args: Vec<String> = std::env::args().collect();
    if args.len() < 2 {
        eprintln!("usage: harness <channel> [--seed S] [--count N] [--maxn N] [--mode M] [--out FILE]");
        std::process::exit(2);
    }
    // silence the default panic message: panics are caught per case and reported
    std::panic::set_hook(Box::new(|_| {}));
    let seed: u64 = arg(&args, "--seed", "1").parse().unwrap();
    let count: usize = arg(&args, "--count", "100").parse().unwrap();
    let maxn: usize = arg(&args, "--maxn", "40").parse().unwrap();
    let mode = arg(&args, "--mode", "seq");
    let outp = arg(&args, "--out", "-");
    let mut out: Box<dyn Write> = if outp == "-" {
        Box::new(std::io::BufWriter::new(std::io::stdout()))
    } else {
        Box::new(std::io::BufWriter::new(std::fs::File::create(&outp).unwrap()))
    };
    match args[1].as_str() {
        "art" => art::run(seed, count, maxn, &mode, &mut out),
        "flags" => flags::run(seed, count, &mut out),
        "prank" => prank::run(seed, count, maxn, &mut out),
        "probe" => probe::run(&mode),
        other => {
            eprintln!("unknown channel {other}");
            std::process::exit(2);
        }
    }
    out.flush().unwrap();
}
