//! Channel "scc" (C15): `sccs::tarjan`, `sccs::kosaraju` on digraphs, `sccs::symm_seq`,
//! `sccs::symm_par` (thread pools 1..16) on their symmetrisations, `Sccs::sort_by_size` and
//! `Sccs::par_sort_by_size`.  One line per graph with the component arrays and counts.
//!
//! Modes: `exh` (all digraphs with loops on 0..=maxn nodes, maxn <= 4), `exh5` (`count`
//! sampled digraphs on 5 nodes), `rand` (`count` structured random graphs with at most
//! `maxn` nodes: sparse/dense random, deep chains, one large SCC, many singletons, DAGs,
//! DAGs of cycles, self-loops), `big` (`count` graphs with `maxn`..4*`maxn` nodes, for which
//! the driver only runs the models and the cross checks).
use crate::art::vec_graph;
use crate::util::*;
use dsi_progress_logger::no_logging;
use std::io::Write;
use std::panic::AssertUnwindSafe;
use webgraph_algo::sccs;

fn transpose(g: &Graph) -> Graph {
    let mut t: Graph = vec![Vec::new(); g.len()];
    for (x, l) in g.iter().enumerate() {
        for &y in l {
            t[y].push(x);
        }
    }
    t
}

fn symmetrise(g: &Graph) -> Graph {
    let mut s = g.clone();
    for (x, l) in g.iter().enumerate() {
        for &y in l {
            s[y].push(x);
        }
    }
    for l in s.iter_mut() {
        l.sort_unstable();
        l.dedup();
    }
    s
}

fn norm(g: &mut Graph) {
    for l in g.iter_mut() {
        l.sort_unstable();
        l.dedup();
    }
}

fn res(r: Result<sccs::Sccs, String>) -> (String, String, String) {
    match r {
        Ok(s) => ("ok".into(), fmt_ints(s.components()), s.num_components().to_string()),
        Err(p) => (format!("panic:{}", sanitize(&p)), String::new(), "0".into()),
    }
}

pub struct Pools(Vec<rayon::ThreadPool>);
impl Pools {
    fn new() -> Self {
        Pools((1..=16).map(|t| rayon::ThreadPoolBuilder::new().num_threads(t).build().unwrap()).collect())
    }
    fn get(&self, t: usize) -> &rayon::ThreadPool {
        &self.0[t - 1]
    }
}

fn emit(out: &mut impl Write, id: &str, kind: &str, big: bool, g: &Graph, threads: &[usize], pools: &Pools, rng: &mut Rng) {
    let n = g.len();
    let vg = vec_graph(g);
    let gt = transpose(g);
    let vgt = vec_graph(&gt);
    let sg = symmetrise(g);
    let vsg = vec_graph(&sg);
    let tj = catch(AssertUnwindSafe(|| sccs::tarjan(&vg, no_logging![])));
    let ko = catch(AssertUnwindSafe(|| sccs::kosaraju(&vg, &vgt, no_logging![])));
    // Tarjan on the symmetric graph as well (connected components again)
    let tjs = catch(AssertUnwindSafe(|| sccs::tarjan(&vsg, no_logging![])));
    let ss = catch(AssertUnwindSafe(|| sccs::symm_seq(&vsg, no_logging![])));
    let mut sp_st = Vec::new();
    let mut sp_comp: Vec<Vec<usize>> = Vec::new();
    let mut sp_k = Vec::new();
    for &t in threads {
        let r = catch(AssertUnwindSafe(|| pools.get(t).install(|| sccs::symm_par(&vsg, no_logging![]))));
        match r {
            Ok(s) => {
                sp_st.push("ok".to_string());
                sp_comp.push(s.components().to_vec());
                sp_k.push(s.num_components());
            }
            Err(p) => {
                sp_st.push(format!("panic:{}", sanitize(&p)));
                sp_comp.push(vec![]);
                sp_k.push(0);
            }
        }
    }
    // renumbering by size: sequential on Tarjan's result, parallel on Kosaraju's
    let mut sort_fields = String::new();
    if let Ok(s) = &tj {
        let mut s2 = sccs::Sccs::new(s.num_components(), s.components().to_vec().into_boxed_slice());
        match catch(AssertUnwindSafe(|| { let sz = s2.sort_by_size(); (sz, s2) })) {
            Ok((sz, s2)) => sort_fields.push_str(&format!(" sbst=ok sb={} sbk={} sbs={}", fmt_ints(s2.components()), s2.num_components(), fmt_ints(&sz))),
            Err(p) => sort_fields.push_str(&format!(" sbst=panic:{}", sanitize(&p))),
        }
    }
    if let Ok(s) = &ko {
        let t = threads[rng.below(threads.len())];
        let mut s2 = sccs::Sccs::new(s.num_components(), s.components().to_vec().into_boxed_slice());
        match catch(AssertUnwindSafe(|| { let sz = pools.get(t).install(|| s2.par_sort_by_size()); (sz, s2) })) {
            Ok((sz, s2)) => sort_fields.push_str(&format!(" psbst=ok psbt={} psb={} psbk={} psbs={}", t, fmt_ints(s2.components()), s2.num_components(), fmt_ints(&sz))),
            Err(p) => sort_fields.push_str(&format!(" psbst=panic:{}", sanitize(&p))),
        }
    }
    // compute_sizes without renumbering
    let csz = match &tj {
        Ok(s) => match catch(AssertUnwindSafe(|| s.compute_sizes())) { Ok(z) => fmt_ints(&z), Err(_) => "panic".into() },
        Err(_) => "-".into(),
    };
    let (tjst, tjc, tjk) = res(tj);
    let (kost, koc, kok) = res(ko);
    let (tjsst, tjsc, tjsk) = res(tjs);
    let (ssst, ssc, ssk) = res(ss);
    writeln!(out, "scc id={id} kind={kind} big={} n={n} arcs={} g={} sg={} tjst={tjst} tj={tjc} tjk={tjk} kost={kost} ko={koc} kok={kok} tjsst={tjsst} tjs={tjsc} tjsk={tjsk} ssst={ssst} ss={ssc} ssk={ssk} spt={} spst={} sp={} spk={} csz={csz}{sort_fields}",
        big as u8, num_arcs(g), fmt_lists(g), fmt_lists(&sg), fmt_ints(threads), sp_st.join(","),
        if sp_comp.is_empty() { "".to_string() } else { sp_comp.iter().map(|c| fmt_ints(c)).collect::<Vec<_>>().join(";") },
        fmt_ints(&sp_k)).unwrap();
}

/// the digraph number `code` on `n` nodes: bit `u*n+v` is the arc u -> v
fn graph_of_code(n: usize, code: u64) -> Graph {
    let mut g: Graph = vec![Vec::new(); n];
    for u in 0..n {
        for v in 0..n {
            if code >> (u * n + v) & 1 == 1 {
                g[u].push(v);
            }
        }
    }
    g
}

fn relabel(g: &Graph, rng: &mut Rng) -> Graph {
    let n = g.len();
    let mut p: Vec<usize> = (0..n).collect();
    rng.shuffle(&mut p);
    let mut h: Graph = vec![Vec::new(); n];
    for (x, l) in g.iter().enumerate() {
        for &y in l {
            h[p[x]].push(p[y]);
        }
    }
    norm(&mut h);
    h
}

pub fn gen_random(rng: &mut Rng, n: usize) -> (Graph, &'static str) {
    let kind = rng.below(10);
    let mut g: Graph = vec![Vec::new(); n];
    if n == 0 {
        return (g, "empty");
    }
    let name = match kind {
        0 => { g = gen_graph(rng, n); "structured" }
        1 => { // sparse random, about c arcs per node
            let c = rng.pick(&[1usize, 1, 2, 3]);
            let m = n * c / rng.pick(&[1usize, 2]);
            for _ in 0..m { let u = rng.below(n); let v = rng.below(n); g[u].push(v); }
            "sparse"
        }
        2 => { // deep chain, possibly closed into a cycle, possibly with a few extra arcs
            for u in 0..n - 1 { g[u].push(u + 1); }
            if rng.chance(1, 2) { g[n - 1].push(0); }
            for _ in 0..rng.below(3) { let u = rng.below(n); let v = rng.below(n); g[u].push(v); }
            "chain"
        }
        3 => { // one large SCC: a cycle through all nodes plus chords; a few pendant nodes
            let core = if rng.chance(1, 2) { n } else { (n * 3 / 4).max(1) };
            for u in 0..core { g[u].push((u + 1) % core); }
            for _ in 0..rng.below(n + 1) { let u = rng.below(core); let v = rng.below(core); g[u].push(v); }
            for u in core..n { if rng.chance(1, 2) { g[u].push(rng.below(core)); } else { let s = rng.below(core); g[s].push(u); } }
            "bigscc"
        }
        4 => { // many singletons: a DAG (arcs only upwards)
            let m = rng.below(2 * n + 1);
            for _ in 0..m { let u = rng.below(n); let v = rng.below(n); if u < v { g[u].push(v); } }
            "dag"
        }
        5 => { // no or almost no arcs, self-loops
            for u in 0..n { if rng.chance(1, 3) { g[u].push(u); } }
            if rng.chance(1, 2) && n > 1 { let u = rng.below(n); let v = rng.below(n); g[u].push(v); }
            "loops"
        }
        6 => { // DAG of cycles
            let mut start = 0;
            let mut blocks = Vec::new();
            while start < n {
                let len = rng.range(1, (n - start).min(1 + n / 3).max(1));
                for i in 0..len { if len > 1 || rng.chance(1, 4) { g[start + i].push(start + (i + 1) % len); } }
                blocks.push((start, len));
                start += len;
            }
            for _ in 0..blocks.len() * 2 {
                let a = rng.below(blocks.len()); let b = rng.below(blocks.len());
                if a < b { let u = blocks[a].0 + rng.below(blocks[a].1); let v = blocks[b].0 + rng.below(blocks[b].1); g[u].push(v); }
            }
            "cycledag"
        }
        7 => { // dense
            for u in 0..n { for v in 0..n { if rng.chance(1, 3) { g[u].push(v); } } }
            "dense"
        }
        8 => { // Hamiltonian path whose last node links back near the root, then to the root: early exit
            for u in 0..n - 1 { g[u].push(u + 1); }
            g[n - 1].push(rng.below(n));
            g[rng.below(n)].push(0);
            for _ in 0..rng.below(4) { let u = rng.below(n); let v = rng.below(n); g[u].push(v); }
            "hamilton"
        }
        _ => { // tree with back arcs
            for u in 1..n { let p = rng.below(u); g[p].push(u); }
            for _ in 0..rng.below(n / 2 + 1) { let u = rng.below(n); let v = rng.below(n); g[u].push(v); }
            "tree"
        }
    };
    norm(&mut g);
    // most generators are label-biased on purpose (discovery order = label order exercises the
    // early exit); relabel half of the time
    if rng.chance(1, 2) && kind != 0 {
        g = relabel(&g, rng);
    }
    (g, name)
}

fn pick_threads(rng: &mut Rng, k: usize) -> Vec<usize> {
    let mut all: Vec<usize> = (1..=16).collect();
    rng.shuffle(&mut all);
    let mut t: Vec<usize> = all.into_iter().take(k).collect();
    t.sort_unstable();
    t
}

/// The command-line entry point (cli/src/sccs.rs): compress the graph, build the Elias-Fano
/// offsets, run `webgraph-sccs` with or without `--renumber`, with `-j` threads, and read the
/// ASCII outputs back.
fn emit_cli(out: &mut impl Write, id: &str, kind: &str, g: &Graph, renumber: bool, threads: usize) {
    // one run in three does not ask for the sizes file (the options are independent)
    let with_sizes = (g.len() + num_arcs(g) + threads) % 3 != 0;
    use dsi_bitstream::prelude::BE;
    use webgraph::prelude::*;
    let dir = tempfile::Builder::new().prefix("wgverif-scc").tempdir().unwrap();
    let base = dir.path().join("g");
    let comp_out = dir.path().join("g.sccs");
    let sizes_out = dir.path().join("g.sizes");
    let vg = vec_graph(g);
    let prep = catch(AssertUnwindSafe(|| -> anyhow::Result<()> {
        BvComp::with_basename(&base).comp_graph::<BE>(&vg)?;
        webgraph_cli::cli_main(vec!["webgraph".to_string(), "build".into(), "ef".into(), base.display().to_string()])?;
        Ok(())
    }));
    let prep_st = match prep {
        Ok(Ok(())) => "ok".to_string(),
        Ok(Err(e)) => format!("err:{}", sanitize(&format!("{e:#}"))),
        Err(p) => format!("panic:{}", sanitize(&p)),
    };
    let mut st = "-".to_string();
    let mut comp = String::new();
    let mut sizes = String::new();
    if prep_st == "ok" {
        let mut args = vec!["webgraph-sccs".to_string(), base.display().to_string(), comp_out.display().to_string(),
            "-j".into(), threads.to_string()];
        if with_sizes { args.push("-s".into()); args.push(sizes_out.display().to_string()); }
        if renumber { args.push("-r".into()); }
        let r = catch(AssertUnwindSafe(|| webgraph_cli::sccs::cli_main(args)));
        st = match r {
            Ok(Ok(())) => "ok".to_string(),
            Ok(Err(e)) => format!("err:{}", sanitize(&format!("{e:#}"))),
            Err(p) => format!("panic:{}", sanitize(&p)),
        };
        if st == "ok" {
            let rd = |p: &std::path::Path| -> String {
                std::fs::read_to_string(p).unwrap_or_default().split_whitespace().collect::<Vec<_>>().join(",")
            };
            comp = rd(&comp_out);
            sizes = rd(&sizes_out);
        }
    }
    writeln!(out, "scccli id={id} kind={kind} n={} arcs={} g={} renumber={} sizesopt={} j={threads} prep={prep_st} st={st} comp={comp} sizes={sizes}",
        g.len(), num_arcs(g), fmt_lists(g), renumber as u8, with_sizes as u8).unwrap();
}

pub fn run(seed: u64, count: usize, maxn: usize, mode: &str, out: &mut impl Write) {
    let mut rng = Rng::new(seed ^ 0x5CC5);
    let pools = Pools::new();
    let all_threads: Vec<usize> = (1..=16).collect();
    match mode {
        "exh" => {
            for n in 0..=maxn.min(4) {
                let total: u64 = 1u64 << (n * n);
                for code in 0..total {
                    let g = graph_of_code(n, code);
                    // n <= 3: every pool size; n = 4: three pool sizes per graph
                    let th = if n <= 3 { all_threads.clone() } else { pick_threads(&mut rng, 3) };
                    emit(out, &format!("e{n}_{code}"), "exh", false, &g, &th, &pools, &mut rng);
                }
            }
        }
        "exh5" => {
            for i in 0..count {
                let code = rng.next() & ((1u64 << 25) - 1);
                // thin the graph out half of the time (dense graphs are almost always one SCC)
                let code = if rng.chance(1, 2) { code & rng.next() } else { code };
                let g = graph_of_code(5, code);
                let th = pick_threads(&mut rng, 3);
                emit(out, &format!("f{i}_{code}"), "exh5", false, &g, &th, &pools, &mut rng);
            }
        }
        "rand" => {
            for i in 0..count {
                let n = match rng.below(10) { 0 => rng.below(4), 1..=6 => rng.range(1, maxn.min(24).max(1)), _ => rng.range(1, maxn.max(1)) };
                let (g, kind) = gen_random(&mut rng, n);
                let th = if rng.chance(1, 8) { all_threads.clone() } else { pick_threads(&mut rng, 3) };
                emit(out, &format!("r{i}"), kind, false, &g, &th, &pools, &mut rng);
            }
        }
        "big" => {
            for i in 0..count {
                let n = rng.range(maxn.max(1), 4 * maxn.max(1));
                let (g, kind) = gen_random(&mut rng, n);
                let th = pick_threads(&mut rng, 2);
                emit(out, &format!("b{i}"), kind, true, &g, &th, &pools, &mut rng);
            }
        }
        "cli" => {
            // the smallest graphs first (0, 1, 2 nodes), then random ones
            let mut fixed: Vec<Graph> = vec![vec![], vec![vec![]], vec![vec![0]], vec![vec![1], vec![0]], vec![vec![], vec![]]];
            for i in 0..count {
                let (g, kind) = if let Some(g) = fixed.pop() { (g, "fixed") } else {
                    let n = rng.range(1, maxn.max(1));
                    gen_random(&mut rng, n)
                };
                emit_cli(out, &format!("c{i}"), kind, &g, rng.chance(1, 2), rng.pick(&[1usize, 1, 2, 4]));
            }
        }
        "huge" => {
            // Component arrays far above the minimum task length of the parallel loops
            // (RAYON_MIN_LEN = 100000), too large for the list-based model: the arrays and
            // the returned sizes are printed and judged in the driver by the proved n log n
            // checker big_check_sort_by_size (aspect "big").  The specification of
            // (par_)sort_by_size - same partition, non-increasing sizes, returned sizes =
            // compute_sizes() - is ALSO evaluated here by linear scans (key hverdict): an
            // unproved verdict the driver compares with its own (aspect "bigagree").
            // --maxn caps the sizes (never below 200 001: the faults this probe exists for
            // only appear above 200 000 nodes).
            let cap = if maxn < 200_001 { 1_000_003 } else { maxn };
            for j in 0..count {
                let n = [250_003usize, 400_001, 1_000_003][j % 3].min(cap);
                let k = rng.range(3, 9);
                // k components of nearly equal sizes in scrambled order
                let comp: Vec<usize> = (0..n).map(|i| (i * 7 + i / 3) % k).collect();
                for par in [false, true] {
                    let t = rng.pick(&[2usize, 3, 8, 16]);
                    let mut s2 = sccs::Sccs::new(k, comp.clone().into_boxed_slice());
                    let r = catch(AssertUnwindSafe(|| {
                        let sz = if par { pools.get(t).install(|| s2.par_sort_by_size()) } else { s2.sort_by_size() };
                        (sz, s2)
                    }));
                    let (status, v, data) = match r {
                        Err(m) => { let s = format!("panic:{}", sanitize(&m)); (s.clone(), format!("FAIL({s})"), "new= sizes= csizes=".to_string()) }
                        Ok((sz, s2)) => {
                            let new = s2.components();
                            let csz = s2.compute_sizes();
                            let mut real = vec![0usize; k];
                            let mut map = vec![usize::MAX; k];
                            let mut bad: Option<String> = None;
                            if new.len() != n { bad = Some("length".into()); }
                            for i in 0..n {
                                if bad.is_some() { break; }
                                if new[i] >= k { bad = Some(format!("label-out-of-range:node{i}")); break; }
                                real[new[i]] += 1;
                                if map[comp[i]] == usize::MAX { map[comp[i]] = new[i]; }
                                else if map[comp[i]] != new[i] { bad = Some(format!("partition-changed:node{i}")); break; }
                            }
                            if bad.is_none() {
                                let mut m2 = map.clone(); m2.sort_unstable(); m2.dedup();
                                if m2.len() != k { bad = Some("components-merged".into()); }
                                else if real.windows(2).any(|w| w[0] < w[1]) { bad = Some(format!("sizes-not-non-increasing:{}", fmt_ints(&real))); }
                                else if sz.to_vec() != real { bad = Some(format!("returned-sizes:{}vs{}", fmt_ints(&sz), fmt_ints(&real))); }
                                else if csz.to_vec() != real { bad = Some("compute_sizes".into()); }
                            }
                            let v = match bad { None => "ok".to_string(), Some(b) => format!("FAIL({b})") };
                            ("ok".to_string(), v, format!("new={} sizes={} csizes={}", fmt_ints(new), fmt_ints(&sz), fmt_ints(&csz)))
                        }
                    };
                    writeln!(out, "sccbig id=h{j}{} kind=huge n={n} k={k} par={} t={t} status={status} hverdict={v} old={} {data}",
                        if par { "p" } else { "s" }, par as u8, fmt_ints(&comp)).unwrap();
                }
            }
        }
        other => {
            eprintln!("scc: unknown mode {other}");
            std::process::exit(2);
        }
    }
}
