//! Channel "dfs" (C14): sequential depth-first visits (`SeqNoPred`, `SeqPred`, `SeqPath`),
//! `DfsOrder`, `top_sort`, `is_acyclic`.
//!
//! Two kinds of lines:
//!   dfs     id=.. n=.. g=<lists> vis=<visit>|<visit>.. path=<evs>|.. pred=<evs>|.. nopred=<evs>|..
//!           a scenario: a sequence of visit calls on ONE visit object per flavour.
//!           visit = reset/roots/kind.a.b/stop   (roots "1,2,3"; stop -1 none, k >= 0 break at
//!           the event of index k, -2 break at the first Revisit with on_stack)
//!           evs = events joined by ',' ("-" if none): I.r  P.v.p.r.d  R.v.p.r.d.b  O.v.p.r.d
//!           D.r   (without the p field for nopred), X = panic
//!   dfsalgo id=.. n=.. g=<lists> acyc=<0|1|panic> ts=<list|panic> order=<r.p.v.d,..|panic> len=<..>
use crate::util::*;
use dsi_progress_logger::no_logging;
use std::io::Write;
use std::ops::ControlFlow::{self, Break, Continue};
use std::panic::AssertUnwindSafe;
use webgraph::prelude::*;
use webgraph::visits::depth_first::{EventNoPred, EventPred, SeqNoPred, SeqPath, SeqPred};
use webgraph::visits::Sequential;

#[derive(Clone)]
struct Visit {
    reset: bool,
    roots: Vec<usize>,
    kind: usize,
    a: usize,
    b: usize,
    stop: i64,
}

fn filt(kind: usize, a: usize, b: usize, node: usize, pred: usize, root: usize, depth: usize) -> bool {
    match kind {
        1 => node != a,
        2 => depth < a,
        3 => (node + 2 * pred) % 3 != a % 3,
        4 => (node + root + depth) % (a + 2) != b % (a + 2),
        5 => node < a,
        6 => node != a && node != b,
        _ => true,
    }
}

fn ev_pred(e: &EventPred) -> String {
    match e {
        EventPred::Init { root } => format!("I.{root}"),
        EventPred::Previsit { node, parent, root, depth } => format!("P.{node}.{parent}.{root}.{depth}"),
        EventPred::Revisit { node, pred, root, depth, on_stack } => format!("R.{node}.{pred}.{root}.{depth}.{}", *on_stack as u8),
        EventPred::Postvisit { node, parent, root, depth } => format!("O.{node}.{parent}.{root}.{depth}"),
        EventPred::Done { root } => format!("D.{root}"),
    }
}

fn ev_nopred(e: &EventNoPred) -> String {
    match e {
        EventNoPred::Init { root } => format!("I.{root}"),
        EventNoPred::Previsit { node, root, depth } => format!("P.{node}.{root}.{depth}"),
        EventNoPred::Revisit { node, root, depth } => format!("R.{node}.{root}.{depth}"),
        EventNoPred::Done { root } => format!("D.{root}"),
    }
}

fn join(evs: &[String]) -> String {
    if evs.is_empty() { "-".to_string() } else { evs.join(",") }
}

/// Runs the scenario on one visit object implementing `Sequential<EventPred>`.
fn run_pred<V: Sequential<EventPred>>(visit: &mut V, vis: &[Visit]) -> String {
    let mut outs = Vec::new();
    for v in vis {
        if v.reset { visit.reset(); }
        let mut evs: Vec<String> = Vec::new();
        let r = catch(AssertUnwindSafe(|| {
            let mut count: i64 = 0;
            let _ = visit.visit_filtered(
                v.roots.iter().copied(),
                |e: EventPred| -> ControlFlow<(), ()> {
                    evs.push(ev_pred(&e));
                    let hit = if v.stop == -2 { matches!(e, EventPred::Revisit { on_stack: true, .. }) } else { count == v.stop };
                    count += 1;
                    if hit { Break(()) } else { Continue(()) }
                },
                |f| filt(v.kind, v.a, v.b, f.node, f.pred, f.root, f.depth),
            );
        }));
        if r.is_err() { evs.push("X".to_string()); }
        outs.push(join(&evs));
    }
    outs.join("|")
}

fn run_nopred<V: Sequential<EventNoPred>>(visit: &mut V, vis: &[Visit]) -> String {
    let mut outs = Vec::new();
    for v in vis {
        if v.reset { visit.reset(); }
        let mut evs: Vec<String> = Vec::new();
        let r = catch(AssertUnwindSafe(|| {
            let mut count: i64 = 0;
            let _ = visit.visit_filtered(
                v.roots.iter().copied(),
                |e: EventNoPred| -> ControlFlow<(), ()> {
                    evs.push(ev_nopred(&e));
                    let hit = count == v.stop;
                    count += 1;
                    if hit { Break(()) } else { Continue(()) }
                },
                |f| filt(v.kind, v.a, v.b, f.node, 0, f.root, f.depth),
            );
        }));
        if r.is_err() { evs.push("X".to_string()); }
        outs.push(join(&evs));
    }
    outs.join("|")
}

fn vec_graph(g: &Graph) -> VecGraph {
    let mut vg = VecGraph::empty(g.len());
    for (u, l) in g.iter().enumerate() {
        for &v in l { vg.add_arc(u, v); }
    }
    vg
}

/// successor lists as the implementation serves them
fn served(vg: &VecGraph) -> Graph {
    (0..vg.num_nodes()).map(|u| vg.successors(u).into_iter().collect()).collect()
}

fn fmt_vis(vis: &[Visit]) -> String {
    vis.iter()
        .map(|v| format!("{}/{}/{}.{}.{}/{}", v.reset as u8, fmt_ints(&v.roots), v.kind, v.a, v.b, v.stop))
        .collect::<Vec<_>>()
        .join("|")
}

fn emit_scenario(out: &mut impl Write, id: &str, g: &Graph, vis: &[Visit]) {
    let vg = vec_graph(g);
    let sg = served(&vg);
    let path = { let mut v = SeqPath::new(&vg); run_pred(&mut v, vis) };
    let pred = { let mut v = SeqPred::new(&vg); run_pred(&mut v, vis) };
    let uses_pred = vis.iter().any(|v| v.kind == 3);
    let nopred = if uses_pred { "x".to_string() } else { let mut v = SeqNoPred::new(&vg); run_nopred(&mut v, vis) };
    writeln!(out, "dfs id={id} n={} arcs={} g={} vis={} path={} pred={} nopred={}",
        sg.len(), num_arcs(&sg), fmt_lists(&sg), fmt_vis(vis), path, pred, nopred).unwrap();
}

fn emit_algo(out: &mut impl Write, id: &str, g: &Graph) {
    let vg = vec_graph(g);
    let sg = served(&vg);
    let acyc = match catch(AssertUnwindSafe(|| webgraph_algo::is_acyclic(&vg, no_logging![]))) {
        Ok(b) => (b as u8).to_string(),
        Err(p) => format!("panic:{}", sanitize(&p)),
    };
    let ts = match catch(AssertUnwindSafe(|| webgraph_algo::top_sort(&vg, no_logging![]))) {
        Ok(t) => if t.is_empty() { "-".to_string() } else { fmt_ints(&t) },
        Err(p) => format!("panic:{}", sanitize(&p)),
    };
    let (order, len) = match catch(AssertUnwindSafe(|| {
        let mut visit = SeqPred::new(&vg);
        // dirty the visit first: the iterator must reset it
        let _ = visit.visit([0usize; 0], |_e: EventPred| -> ControlFlow<(), ()> { Continue(()) });
        if !sg.is_empty() {
            let _ = visit.visit([sg.len() - 1], |_e: EventPred| -> ControlFlow<(), ()> { Continue(()) });
        }
        let it = (&mut visit).into_iter();
        let mut lens = vec![it.len()];
        let mut evs = Vec::new();
        let mut it = it;
        while let Some(e) = it.next() {
            evs.push(format!("{}.{}.{}.{}", e.root, e.parent, e.node, e.depth));
            lens.push(it.len());
        }
        (join(&evs), fmt_ints(&lens))
    })) {
        Ok(x) => x,
        Err(p) => (format!("panic:{}", sanitize(&p)), "-".to_string()),
    };
    writeln!(out, "dfsalgo id={id} n={} arcs={} g={} acyc={} ts={} order={} len={}",
        sg.len(), num_arcs(&sg), fmt_lists(&sg), acyc, ts, order, len).unwrap();
}

/// digraph on n nodes from the bits of `code` (bit u*n+v = arc u->v; self-loops included)
fn graph_of_code(n: usize, code: u64) -> Graph {
    (0..n).map(|u| (0..n).filter(|&v| code >> (u * n + v) & 1 == 1).collect()).collect()
}

fn rand_filter(rng: &mut Rng, n: usize) -> (usize, usize, usize) {
    let kind = rng.pick(&[0usize, 0, 0, 1, 2, 3, 4, 5, 6]);
    let a = match kind { 2 => rng.below(4), 5 => rng.below(n + 2), _ => rng.below(n + 1) };
    (kind, a, rng.below(n + 1))
}

fn rand_roots(rng: &mut Rng, n: usize) -> Vec<usize> {
    if n == 0 { return vec![]; }
    match rng.below(5) {
        0 => (0..n).collect(),
        1 => { let mut r: Vec<usize> = (0..n).collect(); rng.shuffle(&mut r); r }
        2 => vec![rng.below(n)],
        3 => (0..rng.range(0, 4)).map(|_| rng.below(n)).collect(), // duplicates, possibly empty
        _ => (0..n).rev().collect(),
    }
}

/// a random scenario: 1..4 visit calls on the same visit objects
fn rand_scenario(rng: &mut Rng, n: usize, allow_stop: bool) -> Vec<Visit> {
    let k = rng.range(1, 4);
    let mut vis = Vec::new();
    let mut force_reset = false;
    for i in 0..k {
        let (kind, a, b) = rand_filter(rng, n);
        let stop: i64 = if allow_stop && rng.chance(1, 5) {
            if rng.chance(1, 3) { -2 } else if rng.chance(1, 2) { 0 } else { rng.below(3 * n + 3) as i64 }
        } else { -1 };
        let reset = force_reset || (i > 0 && rng.chance(1, 3));
        vis.push(Visit { reset, roots: rand_roots(rng, n), kind, a, b, stop });
        // an interrupted visit leaves frames on the stack: it must be reset before reuse --
        // except when the callback breaks on the very first event, the Init of the first
        // root that is not known yet: nothing has been marked or pushed at that point, so the
        // visit object may be used again as it is
        force_reset = stop != -1 && stop != 0;
    }
    vis
}

fn full(n: usize) -> Vec<Visit> {
    vec![Visit { reset: false, roots: (0..n).collect(), kind: 0, a: 0, b: 0, stop: -1 }]
}

/// random graphs of several shapes
fn rand_graph(rng: &mut Rng, maxn: usize) -> Graph {
    let n = match rng.below(10) { 0 => rng.range(0, 3), 1..=5 => rng.range(4, 12), 6..=8 => rng.range(13, 40), _ => rng.range(41, maxn.max(42)) };
    if n == 0 { return vec![]; }
    let mut g: Graph = vec![vec![]; n];
    let mut perm: Vec<usize> = (0..n).collect();
    rng.shuffle(&mut perm);
    match rng.below(8) {
        0 => { // DAG under a hidden order, sparse
            for _ in 0..rng.range(0, 3 * n) { let (i, j) = (rng.below(n), rng.below(n)); if i < j { g[perm[i]].push(perm[j]); } }
        }
        1 => { // DAG plus possibly one back arc or a self-loop
            for _ in 0..rng.range(0, 3 * n) { let (i, j) = (rng.below(n), rng.below(n)); if i < j { g[perm[i]].push(perm[j]); } }
            if rng.chance(1, 2) { let (i, j) = (rng.below(n), rng.below(n)); if i >= j { g[perm[i]].push(perm[j]); } }
        }
        2 => { // long chain(s), maybe closed
            for i in 0..n - 1 { if !rng.chance(1, 15) { g[perm[i]].push(perm[i + 1]); } }
            if rng.chance(1, 3) { g[perm[n - 1]].push(perm[0]); }
            for _ in 0..rng.below(4) { let (i, j) = (rng.below(n), rng.below(n)); if i < j || rng.chance(1, 4) { g[perm[i]].push(perm[j]); } }
        }
        3 => { // dense
            for u in 0..n { for v in 0..n { if rng.chance(2, 3) { g[u].push(v); } } }
        }
        4 => { // dense DAG
            for i in 0..n { for j in i + 1..n { if rng.chance(2, 3) { g[perm[i]].push(perm[j]); } } }
        }
        5 => { // tree with forward/cross arcs
            for i in 1..n { let p = rng.below(i); g[perm[p]].push(perm[i]); }
            for _ in 0..rng.below(n) { let (i, j) = (rng.below(n), rng.below(n)); if i < j { g[perm[i]].push(perm[j]); } }
        }
        6 => return gen_graph(rng, n),
        _ => { // sparse random with self-loops
            for _ in 0..rng.range(0, 2 * n) { g[rng.below(n)].push(rng.below(n)); }
            if rng.chance(1, 3) { let u = rng.below(n); g[u].push(u); }
        }
    }
    for l in g.iter_mut() { l.sort_unstable(); l.dedup(); }
    g
}

/// all sequences over 0..n of length <= maxlen
fn all_root_seqs(n: usize, maxlen: usize) -> Vec<Vec<usize>> {
    let mut res = vec![vec![]];
    let mut last = vec![vec![]];
    for _ in 0..maxlen {
        let mut next = Vec::new();
        for s in &last { for r in 0..n { let mut t: Vec<usize> = s.clone(); t.push(r); next.push(t); } }
        res.extend(next.iter().cloned());
        last = next;
    }
    res
}

pub fn run(seed: u64, count: usize, maxn: usize, mode: &str, out: &mut impl Write) {
    let mut rng = Rng::new(seed ^ 0xD5F5);
    let thorough = mode == "thorough";
    let mut id = 0usize;
    let mut next_id = |p: &str| { id += 1; format!("{p}{id}") };
    // 1. exhaustive: all digraphs on <= 3 nodes (quick) / <= 4 nodes (thorough)
    let exh = if thorough { 4 } else { 3 };
    for n in 0..=exh {
        for code in 0..(1u64 << (n * n)) {
            let g = graph_of_code(n, code);
            emit_algo(out, &next_id("a"), &g);
            emit_scenario(out, &next_id("e"), &g, &full(n));
            if n <= 3 {
                // every root sequence of length <= n (fresh visit, no filter), two per scenario:
                // the second call continues without reset
                let seqs = all_root_seqs(n, n);
                for s in &seqs {
                    if s.is_empty() { continue; }
                    let second = rand_roots(&mut rng, n);
                    let vis = vec![
                        Visit { reset: false, roots: s.clone(), kind: 0, a: 0, b: 0, stop: -1 },
                        Visit { reset: false, roots: second, kind: 0, a: 0, b: 0, stop: -1 },
                    ];
                    emit_scenario(out, &next_id("s"), &g, &vis);
                }
            }
            let reps = if n <= 3 { 2 } else { 1 };
            for _ in 0..reps {
                let vis = rand_scenario(&mut rng, n, true);
                emit_scenario(out, &next_id("r"), &g, &vis);
            }
        }
    }
    // 2. sampled digraphs on 4 (quick) / 5 (both tiers) nodes
    let samples = if thorough { count * 4 } else { count };
    for i in 0..samples {
        let n = if !thorough && i % 2 == 0 { 4 } else { 5 };
        // densities from sparse to dense
        let mut code = rng.next() & ((1u64 << (n * n)) - 1);
        match rng.below(4) { 0 => code &= rng.next(), 1 => code &= rng.next() & rng.next(), 2 => code |= rng.next() & ((1u64 << (n * n)) - 1), _ => {} }
        let g = graph_of_code(n, code);
        emit_algo(out, &next_id("a"), &g);
        emit_scenario(out, &next_id("e"), &g, &full(n));
        let vis = rand_scenario(&mut rng, n, true);
        emit_scenario(out, &next_id("r"), &g, &vis);
    }
    // 3. random larger graphs
    for _ in 0..count {
        let g = rand_graph(&mut rng, maxn);
        let n = g.len();
        emit_algo(out, &next_id("a"), &g);
        emit_scenario(out, &next_id("e"), &g, &full(n));
        for _ in 0..2 {
            let vis = rand_scenario(&mut rng, n, true);
            emit_scenario(out, &next_id("r"), &g, &vis);
        }
    }
    // 4. malformed: a root outside the graph (the visit panics at that root); last call of its scenario
    for _ in 0..(count / 10).max(5) {
        let g = rand_graph(&mut rng, 12);
        let n = g.len();
        let mut vis = rand_scenario(&mut rng, n, false);
        let mut roots = rand_roots(&mut rng, n);
        let pos = rng.below(roots.len() + 1);
        roots.insert(pos, n + rng.below(3));
        vis.push(Visit { reset: rng.chance(1, 2), roots, kind: 0, a: 0, b: 0, stop: -1 });
        emit_scenario(out, &next_id("m"), &g, &vis);
    }
}
