//! Channel "hball": HyperBall (`webgraph_algo::distances::hyperball`) on generated graphs.
//!
//! A *group* fixes everything the result may depend on (graph, node weights, seed, register
//! count, estimator kind, iteration bound); its *cases* vary what the result must NOT depend
//! on: thread pool size, task granularity, presence of the transpose (systolic / local
//! modes), in-memory or external (spill) counter store, builder entry point, whether the
//! centralities are computed, and where `build` is called.  One line per case with
//! everything the implementation returned, the per-iteration mode / modified-counter trace
//! (captured from the progress log) and, for small register counts, the initial register
//! vector of every node (computed with the public estimator API), from which the model
//! recomputes the whole run.
use crate::util::*;
use card_est_array::impls::{HyperLogLog8Builder, HyperLogLogBuilder, SliceEstimatorArray};
use card_est_array::traits::{EstimationLogic, EstimatorMut};
use dsi_progress_logger::ProgressLogger;
use rand::{RngExt, SeedableRng};
use std::io::Write;
use std::sync::Mutex;
use webgraph::prelude::*;
use webgraph::utils::Granularity;
use webgraph_algo::distances::hyperball::HyperBallBuilder;

// ---------------------------------------------------------------- log capture
struct Capture;
static LINES: Mutex<Vec<String>> = Mutex::new(Vec::new());
static CAPTURE: Capture = Capture;
impl log::Log for Capture {
    fn enabled(&self, m: &log::Metadata) -> bool {
        m.level() <= log::Level::Info
    }
    fn log(&self, r: &log::Record) {
        if r.level() > log::Level::Info {
            return;
        }
        let s = format!("{}", r.args());
        if s.starts_with("Starting s") || s.starts_with("Modified estimators") {
            LINES.lock().unwrap_or_else(|e| e.into_inner()).push(s);
        }
    }
    fn flush(&self) {}
}

/// "N:5,S:2,SP:1,SL:0": mode of every iteration (N standard, S systolic, P pre-local,
/// L local) and the number of counters it modified.
fn take_trace() -> String {
    let lines: Vec<String> = std::mem::take(&mut *LINES.lock().unwrap_or_else(|e| e.into_inner()));
    let mut out: Vec<String> = Vec::new();
    let mut mode = String::new();
    for l in lines {
        if l.starts_with("Starting standard") {
            mode = "N".into();
        } else if l.starts_with("Starting systolic") {
            mode = "S".into();
            if l.contains("(local: true") { mode.push('L'); }
            if l.contains("pre-local: true") { mode.push('P'); }
        } else if let Some(rest) = l.strip_prefix("Modified estimators: ") {
            let k = rest.split('/').next().unwrap_or("?");
            out.push(format!("{mode}:{k}"));
        }
    }
    out.join(",")
}

// ---------------------------------------------------------------- configurations
#[derive(Clone, Debug)]
struct Cfg {
    /// only a custom discount function is requested (no sum of distances, no harmonic sum)
    disc_only: bool,
    /// the instance has already been run once (a bounded run) before the run that is reported:
    /// every run re-initialises the instance, so nothing may depend on it
    rerun: bool,
    threads: usize,
    gran: Granularity,
    tr: bool,
    ext: bool,
    low: bool,  // low-level builder entry points `new` / `with_transpose`
    cent: bool, // centralities requested
    bo: bool,   // `build` called outside the pool that runs (as the CLI does)
}

fn gran_name(g: &Granularity) -> String {
    match g { Granularity::Nodes(k) => format!("N{k}"), Granularity::Arcs(k) => format!("A{k}") }
}

#[derive(Default)]
struct Out {
    est: Vec<f64>,
    nf: Vec<f64>,
    reach: Vec<f32>,
    harm: Vec<f32>,
    sumd: Vec<f32>,
    clos: Vec<f32>,
    lin: Vec<f32>,
    niem: Vec<f32>,
    disc: Vec<f32>,
}

fn f64s(v: &[f64]) -> String {
    if v.is_empty() { return "-".into(); }
    v.iter().map(|x| format!("{x:.16e}")).collect::<Vec<_>>().join(",")
}
fn f32s(v: &[f32]) -> String {
    if v.is_empty() { return "-".into(); }
    v.iter().map(|x| format!("{x:e}")).collect::<Vec<_>>().join(",")
}

macro_rules! finish {
    ($builder:expr, $cfg:expr, $seed:expr, $ub:expr, $n:expr, $pool:expr, $wrap:expr) => {{
        let mut pl = ProgressLogger::default();
        let b = $builder.granularity($cfg.gran.clone());
        let b = if $cfg.cent && $cfg.disc_only {
            b.discount_function(|d| 1.0 / ((d * d) as f64))
        } else if $cfg.cent {
            b.sum_of_distances(true).sum_of_inverse_distances(true)
                .discount_function(|d| 1.0 / ((d * d) as f64))
        } else { b };
        let mut hb = b.build(&mut pl);
        if $cfg.rerun {
            let rng0 = rand::rngs::SmallRng::seed_from_u64($seed ^ 0x5EED);
            let _ = if $wrap { $pool.install(|| hb.run_until_stable(2, rng0, &mut pl)) } else { hb.run_until_stable(2, rng0, &mut pl) };
            let _ = take_trace();
        }
        let rng = rand::rngs::SmallRng::seed_from_u64($seed);
        let r: anyhow::Result<()> = if $wrap {
            $pool.install(|| match $ub {
                None => hb.run_until_done(rng, &mut pl),
                Some(u) => hb.run_until_stable(u, rng, &mut pl),
            })
        } else {
            match $ub {
                None => hb.run_until_done(rng, &mut pl),
                Some(u) => hb.run_until_stable(u, rng, &mut pl),
            }
        };
        match r {
            Err(e) => Err(format!("err:{}", sanitize(&format!("{e:#}")))),
            Ok(()) => {
                let mut o = Out::default();
                let mut fail = None;
                for v in 0..$n {
                    match hb.reachable_nodes_from(v) { Ok(x) => o.est.push(x), Err(e) => { fail = Some(format!("{e:#}")); break; } }
                }
                if let Some(e) = fail {
                    Err(format!("notrun:{}", sanitize(&e)))
                } else {
                    o.nf = hb.neighborhood_function().map(|x| x.to_vec()).unwrap_or_default();
                    o.reach = hb.reachable_nodes().map(|x| x.to_vec()).unwrap_or_default();
                    if $cfg.cent {
                        o.harm = hb.harmonic_centralities().map(|x| x.to_vec()).unwrap_or_default();
                        o.sumd = hb.sum_of_distances().map(|x| x.to_vec()).unwrap_or_default();
                        o.clos = hb.closeness_centrality().map(|x| x.to_vec()).unwrap_or_default();
                        o.lin = hb.lin_centrality().map(|x| x.to_vec()).unwrap_or_default();
                        o.niem = hb.nieminen_centrality().map(|x| x.to_vec()).unwrap_or_default();
                        o.disc = hb.discounted_centrality(0).map(|x| x.to_vec()).unwrap_or_default();
                    }
                    Ok(o)
                }
            }
        }
    }};
}

#[allow(clippy::too_many_arguments)]
fn run_case(g: &Graph, w: Option<&[usize]>, hll8: bool, log2m: u32, seed: u64, ub: Option<usize>, cfg: &Cfg) -> Result<Out, String> {
    let n = g.len();
    let graph = crate::art::vec_graph(g);
    let mut tg: Graph = vec![Vec::new(); n];
    for (x, l) in g.iter().enumerate() { for &y in l { tg[y].push(x); } }
    let transpose = crate::art::vec_graph(&tg);
    let dcf = graph.build_dcf();
    let tr: Option<&VecGraph> = if cfg.tr { Some(&transpose) } else { None };
    let pool = rayon::ThreadPoolBuilder::new().num_threads(cfg.threads).build().map_err(|e| format!("pool:{e}"))?;
    let res = catch(std::panic::AssertUnwindSafe(|| {
        // everything inside the pool, or only the run (the CLI builds outside its pool)
        macro_rules! go {
            ($mk:expr) => {{
                if cfg.bo {
                    match $mk { Err(e) => Err(e), Ok(b) => finish!(b, cfg, seed, ub, n, pool, true) }
                } else {
                    pool.install(|| match $mk { Err(e) => Err(e), Ok(b) => finish!(b, cfg, seed, ub, n, pool, false) })
                }
            }};
        }
        let refuse = |e: anyhow::Error| format!("refused:{}", sanitize(&format!("{e:#}")));
        match (hll8, cfg.ext, cfg.low) {
            (false, false, false) => go!(HyperBallBuilder::with_hyper_log_log(&graph, tr, &dcf, log2m, w).map_err(refuse)),
            (false, true, _) => go!(HyperBallBuilder::with_hyper_log_log_external(&graph, tr, &dcf, log2m, w).map_err(refuse)),
            (true, false, false) => go!(HyperBallBuilder::with_hyper_log_log8(&graph, tr, &dcf, log2m, w).map_err(refuse)),
            (true, true, _) => go!(HyperBallBuilder::with_hyper_log_log8_external(&graph, tr, &dcf, log2m, w).map_err(refuse)),
            (false, false, true) => {
                let ne = w.map_or(n, |w| w.iter().sum());
                go!(HyperLogLogBuilder::new(ne).log2_num_regs(log2m).build::<usize>()
                    .map_err(|e| format!("refused:{}", sanitize(&format!("{e}"))))
                    .map(|logic| {
                        let a0 = SliceEstimatorArray::new(logic.clone(), n);
                        let a1 = SliceEstimatorArray::new(logic, n);
                        let b = if cfg.tr { HyperBallBuilder::with_transpose(&graph, &transpose, &dcf, a0, a1) }
                                else { HyperBallBuilder::new(&graph, &dcf, a0, a1) };
                        b.weights(w)
                    }))
            }
            (true, false, true) => {
                go!({
                    let logic = HyperLogLog8Builder::new().log2_num_regs(log2m).build::<usize>();
                    let a0 = SliceEstimatorArray::new(logic.clone(), n);
                    let a1 = SliceEstimatorArray::new(logic, n);
                    let b = if cfg.tr { HyperBallBuilder::with_transpose(&graph, &transpose, &dcf, a0, a1) }
                            else { HyperBallBuilder::new(&graph, &dcf, a0, a1) };
                    Ok::<_, String>(b.weights(w))
                })
            }
        }
    }));
    match res {
        Ok(r) => r,
        Err(p) => Err(format!("panic:{}", sanitize(&p))),
    }
}

// ---------------------------------------------------------------- initial registers
/// The register vector HyperBall's `init` gives to every node (the element `v` for an
/// unweighted node; `w[v]` pseudorandom elements drawn sequentially from the seeded
/// generator for a weighted one), read through the public estimator API.
fn initial_registers(n: usize, w: Option<&[usize]>, hll8: bool, log2m: u32, seed: u64) -> Option<Vec<Vec<usize>>> {
    let m = 1usize << log2m;
    let mut rng = rand::rngs::SmallRng::seed_from_u64(seed);
    let mut out = Vec::with_capacity(n);
    if hll8 {
        let logic = HyperLogLog8Builder::new().log2_num_regs(log2m).build::<usize>();
        let mut e = logic.new_estimator();
        for v in 0..n {
            e.clear();
            match w { None => e.add(v), Some(w) => for _ in 0..w[v] { e.add(rng.random::<u64>() as usize); } }
            let b: &[u8] = e.as_ref();
            out.push(b.iter().map(|&x| x as usize).collect());
        }
    } else {
        let ne = w.map_or(n, |w| w.iter().sum());
        if ne == 0 { return None; }
        let logic = HyperLogLogBuilder::new(ne).log2_num_regs(log2m).build::<usize>().ok()?;
        let rs = 5usize; // register size for fewer than 2^32 elements
        let mut e = logic.new_estimator();
        for v in 0..n {
            e.clear();
            match w { None => e.add(v), Some(w) => for _ in 0..w[v] { e.add(rng.random::<u64>() as usize); } }
            let b: &[usize] = e.as_ref();
            if b.len() * 64 != m * rs { return None; }
            let mut regs = Vec::with_capacity(m);
            for i in 0..m {
                let pos = i * rs;
                let (wi, bi) = (pos / 64, pos % 64);
                let mut x = b[wi] >> bi;
                if bi + rs > 64 { x |= b[wi + 1] << (64 - bi); }
                regs.push(x & 31);
            }
            out.push(regs);
        }
    }
    Some(out)
}

// ---------------------------------------------------------------- graph families
fn norm(mut l: Vec<usize>) -> Vec<usize> { l.sort_unstable(); l.dedup(); l }

fn gen_hb_graph(rng: &mut Rng, maxn: usize) -> (Graph, &'static str) {
    let fam = rng.below(12);
    match fam {
        0 => { // tiny
            let n = rng.range(1, 4);
            (gen_graph(rng, n), "tiny")
        }
        1 | 2 => { let n = rng.range(2, maxn); (gen_graph(rng, n), "structured") }
        3 => { // directed path / cycle with chords: large diameter, few changes per round
            let n = rng.range(2, maxn);
            let mut g: Graph = vec![Vec::new(); n];
            for x in 0..n - 1 { g[x].push(x + 1); }
            if rng.chance(1, 2) { g[n - 1].push(0); }
            for _ in 0..rng.below(4) { let a = rng.below(n); let b = rng.below(n); g[a].push(b); }
            (g.into_iter().map(norm).collect(), "path")
        }
        4 | 5 => { // fans into a hub that heads a long chain: the number of modified counters
            // jumps between a few (chain nodes) and many (the fans): systolic, pre-local, local
            let fans = rng.range(1, maxn * 3 / 4);
            let chain = rng.range(1, (maxn - fans).max(2));
            let n = fans + chain;
            let mut g: Graph = vec![Vec::new(); n];
            // nodes 0..chain form the chain (0 is the hub), chain..n are the fans
            for x in 0..chain - 1 { g[x].push(x + 1); }
            let hubs = rng.range(1, 3.min(chain));
            for f in chain..n { g[f].push(rng.below(hubs)); if rng.chance(1, 10) { g[f].push(rng.below(n)); } }
            if rng.chance(1, 3) { g[chain - 1].push(rng.below(chain)); }
            // relabel randomly so that blocks of consecutive nodes mix roles
            let mut perm: Vec<usize> = (0..n).collect();
            if rng.chance(2, 3) { rng.shuffle(&mut perm); }
            let mut h: Graph = vec![Vec::new(); n];
            for x in 0..n { h[perm[x]] = g[x].iter().map(|&y| perm[y]).collect(); }
            (h.into_iter().map(norm).collect(), "fans")
        }
        6 => { // sparse random with many isolated nodes
            let n = rng.range(2, maxn);
            let mut g: Graph = vec![Vec::new(); n];
            let arcs = rng.range(0, n);
            for _ in 0..arcs { let a = rng.below(n); let b = rng.below(n); g[a].push(b); }
            (g.into_iter().map(norm).collect(), "sparse")
        }
        7 => { // several components of different diameters (long tail of late changes)
            let n = rng.range(4, maxn);
            let mut g: Graph = vec![Vec::new(); n];
            let mut x = 0;
            while x < n {
                let cap = rng.pick(&[2usize, 5, 20, 80]).min(n - x);
                let len = rng.range(1, cap);
                for y in x..x + len - 1 { g[y].push(y + 1); if rng.chance(1, 3) { g[y + 1].push(y); } }
                if rng.chance(1, 3) { g[x + len - 1].push(x); }
                x += len;
            }
            (g.into_iter().map(norm).collect(), "components")
        }
        8 => { // symmetric random graph
            let n = rng.range(2, maxn);
            let mut g: Graph = vec![Vec::new(); n];
            for _ in 0..rng.range(1, 2 * n) { let a = rng.below(n); let b = rng.below(n); g[a].push(b); g[b].push(a); }
            (g.into_iter().map(norm).collect(), "symmetric")
        }
        9 => { // layered DAG
            let n = rng.range(3, maxn);
            let layers = rng.range(2, 8.min(n));
            let mut g: Graph = vec![Vec::new(); n];
            for x in 0..n {
                let lx = x * layers / n;
                for _ in 0..rng.below(4) {
                    let y = rng.below(n);
                    if y * layers / n == lx + 1 { g[x].push(y); }
                }
            }
            (g.into_iter().map(norm).collect(), "layers")
        }
        10 => { // tree pointing to the root / away from it, plus a few back arcs
            let n = rng.range(2, maxn);
            let up = rng.chance(1, 2);
            let mut g: Graph = vec![Vec::new(); n];
            for x in 1..n { let p = rng.below(x); if up { g[x].push(p); } else { g[p].push(x); } }
            for _ in 0..rng.below(3) { let a = rng.below(n); let b = rng.below(n); g[a].push(b); }
            (g.into_iter().map(norm).collect(), "tree")
        }
        _ => { // no arcs, or only loops
            let n = rng.range(1, maxn.min(30));
            let mut g: Graph = vec![Vec::new(); n];
            if rng.chance(1, 2) { for x in 0..n { if rng.chance(1, 2) { g[x].push(x); } } }
            (g, "arcless")
        }
    }
}

fn random_cfg(rng: &mut Rng, n: usize, outside_threads: usize) -> Cfg {
    let threads = rng.pick(&[1usize, 2, 2, 3, 4, 5, 7, 8, 12, 16]);
    let gran = match rng.below(8) {
        0 => Granularity::Nodes(1),
        1 => Granularity::Nodes(rng.range(2, 5)),
        2 => Granularity::Nodes(rng.range(6, n.max(7))),
        3 => Granularity::Nodes(16 * 1024),
        4 => Granularity::Arcs(1),
        5 => Granularity::Arcs(rng.range(2, 50) as u64),
        6 => Granularity::Arcs(100_000),
        _ => Granularity::Nodes(rng.range(1, 3)),
    };
    let ext = rng.chance(2, 5);
    Cfg {
        disc_only: rng.chance(1, 4),
        rerun: rng.chance(1, 4),
        threads,
        gran,
        tr: rng.chance(3, 5),
        ext,
        low: !ext && rng.chance(1, 4),
        cent: rng.chance(2, 3),
        // HBALL_BO_ALWAYS=1 (probe only): build outside even when the pool is larger than the global one
        bo: (threads <= outside_threads && rng.chance(1, 4)) || std::env::var("HBALL_BO_ALWAYS").is_ok(),
    }
}

pub fn run(seed: u64, count: usize, maxn: usize, mode: &str, out: &mut impl Write) {
    let _ = log::set_logger(&CAPTURE);
    log::set_max_level(log::LevelFilter::Info);
    let mut rng = Rng::new(seed ^ 0xB411);
    let outside_threads = rayon::current_num_threads();
    // mode "acc": only log2m = 14 groups (accuracy clause); "seq": the general mix
    let per_group: usize = std::env::var("HBALL_CASES").ok().and_then(|s| s.parse().ok()).unwrap_or(6);
    for gid in 0..count {
        let acc = mode == "acc";
        let (g, fam) = gen_hb_graph(&mut rng, if acc { maxn.min(90) } else { maxn });
        let n = g.len();
        let m = num_arcs(&g);
        let hll8 = rng.chance(1, 2);
        let log2m: u32 = if acc { 14 } else {
            match rng.below(10) { 0 => 4, 1 => 5, 2 | 3 => 6, 4 => 7, 5 => 8, 6 => 9, 7 => 10, 8 => rng.range(11, 13) as u32, _ => rng.range(4, 8) as u32 }
        };
        let hseed = rng.pick(&[0u64, 1, 42, 0xDEADBEEF]);
        let weights: Option<Vec<usize>> = if !acc && rng.chance(1, 6) {
            Some((0..n).map(|_| rng.pick(&[0usize, 1, 1, 1, 2, 3])).collect())
        } else { None };
        let ub: Option<usize> = match rng.below(6) { 0 => Some(rng.range(1, 4)), 1 => Some(n + rng.below(3)), 2 => Some(usize::MAX), _ => None };
        let regs = if log2m <= 8 && n * (1usize << log2m) <= 6000 {
            initial_registers(n, weights.as_deref(), hll8, log2m, hseed)
        } else { None };
        // the reference configuration first: one thread, no transpose, in memory
        let mut cfgs = vec![Cfg { disc_only: false, rerun: false, threads: 1, gran: Granularity::Nodes(16 * 1024), tr: false, ext: false, low: false, cent: true, bo: false }];
        // then one that certainly has the transpose, and random ones
        let mut c = random_cfg(&mut rng, n, outside_threads); c.tr = true; cfgs.push(c);
        let mut c = random_cfg(&mut rng, n, outside_threads); c.tr = true; c.ext = true; c.low = false; cfgs.push(c);
        while cfgs.len() < per_group.max(3) { cfgs.push(random_cfg(&mut rng, n, outside_threads)); }
        cfgs.truncate(per_group.max(1));
        for (k, cfg) in cfgs.iter().enumerate() {
            let _ = take_trace();
            let r = run_case(&g, weights.as_deref(), hll8, log2m, hseed, ub, cfg);
            let trace = take_trace();
            let mut line = format!(
                "hball id={gid}.{k} grp={gid} fam={fam} n={n} arcs={m} g={} w={} kind={} log2m={log2m} seed={hseed} ub={} t={} gran={} tr={} store={} api={} cent={} bo={} rerun={} gp={outside_threads}",
                fmt_lists(&g),
                weights.as_ref().map_or("-".to_string(), |w| if w.is_empty() { "-".into() } else { fmt_ints(w) }),
                if hll8 { "hll8" } else { "hll" },
                match ub { None => "done".to_string(), Some(u) if u == usize::MAX => "max".to_string(), Some(u) => u.to_string() },
                cfg.threads, gran_name(&cfg.gran), cfg.tr as u8, if cfg.ext { "ext" } else { "mem" },
                if cfg.low { "low" } else { "hi" }, cfg.cent as u8, cfg.bo as u8, cfg.rerun as u8);
            match r {
                Ok(o) => {
                    line.push_str(&format!(
                        " status=ok iters={} est={} nf={} reach={} harm={} sumd={} clos={} lin={} niem={} disc={} trace={}",
                        o.nf.len().saturating_sub(1), f64s(&o.est), f64s(&o.nf), f32s(&o.reach), f32s(&o.harm), f32s(&o.sumd),
                        f32s(&o.clos), f32s(&o.lin), f32s(&o.niem), f32s(&o.disc), if trace.is_empty() { "-".to_string() } else { trace }));
                }
                Err(e) => line.push_str(&format!(" status={e}")),
            }
            if k == 0 {
                if let Some(r) = &regs { line.push_str(&format!(" regs={}", if n == 0 { "".to_string() } else { fmt_lists(r) })); }
            }
            writeln!(out, "{line}").unwrap();
        }
    }
}
