//! Channel "sort" (C08): the parallel external sorters `ParSortPairs` / `ParSortIters`,
//! the graph-level `ParSortedGraph` configuration, the batch codecs and `KMergeIters`.
//!
//! Three kinds of case lines:
//!  * `sort`      one call of an entry point: input blocks, configuration, and what came
//!                back (status, boundaries, the collected partitions, and the batch files
//!                found in the sorter's temporary directory, decoded);
//!  * `sortcodec` one `encode_batch` of a batch codec: the batch as sorted in place, the
//!                values found in the file (read back with a plain bit reader), and what
//!                `decode_batch` yields;
//!  * `sortkm`    one `KMergeIters` over in-memory sorted iterators.
//!
//! Every case runs in a child process; the parent is a watchdog that reports a case that
//! produces no output for a while as `status=hang` and restarts after it.
use crate::util::*;
use anyhow::Result;
use dsi_bitstream::dispatch::code_consts::{DELTA, GAMMA};
use dsi_bitstream::prelude::*;
use dsi_progress_logger::no_logging;
use rayon::prelude::*;
use std::io::Write;
use std::path::{Path, PathBuf};
use webgraph::graphs::par_sorted_graph::ParSortedGraph;
use webgraph::prelude::*;
use webgraph::utils::gaps::GapsCodec;
use webgraph::utils::grouped_gaps::GroupedGapsCodec;
use webgraph::utils::kmerge_iters::KMergeIters;
use webgraph::utils::par_sort_iters::ParSortIters;
use webgraph::utils::par_sort_pairs::ParSortPairs;
use webgraph::utils::{BatchCodec, DefaultBatchCodec, MemoryUsage, SplitIters};

type T3 = (usize, usize, u64);
type GapsC<const CD: bool> = GapsCodec<NE, FixedWidth<u32>, FixedWidth<u32>, { GAMMA }, { DELTA }, CD>;
type GrpC<const CD: bool> = GroupedGapsCodec<NE, FixedWidth<u32>, { GAMMA }, { GAMMA }, { DELTA }, CD>;

const ENTRIES: [&str; 15] = [
    "pp_sort", "pp_try_sort", "pp_sort_labeled", "pp_try_sort_labeled",
    "pi_sort", "pi_sort_labeled",
    "pi_sort_seq", "pi_try_sort_seq", "pi_sort_labeled_seq", "pi_try_sort_labeled_seq",
    "g_sort_pairs", "g_par_sort_pairs", "g_par_sort_pair_iters", "g_sort_graph", "g_par_sort_graph",
];

struct Case {
    entry: &'static str,
    codec: &'static str, // "default" (unlabelled entry points), "gaps", "grouped"
    cd: bool,            // the codec deduplicates inside a batch
    md: bool,            // the merge deduplicates (const generic DEDUP of the sorter)
    n: usize,
    p: usize,
    threads: usize,
    mu: usize,     // MemoryUsage::BatchSize(mu); 0 = default memory usage
    maxlen: usize, // with_max_len on the parallel iterator (0 = none)
    blocks: Vec<Vec<T3>>,
    ierr: Option<(usize, usize)>, // (block, position) of an Err item (try_ entry points)
}

struct Out {
    bounds: Vec<usize>,
    parts: Vec<Vec<T3>>,
    batches: Vec<Vec<usize>>, // worker, partition, index, then s,d,l ...
}

fn flat3(v: &[T3]) -> Vec<usize> {
    let mut o = Vec::with_capacity(v.len() * 3);
    for &(s, d, l) in v {
        o.push(s);
        o.push(d);
        o.push(l as usize);
    }
    o
}

fn fmt_blocks(b: &[Vec<T3>]) -> String {
    fmt_lists(&b.iter().map(|x| flat3(x)).collect::<Vec<_>>())
}

/// decoded content of every batch file below `base`
fn dump_batches<C: BatchCodec>(codec: &C, base: &Path, lab: impl Fn(C::Label) -> u64) -> Vec<Vec<usize>> {
    let mut out = Vec::new();
    // files (at any depth) that do not follow the naming scheme this inspection knows
    let mut unknown = 0usize;
    fn count_files(p: &Path) -> usize {
        let Ok(rd) = std::fs::read_dir(p) else { return 0 };
        rd.flatten().map(|e| if e.path().is_dir() { count_files(&e.path()) } else { 1 }).sum()
    }
    let Ok(rd) = std::fs::read_dir(base) else { return out };
    for d in rd.flatten() {
        if !d.path().is_dir() { continue; }
        let Ok(files) = std::fs::read_dir(d.path()) else { continue };
        for f in files.flatten() {
            let name = f.file_name().to_string_lossy().to_string();
            if f.path().is_dir() { unknown += count_files(&f.path()); continue; }
            let Some(rest) = name.strip_prefix("sorted_batch_") else { unknown += 1; continue };
            let ids: Vec<usize> = rest.split('_').filter_map(|t| t.parse().ok()).collect();
            if ids.len() != 3 { continue; }
            let mut v = ids.clone();
            match codec.decode_batch(f.path()) {
                Ok(dec) => {
                    for ((s, d), l) in dec {
                        v.push(s);
                        v.push(d);
                        v.push(lab(l) as usize);
                    }
                }
                Err(_) => v.push(usize::MAX),
            }
            out.push(v);
        }
    }
    out.sort();
    // the layout of the sorter's temporary files is an internal detail: when nothing follows
    // the scheme known here but other files exist, the batch files are reported as not
    // inspected (a single marker entry) instead of as absent
    if out.is_empty() && unknown > 0 { return vec![vec![0]]; }
    out
}

fn clean(base: &Path) {
    if let Ok(rd) = std::fs::read_dir(base) {
        for d in rd.flatten() {
            let _ = std::fs::remove_dir_all(d.path());
        }
    }
}

fn collect_labeled<I: Iterator<Item = ((usize, usize), L)>, L>(
    split: SplitIters<I>, batches: Vec<Vec<usize>>, lab: impl Fn(L) -> u64,
) -> Out {
    let bounds = split.boundaries.to_vec();
    let parts = split.iters.into_vec().into_iter()
        .map(|it| it.map(|((s, d), l)| (s, d, lab(l))).collect()).collect();
    Out { bounds, parts, batches }
}

fn collect_plain<I: Iterator<Item = (usize, usize)>>(split: SplitIters<I>, batches: Vec<Vec<usize>>) -> Out {
    let bounds = split.boundaries.to_vec();
    let parts = split.iters.into_vec().into_iter().map(|it| it.map(|(s, d)| (s, d, 0u64)).collect()).collect();
    Out { bounds, parts, batches }
}

fn mem(c: &Case) -> MemoryUsage {
    if c.mu == 0 { MemoryUsage::default() } else { MemoryUsage::BatchSize(c.mu) }
}

fn boom() -> anyhow::Error { anyhow::anyhow!("input-error") }

/// the flattened input as fallible items, with the injected input error
fn try_items(c: &Case) -> Vec<Result<T3>> {
    let mut v = Vec::new();
    for (bi, b) in c.blocks.iter().enumerate() {
        for (i, t) in b.iter().enumerate() {
            if c.ierr == Some((bi, i)) { v.push(Err(boom())); }
            v.push(Ok(*t));
        }
        if let Some((eb, ei)) = c.ierr { if eb == bi && ei >= b.len() { v.push(Err(boom())); } }
    }
    v
}

fn flat(c: &Case) -> Vec<T3> { c.blocks.iter().flatten().copied().collect() }

macro_rules! par_src {
    ($v:expr, $c:expr) => {{
        let it = $v.into_par_iter();
        if $c.maxlen > 0 { it.with_max_len($c.maxlen) } else { it.with_max_len(usize::MAX) }
    }};
}

fn run_pp<const D: bool>(s: ParSortPairs<D>, c: &Case, base: &Path) -> Result<Out> {
    let s = s.num_partitions(c.p).memory_usage(mem(c));
    let dc = DefaultBatchCodec::<D>::default();
    match c.entry {
        "pp_sort" => {
            let v: Vec<(usize, usize)> = flat(c).iter().map(|t| (t.0, t.1)).collect();
            let split = s.sort(par_src!(v, c), no_logging![])?;
            let b = dump_batches(&dc, base, |_| 0);
            Ok(collect_plain(split, b))
        }
        "pp_try_sort" => {
            let v: Vec<Result<(usize, usize)>> = try_items(c).into_iter().map(|r| r.map(|t| (t.0, t.1))).collect();
            let split = s.try_sort(par_src!(v, c), no_logging![])?;
            let b = dump_batches(&dc, base, |_| 0);
            Ok(collect_plain(split, b))
        }
        _ => unreachable!(),
    }
}

fn run_pp_labeled<const D: bool, C: BatchCodec<Label = u32>>(s: ParSortPairs<D>, codec: &C, c: &Case, base: &Path) -> Result<Out> {
    let s = s.num_partitions(c.p).memory_usage(mem(c));
    let split = match c.entry {
        "pp_sort_labeled" => {
            let v: Vec<((usize, usize), u32)> = flat(c).iter().map(|t| ((t.0, t.1), t.2 as u32)).collect();
            s.sort_labeled(codec, par_src!(v, c), no_logging![])?
        }
        "pp_try_sort_labeled" => {
            let v: Vec<Result<((usize, usize), u32)>> =
                try_items(c).into_iter().map(|r| r.map(|t| ((t.0, t.1), t.2 as u32))).collect();
            s.try_sort_labeled(codec, par_src!(v, c), no_logging![])?
        }
        _ => unreachable!(),
    };
    let b = dump_batches(codec, base, |l| l as u64);
    Ok(collect_labeled(split, b, |l| l as u64))
}

fn run_pi<const D: bool>(s: ParSortIters<D>, c: &Case, base: &Path) -> Result<Out> {
    let s = s.num_partitions(c.p).memory_usage(mem(c));
    let dc = DefaultBatchCodec::<D>::default();
    let split = match c.entry {
        "pi_sort" => {
            let blocks: Vec<Vec<(usize, usize)>> = c.blocks.iter().map(|b| b.iter().map(|t| (t.0, t.1)).collect()).collect();
            s.sort(blocks, no_logging![])?
        }
        "pi_sort_seq" => s.sort_seq(flat(c).into_iter().map(|t| (t.0, t.1)), no_logging![])?,
        "pi_try_sort_seq" => s.try_sort_seq(try_items(c).into_iter().map(|r| r.map(|t| (t.0, t.1))), no_logging![])?,
        _ => unreachable!(),
    };
    let b = dump_batches(&dc, base, |_| 0);
    Ok(collect_plain(split, b))
}

fn run_pi_labeled<const D: bool, C: BatchCodec<Label = u32> + Clone>(s: ParSortIters<D>, codec: &C, c: &Case, base: &Path) -> Result<Out> {
    let s = s.num_partitions(c.p).memory_usage(mem(c));
    let split = match c.entry {
        "pi_sort_labeled" => {
            let blocks: Vec<Vec<((usize, usize), u32)>> =
                c.blocks.iter().map(|b| b.iter().map(|t| ((t.0, t.1), t.2 as u32)).collect()).collect();
            s.sort_labeled(codec.clone(), blocks, no_logging![])?
        }
        "pi_sort_labeled_seq" => s.sort_labeled_seq(codec.clone(), flat(c).into_iter().map(|t| ((t.0, t.1), t.2 as u32)), no_logging![])?,
        "pi_try_sort_labeled_seq" => s.try_sort_labeled_seq(
            codec.clone(), try_items(c).into_iter().map(|r| r.map(|t| ((t.0, t.1), t.2 as u32))), no_logging![])?,
        _ => unreachable!(),
    };
    let b = dump_batches(codec, base, |l| l as u64);
    Ok(collect_labeled(split, b, |l| l as u64))
}

fn graph_of(c: &Case) -> VecGraph {
    let mut g = VecGraph::empty(c.n);
    for t in flat(c) { g.add_arc(t.0, t.1); }
    g
}

macro_rules! graph_entry {
    ($conf:expr, $d:literal, $c:expr, $base:expr) => {{
        let c = $c;
        let conf = $conf.num_lenders(c.p).memory_usage(mem(c));
        let dc = DefaultBatchCodec::<$d>::default();
        let sg = match c.entry {
            "g_sort_pairs" => conf.sort_pairs(c.n, flat(c).into_iter().map(|t| (t.0, t.1)))?,
            "g_par_sort_pairs" => {
                let v: Vec<(usize, usize)> = flat(c).iter().map(|t| (t.0, t.1)).collect();
                conf.par_sort_pairs(c.n, par_src!(v, c))?
            }
            "g_par_sort_pair_iters" => {
                let blocks: Vec<Vec<(usize, usize)>> = c.blocks.iter().map(|b| b.iter().map(|t| (t.0, t.1)).collect()).collect();
                conf.par_sort_pair_iters(c.n, blocks.into_iter().map(|b| b.into_iter()))?
            }
            "g_sort_graph" => conf.sort_graph(&graph_of(c))?,
            "g_par_sort_graph" => {
                let pg = ParGraph::new(graph_of(c), c.blocks.len().max(1));
                conf.par_sort_graph(&pg)?
            }
            _ => unreachable!(),
        };
        let b = dump_batches(&dc, $base, |_| 0);
        let (bounds, iters) = sg.into_parts();
        Ok(collect_labeled(SplitIters::new(bounds, iters), b, |_: ()| 0))
    }};
}

fn run_graph(c: &Case, base: &Path) -> Result<Out> {
    if c.md {
        graph_entry!(ParSortedGraph::config().dedup(), true, c, base)
    } else {
        graph_entry!(ParSortedGraph::config(), false, c, base)
    }
}

macro_rules! with_codec {
    ($kind:expr, $cd:expr, $c:ident => $body:expr) => {
        match ($kind, $cd) {
            ("gaps", false) => { let $c = GapsC::<false>::default(); $body }
            ("gaps", true) => { let $c = GapsC::<true>::default(); $body }
            ("grouped", false) => { let $c = GrpC::<false>::default(); $body }
            _ => { let $c = GrpC::<true>::default(); $body }
        }
    };
}

fn run_entry(c: &Case, base: &Path) -> Result<Out> {
    let pool = rayon::ThreadPoolBuilder::new().num_threads(c.threads).build()?;
    pool.install(|| -> Result<Out> {
        match c.entry {
            "pp_sort" | "pp_try_sort" => {
                if c.md { run_pp(ParSortPairs::new_dedup(c.n)?, c, base) } else { run_pp(ParSortPairs::new(c.n)?, c, base) }
            }
            "pp_sort_labeled" | "pp_try_sort_labeled" => with_codec!(c.codec, c.cd, k => {
                if c.md { run_pp_labeled(ParSortPairs::new_dedup(c.n)?, &k, c, base) } else { run_pp_labeled(ParSortPairs::new(c.n)?, &k, c, base) }
            }),
            "pi_sort" | "pi_sort_seq" | "pi_try_sort_seq" => {
                if c.md { run_pi(ParSortIters::new_dedup(c.n)?, c, base) } else { run_pi(ParSortIters::new(c.n)?, c, base) }
            }
            "pi_sort_labeled" | "pi_sort_labeled_seq" | "pi_try_sort_labeled_seq" => with_codec!(c.codec, c.cd, k => {
                if c.md { run_pi_labeled(ParSortIters::new_dedup(c.n)?, &k, c, base) } else { run_pi_labeled(ParSortIters::new(c.n)?, &k, c, base) }
            }),
            _ => run_graph(c, base),
        }
    })
}

// ---------------------------------------------------------------------------------------
// case generation

fn gen_pairs(rng: &mut Rng, n: usize, m: usize, npp: usize) -> Vec<T3> {
    let style = rng.below(8);
    let mut v: Vec<T3> = Vec::with_capacity(m);
    if n == 0 { return v; }
    let hot = rng.below(n);
    let dmax = [n, n, 3, 1, 2 * n + 5][rng.below(5)].max(1);
    for i in 0..m {
        let s = match style {
            0 | 5 | 6 => rng.below(n),
            1 => if rng.chance(4, 5) { hot } else { rng.below(n) },                    // one hot source
            2 => { let lo = (hot / npp.max(1)) * npp.max(1); (lo + rng.below(npp.max(1))).min(n - 1) } // one partition only
            3 => rng.below(n.min(3)),                                                  // low sources
            7 => {                                                                     // hugging a partition boundary
                let b = rng.below(n / npp.max(1) + 2) * npp.max(1);
                (b + rng.below(3)).saturating_sub(1).min(n - 1)
            }
            _ => n - 1 - rng.below(n.min(2)),                                          // last sources
        };
        let d = rng.below(dmax);
        v.push((s, d, (i as u64 * 7 + 1) & 0xFFFF_FFFF));
    }
    match style {
        5 => v.sort(),
        6 => { v.sort(); v.reverse(); }
        _ => {}
    }
    // duplicates of earlier pairs (same key, different label)
    if m > 0 && rng.chance(2, 3) {
        for _ in 0..rng.below(m / 2 + 2) {
            let j = rng.below(v.len());
            let (s, d, _) = v[j];
            let pos = rng.below(v.len() + 1);
            let l = v.len() as u64 * 7 + 1;
            v.insert(pos, (s, d, l));
        }
    }
    v
}

fn split_blocks(rng: &mut Rng, v: Vec<T3>, k: usize) -> Vec<Vec<T3>> {
    let mut blocks: Vec<Vec<T3>> = (0..k).map(|_| Vec::new()).collect();
    if k == 0 { return blocks; }
    let style = rng.below(3);
    let len = v.len();
    for (i, t) in v.into_iter().enumerate() {
        let b = match style {
            0 => rng.below(k),
            1 => i * k / len.max(1),
            _ => if rng.chance(5, 6) { 0 } else { rng.below(k) },
        };
        blocks[b].push(t);
    }
    blocks
}

fn gen_case(rng: &mut Rng, maxn: usize, idx: usize) -> Case {
    let entry = ENTRIES[if rng.chance(1, 8) { idx % ENTRIES.len() } else { rng.below(ENTRIES.len()) }];
    let labeled = entry.contains("labeled");
    let graph_entry = entry == "g_sort_graph" || entry == "g_par_sort_graph";
    let n = match rng.below(12) {
        0 => rng.below(3),
        1 => rng.range(1, 4),
        // large node counts (not for the entry points that build a graph in memory)
        2 if !graph_entry => [1usize << 20, 1_000_000_000_007, (1usize << 40) + 1, 97, (1usize << 57) + 5, 1usize << 60][rng.below(6)] + rng.below(5),
        _ => rng.range(1, maxn.max(1)),
    };
    let p = match rng.below(6) { 0 => 1, 1 => rng.range(1, 32), 2 => n + rng.range(1, 3), _ => rng.range(1, 8) }.min(32).max(1);
    let threads = match rng.below(5) { 0 => 1, 1 => rng.range(1, 16), _ => rng.range(1, 4) };
    let md = rng.chance(1, 2);
    let codec = if labeled { if rng.chance(1, 2) { "gaps" } else { "grouped" } } else { "default" };
    // the graph-level configuration always uses a non-deduplicating codec (LabeledCodec)
    let cd = if entry.starts_with("g_") { false } else if labeled { if rng.chance(3, 4) { md } else { false } } else { md };
    let is_seq = entry.contains("_seq") || entry == "g_sort_pairs" || entry == "g_sort_graph";
    // per-buffer capacity wanted, then the total BatchSize that yields it
    let per = match rng.below(8) { 0 | 1 => 1, 2 => 2, 3 => 3, 4 => rng.range(4, 9), 5 => rng.range(10, 40), 6 => 100000, _ => 0 };
    let buffers = if is_seq { p } else { p * threads };
    let mu = if per == 0 { 0 } else if rng.chance(1, 3) && per > 1 { per * buffers - rng.below(buffers) } else { per * buffers };
    let m = match rng.below(8) { 0 => 0, 1 => rng.below(4), 2 => rng.range(100, 400), _ => rng.range(1, 80) };
    let npp = n.div_ceil(p);
    let is_graph_in = entry == "g_sort_graph" || entry == "g_par_sort_graph";
    let mut pairs = gen_pairs(rng, n, m, npp);
    if is_graph_in {
        // the input is the arc set of a graph (in node order)
        let mut ks: Vec<(usize, usize)> = pairs.iter().map(|t| (t.0, t.1.min(n.saturating_sub(1)))).collect();
        ks.sort();
        ks.dedup();
        pairs = ks.into_iter().map(|(s, d)| (s, d, 0)).collect();
    }
    if !labeled { for t in pairs.iter_mut() { t.2 = 0; } }
    // invalid source at first / middle / last position
    if !is_graph_in && rng.chance(1, 7) {
        let bad = (n + [0, 1, 1000][rng.below(3)], rng.below(n.max(1)), if labeled { 424242 } else { 0 });
        let pos = match rng.below(3) { 0 => 0, 1 => pairs.len() / 2, _ => pairs.len() };
        pairs.insert(pos, bad);
    }
    let nblocks = if entry == "pi_sort" || entry == "pi_sort_labeled" || entry == "g_par_sort_pair_iters" {
        match rng.below(5) { 0 => 0, 1 => 1, _ => rng.range(1, 9) }
    } else if entry == "g_par_sort_graph" { rng.range(1, 5) } else { 1 };
    let blocks = if nblocks == 0 { Vec::new() }
        else if entry == "g_par_sort_graph" { let mut b = vec![Vec::new(); nblocks]; b[0] = pairs; b }
        else { split_blocks(rng, pairs, nblocks) };
    let ierr = if entry.contains("try_") && rng.chance(1, 8) {
        let b = 0; let len = blocks.first().map(|x| x.len()).unwrap_or(0);
        Some((b, rng.below(len + 1)))
    } else { None };
    let maxlen = [0, 0, 1, 3][rng.below(4)];
    Case { entry, codec, cd, md, n, p, threads, mu, maxlen, blocks, ierr }
}

fn case_prefix(id: &str, c: &Case, vx: bool) -> String {
    format!("sort id={id} vx={} entry={} codec={} cd={} md={} n={} p={} threads={} mu={} maxlen={} ierr={} blocks={}",
        vx as u8, c.entry, c.codec, c.cd as u8, c.md as u8, c.n, c.p, c.threads, c.mu, c.maxlen,
        match c.ierr { Some((b, i)) => format!("{b}.{i}"), None => "-".into() }, fmt_blocks(&c.blocks))
}

fn run_sort_case(id: &str, c: &Case, vx: bool, base: &Path, out: &mut impl Write) {
    clean(base);
    let prefix = case_prefix(id, c, vx);
    writeln!(out, "#start {prefix}").unwrap();
    out.flush().unwrap();
    let r = catch(std::panic::AssertUnwindSafe(|| run_entry(c, base)));
    let (status, o) = match r {
        Ok(Ok(o)) => ("ok".to_string(), Some(o)),
        Ok(Err(e)) => (format!("err:{}", sanitize(&format!("{e:#}"))), None),
        Err(p) => (format!("panic:{}", sanitize(&p)), None),
    };
    match o {
        Some(o) => writeln!(out, "{prefix} status={status} bounds={} parts={} batches={}",
            fmt_ints(&o.bounds), fmt_blocks(&o.parts), fmt_lists(&o.batches)).unwrap(),
        None => writeln!(out, "{prefix} status={status} bounds= parts= batches=").unwrap(),
    }
    clean(base);
}

// ---- codec cases -------------------------------------------------------------------

fn read_tokens(path: &Path, grouped: bool) -> Result<Vec<usize>> {
    let f = std::fs::File::open(path)?;
    let mut r = BufBitReader::<NE, _>::new(WordAdapter::<u32, _>::new(std::io::BufReader::new(f)));
    let mut t = Vec::new();
    let len = r.read_delta()? as usize;
    t.push(len);
    let mut cnt = 0;
    while cnt < len {
        if grouped {
            let sg = r.read_gamma()? as usize;
            let od = r.read_gamma()? as usize;
            t.push(sg);
            t.push(od);
            if od == 0 { anyhow::bail!("zero outdegree in file"); }
            for _ in 0..od {
                t.push(r.read_delta()? as usize);
                t.push(r.read_bits(32)? as usize);
                cnt += 1;
            }
        } else {
            t.push(r.read_gamma()? as usize);
            t.push(r.read_delta()? as usize);
            t.push(r.read_bits(32)? as usize);
            cnt += 1;
        }
    }
    Ok(t)
}

fn codec_case<C: BatchCodec<Label = u32>>(codec: &C, raw: &[T3], path: &Path, grouped: bool) -> Result<(Vec<T3>, usize, Vec<usize>, Vec<T3>)> {
    use webgraph::utils::BatchStats;
    let mut batch: Vec<((usize, usize), u32)> = raw.iter().map(|t| ((t.0, t.1), t.2 as u32)).collect();
    let (_bits, stats) = codec.encode_batch(path, &mut batch)?;
    let sorted: Vec<T3> = batch.iter().map(|t| (t.0.0, t.0.1, t.1 as u64)).collect();
    let toks = read_tokens(path, grouped)?;
    let dec: Vec<T3> = codec.decode_batch(path)?.into_iter().map(|((s, d), l)| (s, d, l as u64)).collect();
    Ok((sorted, stats.total_triples(), toks, dec))
}

fn run_codec_case(id: &str, rng: &mut Rng, dir: &Path, out: &mut impl Write) {
    let kind = if rng.chance(1, 2) { "gaps" } else { "grouped" };
    let cd = rng.chance(1, 2);
    let m = match rng.below(6) { 0 => 0, 1 => 1, _ => rng.range(2, 40) };
    let smax = [1usize, 2, 4, 30, 1 << 20, 1 << 40][rng.below(6)];
    let dmax = [1usize, 2, 5, 50, 1 << 33][rng.below(5)];
    let mut raw: Vec<T3> = (0..m).map(|i| (rng.below(smax), rng.below(dmax), (i as u64 * 2654435761) & 0xFFFF_FFFF)).collect();
    if m > 1 { for _ in 0..rng.below(m) { let j = rng.below(raw.len()); let t = raw[j]; raw.push((t.0, t.1, t.2 ^ 0x5555)); } }
    let path = dir.join("batch");
    let _ = std::fs::remove_file(&path);
    let prefix = format!("sortcodec id={id} codec={kind} cd={} raw={}", cd as u8, fmt_ints(&flat3(&raw)));
    writeln!(out, "#start {prefix}").unwrap();
    out.flush().unwrap();
    let r = catch(std::panic::AssertUnwindSafe(|| with_codec!(kind, cd, k => codec_case(&k, &raw, &path, kind == "grouped"))));
    match r {
        Ok(Ok((sorted, tt, toks, dec))) => writeln!(out, "{prefix} status=ok sorted={} tt={tt} toks={} dec={}",
            fmt_ints(&flat3(&sorted)), fmt_ints(&toks), fmt_ints(&flat3(&dec))).unwrap(),
        Ok(Err(e)) => writeln!(out, "{prefix} status=err:{} sorted= tt=0 toks= dec=", sanitize(&format!("{e:#}"))).unwrap(),
        Err(p) => writeln!(out, "{prefix} status=panic:{} sorted= tt=0 toks= dec=", sanitize(&p)).unwrap(),
    }
}

// ---- kmerge cases ------------------------------------------------------------------

fn run_km_case(id: &str, rng: &mut Rng, out: &mut impl Write) {
    let k = match rng.below(5) { 0 => 0, 1 => 1, _ => rng.range(2, 12) };
    let md = rng.chance(1, 2);
    let kmax = rng.range(1, 6);
    let mut lists: Vec<Vec<T3>> = Vec::new();
    let mut lab = 1u64;
    for _ in 0..k {
        let len = match rng.below(4) { 0 => 0, _ => rng.range(1, 12) };
        let mut l: Vec<T3> = (0..len).map(|_| { lab += 1; (rng.below(kmax), rng.below(kmax), lab) }).collect();
        l.sort_by_key(|t| (t.0, t.1));
        lists.push(l);
    }
    let prefix = format!("sortkm id={id} md={} lists={}", md as u8, fmt_blocks(&lists));
    writeln!(out, "#start {prefix}").unwrap();
    out.flush().unwrap();
    let its: Vec<std::vec::IntoIter<((usize, usize), u64)>> = lists.iter()
        .map(|l| l.iter().map(|t| ((t.0, t.1), t.2)).collect::<Vec<_>>().into_iter()).collect();
    let r = catch(std::panic::AssertUnwindSafe(|| -> Vec<T3> {
        if md { KMergeIters::<_, u64, true>::new(its).map(|((s, d), l)| (s, d, l)).collect() }
        else { KMergeIters::<_, u64, false>::new(its).map(|((s, d), l)| (s, d, l)).collect() }
    }));
    match r {
        Ok(v) => writeln!(out, "{prefix} status=ok out={}", fmt_ints(&flat3(&v))).unwrap(),
        Err(p) => writeln!(out, "{prefix} status=panic:{} out=", sanitize(&p)).unwrap(),
    }
}

// ---------------------------------------------------------------------------------------

fn child(seed: u64, count: usize, maxn: usize, from: usize) {
    let base = tempfile::Builder::new().prefix("wgverif-sort").tempdir().unwrap();
    let tmp = base.path().join("tmp");
    let mine = base.path().join("mine");
    std::fs::create_dir_all(&tmp).unwrap();
    std::fs::create_dir_all(&mine).unwrap();
    // the sorters create their batch directory below std::env::temp_dir()
    unsafe { std::env::set_var("TMPDIR", &tmp); }
    let stdout = std::io::stdout();
    let mut out = stdout.lock();
    let mut master = Rng::new(seed ^ 0x5027);
    // Vec::with_capacity gives exactly the requested capacity for the tuple types used
    let exact = (1..=64usize).all(|c| Vec::<((usize, usize), u32)>::with_capacity(c).capacity() == c
        && Vec::<((usize, usize), ())>::with_capacity(c).capacity() == c);
    for i in 0..count {
        let mut rng = master.fork();
        if i < from { continue; }
        match i % 10 {
            3 => run_codec_case(&format!("c{i}"), &mut rng, &mine, &mut out),
            7 => run_km_case(&format!("k{i}"), &mut rng, &mut out),
            _ => {
                let c = gen_case(&mut rng, maxn, i);
                run_sort_case(&format!("s{i}"), &c, exact, &tmp, &mut out);
            }
        }
        out.flush().unwrap();
    }
    writeln!(out, "#end").unwrap();
    out.flush().unwrap();
}

fn index_of(prefix: &str) -> Option<usize> {
    let id = prefix.split(' ').find_map(|t| t.strip_prefix("id="))?;
    id[1..].parse().ok()
}

pub fn run(seed: u64, count: usize, maxn: usize, mode: &str, out: &mut impl Write) {
    if let Some(from) = mode.strip_prefix("child:") {
        child(seed, count, maxn, from.parse().unwrap());
        return;
    }
    let exe: PathBuf = std::env::current_exe().unwrap();
    let mut from = 0usize;
    let limit = std::time::Duration::from_secs(120);
    while from < count {
        let mut ch = std::process::Command::new(&exe)
            .args(["sort", "--seed", &seed.to_string(), "--count", &count.to_string(), "--maxn", &maxn.to_string(),
                   "--mode", &format!("child:{from}")])
            .stdout(std::process::Stdio::piped())
            .stderr(std::process::Stdio::null())
            .spawn().unwrap();
        let so = ch.stdout.take().unwrap();
        let (tx, rx) = std::sync::mpsc::channel::<String>();
        std::thread::spawn(move || {
            use std::io::BufRead;
            for l in std::io::BufReader::new(so).lines().map_while(|l| l.ok()) {
                if tx.send(l).is_err() { break; }
            }
        });
        let mut current: Option<String> = None;
        let mut done = false;
        let why;
        loop {
            match rx.recv_timeout(limit) {
                Ok(l) => {
                    if let Some(p) = l.strip_prefix("#start ") { current = Some(p.to_string()); }
                    else if l == "#end" { done = true; }
                    else if l.starts_with('#') { writeln!(out, "{l}").unwrap(); }
                    else { writeln!(out, "{l}").unwrap(); current = None; }
                }
                Err(std::sync::mpsc::RecvTimeoutError::Timeout) => { why = "hang"; break; }
                Err(std::sync::mpsc::RecvTimeoutError::Disconnected) => { why = "abort"; break; }
            }
        }
        let _ = ch.kill();
        let _ = ch.wait();
        if done && current.is_none() { break; }
        match current {
            Some(p) => {
                // the case that was running when the child stopped answering
                let chan = p.split(' ').next().unwrap_or("sort").to_string();
                let tail = match chan.as_str() {
                    "sort" => " bounds= parts= batches=",
                    "sortcodec" => " sorted= tt=0 toks= dec=",
                    _ => " out=",
                };
                writeln!(out, "{p} status={why}{tail}").unwrap();
                from = index_of(&p).map(|i| i + 1).unwrap_or(count);
            }
            None => {
                writeln!(out, "#watchdog child stopped ({why}) outside a case").unwrap();
                break;
            }
        }
    }
}
