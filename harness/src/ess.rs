//! Channel "ess": ExactSumSweep (`webgraph_algo::distances::exact_sum_sweep`) through its
//! public entry points `Level::run` (directed graph + transpose, default or explicit
//! radial vertices) and `Level::run_symm`, at every level, with both `use_tot` options, on
//! thread pools of 1..16 threads.  One case line per run: the input (graph, radial set,
//! level, options, pool), everything the level's output structure contains, and the steps
//! the run performed (`steps=`): direction and start vertex of every breadth-first visit,
//! pivot array of every SCC refinement step, as reported by the guarded call-out
//! `webgraph_algo::verif_hooks::ESS_STEP` (cargo feature `verif_hooks` of webgraph-algo).
//! Tokens: `F<v>` / `B<v>` (forward / backward visit from `v`), `A:<p0>.<p1>...` (SCC step,
//! `p_c` = pivot of component `c`).  The progress-logger messages are still captured, but
//! only as an informational cross-check (`logsteps=`): nothing depends on their wording.
use crate::util::*;
use dsi_progress_logger::prelude::*;
use std::io::Write;
use std::sync::Mutex;
use sux::bits::AtomicBitVec;
use sux::traits::AtomicBitVecOps;
use webgraph::prelude::*;
use webgraph_algo::distances::exact_sum_sweep::{self as ess, Level};

// ---------------------------------------------------------------- observed steps (call-out)

/// The steps of the current run.  The harness runs one ExactSumSweep computation at a time;
/// the steps of a run are sequential, but may be reported from any thread of its pool.
static STEPS: Mutex<Vec<String>> = Mutex::new(Vec::new());

fn install_step_hook() {
    use webgraph_algo::verif_hooks::{ESS_STEP, EssStep};
    let mut h = ESS_STEP.write().unwrap();
    if h.is_none() {
        *h = Some(Box::new(|step: &EssStep| {
            let tok = match step {
                EssStep::Visit { forward, start } => format!("{}{}", if *forward { "F" } else { "B" }, start),
                EssStep::AllCcUpperBound { pivots } =>
                    format!("A:{}", pivots.iter().map(|p| p.to_string()).collect::<Vec<_>>().join(".")),
            };
            STEPS.lock().unwrap().push(tok);
        }));
    }
}

// ---------------------------------------------------------------- step log capture (cross-check only)

static LOGSTEPS: Mutex<Vec<String>> = Mutex::new(Vec::new());

struct StepLog;
impl log::Log for StepLog {
    fn enabled(&self, _: &log::Metadata) -> bool { true }
    fn log(&self, record: &log::Record) {
        let m = format!("{}", record.args());
        // "Performing [initial|a] (forward|backward) ... (v)..." / "... visit from v..."
        let tok = if let Some(rest) = m.strip_prefix("Performing ") {
            let fwd = rest.contains("forward");
            let digits: String = {
                // last maximal run of digits in the message
                let b: Vec<char> = rest.chars().collect();
                let mut end = b.len();
                while end > 0 && !b[end - 1].is_ascii_digit() { end -= 1; }
                let mut start = end;
                while start > 0 && b[start - 1].is_ascii_digit() { start -= 1; }
                b[start..end].iter().collect()
            };
            let kind = if rest.starts_with("initial") { "i" }
                else if rest.contains("maximizing the upper bound") { "u" }
                else if rest.contains("minimizing the lower bound") { "l" }
                else if rest.contains("maximizing the distance sum") { "s" }
                else { "x" };
            Some(format!("{}{}{}", if fwd { "F" } else { "B" }, kind, digits))
        } else if m.starts_with("Computing best pivots") {
            Some("A".to_string())
        } else { None };
        if let Some(t) = tok { LOGSTEPS.lock().unwrap().push(t); }
    }
    fn flush(&self) {}
}
static STEPLOG: StepLog = StepLog;

// ---------------------------------------------------------------- graph generators

fn from_lists(g: &Graph) -> VecGraph {
    let mut v = VecGraph::empty(g.len());
    for (x, l) in g.iter().enumerate() { for &y in l { v.add_arc(x, y); } }
    v
}

fn transpose(g: &Graph) -> Graph {
    let mut t = vec![Vec::new(); g.len()];
    for (x, l) in g.iter().enumerate() { for &y in l { t[y].push(x); } }
    t
}

fn norm_graph(g: &mut Graph) { for l in g.iter_mut() { l.sort_unstable(); l.dedup(); } }

fn symmetrize(g: &Graph) -> Graph {
    let mut s = g.clone();
    for (x, l) in g.iter().enumerate() { for &y in l { s[y].push(x); } }
    norm_graph(&mut s);
    s
}

/// digraph number `code` on `n` nodes: bit `i*n+j` is the arc i -> j (loops included)
fn digraph_of_code(n: usize, code: u64) -> Graph {
    let mut g = vec![Vec::new(); n];
    for i in 0..n { for j in 0..n { if code >> (i * n + j) & 1 == 1 { g[i].push(j); } } }
    g
}

/// symmetric graph number `code` on `n` nodes: one bit per unordered pair {i<=j}
fn symgraph_of_code(n: usize, code: u64, loops: bool) -> Graph {
    let mut g = vec![Vec::new(); n];
    let mut b = 0;
    for i in 0..n { for j in i..n {
        if i == j && !loops { continue; }
        if code >> b & 1 == 1 { g[i].push(j); if i != j { g[j].push(i); } }
        b += 1;
    } }
    norm_graph(&mut g);
    g
}

fn rand_digraph(rng: &mut Rng, n: usize) -> (Graph, &'static str) {
    let mut g: Graph = vec![Vec::new(); n];
    let style = rng.below(10);
    let name;
    match style {
        8 | 9 => { // non-trivial SCCs in a chain, consecutive ones joined by SEVERAL bridge arcs
                   // with different sources and targets (exercises the bridge selection of
                   // the SCC graph), plus pendant nodes
            name = "bridges";
            let mut perm: Vec<usize> = (0..n).collect(); rng.shuffle(&mut perm);
            let mut blocks: Vec<(usize, usize)> = Vec::new();
            let mut s = 0;
            while s < n {
                let len = if n - s <= 2 || rng.chance(1, 6) { 1 } else { rng.range(3, 5.min(n - s)) };
                blocks.push((s, s + len)); s += len;
            }
            for &(a, b) in &blocks {
                if b - a >= 2 {
                    for i in a..b { let j = if i + 1 == b { a } else { i + 1 }; g[perm[i]].push(perm[j]); }
                    for _ in 0..rng.below(3) { let i = rng.range(a, b - 1); let j = rng.range(a, b - 1); if i != j { g[perm[i]].push(perm[j]); } }
                }
            }
            for w in 0..blocks.len().saturating_sub(1) {
                let (p, q) = (blocks[w], blocks[w + 1]);
                for _ in 0..rng.range(1, 4) {
                    let x = rng.range(p.0, p.1 - 1); let y = rng.range(q.0, q.1 - 1);
                    g[perm[x]].push(perm[y]);
                }
                if w + 2 < blocks.len() && rng.chance(1, 3) {
                    let r = blocks[w + 2];
                    let x = rng.range(p.0, p.1 - 1); let y = rng.range(r.0, r.1 - 1);
                    g[perm[x]].push(perm[y]);
                }
            }
        }
        0 => { // sparse random
            name = "sparse";
            let m = rng.range(0, 2 * n);
            for _ in 0..m { let x = rng.below(n); g[x].push(rng.below(n)); }
        }
        1 => { // DAG under a random relabelling
            name = "dag";
            let mut perm: Vec<usize> = (0..n).collect(); rng.shuffle(&mut perm);
            let m = rng.range(0, 3 * n);
            for _ in 0..m {
                let a = rng.below(n); let b = rng.below(n);
                if a < b { g[perm[a]].push(perm[b]); } else if b < a { g[perm[b]].push(perm[a]); }
            }
        }
        2 | 3 => { // many SCCs: blocks (cycles, cliques, singletons) joined by forward arcs
            name = "sccs";
            let mut perm: Vec<usize> = (0..n).collect(); rng.shuffle(&mut perm);
            let mut blocks: Vec<(usize, usize)> = Vec::new();
            let mut s = 0;
            while s < n { let len = rng.range(1, 6.min(n - s)); blocks.push((s, s + len)); s += len; }
            for &(a, b) in &blocks {
                let kind = rng.below(3);
                if b - a >= 2 {
                    for i in a..b { let j = if i + 1 == b { a } else { i + 1 }; g[perm[i]].push(perm[j]); }
                    if kind == 1 { for i in a..b { for j in a..b { if i != j && rng.chance(1, 2) { g[perm[i]].push(perm[j]); } } } }
                } else if kind == 2 { g[perm[a]].push(perm[a]); }
            }
            let m = rng.range(0, 2 * blocks.len());
            for _ in 0..m {
                let p = rng.below(blocks.len()); let q = rng.below(blocks.len());
                if p == q { continue; }
                let (p, q) = if p < q { (p, q) } else { (q, p) };
                let x = rng.range(blocks[p].0, blocks[p].1 - 1); let y = rng.range(blocks[q].0, blocks[q].1 - 1);
                g[perm[x]].push(perm[y]);
            }
        }
        4 => { // disconnected: independent parts and isolated nodes
            name = "disconnected";
            let mut s = 0;
            while s < n {
                let len = rng.range(1, 8.min(n - s));
                if rng.chance(2, 3) {
                    for _ in 0..rng.range(0, 2 * len) { let x = s + rng.below(len); g[x].push(s + rng.below(len)); }
                }
                s += len;
            }
        }
        5 => { // one big SCC: a Hamiltonian cycle plus chords
            name = "bigscc";
            let mut perm: Vec<usize> = (0..n).collect(); rng.shuffle(&mut perm);
            for i in 0..n { g[perm[i]].push(perm[(i + 1) % n]); }
            for _ in 0..rng.range(0, n) { let x = rng.below(n); g[x].push(rng.below(n)); }
        }
        6 => { // long path / chain with a few back arcs
            name = "chain";
            let mut perm: Vec<usize> = (0..n).collect(); rng.shuffle(&mut perm);
            for i in 0..n.saturating_sub(1) { if rng.chance(9, 10) { g[perm[i]].push(perm[i + 1]); } }
            for _ in 0..rng.below(3) { let a = rng.below(n); let b = rng.below(n); g[perm[a.max(b)]].push(perm[a.min(b)]); }
        }
        _ => { // denser random
            name = "dense";
            for x in 0..n { for y in 0..n { if rng.chance(1, 4) { g[x].push(y); } } }
        }
    }
    norm_graph(&mut g);
    (g, name)
}

fn rand_symgraph(rng: &mut Rng, n: usize) -> (Graph, &'static str) {
    let style = rng.below(5);
    let mut g: Graph = vec![Vec::new(); n];
    let name;
    match style {
        0 => { name = "symsparse"; for _ in 0..rng.range(0, 2 * n) { let x = rng.below(n); g[x].push(rng.below(n)); } }
        1 => { name = "symtree"; for x in 1..n { let p = rng.below(x); g[x].push(p); } }
        2 => { // equal-sized components of different shapes (ties for "the largest component")
            name = "symparts";
            let k = rng.range(1, 6.min(n));
            let mut s = 0;
            while s + k <= n {
                match rng.below(3) {
                    0 => for i in s..s + k - 1 { g[i].push(i + 1); },
                    1 => for i in s..s + k { for j in s..i { g[i].push(j); } },
                    _ => for i in s + 1..s + k { g[s].push(i); },
                }
                s += k;
            }
        }
        3 => { name = "sympath"; let mut perm: Vec<usize> = (0..n).collect(); rng.shuffle(&mut perm);
               for i in 0..n.saturating_sub(1) { if rng.chance(19, 20) { g[perm[i]].push(perm[i + 1]); } } }
        _ => { let (d, _) = rand_digraph(rng, n); g = d; name = "symofdi"; }
    }
    (symmetrize(&g), name)
}

// ---------------------------------------------------------------- running the implementation

const LEVELS: [&str; 5] = ["all", "allf", "rd", "d", "r"];

fn us(x: usize) -> String { if x == usize::MAX { "inf".into() } else { x.to_string() } }

fn bitvec_of(rad: &[bool]) -> AtomicBitVec {
    let b = AtomicBitVec::new(rad.len());
    for (i, &x) in rad.iter().enumerate() { if x { b.set(i, true, std::sync::atomic::Ordering::Relaxed); } }
    b
}

/// runs one level; returns the "key=value ..." description of the output
fn run_level(g: &VecGraph, t: &VecGraph, sym: bool, rad: Option<&[bool]>, lvl: &str, tot: bool) -> String {
    let mut pl = ProgressLogger::default();
    let pl = &mut pl;
    let r = rad.map(bitvec_of);
    if sym {
        match lvl {
            "all" | "allf" => {
                let o = if lvl == "all" { ess::All::run_symm(g, tot, pl) } else { ess::AllForward::run_symm(g, tot, pl) };
                format!("eccf={} diam={} dv={} radius={} rv={} ri={} di={} fi={}", fmt_ints(&o.eccentricities), o.diameter,
                    o.diametral_vertex, us(o.radius), o.radial_vertex, o.radius_iterations, o.diameter_iterations, o.iterations)
            }
            "rd" => { let o = ess::RadiusDiameter::run_symm(g, tot, pl);
                format!("diam={} dv={} radius={} rv={} ri={} di={}", o.diameter, o.diametral_vertex, us(o.radius), o.radial_vertex,
                    o.radius_iterations, o.diameter_iterations) }
            "d" => { let o = ess::Diameter::run_symm(g, tot, pl);
                format!("diam={} dv={} di={}", o.diameter, o.diametral_vertex, o.diameter_iterations) }
            _ => { let o = ess::Radius::run_symm(g, tot, pl);
                format!("radius={} rv={} ri={}", us(o.radius), o.radial_vertex, o.radius_iterations) }
        }
    } else {
        match lvl {
            "all" => { let o = ess::All::run(g, t, r, tot, pl);
                format!("eccf={} eccb={} diam={} dv={} radius={} rv={} ri={} di={} fi={} ai={}", fmt_ints(&o.forward_eccentricities),
                    fmt_ints(&o.backward_eccentricities), o.diameter, o.diametral_vertex, us(o.radius), o.radial_vertex,
                    o.radius_iterations, o.diameter_iterations, o.forward_iterations, o.all_iterations) }
            "allf" => { let o = ess::AllForward::run(g, t, r, tot, pl);
                format!("eccf={} diam={} dv={} radius={} rv={} ri={} di={} fi={}", fmt_ints(&o.forward_eccentricities), o.diameter,
                    o.diametral_vertex, us(o.radius), o.radial_vertex, o.radius_iterations, o.diameter_iterations, o.forward_iterations) }
            "rd" => { let o = ess::RadiusDiameter::run(g, t, r, tot, pl);
                format!("diam={} dv={} radius={} rv={} ri={} di={}", o.diameter, o.diametral_vertex, us(o.radius), o.radial_vertex,
                    o.radius_iterations, o.diameter_iterations) }
            "d" => { let o = ess::Diameter::run(g, t, r, tot, pl);
                format!("diam={} dv={} di={}", o.diameter, o.diametral_vertex, o.diameter_iterations) }
            _ => { let o = ess::Radius::run(g, t, r, tot, pl);
                format!("radius={} rv={} ri={}", us(o.radius), o.radial_vertex, o.radius_iterations) }
        }
    }
}

struct Runner { pools: Vec<rayon::ThreadPool>, id: usize }

impl Runner {
    #[allow(clippy::too_many_arguments)]
    fn case(&mut self, out: &mut impl Write, fam: &str, lists: &Graph, sym: bool, rad: Option<&[bool]>, lvl: &str, tot: bool, threads: usize) {
        let g = from_lists(lists);
        let t = from_lists(&transpose(lists));
        STEPS.lock().unwrap().clear();
        LOGSTEPS.lock().unwrap().clear();
        let pool = &self.pools[threads - 1];
        let r = catch(std::panic::AssertUnwindSafe(|| pool.install(|| run_level(&g, &t, sym, rad, lvl, tot))));
        let steps = STEPS.lock().unwrap().join(",");
        let logsteps = LOGSTEPS.lock().unwrap().join(",");
        let (status, desc) = match r { Ok(d) => ("ok".to_string(), d), Err(p) => (format!("panic:{}", sanitize(&p)), String::new()) };
        let rads = match rad { None => "def".to_string(), Some(b) => if b.is_empty() { "-".into() } else { b.iter().map(|&x| if x { '1' } else { '0' }).collect() } };
        writeln!(out, "ess id=e{} fam={} n={} g={} sym={} rad={} lvl={} tot={} pool={} status={} {} steps={} logsteps={}",
            self.id, fam, lists.len(), fmt_lists(lists), sym as u8, rads, lvl, tot as u8, threads, status, desc, steps, logsteps).unwrap();
        self.id += 1;
    }

    /// the full grid for one (graph, default radial set): every level, both options, pool 1 and `extra` other pools
    fn grid(&mut self, out: &mut impl Write, rng: &mut Rng, fam: &str, lists: &Graph, sym: bool, extra: usize, with_one: bool) {
        for lvl in LEVELS {
            for tot in [false, true] {
                if with_one { self.case(out, fam, lists, sym, None, lvl, tot, 1); }
                for _ in 0..extra { let t = rng.range(2, 16); self.case(out, fam, lists, sym, None, lvl, tot, t); }
            }
        }
    }

    /// explicit radial set: the levels that report a radius
    fn explicit(&mut self, out: &mut impl Write, rng: &mut Rng, fam: &str, lists: &Graph, rad: &[bool], all_levels: bool) {
        let lv: &[&str] = if all_levels { &LEVELS } else { &["r", "rd", "all"] };
        for &lvl in lv {
            for tot in [false, true] {
                let t = if rng.chance(1, 3) { 1 } else { rng.range(2, 16) };
                self.case(out, fam, lists, false, Some(rad), lvl, tot, t);
            }
        }
    }
}

fn rand_radial(rng: &mut Rng, n: usize) -> Vec<bool> {
    match rng.below(6) {
        0 => vec![true; n],
        1 => { let mut v = vec![false; n]; v[rng.below(n)] = true; v }
        2 => (0..n).map(|_| rng.chance(1, 5)).collect(),
        _ => (0..n).map(|_| rng.chance(1, 2)).collect(),
    }
}

/// `mode`: "quick", "rest" or "exh4:k/m"; `count` random graphs of at most `maxn` nodes
pub fn run(seed: u64, count: usize, maxn: usize, mode: &str, out: &mut impl Write) {
    install_step_hook();
    let _ = log::set_logger(&STEPLOG);
    log::set_max_level(log::LevelFilter::Info);
    let mut rng = Rng::new(seed ^ 0xE55);
    let pools = (1..=16).map(|t| rayon::ThreadPoolBuilder::new().num_threads(t).build().unwrap()).collect();
    let mut r = Runner { pools, id: 0 };
    // modes: "quick"; "rest" (thorough tier without the 4-node digraphs); "exh4:k/m" (the
    // 4-node digraphs whose code is k modulo m, thorough tier)
    if let Some(spec) = mode.strip_prefix("exh4:") {
        let (k, m) = spec.split_once('/').unwrap();
        let (k, m): (u64, u64) = (k.parse().unwrap(), m.parse().unwrap());
        for code in (0..1u64 << 16).filter(|c| c % m == k) {
            let g = digraph_of_code(4, code);
            r.grid(out, &mut rng, "exh4", &g, false, 1, false);
            for _ in 0..2 { let rad = rand_radial(&mut rng, 4); r.explicit(out, &mut rng, "exh4", &g, &rad, false); }
        }
        return;
    }
    if mode == "sawtooth" {
        // Schedule probe: one long directed path numbered so that a parallel scan of the node
        // indices meets a descending sawtooth of eccentricities; all nodes complete in the
        // same SCC refinement step, and the radius (0, attained only by the sink) must not
        // depend on how the threads interleave there.  The expected values follow from the
        // construction, so the verdict is computed here (aspect "big", an UNPROVED probe:
        // the graph is too large for the list-based checker).
        let (period, teeth) = (128usize, 8usize);
        let k = period * teeth;
        let sink = k / 2 + 26;
        let mut ecc: Vec<usize> = (0..k).map(|j| (period - 1 - (j % period)) * teeth + (teeth - 1 - j / period) + 1).collect();
        ecc.insert(sink, 0);
        let n = k + 1;
        let mut idx = vec![0usize; n];
        for (j, &e) in ecc.iter().enumerate() { idx[e] = j; }
        let mut g: Graph = vec![Vec::new(); n];
        for e in 1..n { g[idx[e]].push(idx[e - 1]); }
        let (vg, vt) = (from_lists(&g), from_lists(&transpose(&g)));
        for run in 0..count {
            let use_tot = run % 2 == 0;
            let t = if run % 4 == 3 { 16 } else { 4 };
            let rd = run % 8 >= 4;
            let res = catch(std::panic::AssertUnwindSafe(|| r.pools[t - 1].install(|| {
                if rd { let o = ess::RadiusDiameter::run(&vg, &vt, None, use_tot, no_logging![]); (o.radius, o.radial_vertex, o.diameter) }
                else { let o = ess::Radius::run(&vg, &vt, None, use_tot, no_logging![]); (o.radius, o.radial_vertex, n - 1) }
            })));
            let v = match res {
                Err(m) => format!("FAIL(panic:{})", sanitize(&m)),
                Ok((radius, rv, diam)) => if radius == 0 && rv == sink && diam == n - 1 { "ok".to_string() }
                    else { format!("FAIL(radius:{radius};vertex:{rv};ecc-of-vertex:{};diameter:{diam};expected:0,{sink},{})", ecc.get(rv).copied().unwrap_or(usize::MAX), n - 1) },
            };
            writeln!(out, "essbig id=w{run} kind=sawtooth n={n} t={t} tot={} lvl={} verdict={v}", use_tot as u8, if rd { "rd" } else { "r" }).unwrap();
        }
        return;
    }
    let thorough = mode == "rest";
    // exhaustive: all digraphs on <= 3 nodes (loops included)
    for n in 1..=3usize {
        for code in 0..(1u64 << (n * n)) {
            let g = digraph_of_code(n, code);
            r.grid(out, &mut rng, "exh", &g, false, 1, true);
            for mask in 0..(1usize << n) {
                let rad: Vec<bool> = (0..n).map(|i| mask >> i & 1 == 1).collect();
                r.explicit(out, &mut rng, "exh", &g, &rad, false);
            }
        }
    }
    // a sample of the digraphs on 4 nodes (all of them: modes exh4:k/m)
    if !thorough {
        for _ in 0..400 {
            let g = digraph_of_code(4, rng.next() & 0xFFFF);
            r.grid(out, &mut rng, "exh4", &g, false, 1, false);
            for _ in 0..2 { let rad = rand_radial(&mut rng, 4); r.explicit(out, &mut rng, "exh4", &g, &rad, false); }
        }
    }
    // a sample of digraphs on 5 nodes
    for _ in 0..(if thorough { 20000 } else { 300 }) {
        let code = rng.next() & ((1 << 25) - 1);
        // thin out: dense graphs have trivial distances
        let g = digraph_of_code(5, code & rng.next() & if rng.chance(1, 2) { rng.next() } else { u64::MAX });
        r.grid(out, &mut rng, "exh5", &g, false, 1, false);
    }
    // symmetric graphs: all on <= 4 nodes (with loops up to 3 nodes), 5 nodes without loops
    for n in 1..=5usize {
        let pairs = n * (n - 1) / 2;
        for code in 0..(1u64 << pairs) {
            if n == 5 && !thorough && !rng.chance(1, 4) { continue; }
            let g = symgraph_of_code(n, code, false);
            r.grid(out, &mut rng, "symexh", &g, true, 1, n <= 4);
        }
        if n <= 3 {
            for code in 0..(1u64 << (pairs + n)) {
                let g = symgraph_of_code(n, code, true);
                r.grid(out, &mut rng, "symexhl", &g, true, 1, false);
            }
        }
    }
    // many distinct multi-SCC digraphs with several bridge arcs between consecutive
    // components, each under a single configuration (level All): the SCC-graph bridge
    // selection and the propagation of bounds through it only show up on such graphs
    for i in 0..(count * 24) {
        let n = rng.range(6, 16);
        let mut g: Graph;
        loop { let (gg, fam) = rand_digraph(&mut rng, n); if fam == "bridges" || fam == "sccs" { g = gg; break; } }
        norm_graph(&mut g);
        let tot = i % 2 == 0;
        let t = if i % 5 == 0 { rng.range(2, 16) } else { 1 };
        r.case(out, "bridges1", &g, false, None, "all", tot, t);
    }
    // random graphs
    for i in 0..count {
        let big = i % 12 == 11;
        let n = if big { rng.range(maxn / 2, maxn) } else { rng.range(1, (maxn / 4).max(6)) };
        if i % 3 == 2 {
            let (g, fam) = rand_symgraph(&mut rng, n);
            r.grid(out, &mut rng, fam, &g, true, if big { 1 } else { 2 }, true);
            // a symmetric graph is also a digraph whose transpose is itself
            if rng.chance(1, 3) { r.grid(out, &mut rng, "symasdi", &g, false, 1, false); }
        } else {
            let (g, fam) = rand_digraph(&mut rng, n);
            r.grid(out, &mut rng, fam, &g, false, if big { 1 } else { 2 }, true);
            let rad = rand_radial(&mut rng, n);
            r.explicit(out, &mut rng, fam, &g, &rad, true);
            if rng.chance(1, 10) { let none = vec![false; n]; r.explicit(out, &mut rng, fam, &g, &none, false); }
        }
    }
}
