//! Channel "flags": `CompFlags::to_properties` / `parse_properties` on random
//! configurations (including codes the file format cannot name), and
//! `parse_properties` on Java-style version-0 texts.
use crate::art::code_name;
use crate::util::*;
use dsi_bitstream::prelude::*;
use std::io::Write;
use webgraph::prelude::*;

const FLOAT_KEYS: [&str; 5] = ["avgref", "avgdist", "bitsperlink", "bitspernode", "compratio"];

fn drop_float_keys(text: &str) -> String {
    let mut s = String::new();
    for l in text.split_inclusive('\n') {
        if FLOAT_KEYS.iter().any(|k| l.starts_with(&format!("{k}="))) { continue; }
        s.push_str(l);
    }
    s
}

fn describe_back(r: anyhow::Result<(usize, u64, CompFlags)>) -> String {
    match r {
        Ok((n, a, f)) => format!(
            "{},{},{},{},{};{};{};{};{};{}",
            code_name(f.outdegrees), code_name(f.references), code_name(f.blocks),
            code_name(f.intervals), code_name(f.residuals),
            f.compression_window,
            if f.max_ref_count == usize::MAX { "inf".to_string() } else { f.max_ref_count.to_string() },
            f.min_interval_length, n, a),
        Err(e) => format!("err:{}", sanitize(&format!("{e:#}"))),
    }
}

fn parse_text(dir: &std::path::Path, le: bool, text: &str) -> String {
    let p = dir.join("x.properties");
    std::fs::write(&p, text).unwrap();
    let r = catch(std::panic::AssertUnwindSafe(|| {
        if le { parse_properties::<LE>(&p) } else { parse_properties::<BE>(&p) }
    }));
    match r {
        Ok(r) => describe_back(r),
        Err(p) => format!("panic:{}", sanitize(&p)),
    }
}

fn rand_code(rng: &mut Rng, exotic: bool) -> Codes {
    if exotic && rng.chance(1, 6) {
        return rng.pick(&[Codes::Zeta(8), Codes::Zeta(9), Codes::Pi(5), Codes::Pi(6), Codes::Pi(0), Codes::Zeta(12)]);
    }
    rng.pick(&crate::art::ALL_CODES)
}

pub fn run(seed: u64, count: usize, out: &mut impl Write) {
    let mut rng = Rng::new(seed ^ 0xF1A6);
    let dir = tempfile::Builder::new().prefix("wgverif-flags").tempdir().unwrap();
    for i in 0..count {
        let style = rng.below(4);
        let mut codes = [Codes::Gamma, Codes::Unary, Codes::Gamma, Codes::Gamma, Codes::Zeta(3)];
        match style {
            0 => {}
            1 => { // old codes with a shared zeta k (version 0 when BE)
                let k = rng.range(1, 7);
                let old = [Codes::Unary, Codes::Gamma, Codes::Delta, Codes::Zeta(k)];
                for c in codes.iter_mut() { if rng.chance(1, 2) { *c = rng.pick(&old); } }
            }
            2 => { for c in codes.iter_mut() { *c = rand_code(&mut rng, false); } }
            _ => { for c in codes.iter_mut() { if rng.chance(2, 3) { *c = rand_code(&mut rng, true); } } }
        }
        let le = rng.chance(1, 2);
        let w = rng.pick(&[0usize, 1, 7, 16, 1000, 123456789]);
        let mr = rng.pick(&[0usize, 1, 3, 10, 65536, usize::MAX]);
        let l = rng.pick(&[0usize, 2, 4, 11, 99999]);
        let nodes = rng.pick(&[0usize, 1, 5, 325557, 4_000_000_000]);
        let arcs = rng.pick(&[0u64, 1, 17, 3216152, 1u64 << 40]).min((nodes as u64).saturating_mul(nodes as u64));
        let bits = rng.pick(&[0u64, 9, 12345678, (1u64 << 45) + 3]);
        let cf = CompFlags { outdegrees: codes[0], references: codes[1], blocks: codes[2], intervals: codes[3],
            residuals: codes[4], min_interval_length: l, compression_window: w, max_ref_count: mr };
        let stats = CompStats { num_nodes: nodes, num_arcs: arcs, written_bits: bits, ..Default::default() };
        let r = catch(std::panic::AssertUnwindSafe(|| {
            if le { cf.to_properties::<LE>(&stats) } else { cf.to_properties::<BE>(&stats) }
        }));
        let (status, text) = match r {
            Ok(Ok(t)) => ("ok".to_string(), t),
            Ok(Err(e)) => (format!("err:{}", sanitize(&format!("{e:#}"))), String::new()),
            Err(p) => (format!("panic:{}", sanitize(&p)), String::new()),
        };
        let back = if status == "ok" { parse_text(dir.path(), le, &text) } else { "-".into() };
        let back_other = if status == "ok" { parse_text(dir.path(), !le, &text) } else { "-".into() };
        writeln!(out, "flags id=f{i} le={} codes={} w={} mr={} L={} nodes={} arcs={} bits={} status={} text={} back={} backother={}",
            le as u8, codes.iter().map(|c| code_name(*c)).collect::<Vec<_>>().join(","), w,
            if mr == usize::MAX { "inf".to_string() } else { mr.to_string() }, l, nodes, arcs, bits,
            status, hex(drop_float_keys(&text).as_bytes()), back, if back_other.starts_with("err") { "err" } else { &back_other }).unwrap();
    }
    // Java-style version-0 texts: every zetak, every subset of component flags
    let comps = ["OUTDEGREES", "REFERENCES", "BLOCKS", "INTERVALS", "RESIDUALS"];
    let names = ["UNARY", "GAMMA", "DELTA", "ZETA"];
    let mut j = 0;
    for zk in 0..=8usize {
        for mask in 0..32usize {
            // one random code name per selected component (all four names are covered over the masks)
            let mut flags: Vec<String> = Vec::new();
            for (b, c) in comps.iter().enumerate() {
                if mask >> b & 1 == 1 { flags.push(format!("{}_{}", c, names[rng.below(4)])); }
            }
            let mut text = String::from("#BVGraph properties\ngraphclass=it.unimi.dsi.webgraph.BVGraph\n");
            if rng.chance(1, 2) { text.push_str("version=0\n"); }
            text.push_str(&format!("nodes={}\narcs={}\nwindowsize={}\nmaxrefcount={}\nminintervallength={}\n",
                rng.below(1000), rng.below(100000), rng.pick(&[0usize, 1, 7]), rng.pick(&[0usize, 3, 1000]), rng.pick(&[0usize, 2, 4])));
            if zk > 0 { text.push_str(&format!("zetak={zk}\n")); }
            text.push_str(&format!("compressionflags={}\n", flags.join("|")));
            let back = parse_text(dir.path(), false, &text);
            writeln!(out, "jprops id=j{j} le=0 text={} back={}", hex(text.as_bytes()), back).unwrap();
            j += 1;
        }
    }
}
