//! Channel "codes": every nameable instantaneous code of dsi-bitstream, written through the
//! same dynamic dispatch the compressors use (`FuncCodeWriter`, i.e. with the table-driven
//! fast paths), read back (`FuncCodeReader`) and measured (`FuncCodeLen`), for both
//! endiannesses; compared bit for bit with the proved Coq codes.
use crate::art::{code_name, ALL_CODES};
use crate::util::*;
use dsi_bitstream::dispatch::{CodeLen, FuncCodeLen, FuncCodeReader, FuncCodeWriter};
use dsi_bitstream::prelude::*;
use std::io::Write;

fn one<E: Endianness>(c: Codes, vals: &[u64]) -> (Vec<u8>, Vec<usize>, Vec<usize>, String)
where
    BufBitWriter<E, MemWordWriterVec<u64, Vec<u64>>>: CodesWrite<E>,
    for<'a> BufBitReader<E, MemWordReader<u32, &'a [u32]>>: CodesRead<E>,
{
    let w = FuncCodeWriter::<E, BufBitWriter<E, MemWordWriterVec<u64, Vec<u64>>>>::new(c).unwrap();
    let l = FuncCodeLen::new(c).unwrap();
    let mut bw = BufBitWriter::<E, _>::new(MemWordWriterVec::new(Vec::<u64>::new()));
    let mut written = Vec::new();
    let mut lens = Vec::new();
    for &v in vals {
        written.push(w.write(&mut bw, v).unwrap());
        lens.push(l.len(v));
    }
    bw.flush().unwrap();
    let words: Vec<u64> = bw.into_inner().unwrap().into_inner();
    let bytes: Vec<u8> = words.iter().flat_map(|x| x.to_ne_bytes()).collect();
    // read back
    let w32: Vec<u32> = bytes.chunks(4).map(|c| u32::from_ne_bytes([c[0], c[1], c[2], c[3]])).collect();
    let r = FuncCodeReader::<E, BufBitReader<E, MemWordReader<u32, &[u32]>>>::new(c).unwrap();
    let mut br = BufBitReader::<E, _>::new(MemWordReader::new(&w32[..]));
    let mut back = "ok".to_string();
    for (i, &v) in vals.iter().enumerate() {
        match r.read(&mut br) {
            Ok(x) if x == v => {}
            Ok(x) => { back = format!("FAIL(value{}:{}!={})", i, x, v); break; }
            Err(_) => { back = format!("FAIL(read-error-at-{i})"); break; }
        }
    }
    (bytes, written, lens, back)
}

pub fn run(seed: u64, count: usize, out: &mut impl Write) {
    let mut rng = Rng::new(seed ^ 0xC0DE5);
    let mut id = 0;
    for &c in ALL_CODES.iter() {
        for le in [false, true] {
            // small values exhaustively in blocks, then random values of every magnitude
            let mut blocks: Vec<Vec<u64>> = Vec::new();
            let small_max = if c == Codes::Unary { 300 } else { count as u64 };
            let mut v = 0u64;
            while v < small_max { blocks.push((v..(v + 64).min(small_max)).collect()); v += 64; }
            if c != Codes::Unary {
                let mut big = Vec::new();
                for bits in 1..56u32 { // zeta_k uses wrapping u64 arithmetic above 2^(64-k): outside the model (and outside any graph with < 2^56 nodes)
                    for _ in 0..2 { big.push((rng.next() >> (64 - bits)) | (1u64 << (bits - 1))); }
                    big.push((1u64 << bits) - 1);
                    big.push(1u64 << bits);
                }
                for chunk in big.chunks(48) { blocks.push(chunk.to_vec()); }
            }
            for vals in blocks {
                let (bytes, written, lens, back) = catch(std::panic::AssertUnwindSafe(|| {
                    if le { one::<LE>(c, &vals) } else { one::<BE>(c, &vals) }
                })).unwrap_or_else(|p| (vec![], vec![], vec![], format!("FAIL(panic:{})", sanitize(&p))));
                let vs: Vec<String> = vals.iter().map(|x| x.to_string()).collect();
                writeln!(out, "codes id=k{id} code={} le={} vals={} written={} lens={} back={} bytes={}",
                    code_name(c), le as u8, vs.join(","), fmt_ints(&written), fmt_ints(&lens), back, hex(&bytes)).unwrap();
                id += 1;
            }
        }
    }
}
