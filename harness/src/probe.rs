//! Ad-hoc witnesses of the defects recorded in known_findings.json: each prints what the
//! implementation does today.
use crate::util::*;
use dsi_progress_logger::prelude::*;
use rayon::prelude::*;
use webgraph::prelude::*;

pub fn run(which: &str) {
    match which {
        "sortpairs-oob" => {
            let pairs = vec![(0usize, 1usize), (1, 2), (7, 0), (2, 1)];
            let r = catch(std::panic::AssertUnwindSafe(|| {
                let s = ParSortPairs::new(3).unwrap().num_partitions(2);
                s.sort(pairs.into_par_iter(), &mut no_logging![]).map(|_| ())
            }));
            match r {
                Ok(Ok(())) => println!("sortpairs-oob: Ok (wrong: should be Err)"),
                Ok(Err(e)) => println!("sortpairs-oob: Err({})", sanitize(&format!("{e:#}"))),
                Err(p) => println!("sortpairs-oob: PANIC({})", sanitize(&p)),
            }
        }
        "bfsorder-fused" => {
            // BfsOrder implements FusedIterator: next() after None must return None again
            let g = webgraph::graphs::vec_graph::VecGraph::from_arcs([(0usize, 1usize), (1, 2)]);
            let mut visit = webgraph::visits::breadth_first::Seq::new(&g);
            let mut it = (&mut visit).into_iter();
            let mut k = 0;
            while it.next().is_some() { k += 1; }
            let r = catch(std::panic::AssertUnwindSafe(|| it.next().is_none()));
            match r {
                Ok(true) => println!("bfsorder-fused: {k} items, then None, then None (correct)"),
                Ok(false) => println!("bfsorder-fused: {k} items, then None, then Some (wrong)"),
                Err(p) => println!("bfsorder-fused: {k} items, then None, then PANIC({})", sanitize(&p)),
            }
        }
        "dcf-last" => {
            // C10: ParGraph::with_dcf on a graph whose last nodes have no successors
            use sux::traits::{IndexedSeq, SuccUnchecked};
            let mut g = VecGraph::empty(3);
            g.add_arc(0, 1);
            let dcf = g.build_dcf();
            let vals: Vec<u64> = (0..dcf.len()).map(|i| dcf.get(i)).collect();
            println!("dcf-last: dcf={vals:?}");
            for t in 1..=3u64 {
                println!("dcf-last: succ_unchecked({t})={:?}", if t <= 1 { Some(unsafe { dcf.succ_unchecked::<false>(&t) }) } else { None });
            }
            let chunks: Vec<_> = sux::utils::FairChunks::new_with(1, &dcf, 3, 1).collect();
            println!("dcf-last: FairChunks::new_with(1,dcf,3,1)={chunks:?}");
            let chunks: Vec<_> = sux::utils::FairChunks::new(1, &dcf).collect();
            println!("dcf-last: FairChunks::new(1,dcf)={chunks:?}");
            let pg = ParGraph::with_dcf(g.clone(), 1, &dcf, 1);
            let (ls, bs) = (&pg).into_par_lenders();
            println!("dcf-last: with_dcf(k=1) boundaries={bs:?} lenders={}", ls.len());
            let dcf2 = g.build_dcf();
            let pg = ParGraph::with_dcf(g.clone(), g.num_arcs(), dcf2, 1);
            let (ls, bs) = (&pg).into_par_lenders();
            println!("dcf-last: with_dcf(k=1, dcf by value) boundaries={bs:?} lenders={}", ls.len());
            let dcf3 = g.build_dcf();
            let chunks: Vec<_> = sux::utils::FairChunks::new_with(1, dcf3, 3, 1).collect();
            println!("dcf-last: FairChunks::new_with(1,dcf by value,3,1)={chunks:?}");
        }
        _ => println!("unknown probe"),
    }
}
