//! Ad-hoc witnesses of the defects recorded in known_findings.json: each prints what the
//! implementation does today.
use crate::util::*;
use dsi_progress_logger::prelude::*;
use rayon::prelude::*;
use webgraph::prelude::*;

pub fn run(which: &str) {
    match which {
        "sortpairs-oob" => {
            let pairs = vec![(0usize, 1usize), (1, 2), (7, 0), (2, 1)];
            let r = catch(std::panic::AssertUnwindSafe(|| {
                let s = ParSortPairs::new(3).unwrap().num_partitions(2);
                s.sort(pairs.into_par_iter(), &mut no_logging![]).map(|_| ())
            }));
            match r {
                Ok(Ok(())) => println!("sortpairs-oob: Ok (wrong: should be Err)"),
                Ok(Err(e)) => println!("sortpairs-oob: Err({})", sanitize(&format!("{e:#}"))),
                Err(p) => println!("sortpairs-oob: PANIC({})", sanitize(&p)),
            }
        }
        "bfsorder-fused" => {
            // BfsOrder implements FusedIterator: next() after None must return None again
            let g = webgraph::graphs::vec_graph::VecGraph::from_arcs([(0usize, 1usize), (1, 2)]);
            let mut visit = webgraph::visits::breadth_first::Seq::new(&g);
            let mut it = (&mut visit).into_iter();
            let mut k = 0;
            while it.next().is_some() { k += 1; }
            let r = catch(std::panic::AssertUnwindSafe(|| it.next().is_none()));
            match r {
                Ok(true) => println!("bfsorder-fused: {k} items, then None, then None (correct)"),
                Ok(false) => println!("bfsorder-fused: {k} items, then None, then Some (wrong)"),
                Err(p) => println!("bfsorder-fused: {k} items, then None, then PANIC({})", sanitize(&p)),
            }
        }
        _ => println!("unknown probe"),
    }
}
