//! Shared helpers: deterministic PRNG, graph generators, text formatting.
#![allow(dead_code)]
use std::fmt::Write as _;

/// SplitMix64: every random choice of the harness derives from one seed.
#[derive(Clone)]
pub struct Rng(pub u64);
impl Rng {
    pub fn new(seed: u64) -> Self {
        Rng(seed.wrapping_mul(0x9E3779B97F4A7C15).wrapping_add(0x1234567))
    }
    pub fn next(&mut self) -> u64 {
        self.0 = self.0.wrapping_add(0x9E3779B97F4A7C15);
        let mut z = self.0;
        z = (z ^ (z >> 30)).wrapping_mul(0xBF58476D1CE4E5B9);
        z = (z ^ (z >> 27)).wrapping_mul(0x94D049BB133111EB);
        z ^ (z >> 31)
    }
    /// uniform in [0, n)
    pub fn below(&mut self, n: usize) -> usize {
        if n == 0 { 0 } else { (self.next() % n as u64) as usize }
    }
    /// uniform in [lo, hi]
    pub fn range(&mut self, lo: usize, hi: usize) -> usize {
        lo + self.below(hi - lo + 1)
    }
    pub fn chance(&mut self, num: usize, den: usize) -> bool {
        self.below(den) < num
    }
    pub fn pick<T: Copy>(&mut self, xs: &[T]) -> T {
        xs[self.below(xs.len())]
    }
    pub fn shuffle<T>(&mut self, v: &mut [T]) {
        for i in (1..v.len()).rev() {
            let j = self.below(i + 1);
            v.swap(i, j);
        }
    }
    pub fn fork(&mut self) -> Rng {
        Rng(self.next())
    }
}

pub type Graph = Vec<Vec<usize>>;

fn norm(mut l: Vec<usize>) -> Vec<usize> {
    l.sort_unstable();
    l.dedup();
    l
}

/// Structured random graph: every node picks one mechanism of the BV format to exercise
/// (copying a recent list with edits, runs of consecutive successors, scattered
/// residuals, hubs, empty nodes).
pub fn gen_graph(rng: &mut Rng, n: usize) -> Graph {
    let mut g: Graph = Vec::with_capacity(n);
    if n == 0 {
        return g;
    }
    let style = rng.below(6);
    for x in 0..n {
        let mode = match style {
            0 => rng.below(6),
            1 => if rng.chance(3, 4) { 1 } else { rng.below(6) }, // copy heavy
            2 => if rng.chance(3, 4) { 2 } else { rng.below(6) }, // run heavy
            3 => if rng.chance(1, 2) { 0 } else { 3 },            // sparse with empties
            4 => if rng.chance(4, 5) { 1 } else { 5 },            // long chains
            _ => rng.below(6),
        };
        let l = match mode {
            0 => Vec::new(),
            1 if x > 0 => {
                // near-duplicate of a recent list
                let back = 1 + rng.below(x.min(9));
                let mut l = g[x - back].clone();
                let edits = rng.below(4);
                for _ in 0..edits {
                    if !l.is_empty() && rng.chance(1, 2) {
                        let i = rng.below(l.len());
                        l.remove(i);
                    } else {
                        l.push(rng.below(n));
                    }
                }
                if rng.chance(1, 6) && !l.is_empty() {
                    // drop a prefix or suffix: first block zero / copy-to-end variants
                    let k = rng.below(l.len());
                    if rng.chance(1, 2) { l.drain(..k); } else { l.truncate(k); }
                }
                l
            }
            2 => {
                // runs of consecutive successors around interesting lengths
                let mut l = Vec::new();
                for _ in 0..rng.range(1, 3) {
                    let s = rng.below(n);
                    let len = rng.range(1, 9);
                    for y in s..(s + len).min(n) {
                        l.push(y);
                    }
                }
                if rng.chance(1, 2) { l.push(rng.below(n)); }
                l
            }
            3 => (0..rng.range(1, 4)).map(|_| rng.below(n)).collect(),
            4 => {
                // hub
                let d = rng.range(n / 2, n);
                (0..d).map(|_| rng.below(n)).collect()
            }
            _ => {
                // neighbourhood of x (small signed first gaps, self loop)
                let mut l = Vec::new();
                for _ in 0..rng.range(1, 6) {
                    let off = rng.below(7) as isize - 3;
                    let y = x as isize + off;
                    if y >= 0 && (y as usize) < n { l.push(y as usize); }
                }
                l
            }
        };
        g.push(norm(l));
    }
    g
}

pub fn num_arcs(g: &Graph) -> usize {
    g.iter().map(|l| l.len()).sum()
}

pub fn fmt_ints(l: &[usize]) -> String {
    let mut s = String::new();
    for (i, x) in l.iter().enumerate() {
        if i > 0 { s.push(','); }
        write!(s, "{x}").unwrap();
    }
    s
}

/// "1,2;3;;4"; a graph with a single empty list is "-", the empty graph is "".
pub fn fmt_lists(g: &[Vec<usize>]) -> String {
    if g.len() == 1 && g[0].is_empty() {
        return "-".to_string();
    }
    let mut s = String::new();
    for (i, l) in g.iter().enumerate() {
        if i > 0 { s.push(';'); }
        s.push_str(&fmt_ints(l));
    }
    s
}

pub fn hex(b: &[u8]) -> String {
    let mut s = String::with_capacity(b.len() * 2);
    for x in b {
        write!(s, "{x:02x}").unwrap();
    }
    s
}

pub fn parse_lists(s: &str) -> Graph {
    if s.is_empty() { return vec![]; }
    if s == "-" { return vec![vec![]]; }
    s.split(';').map(|p| if p.is_empty() { vec![] } else { p.split(',').map(|t| t.parse().unwrap()).collect() }).collect()
}

pub fn parse_ints(s: &str) -> Vec<usize> {
    if s.is_empty() { vec![] } else { s.split(',').map(|t| t.parse().unwrap()).collect() }
}

/// Runs `f`, converting a panic into `Err(message)`.
pub fn catch<T>(f: impl FnOnce() -> T + std::panic::UnwindSafe) -> Result<T, String> {
    std::panic::catch_unwind(f).map_err(|e| {
        if let Some(s) = e.downcast_ref::<&str>() { s.to_string() }
        else if let Some(s) = e.downcast_ref::<String>() { s.clone() }
        else { "panic".to_string() }
    })
}

pub fn sanitize(s: &str) -> String {
    s.chars().map(|c| if c.is_whitespace() || c == '=' { '_' } else { c }).take(160).collect()
}
