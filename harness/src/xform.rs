//! Channel "xform": every public graph-transform entry point (`webgraph::transform`) on
//! random graphs, sequential and parallel variants, with memory budgets down to one pair
//! per batch, thread pools of 1..16 threads and sources `VecGraph`, `ParGraph` (explicit
//! cutpoints), `BvGraphSeq` and `BvGraph`.  The result is read back both through `iter()`
//! (`out`) and through `into_par_lenders()` (`outp`) and printed with the input.
use crate::art::{gen_cuts, vec_graph};
use crate::util::*;
use anyhow::Result;
use dsi_bitstream::prelude::*;
use dsi_progress_logger::no_logging;
use lender::Lender;
use std::io::Write;
use std::panic::AssertUnwindSafe;
use webgraph::graphs::vec_graph::LabeledVecGraph;
use webgraph::prelude::*;
use webgraph::traits::{FixedWidth, IntoParLenders};
use webgraph::transform;

#[derive(Default)]
struct Outcome {
    /// nodes reported by the result
    n: usize,
    /// successor lists read through `iter()`; None when the result cannot be cloned
    seq: Option<Vec<Vec<usize>>>,
    /// successor lists read through `into_par_lenders()`
    par: Option<Vec<Vec<usize>>>,
    /// labels (labelled transposition), parallel to `seq` / `par`
    seq_labels: Option<Vec<Vec<usize>>>,
    par_labels: Option<Vec<Vec<usize>>>,
    /// the result's boundaries
    bounds: Vec<usize>,
    /// the cutpoints of the source lenders (parallel variants)
    cuts: Vec<usize>,
    /// node ids were not 0, 1, 2, ... in order
    disorder: bool,
    /// first k for which `iter_from(k)` is not the suffix of `iter()` starting at node k
    from_bad: Option<usize>,
}

/// reads a sequential graph through `iter()`
macro_rules! read_seq {
    ($g:expr, $o:expr) => {{
        let mut lists: Vec<Vec<usize>> = Vec::new();
        let mut it = $g.iter();
        while let Some((x, succ)) = Lender::next(&mut it) {
            if x != lists.len() { $o.disorder = true; }
            lists.push(succ.into_iter().collect());
        }
        // sequential iteration started at an intermediate node: every k on small results,
        // a sample (incl. both ends) on larger ones
        let n = lists.len();
        let ks: Vec<usize> = if n <= 48 { (0..=n).collect() } else { vec![0, 1, 2, n / 3, n / 2, n / 2 + 1, n - 2, n - 1, n] };
        for k in ks {
            let mut it = $g.iter_from(k);
            let mut x0 = k;
            let mut good = true;
            while let Some((x, succ)) = Lender::next(&mut it) {
                let l: Vec<usize> = succ.into_iter().collect();
                if x != x0 || x >= n || l != lists[x] { good = false; break; }
                x0 += 1;
            }
            if !good || x0 != n { if $o.from_bad.is_none() { $o.from_bad = Some(k); } break; }
        }
        $o.seq = Some(lists);
    }};
}

/// consumes a sorted graph through `into_par_lenders()`
macro_rules! read_par {
    ($g:expr, $o:expr) => {{
        let (lenders, bounds) = $g.into_par_lenders();
        let mut lists: Vec<Vec<usize>> = Vec::new();
        for mut l in lenders.into_vec() {
            while let Some((x, succ)) = Lender::next(&mut l) {
                if x != lists.len() { $o.disorder = true; }
                lists.push(succ.into_iter().collect());
            }
        }
        $o.bounds = bounds.to_vec();
        $o.par = Some(lists);
    }};
}

macro_rules! read_both {
    ($r:expr, $o:expr) => {{
        let sorted = $r?;
        $o.n = sorted.num_nodes();
        read_seq!(&sorted, $o);
        read_par!(sorted, $o);
    }};
}

fn split_labels(l: Vec<Vec<(usize, u32)>>) -> (Vec<Vec<usize>>, Vec<Vec<usize>>) {
    (l.iter().map(|x| x.iter().map(|p| p.0).collect()).collect(),
     l.iter().map(|x| x.iter().map(|p| p.1 as usize).collect()).collect())
}

macro_rules! read_both_labeled {
    ($r:expr, $o:expr) => {{
        let sorted = $r?;
        $o.n = sorted.num_nodes();
        let mut lists: Vec<Vec<(usize, u32)>> = Vec::new();
        {
            let mut it = sorted.iter();
            while let Some((x, succ)) = Lender::next(&mut it) {
                if x != lists.len() { $o.disorder = true; }
                lists.push(succ.into_iter().collect());
            }
        }
        {
            let n = lists.len();
            let ks: Vec<usize> = if n <= 48 { (0..=n).collect() } else { vec![0, 1, 2, n / 3, n / 2, n / 2 + 1, n - 2, n - 1, n] };
            for k in ks {
                let mut it = sorted.iter_from(k);
                let mut x0 = k;
                let mut good = true;
                while let Some((x, succ)) = Lender::next(&mut it) {
                    let l: Vec<(usize, u32)> = succ.into_iter().collect();
                    if x != x0 || x >= n || l != lists[x] { good = false; break; }
                    x0 += 1;
                }
                if !good || x0 != n { if $o.from_bad.is_none() { $o.from_bad = Some(k); } break; }
            }
        }
        let (a, b) = split_labels(lists);
        $o.seq = Some(a);
        $o.seq_labels = Some(b);
        let (lenders, bounds) = sorted.into_par_lenders();
        let mut lists: Vec<Vec<(usize, u32)>> = Vec::new();
        for mut l in lenders.into_vec() {
            while let Some((x, succ)) = Lender::next(&mut l) {
                if x != lists.len() { $o.disorder = true; }
                lists.push(succ.into_iter().collect());
            }
        }
        $o.bounds = bounds.to_vec();
        let (a, b) = split_labels(lists);
        $o.par = Some(a);
        $o.par_labels = Some(b);
    }};
}

#[derive(Clone)]
struct Case {
    op: String,
    g: Graph,
    labels: Vec<Vec<usize>>,
    threads: usize,
    /// 0 = `MemoryUsage::default()`
    budget: usize,
    kind: String,
    /// requested cutpoints (kinds `pg*`)
    req_cuts: Vec<usize>,
    noloops: bool,
    f: Vec<usize>,
    m: usize,
}

fn mem(k: usize) -> MemoryUsage {
    if k == 0 { MemoryUsage::default() } else { MemoryUsage::BatchSize(k) }
}

/// the unlabelled entry points on a source `$src : &G`
macro_rules! unlabelled_ops {
    ($c:expr, $src:expr, $o:expr, $sorted_par:tt) => {{
        let c: &Case = $c;
        let src = $src;
        let mu = mem(c.budget);
        let is_par = c.op.ends_with("_par") || c.op == "transpose2_par";
        if is_par {
            $o.cuts = src.into_par_lenders().1.to_vec();
        }
        match c.op.as_str() {
            "transpose_seq" => read_both!(transform::transpose_seq(src, mu, no_logging![]), $o),
            "transpose_par" => read_both!(transform::transpose_par(src, mu, no_logging![]), $o),
            "symmetrize_seq" => {
                if c.noloops { read_both!(transform::symmetrize_seq::<true>(src, mu, no_logging![]), $o) }
                else { read_both!(transform::symmetrize_seq::<false>(src, mu, no_logging![]), $o) }
            }
            "symmetrize_sorted_seq" => {
                if c.noloops { read_both!(transform::symmetrize_sorted_seq::<true, _>(src, mu, no_logging![]), $o) }
                else { read_both!(transform::symmetrize_sorted_seq::<false, _>(src, mu, no_logging![]), $o) }
            }
            "symmetrize_par" => {
                if c.noloops { read_both!(transform::symmetrize_par::<true, _>(src, mu, no_logging![]), $o) }
                else { read_both!(transform::symmetrize_par::<false, _>(src, mu, no_logging![]), $o) }
            }
            "symmetrize_sorted_par" => { sorted_par!($sorted_par, c, src, mu, $o) }
            "permute_seq" => read_both!(transform::permute_seq(src, &c.f, mu, no_logging![]), $o),
            "permute_par" => read_both!(transform::permute_par(src, &c.f, mu, no_logging![]), $o),
            "map_seq" => read_both!(transform::map_seq(src, &c.f, c.m, mu, no_logging![]), $o),
            "map_par" => read_both!(transform::map_par(src, &c.f, c.m, mu, no_logging![]), $o),
            "transpose2_seq" => {
                let t = transform::transpose_seq(src, mu, no_logging![])?;
                let t = VecGraph::from_lender(&t);
                read_both!(transform::transpose_seq(&t, mu, no_logging![]), $o)
            }
            "transpose2_par" => {
                let t = transform::transpose_par(src, mu, no_logging![])?;
                // the sorted result is itself a source of parallel lenders
                read_both!(transform::transpose_par(t, mu, no_logging![]), $o)
            }
            other => anyhow::bail!("unknown op {other}"),
        }
    }};
}

macro_rules! sorted_par {
    (yes, $c:expr, $src:expr, $mu:expr, $o:expr) => {{
        if $c.noloops {
            let sorted = transform::symmetrize_sorted_par::<true, _>($src, $mu, no_logging![])?;
            read_par!(sorted, $o);
            $o.n = *$o.bounds.last().unwrap_or(&0);
        } else {
            let sorted = transform::symmetrize_sorted_par::<false, _>($src, $mu, no_logging![])?;
            read_par!(sorted, $o);
            $o.n = *$o.bounds.last().unwrap_or(&0);
        }
    }};
    (no, $c:expr, $src:expr, $mu:expr, $o:expr) => {{
        let _ = (&$mu, &$src);
        anyhow::bail!("symmetrize_sorted_par needs a sorted splittable source")
    }};
}

fn compress(dir: &std::path::Path, g: &Graph, with_ef: bool) -> Result<std::path::PathBuf> {
    let base = dir.join("x");
    let vg = vec_graph(g);
    BvComp::with_basename(&base).comp_graph::<BE>(&vg)?;
    if with_ef {
        webgraph::graphs::bvgraph::store_ef_with_data(
            g.len(), base.with_extension("graph"), base.with_extension("offsets"),
            base.with_extension("ef"), no_logging![])?;
    }
    Ok(base)
}

fn labelled_graph(c: &Case) -> LabeledVecGraph<u32> {
    let mut lg = LabeledVecGraph::<u32>::empty(c.g.len());
    for (x, l) in c.g.iter().enumerate() {
        for (i, &y) in l.iter().enumerate() {
            lg.add_arc(x, y, c.labels[x][i] as u32);
        }
    }
    lg
}

fn run_case(c: &Case, dir: &std::path::Path) -> Result<Outcome> {
    let mut o = Outcome::default();
    match c.kind.as_str() {
        "vec" => {
            let vg = vec_graph(&c.g);
            unlabelled_ops!(c, &vg, o, no);
        }
        "pgvec" => {
            let pg = ParGraph::with_cutpoints(vec_graph(&c.g), c.req_cuts.clone());
            unlabelled_ops!(c, &pg, o, no);
        }
        "bvseq" => {
            let base = compress(dir, &c.g, false)?;
            let s = BvGraphSeq::with_basename(&base).endianness::<BE>().load()?;
            unlabelled_ops!(c, &s, o, yes);
        }
        "bv" => {
            let base = compress(dir, &c.g, true)?;
            let s = BvGraph::with_basename(&base).endianness::<BE>().load()?;
            unlabelled_ops!(c, &s, o, yes);
        }
        "pgbvseq" => {
            let base = compress(dir, &c.g, false)?;
            let s = BvGraphSeq::with_basename(&base).endianness::<BE>().load()?;
            let pg = ParGraph::with_cutpoints(s, c.req_cuts.clone());
            unlabelled_ops!(c, &pg, o, yes);
        }
        "lvec" => {
            let lg = labelled_graph(c);
            let mu = mem(c.budget);
            let sd = FixedWidth::<u32>::new();
            match c.op.as_str() {
                "transpose_labeled_seq" => read_both_labeled!(transform::transpose_labeled_seq(&lg, mu, sd, no_logging![]), o),
                "transpose_labeled_par" => {
                    o.cuts = (&lg).into_par_lenders().1.to_vec();
                    read_both_labeled!(transform::transpose_labeled_par(&lg, mu, sd, no_logging![]), o)
                }
                other => anyhow::bail!("unknown op {other}"),
            }
        }
        other => anyhow::bail!("unknown kind {other}"),
    }
    Ok(o)
}

/// random graph shapes: the structured generator plus the shapes named in the property
fn gen_case_graph(rng: &mut Rng, n: usize) -> Graph {
    if n == 0 { return vec![]; }
    match rng.below(9) {
        0 => vec![vec![]; n],                                   // only isolated nodes
        1 => (0..n).map(|x| vec![x]).collect(),                 // only loops
        2 => {
            // already symmetric (with some loops)
            let mut g: Graph = vec![vec![]; n];
            for _ in 0..rng.range(0, 2 * n) {
                let (a, b) = (rng.below(n), rng.below(n));
                g[a].push(b);
                g[b].push(a);
            }
            for l in g.iter_mut() { l.sort_unstable(); l.dedup(); }
            g
        }
        3 => (0..n).map(|_| (0..n).collect()).collect(),        // complete with loops
        4 => {
            // sparse: most nodes isolated
            let mut g: Graph = vec![vec![]; n];
            for _ in 0..rng.range(1, 3) {
                let (a, b) = (rng.below(n), rng.below(n));
                if !g[a].contains(&b) { g[a].push(b); }
            }
            for l in g.iter_mut() { l.sort_unstable(); }
            g
        }
        5 => {
            // everything points to / from one node (one partition gets all the pairs)
            let h = rng.below(n);
            let mut g: Graph = vec![vec![]; n];
            if rng.chance(1, 2) { for x in 0..n { g[x].push(h); } } else { g[h] = (0..n).collect(); }
            g
        }
        _ => gen_graph(rng, n),
    }
}

fn gen_map(rng: &mut Rng, n: usize, m: usize) -> Vec<usize> {
    (0..n).map(|_| rng.below(m.max(1))).collect()
}

const UNLABELLED_OPS: [&str; 12] = [
    "transpose_seq", "transpose_par", "symmetrize_seq", "symmetrize_sorted_seq", "symmetrize_par",
    "symmetrize_sorted_par", "permute_seq", "permute_par", "map_seq", "map_par", "transpose2_seq",
    "transpose2_par",
];

fn gen_case(rng: &mut Rng, maxn: usize, malformed: bool) -> Case {
    let n = match rng.below(10) {
        0 => rng.below(3),
        1..=6 => rng.range(1, 9.min(maxn.max(1))),
        _ => rng.range(1, maxn.max(1)),
    };
    let g = gen_case_graph(rng, n);
    let labelled = rng.chance(1, 8);
    let threads = match rng.below(4) { 0 => 1, 1 => rng.range(2, 4), 2 => rng.range(1, 16), _ => rng.range(5, 16) };
    let budget = rng.pick(&[1usize, 1, 2, 2, 3, 4, 0, 7]);
    let req_cuts = gen_cuts(rng, n, true);
    let noloops = rng.chance(1, 2);
    let labels: Vec<Vec<usize>> = g.iter().map(|l| l.iter().map(|_| rng.below(1000)).collect()).collect();
    if labelled {
        let op = rng.pick(&["transpose_labeled_seq", "transpose_labeled_par"]).to_string();
        let kind = "lvec".to_string();
        return Case { op, g, labels, threads, budget, kind, req_cuts, noloops, f: vec![], m: 0 };
    }
    let op = rng.pick(&UNLABELLED_OPS).to_string();
    let kind = if op == "symmetrize_sorted_par" {
        rng.pick(&["bvseq", "bv", "pgbvseq"])
    } else if op.ends_with("_par") {
        rng.pick(&["vec", "pgvec", "pgvec", "bvseq", "bv", "pgbvseq"])
    } else {
        rng.pick(&["vec", "vec", "vec", "pgvec", "bvseq", "bv"])
    }.to_string();
    let (mut f, mut m) = (vec![], 0);
    if op.starts_with("permute") {
        f = (0..n).collect();
        rng.shuffle(&mut f);
        m = n;
        if malformed {
            match rng.below(3) {
                0 => { f.push(n); }                                   // too long
                1 => { f.pop(); }                                     // too short (or empty)
                _ => { if n > 0 { let i = rng.below(n); f[i] = rng.below(n); } } // not injective
            }
        }
    } else if op.starts_with("map") {
        m = match rng.below(4) { 0 => 1, 1 => rng.range(1, n.max(1)), 2 => n + rng.range(0, 5), _ => rng.range(1, 2 * n + 1) };
        f = gen_map(rng, n, m);
        if malformed {
            match rng.below(3) {
                0 => { f.push(0); }
                1 => { f.pop(); }
                _ => { if n > 0 { let i = rng.below(n); f[i] = m + rng.below(3); } } // value out of range
            }
        }
    }
    Case { op, g, labels, threads, budget, kind, req_cuts, noloops, f, m }
}

fn opt_lists(l: &Option<Vec<Vec<usize>>>) -> String {
    match l { Some(l) => fmt_lists(l), None => "none".to_string() }
}

fn emit(out: &mut impl Write, id: &str, c: &Case, malformed: bool, r: std::result::Result<Result<Outcome>, String>) {
    let (status, o) = match r {
        Ok(Ok(o)) => (if o.disorder { "disorder".to_string() } else if let Some(k) = o.from_bad { format!("iter_from-{k}-differs") } else { "ok".to_string() }, o),
        Ok(Err(e)) => (format!("err:{}", sanitize(&format!("{e:#}"))), Outcome::default()),
        Err(p) => (format!("panic:{}", sanitize(&p)), Outcome::default()),
    };
    writeln!(out,
        "xform id={id} op={} kind={} malformed={} n={} g={} lab={} t={} k={} reqcuts={} cuts={} nl={} f={} m={} status={} nout={} out={} outp={} outlab={} outplab={} bounds={}",
        c.op, c.kind, malformed as u8, c.g.len(), fmt_lists(&c.g), fmt_lists(&c.labels), c.threads, c.budget,
        fmt_ints(&c.req_cuts), fmt_ints(&o.cuts), c.noloops as u8, fmt_ints(&c.f), c.m, status, o.n,
        opt_lists(&o.seq), opt_lists(&o.par), opt_lists(&o.seq_labels), opt_lists(&o.par_labels),
        fmt_ints(&o.bounds)).unwrap();
}

thread_local! {
    /// one pool per size, built on first use (building a pool per case dominates the run time)
    static POOLS: std::cell::RefCell<std::collections::HashMap<usize, std::sync::Arc<rayon::ThreadPool>>> =
        std::cell::RefCell::new(std::collections::HashMap::new());
}

fn exec(c: &Case, dir: &std::path::Path) -> std::result::Result<Result<Outcome>, String> {
    let pool = POOLS.with(|p| {
        p.borrow_mut().entry(c.threads).or_insert_with(|| {
            std::sync::Arc::new(rayon::ThreadPoolBuilder::new().num_threads(c.threads).build().unwrap())
        }).clone()
    });
    catch(AssertUnwindSafe(|| pool.install(|| run_case(c, dir))))
}

pub fn run(seed: u64, count: usize, maxn: usize, mode: &str, out: &mut impl Write) {
    let mut rng = Rng::new(seed ^ 0xC09);
    let tmp = tempfile::Builder::new().prefix("wgverif-xform").tempdir().unwrap();
    let mut id = 0usize;
    if mode == "exhaustive" {
        // every entry point x every source kind on a few fixed graphs, every budget 1..4
        // and default, pools 1, 2, 3, 16
        let graphs: Vec<Graph> = vec![
            vec![], vec![vec![]], vec![vec![0]], vec![vec![1], vec![0]],
            vec![vec![1, 2], vec![2], vec![0, 2, 3], vec![]],
            vec![vec![], vec![], vec![0, 1, 2, 3, 4], vec![], vec![4]],
            vec![vec![1], vec![2], vec![3], vec![4], vec![5], vec![0]],
        ];
        for g in &graphs {
            let n = g.len();
            for op in UNLABELLED_OPS.iter().copied().chain(["transpose_labeled_seq", "transpose_labeled_par"]) {
                let kinds: &[&str] = if op.starts_with("transpose_labeled") { &["lvec"] }
                    else if op == "symmetrize_sorted_par" { &["bvseq", "bv", "pgbvseq"] }
                    else { &["vec", "pgvec", "bvseq", "bv", "pgbvseq"] };
                for kind in kinds {
                    for &threads in &[1usize, 2, 3, 16] {
                        for &budget in &[1usize, 2, 3, 4, 0] {
                            let mut f: Vec<usize> = (0..n).collect();
                            let mut m = n;
                            if op.starts_with("permute") { rng.shuffle(&mut f); }
                            if op.starts_with("map") { m = rng.range(1, n + 2); f = gen_map(&mut rng, n, m); }
                            let c = Case { op: op.to_string(), g: g.clone(),
                                labels: g.iter().map(|l| l.iter().map(|_| rng.below(1000)).collect()).collect(),
                                threads, budget, kind: kind.to_string(), req_cuts: gen_cuts(&mut rng, n, true),
                                noloops: rng.chance(1, 2), f, m };
                            let d = tmp.path().join(format!("e{id}"));
                            std::fs::create_dir_all(&d).unwrap();
                            let r = exec(&c, &d);
                            emit(out, &format!("e{id}"), &c, false, r);
                            let _ = std::fs::remove_dir_all(&d);
                            id += 1;
                        }
                    }
                }
            }
        }
        return;
    }
    for _ in 0..count {
        let malformed = rng.chance(1, 10);
        let c = gen_case(&mut rng, maxn, malformed);
        let malformed = malformed && (c.op.starts_with("permute") || c.op.starts_with("map"));
        let d = tmp.path().join(format!("c{id}"));
        std::fs::create_dir_all(&d).unwrap();
        let r = exec(&c, &d);
        emit(out, &format!("x{id}"), &c, malformed, r);
        let _ = std::fs::remove_dir_all(&d);
        id += 1;
    }
}
