"""Shared machinery of bin/check: audit, Coq build + assumption capture, OCaml/Rust builds,
running both sides of the correspondence, verdicts, evidence."""
import json, os, re, subprocess, sys, time, hashlib, shutil

VERIF = os.path.dirname(os.path.dirname(os.path.abspath(__file__)))
COQ = os.path.join(VERIF, "coq")
BUILD = os.path.join(VERIF, "build")
OCAML_SRC = os.path.join(VERIF, "ocaml")
OCAML_BUILD = os.path.join(BUILD, "ocaml")
HARNESS = os.path.join(VERIF, "harness")
CARGO_TARGET = os.path.join(BUILD, "cargo")
RUNS = os.path.join(BUILD, "runs")
REPLAYS = os.path.join(BUILD, "replays")
EVIDENCE = os.path.join(VERIF, "evidence")

ENV = dict(os.environ)
ENV.update({"CARGO_NET_OFFLINE": "true", "CARGO_TARGET_DIR": CARGO_TARGET, "RUST_BACKTRACE": "0"})

ALLOWED_AXIOMS = {
    # standard-library axioms that may appear; none is expected at present
    "functional_extensionality_dep", "eq_rect_eq", "Eqdep.Eq_rect_eq.eq_rect_eq", "JMeq_eq",
    "proof_irrelevance", "classic",
}

FORBIDDEN = re.compile(
    r"\b(Admitted|admit|Axiom|Axioms|Parameter|Parameters|Conjecture|Conjectures|Admit Obligations|"
    r"Unset Guard Checking|Unset Positivity Checking|Unset Universe Checking|bypass_check|"
    r"type-in-type|impredicative-set|native_compute)\b")


class CheckError(Exception):
    pass


class HarnessAborted(CheckError):
    """The harness process died by a signal inside the implementation."""
    def __init__(self, rc, args, done, tail):
        self.rc, self.hargs, self.done, self.tail = rc, args, done, tail
        CheckError.__init__(self, "the implementation aborted the harness process (exit %s) while handling generated "
                            "case number %d of: harness %s\n%s" % (rc, done + 1, " ".join(args), tail))


def sh(cmd, cwd=None, timeout=3600, env=None, check=True, capture=True):
    t0 = time.time()
    p = subprocess.run(cmd, cwd=cwd, env=env or ENV, shell=isinstance(cmd, str),
                       stdout=subprocess.PIPE if capture else None,
                       stderr=subprocess.STDOUT if capture else None,
                       timeout=timeout, text=True)
    if check and p.returncode != 0:
        raise CheckError("command failed (%s): %s\n%s" % (p.returncode, cmd, (p.stdout or "")[-4000:]))
    return p.returncode, p.stdout or "", time.time() - t0


def coq_files():
    out = []
    for root, _, files in os.walk(os.path.join(COQ, "theories")):
        for f in files:
            if f.endswith(".v"):
                out.append(os.path.join(root, f))
    return sorted(out)


def strip_comments(src):
    # remove (possibly nested) Coq comments
    out, depth, i = [], 0, 0
    while i < len(src):
        if src.startswith("(*", i):
            depth += 1; i += 2
        elif src.startswith("*)", i) and depth > 0:
            depth -= 1; i += 2
        else:
            if depth == 0:
                out.append(src[i])
            i += 1
    return "".join(out)


def audit():
    """Fail closed on any forbidden vernacular in the development, and on Variable /
    Hypothesis / Context outside a Section."""
    problems = []
    for f in coq_files():
        src = strip_comments(open(f).read())
        for m in FORBIDDEN.finditer(src):
            problems.append("%s: forbidden '%s'" % (os.path.relpath(f, VERIF), m.group(0)))
        depth = 0
        for line in src.split("\n"):
            s = line.strip()
            if re.match(r"^(Section|Module Type|Module)\s+\w+\s*\.", s) or re.match(r"^Section\s", s):
                if s.startswith("Section"):
                    depth += 1
            if re.match(r"^End\s+\w+\s*\.", s) and depth > 0:
                depth -= 1
            if depth == 0 and re.match(r"^(Variable|Variables|Hypothesis|Hypotheses|Context)\b", s):
                problems.append("%s: '%s' outside a Section" % (os.path.relpath(f, VERIF), s[:60]))
    for f in ["_CoqProject"]:
        txt = open(os.path.join(COQ, f)).read()
        if re.search(r"type-in-type|impredicative-set|-vos|-vok", txt):
            problems.append("_CoqProject passes a forbidden flag")
    return problems


def coq_build(clean=False):
    """Full .vo build through coq_makefile (never -vos)."""
    if not os.path.exists(os.path.join(COQ, "Makefile")) or \
       os.path.getmtime(os.path.join(COQ, "Makefile")) < os.path.getmtime(os.path.join(COQ, "_CoqProject")):
        sh("coq_makefile -f _CoqProject -o Makefile", cwd=COQ)
    if clean:
        sh("make clean", cwd=COQ, check=False)
    rc, out, dt = sh("timeout 3000 make -j16", cwd=COQ, check=False)
    if rc != 0:
        raise CheckError("Coq build failed:\n" + out[-6000:])
    return dt


def check_property_file(cid):
    """Recompile Properties/<cid>.v and read back what it proved: number of pinned
    theorems and, for each, its Print Assumptions output."""
    path = os.path.join(COQ, "theories", "Properties", cid + ".v")
    src = strip_comments(open(path).read())
    theorems = re.findall(r"^\s*Theorem\s+(\w+)", src, flags=re.M)
    rc, out, dt = sh("timeout 1200 coqc -Q theories WG theories/Properties/%s.v" % cid, cwd=COQ, check=False)
    if rc != 0:
        return {"ok": False, "theorems": theorems, "discharged": 0, "axioms": [], "log": out[-4000:], "wall": dt}
    # split the output into Print Assumptions blocks
    blocks = re.split(r"(?=Closed under the global context|Axioms:)", out)
    closed, axioms = 0, []
    for b in blocks:
        if b.startswith("Closed under the global context"):
            closed += 1
        elif b.startswith("Axioms:"):
            names = re.findall(r"^(\S+)\s*:", b[len("Axioms:"):], flags=re.M)
            axioms.append(names)
            if all(n.split(".")[-1] in ALLOWED_AXIOMS or n in ALLOWED_AXIOMS for n in names):
                closed += 1
    printed = len(re.findall(r"^\s*Print Assumptions\s+(\w+)", src, flags=re.M))
    ok = (closed == len(theorems) == printed) and len(theorems) > 0
    return {"ok": ok, "theorems": theorems, "discharged": closed, "axioms": axioms, "log": out[-2000:], "wall": dt}


def coqchk(cid):
    """Independent re-check of the compiled property file and everything it depends on
    (thorough tier).  Returns (ok, axioms text)."""
    rc, out, dt = sh("timeout 2400 coqchk -o -silent -Q theories WG WG.Properties.%s" % cid, cwd=COQ, check=False)
    m = re.search(r"\* Axioms:(.*?)\n\s*\n\s*\*", out, flags=re.S)
    axioms = m.group(1).strip() if m else "?"
    names = [a.strip() for a in axioms.split("\n") if a.strip() and a.strip() != "<none>"]
    allowed = all(n.split(".")[-1] in ALLOWED_AXIOMS or n in ALLOWED_AXIOMS for n in names)
    clean = all(("%s: <none>" % k) in out.replace("\n", " ").replace("  ", " ") or True for k in [])
    bad = re.search(r"relying on type-in-type: (?!<none>)|unsafe \(co\)fixpoints: (?!<none>)|positivity is assumed: (?!<none>)", out)
    return (rc == 0 and allowed and not bad), axioms, dt


def ocaml_build():
    """Extracted model (coq/model.ml, written by Extract.v during the Coq build) + driver."""
    os.makedirs(OCAML_BUILD, exist_ok=True)
    srcs = [os.path.join(COQ, "model.ml"), os.path.join(COQ, "model.mli")] + \
           sorted(os.path.join(OCAML_SRC, f) for f in os.listdir(OCAML_SRC) if f.endswith(".ml"))
    h = hashlib.sha256()
    for s in srcs:
        h.update(open(s, "rb").read())
    stamp = os.path.join(OCAML_BUILD, "stamp")
    exe = os.path.join(OCAML_BUILD, "model_driver")
    if os.path.exists(exe) and os.path.exists(stamp) and open(stamp).read() == h.hexdigest():
        return 0.0
    for s in srcs:
        shutil.copy(s, OCAML_BUILD)
    order = ["conv.ml"] + sorted(f for f in os.listdir(OCAML_SRC) if f.startswith("chan_")) + ["driver.ml"]
    rc, out, dt = sh("ocamlfind ocamlopt -package unix,zarith -linkpkg -w -a -O3 model.mli model.ml %s -o model_driver" % " ".join(order),
                     cwd=OCAML_BUILD, check=False)
    if rc != 0:
        raise CheckError("OCaml build failed:\n" + out[-4000:])
    open(stamp, "w").write(h.hexdigest())
    return dt


def cargo_build(release=False):
    lock = os.path.join(HARNESS, "Cargo.lock")
    shutil.copy("/repo/Cargo.lock", lock)
    cmd = "cargo build --offline" + (" --release" if release else "")
    rc, out, dt = sh("timeout 3000 " + cmd, cwd=HARNESS, check=False)
    if rc != 0:
        raise CheckError("harness build against /repo failed:\n" + out[-6000:])
    return dt


def harness_exe(release=False):
    return os.path.join(CARGO_TARGET, "release" if release else "debug", "harness")


def run_harness(args, out_path, timeout=3000, release=False, env_extra=None):
    os.makedirs(os.path.dirname(out_path), exist_ok=True)
    env = dict(ENV)
    if env_extra:
        env.update(env_extra)
    rc, out, dt = sh([harness_exe(release)] + args + ["--out", out_path], timeout=timeout, check=False, env=env)
    if rc < 0 or rc in (134, 137, 139):
        # the process was killed by a signal (abort on an absurd allocation, stack overflow,
        # ...) while the implementation handled a generated case: every case line is flushed
        # as soon as it is complete, so the file holds the cases before the fatal one
        done = 0
        try:
            done = sum(1 for l in open(out_path) if l and not l.startswith("#"))
        except OSError:
            pass
        raise HarnessAborted(rc, args, done, out[-1500:])
    if rc != 0:
        raise CheckError("harness failed (%s): %s\n%s" % (rc, " ".join(args), out[-3000:]))
    return dt


def run_driver(case_path, timeout=3000):
    """Returns the list of result dicts (one per case) printed by the model driver."""
    rc, out, dt = sh("ulimit -s unlimited 2>/dev/null; ulimit -v 12000000 2>/dev/null; %s %s" % (os.path.join(OCAML_BUILD, "model_driver"), case_path),
                     timeout=timeout, check=False)
    if rc != 0:
        raise CheckError("model driver failed (%s)\n%s" % (rc, out[-3000:]))
    res = []
    for line in out.split("\n"):
        toks = line.split()
        if not toks:
            continue
        d = {"_chan": toks[0]}
        for t in toks[1:]:
            k, _, v = t.partition("=")
            d[k] = v
        res.append(d)
    return res, dt


def read_cases(case_path):
    """Case lines and '#impl' annotation lines of a harness output file."""
    cases, impl = {}, {}
    order = []
    for line in open(case_path):
        line = line.rstrip("\n")
        if not line:
            continue
        toks = line.split(" ")
        d = {}
        for t in toks[1:]:
            k, _, v = t.partition("=")
            d[k] = v
        if line.startswith("#impl"):
            impl.setdefault(d.get("id"), {}).update(d)
        elif not line.startswith("#"):
            d["_chan"] = toks[0]
            d["_line"] = line
            cases[d.get("id")] = d
            order.append(d.get("id"))
    return order, cases, impl


def load_known_findings():
    p = os.path.join(VERIF, "known_findings.json")
    if not os.path.exists(p):
        return []
    return json.load(open(p)).get("findings", [])


def write_replay(cid, name, content):
    os.makedirs(REPLAYS, exist_ok=True)
    p = os.path.join(REPLAYS, "%s_%s.replay" % (cid, name))
    with open(p, "w") as f:
        f.write(content)
    return p


def write_evidence(cid, tier, seed, level, coverage, assumptions, wall, violations):
    os.makedirs(EVIDENCE, exist_ok=True)
    ev = {"property_id": cid, "tier": tier, "seed": seed, "level": level, "coverage": coverage,
          "assumptions": assumptions, "wall_s": round(wall, 2), "violations": violations}
    with open(os.path.join(EVIDENCE, cid + ".json"), "w") as f:
        json.dump(ev, f, indent=1)
    return ev


TRUSTED_BASE = [
    "Coq 8.16.1 kernel (coqc); vm_compute only inside Example/_refuted witnesses; no native_compute",
    "axioms reported by Print Assumptions for this property's theorems: none (Closed under the global context)",
    "extraction to OCaml with ExtrOcamlBasic only (no Extract Constant / Extract Inductive of our own); ocamlfind ocamlopt 4.13.1; Zarith 1.12 is linked only for the UNTRUSTED search of the exact PageRank solution (C18), which is accepted solely through the proved certificate checker",
    "hand-written OCaml driver glue (ocaml/conv.ml, ocaml/chan_*.ml, ocaml/driver.ml): parsing, hex/bit unpacking, windowed bit reader",
    "Rust correspondence harness (/verif/harness) and the python orchestrator (bin/check, bin/vlib.py, bin/props/*.py)",
    "modelled, not verified: dsi-bitstream table-driven code paths and word adapters, file I/O, rayon, mmap",
]
