#!/usr/bin/env python3
"""wrap_model.py <file.v> <ModName>: wraps the body of a Coq model file (everything after
its Require/Import header) in `Module ModName. ... End ModName. Export ModName.` so that
the flat OCaml extraction keeps its names in a sub-module and cannot clash with other
areas' names."""
import re, sys
path, name = sys.argv[1], sys.argv[2]
src = open(path).read()
if re.search(r"^Module %s\." % name, src, flags=re.M):
    sys.exit(0)
lines = src.split("\n")
last = -1
for i, l in enumerate(lines[:120]):
    if re.match(r"^(From|Require)\b", l):
        last = i
if last < 0:
    sys.exit("no Require header found in " + path)
while not lines[last].rstrip().endswith("."):
    last += 1
out = lines[:last + 1] + ["", "Module %s." % name] + lines[last + 1:] + ["", "End %s." % name, "Export %s." % name, ""]
open(path, "w").write("\n".join(out))
