"""C13: breadth-first visits give exact distances, once per node, under every schedule."""
import os, collections
import vlib
from props import codec
LEVEL = "proof"
ASSUMPTIONS = [
    "the Coq models of Seq::visit_filtered_with, BfsOrder and BfsOrderFromRoots correspond to the Rust code: checked "
    "on every run by exact equality of the event / item sequences",
    "the interleaving model of one parallel level (a fold of filter-then-swap steps over an arbitrary permutation of the "
    "frontier's successor scans) covers every execution of ParFair / ParLowMem: this rests on the atomicity of "
    "AtomicBitVec::swap and on rayon joining all tasks of a level before the frontiers are exchanged; checked on every "
    "run by rebuilding, from the winners the implementation reported, a schedule under which the model reproduces the "
    "next frontier exactly",
    "filters are functions of the node and of the distance only (a filter that looks at the predecessor is outside the model)",
]

ORACLE = {"struct", "levels", "pred", "fsize", "order", "revisit", "fresh", "perm", "len", "parent", "dist",
          "refusal", "status"}
CORR = {"seqev", "parsched", "orderev", "rootsev", "permev"}


def nontrivial(case):
    if int(case.get("n", "0")) < 2 or case.get("g", "").replace(";", "") == "":
        return None
    return case["_line"].split(" id=")[-1].split(" ", 1)[-1]


# The harness also records ("fused" aspect) that BfsOrder, which declares FusedIterator, panics
# when next() is called again after it returned None.  That is a bug of the library but not
# part of property C13 (which speaks about the enumeration itself), so the aspect is
# informational only: it is neither an oracle nor a correspondence aspect.
def fused_finding(case, failing):
    """BfsOrder implements FusedIterator, but next() after the iterator returned None panics
    (the queue is empty and pop_front().expect(..) fails)."""
    if case.get("kind") == "order" and failing and all(a.startswith("fused:FAIL(next-after-None-panics)") for a in failing):
        return ("BfsOrder declares FusedIterator but a call of next() after it returned None panics "
                "(seq.rs: queue.pop_front().expect(..) on the empty queue)")
    return None


def run(ctx):
    quick = ctx["tier"] == "quick"
    # --maxn = number of nodes up to which ALL digraphs are enumerated; --count = random graphs
    args = ["--maxn", "3" if quick else "4", "--count", "1500" if quick else "20000"]
    r = codec.run_simple("C13", ctx, "visit", args, oracle_aspects=ORACLE, corr_aspects=CORR, nontrivial=nontrivial,
                         timeout=3000)
    # distribution by kind / pool size / graph size
    try:
        order, cases, _ = vlib.read_cases(os.path.join(vlib.RUNS, "C13_visit_%s.cases" % ctx["tier"]))
        dist = collections.Counter()
        for cid in order:
            c = cases[cid]
            dist["kind=" + c.get("kind", "?")] += 1
            t = int(c.get("thr", "1"))
            dist["threads=1" if t == 1 else "threads=2-4" if t <= 4 else "threads=5-16"] += 1
            n = int(c.get("n", "0"))
            dist["n<=4" if n <= 4 else "n<=30" if n <= 30 else "n<=100" if n <= 100 else "n<=300"] += 1
            dist["visits=" + c.get("nv", "?")] += 1
            if c.get("bv") == "1":
                dist["graph=BvGraph"] += 1
            if c.get("status", "ok") != "ok":
                dist["refused-or-panicked"] += 1
        r["distribution"] = dict(dist)
    except Exception:
        pass
    r["rule"] = ("all digraphs (with loops) on <= %d nodes x {Seq, ParFairPred, ParFairNoPred, ParLowMem, BfsOrder, "
                 "BfsOrderFromRoots} plus the command-line `perm bfs` on compressed graphs plus random graphs to 300 nodes with many shared successors (layered, dense, hubs, "
                 "complete, fans), each with a sequence of 1-3 visits on the same visitor (reset or not), root multisets "
                 "(duplicates, all nodes, empty), VecGraph or compressed BvGraph, filters on node and distance, node/arc granularities, pools of 1..16 "
                 "threads, yields/sleeps injected in callbacks and filters; one PRNG seeded by VERIF_SEED; non-trivial = "
                 "at least 2 nodes and one arc; distinct = different case line" % (3 if quick else 4))
    violations, known = codec.verdict("C13", r)
    r.update({"violations": violations, "known": known})
    return r
