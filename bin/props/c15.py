"""C15: strongly connected components are computed exactly by all four algorithms."""
import os, collections
import vlib
from props import codec
LEVEL = "proof"
ASSUMPTIONS = [
    "the Coq models of tarjan / kosaraju / symm_seq / symm_par / sort_by_size correspond to the Rust code: checked on "
    "every run by exact equality of the component arrays and counts (numbering included)",
    "Tarjan's model (event handler with decreasing timestamps, lead bit stack, early exit) is proved correct for every "
    "well-formed graph (C15_tarjan, Algo/SccTarjan.v); the implementation's outputs are additionally decided case by "
    "case by the proved checker check_scc",
    "graphs with more than 150 nodes ('big' mode) are too large for the proved checker: they are covered by the exact "
    "model/implementation comparison and by unproved cross checks (dense ids, Tarjan partition = Kosaraju partition)",
]

ORACLE = {"tj_scc", "ko_scc", "tjs_scc", "ss_scc", "sp_scc", "tj_dense", "ko_dense", "tjs_dense", "ss_dense", "sp_dense",
          "x_tjko", "x_tjsss", "cli_scc", "cli_sizes", "sb_sorted", "sb_part", "sb_scc", "psb_sorted", "psb_part", "psb_scc", "big"}
CORR = {"parse", "cli_prep", "cli_eq", "tj_eq", "ko_eq", "tjs_eq", "ss_eq", "sp_eq", "sp_model", "fin", "csz", "sb_eq", "psb_eq",
        "bigagree"}


def nontrivial(case):
    if int(case.get("n", "0")) < 2 or int(case.get("arcs", "0")) < 1:
        return None
    return (case.get("g"), case.get("spt"), case.get("renumber"), case.get("j"))


def bucket(n):
    return "0-1" if n <= 1 else "2-5" if n <= 5 else "6-24" if n <= 24 else "25-150" if n <= 150 else ">150"


def run_scc(ctx, name, harness_args, seed_offset, timeout=3000):
    """codec.run_simple with a property-specific distribution (graph kind, size, number of components, whether
    Tarjan's early exit was taken, pool sizes)."""
    tier, seed = ctx["tier"], ctx["seed"]
    path = os.path.join(vlib.RUNS, "C15_scc_%s_%s.cases" % (name, tier))
    vlib.run_harness(["scc", "--seed", str(seed + seed_offset)] + harness_args, path, timeout=timeout)
    order, cases, impl = vlib.read_cases(path)
    results, _ = vlib.run_driver(path, timeout=timeout)
    rmap = {r.get("id"): r for r in results}
    evaluations, keys, samples = 0, set(), []
    oracle_fail, corr_fail = [], []
    dist = collections.Counter()
    for cidx in order:
        case = cases[cidx]
        res = rmap.get(cidx, {"error": "no-driver-output"})
        evaluations += 1
        dist["mode=" + name] += 1
        dist["kind=" + case.get("kind", "?")] += 1
        dist["n=" + bucket(int(case.get("n", "0")))] += 1
        if "i_early" in res:
            dist["early_exit=" + res["i_early"]] += 1
            k = int(res.get("i_k", "0") or 0)
            dist["sccs=" + ("0" if k == 0 else "1" if k == 1 else "2-4" if k <= 4 else ">4")] += 1
        if "renumber" in case:
            dist["cli_renumber=" + case["renumber"]] += 1
        for t in case.get("spt", "").split(","):
            if t:
                dist["pool=" + t] += 1
        key = nontrivial(case)
        if key is not None:
            keys.add(key)
        if len(samples) < 3:
            samples.append({"id": cidx, "case": case["_line"][:300],
                            "model": {k2: v for k2, v in res.items() if not k2.startswith("_")}})
        of, cf = [], []
        if "error" in res:
            cf.append("driver-error(%s)" % res["error"])
        for a, v in res.items():
            if a.startswith("_") or a == "id" or v == "ok" or a == "error":
                continue
            if a in ORACLE and v.startswith("FAIL"):
                of.append("%s:%s" % (a, v))
            elif a in CORR and v.startswith("FAIL"):
                cf.append("%s:%s" % (a, v))
        if of:
            oracle_fail.append((cidx, case, of, path))
        if cf:
            corr_fail.append((cidx, case, cf, path))
    return {"evaluations": evaluations, "distinct_nontrivial": len(keys), "distribution": dict(dist),
            "samples": samples, "oracle_fail": oracle_fail, "corr_fail": corr_fail, "refused": 0, "rule": ""}


def run(ctx):
    quick = ctx["tier"] == "quick"
    runs = [
        ("exh", ["--mode", "exh", "--maxn", "3" if quick else "4"], 0),
        ("exh5", ["--mode", "exh5", "--count", "300" if quick else "20000"], 1),
        ("rand", ["--mode", "rand", "--count", "400" if quick else "6000", "--maxn", "60" if quick else "100"], 2),
        ("big", ["--mode", "big", "--count", "6" if quick else "24", "--maxn", "150"], 3),
        ("cli", ["--mode", "cli", "--count", "60" if quick else "600", "--maxn", "40"], 4),
        # sizes 250 003, 400 001, 1 000 003 (--maxn caps them; never below 200 001), sequential and parallel
        ("huge", ["--mode", "huge", "--count", "3" if quick else "12", "--maxn", "1000003"], 5),
    ]
    rs = [run_scc(ctx, name, hargs, so) for name, hargs, so in runs]
    r = codec.merge(rs)
    r["rule"] = ("every digraph (self-loops included) on 0..3 nodes (thorough: 0..4) and sampled digraphs on 5 nodes; structured "
                 "random digraphs (sparse, dense, deep chains, one large SCC, DAGs, DAGs of cycles, self-loops, Hamiltonian "
                 "paths closing on the root, trees with back arcs; half of them relabelled by a random permutation); each with "
                 "tarjan, kosaraju (+ hand-built transpose), tarjan/symm_seq/symm_par on the symmetrisation (thread pools "
                 "1..16), sort_by_size on Tarjan's result and par_sort_by_size on Kosaraju's; plus the command-line entry point "
                 "webgraph-sccs (compressed graph, with/without --renumber, -j 1/2/4) on small fixed and random graphs; plus (par_)sort_by_size on component arrays of 250 003 .. 1 000 003 nodes (above the minimum task length of the "
                 "parallel loops): old and new arrays and returned sizes are judged in the driver by the extracted n log n "
                 "checker big_check_sort_by_size, proved to decide the array-level conclusions of S_sort_by_size "
                 "(C15_big_sort_by_size_spec; aspect big), and cross-checked against the verdict of linear scans in the "
                 "harness (aspect bigagree); non-trivial = at least 2 nodes "
                 "and one arc; distinct = different (graph, pool sizes)")
    violations, known = codec.verdict("C15", r)
    r.update({"violations": violations, "known": known})
    return r
