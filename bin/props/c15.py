"""C15: strongly connected components are computed exactly by all four algorithms."""
from props import codec
LEVEL = "proof"
ASSUMPTIONS = [
    "the Coq models of tarjan / kosaraju / symm_seq / symm_par / sort_by_size correspond to the Rust code: checked on "
    "every run by exact equality of the component arrays and counts (numbering included)",
]

ORACLE = {"tj_scc", "ko_scc", "tjs_scc", "ss_scc", "sp_scc", "tj_dense", "ko_dense", "tjs_dense", "ss_dense", "sp_dense",
          "x_tjko", "x_tjsss", "sb_sorted", "sb_part", "sb_scc", "psb_sorted", "psb_part", "psb_scc"}
CORR = {"parse", "tj_eq", "ko_eq", "tjs_eq", "ss_eq", "sp_eq", "sp_model", "fin", "csz", "sb_eq", "psb_eq"}


def nontrivial(case):
    if int(case.get("n", "0")) < 2 or int(case.get("arcs", "0")) < 1:
        return None
    return (case.get("g"), case.get("spt"))


def run(ctx):
    quick = ctx["tier"] == "quick"
    runs = [
        ("exh", ["--mode", "exh", "--maxn", "3" if quick else "4"], 0),
        ("exh5", ["--mode", "exh5", "--count", "300" if quick else "20000"], 1),
        ("rand", ["--mode", "rand", "--count", "400" if quick else "6000", "--maxn", "60" if quick else "100"], 2),
        ("big", ["--mode", "big", "--count", "6" if quick else "40", "--maxn", "150"], 3),
    ]
    rs = []
    for name, hargs, so in runs:
        rs.append(codec.run_simple("C15", ctx, "scc", hargs, ORACLE, CORR, nontrivial=nontrivial, seed_offset=so, name="scc_" + name))
    r = codec.merge(rs)
    r["rule"] = ("every digraph (self-loops included) on 0..3 nodes (thorough: 0..4) and sampled digraphs on 5 nodes; structured "
                 "random digraphs (sparse, dense, deep chains, one large SCC, DAGs, DAGs of cycles, self-loops, Hamiltonian "
                 "paths closing on the root, trees with back arcs; half of them relabelled by a random permutation); each with "
                 "tarjan, kosaraju (+ hand-built transpose), tarjan/symm_seq/symm_par on the symmetrisation (thread pools "
                 "1..16), sort_by_size on Tarjan's result and par_sort_by_size on Kosaraju's; non-trivial = at least 2 nodes "
                 "and one arc; distinct = different (graph, pool sizes)")
    violations, known = codec.verdict("C15", r)
    r.update({"violations": violations, "known": known})
    return r
