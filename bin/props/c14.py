"""C14: depth-first visits, topological sort and the acyclicity test are exact."""
from props import codec
LEVEL = "proof"
ASSUMPTIONS = [
    "the Coq model Visits/Dfs.v (explicit stack of (node, remaining successors) frames, known/on-stack mark sets, "
    "flavours by event erasure) corresponds to SeqIter::visit_filtered_with of depth_first/seq.rs: checked on every "
    "run by exact equality of the event sequences of all three flavours, of top_sort, is_acyclic and DfsOrder",
    "filters and callbacks are pure functions of their arguments (the harness uses seven filter families and "
    "index/flag based interruptions); a visit interrupted by its callback is reset before it is used again",
    "successor lists are those served by the graph (VecGraph: sorted, duplicate-free); the theorems do not depend on "
    "the order",
]

ORACLE = {"wf_path", "wf_pred", "span", "flav_pred", "flav_nopred", "nopanic", "acyc", "ts_perm", "ts_valid",
          "order_len", "order_fields", "order_root"}
CORR = {"ev_path", "ev_pred", "ev_nopred", "m_acyc", "m_ts", "m_order"}


def nontrivial(case):
    if int(case.get("n", "0")) < 2 or int(case.get("arcs", "0")) < 1:
        return None
    return (case["_chan"], case.get("g"), case.get("vis"))


def dfs_order_root(case, failing):
    """DfsOrder reports root+1 for non-root nodes: recognised only if exactly the order_root aspect fails
    (order_fields, the same comparison without the root field, holds)."""
    if case.get("_chan") != "dfsalgo":
        return None
    names = {f.split(":")[0] for f in failing}
    if names == {"order_root"}:
        return ("DfsOrder (IntoIterator for &mut SeqPred) reports a wrong `root` field for the non-root nodes of "
                "a tree (self.root has already been advanced past the root)")
    return None


def run(ctx):
    quick = ctx["tier"] == "quick"
    args = ["--count", "1000" if quick else "5000", "--maxn", "60" if quick else "100",
            "--mode", "quick" if quick else "thorough"]
    r = codec.run_simple("C14", ctx, "dfs", args, oracle_aspects=ORACLE, corr_aspects=CORR,
                         nontrivial=nontrivial, timeout=3000)
    r["rule"] = ("all digraphs (self-loops included) on <= 3 nodes (quick) / <= 4 nodes (thorough), each with every "
                 "root sequence of length <= n followed by a second call without reset (n <= 3), the full root range, "
                 "and random scenarios of 1-4 visit calls (reset or not, seven filter families, interruptions at an "
                 "event index or at the first on-stack revisit); sampled digraphs on 4 and 5 nodes; random graphs to "
                 "60/100 nodes (DAGs under a hidden order, DAG + one back arc or self-loop, long chains, dense, "
                 "trees with forward/cross arcs, BV-style); roots outside the graph (panic expected); the three "
                 "flavours run on every scenario; top_sort, is_acyclic and DfsOrder on every graph; "
                 "non-trivial = at least 2 nodes and one arc; distinct = different (graph, scenario)")
    violations, known = codec.verdict("C14", r)
    r.update({"violations": violations, "known": known})
    return r
