"""C16: ExactSumSweep returns exact eccentricities, diameter and radius."""
from props import codec
LEVEL = "other"
EXPLANATION = (
    "proved oracle + exploration.  Proved in Coq: level-iteration BFS computes shortest distances (C16_bfs_dist); the "
    "executable eccentricities, diameter, radius, default radial set are the documented reachability-restricted ones and the "
    "checker accepts exactly the exact outputs with attaining vertices (C16_ecc_spec, C16_spec_checker_sound, "
    "C16_default_checker_sound); for the directed variant every BFS step preserves lF<=ecc+<=uF, lB<=ecc-<=uB, dL<=D, R<=rU "
    "for any pivot sequence and visiting order (C16_step_invariant, C16_run_invariant) and the exit conditions of every level "
    "give exact values (C16_exit_exact, C16_machine_exact); for run_symm the same minus the radius clause "
    "(C16_symm_step_invariant, C16_symm_exit_exact_partial).  Two genuine defects are proved on the model and reproduced on the "
    "code (C16_radial_vertex_refuted, C16_symm_radius_refuted).  NOT proved: that the values all_cc_upper_bound derives from the "
    "SCC DAG are upper bounds (only the abstract 'tightening preserves the invariant' step, C16_allcc_step_invariant_partial), "
    "so the algorithm proof is not closed and the decision on every explored graph is made by the extracted proved checker "
    "applied to the implementation's output")
ASSUMPTIONS = [
    "the harness builds the transpose itself and symmetric inputs are symmetric (the library leaves the result undefined otherwise)",
    "default radial vertices: the documentation says 'the largest strongly connected component'; when several components "
    "have the largest size the oracle accepts the radius of any of them",
    "the diametral vertex is accepted if its forward or its backward eccentricity equals the diameter",
    "thread schedules are those the OS produces on pools of 1..16 threads",
]


def _kv(case):
    return case


def known_rv_initial_bound(case, failing):
    """F1: the radial vertex is left at its initial value 0 when the radius equals the initial upper bound
    (n-1 for directed graphs, n/2 for symmetric ones): the update uses a strict comparison."""
    names = set(f.split(":")[0] for f in failing)
    if not names <= {"rv", "exact"} or "rv" not in names:
        return None
    n = int(case.get("n", "0"))
    init = n // 2 if case.get("sym") == "1" else n - 1
    if case.get("rv") == "0" and case.get("radius") == str(init):
        return ("radial_vertex is not set when the radius equals the initial upper bound (num_nodes-1, or num_nodes/2 for "
                "run_symm): vertex 0 is reported although it is not a radial vertex of minimum eccentricity "
                "(e.g. arcs {1->0}, radial vertices {1}: radius=1, radial_vertex=0)")
    return None


def known_symm_radius(case, failing):
    """F2: run_symm: a visit labelled 'backward' fixes the eccentricity of its start vertex without updating the
    radius upper bound, so the radius can be reported too large (and the radial vertex wrong)."""
    names = set(f.split(":")[0] for f in failing)
    if case.get("sym") != "1" or names != {"radius", "exact"}:
        return None
    # the class: a backward-labelled visit exists and the reported radius is LARGER than the specification's
    detail = [f for f in failing if f.startswith("radius:")][0]
    spec = detail.split("spec:")[-1].rstrip(")").split("|")
    steps = case.get("steps", "")
    try:
        too_large = all(v != "none" and int(case.get("radius")) > int(v) for v in spec)
    except ValueError:
        return None
    if too_large and any(t.startswith("B") for t in steps.split(",")):
        return ("run_symm: backwards_step_sum_sweep sets the eccentricity of its start vertex but does not update "
                "radius_high/radius_vertex, so the vertex is never counted again and the reported radius can exceed the true one "
                "(e.g. symmetric graph {1-1 loop}, isolated 0: radius=1 instead of 0; a 30-node path-like graph at level "
                "RadiusDiameter: 12 instead of 11)")
    return None


def run(ctx):
    quick = ctx["tier"] == "quick"
    oracle = {"status", "exact", "eccf", "eccb", "diam", "dv", "radius", "rv", "sched"}
    corr = {"replay", "replayrv", "schedrv"}
    nontrivial = (lambda c: None if int(c.get("n", "0")) < 2 else
                  (c.get("g"), c.get("sym"), c.get("rad"), c.get("lvl"), c.get("tot")))
    matchers = [known_rv_initial_bound, known_symm_radius]
    if quick:
        runs = [("quick", "150", 0)]
    else:
        runs = [("rest", "1500", 0)] + [("exh4:%d/8" % k, "0", 1 + k) for k in range(8)]
    rs = []
    for mode, count, so in runs:
        rs.append(codec.run_simple("C16", ctx, "ess", ["--count", count, "--maxn", "150", "--mode", mode],
                                   oracle_aspects=oracle, corr_aspects=corr, nontrivial=nontrivial,
                                   seed_offset=so, name="ess_" + mode.replace(":", "_").replace("/", "of"),
                                   known_matchers=matchers))
    r = codec.merge(rs)
    r["rule"] = ("all digraphs on <= 3 nodes (loops included) x every level x use_tot x {default radial set, every explicit "
                 "radial set}; digraphs on 4 nodes (all in the thorough tier) and a sample on 5; all symmetric graphs on <= 4 "
                 "nodes (5 sampled); random digraphs up to 150 nodes (sparse, DAG, many SCCs, disconnected, one big SCC, chains, "
                 "dense) and random symmetric graphs (sparse, trees, equal-sized parts, paths); pools of 1..16 threads; "
                 "distinct = different (graph, symmetric, radial set, level, use_tot) with at least 2 nodes")
    violations, known = codec.verdict("C16", r, known_matchers=matchers)
    r.update({"violations": violations, "known": known})
    return r
