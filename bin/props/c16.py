"""C16: ExactSumSweep returns exact eccentricities, diameter and radius."""
from props import codec
LEVEL = "other"
EXPLANATION = (
    "proved oracle + exploration.  Proved in Coq: level-iteration BFS computes shortest distances (C16_bfs_dist); the "
    "executable eccentricities, diameter, radius, default radial set are the documented reachability-restricted ones and the "
    "checker accepts exactly the exact outputs with attaining vertices (C16_ecc_spec, C16_spec_checker_sound, "
    "C16_default_checker_sound).  The machine model follows the code after the repairs of the radius bookkeeping "
    "(42ca92a, 46b2bda, f9241dd).  Directed variant: every BFS step preserves lF<=ecc+<=uF, lB<=ecc-<=uB, dL<=D, R<=rU for any "
    "pivot sequence and visiting order (C16_step_invariant, C16_run_invariant) and the exit condition of every level gives "
    "an output accepted by the complete checker, radial vertex included, no side condition (C16_exit_exact, "
    "C16_exit_radial_vertex, C16_machine_exact).  run_symm: forward visit, backward visit AND the SCC step "
    "(all_cc_upper_bound, symmetric branch: d(pivot,v)+ecc(pivot) is an upper bound, C16_symm_pivot_bound) preserve the full "
    "invariant for any pivots and orders, and the exit gives an output accepted by the complete checker "
    "(C16_symm_step_invariant, C16_symm_exit_exact, C16_symm_machine_exact) under the hypothesis radius <= n/2 that the "
    "initial bound n/2+1 presupposes (true of the largest-component radial set run_symm uses; that graph-theoretic fact is "
    "not proved).  The two former defects remain as refutations of the pre-repair rules (C16_radial_vertex_refuted, "
    "C16_symm_radius_refuted; C16_witnesses_repaired).  NOT proved: the DIRECTED branch of all_cc_upper_bound (that the values "
    "derived through the SCC DAG are upper bounds; only the abstract tightening step, C16_allcc_step_invariant_partial), so "
    "the algorithm proof is not closed for directed graphs and the decision on every explored graph is made by the "
    "extracted proved checker applied to the implementation's output; correspondence: replay of the logged visits on the "
    "machine (all runs without an SCC step; all run_symm runs, SCC steps included with the pivots of the model of "
    "find_best_pivot, C16_best_pivots_legal)")
ASSUMPTIONS = [
    "the harness builds the transpose itself and symmetric inputs are symmetric (the library leaves the result undefined otherwise)",
    "default radial vertices: the documentation says 'the largest strongly connected component'; when several components "
    "have the largest size the oracle accepts the radius of any of them",
    "the diametral vertex is accepted if its forward or its backward eccentricity equals the diameter",
    "thread schedules are those the OS produces on pools of 1..16 threads",
    "run_symm: the exit theorem assumes radius <= n/2 for the radial set (a largest connected component); the fact is not "
    "proved in Coq, the aspect 'symhyp' checks it on every explored symmetric graph",
]


def run(ctx):
    quick = ctx["tier"] == "quick"
    oracle = {"status", "exact", "eccf", "eccb", "diam", "dv", "radius", "rv", "sched", "symhyp"}
    corr = {"replay", "replaya", "replayrv", "schedrv"}
    nontrivial = (lambda c: None if int(c.get("n", "0")) < 2 else
                  (c.get("g"), c.get("sym"), c.get("rad"), c.get("lvl"), c.get("tot")))
    matchers = []
    if quick:
        runs = [("quick", "150", 0)]
    else:
        runs = [("rest", "1500", 0)] + [("exh4:%d/8" % k, "0", 1 + k) for k in range(8)]
    rs = []
    for mode, count, so in runs:
        rs.append(codec.run_simple("C16", ctx, "ess", ["--count", count, "--maxn", "150", "--mode", mode],
                                   oracle_aspects=oracle, corr_aspects=corr, nontrivial=nontrivial,
                                   seed_offset=so, name="ess_" + mode.replace(":", "_").replace("/", "of"),
                                   known_matchers=matchers))
    r = codec.merge(rs)
    r["rule"] = ("all digraphs on <= 3 nodes (loops included) x every level x use_tot x {default radial set, every explicit "
                 "radial set}; digraphs on 4 nodes (all in the thorough tier) and a sample on 5; all symmetric graphs on <= 4 "
                 "nodes (5 sampled); random digraphs up to 150 nodes (sparse, DAG, many SCCs, disconnected, one big SCC, chains, "
                 "dense) and random symmetric graphs (sparse, trees, equal-sized parts, paths); pools of 1..16 threads; "
                 "distinct = different (graph, symmetric, radial set, level, use_tot) with at least 2 nodes")
    violations, known = codec.verdict("C16", r, known_matchers=matchers)
    r.update({"violations": violations, "known": known})
    return r
