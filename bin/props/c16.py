"""C16: ExactSumSweep returns exact eccentricities, diameter and radius."""
import collections
import os
import vlib
from props import codec
LEVEL = "proof"
EXPLANATION = (
    "proved oracle + exploration.  Proved in Coq: level-iteration BFS computes shortest distances (C16_bfs_dist); the "
    "executable eccentricities, diameter, radius, default radial set are the documented reachability-restricted ones and the "
    "checker accepts exactly the exact outputs with attaining vertices (C16_ecc_spec, C16_spec_checker_sound, "
    "C16_default_checker_sound).  The machine model follows the code after the repairs of the radius bookkeeping "
    "(42ca92a, 46b2bda, f9241dd).  Directed variant: every BFS step preserves lF<=ecc+<=uF, lB<=ecc-<=uB, dL<=D, R<=rU for any "
    "pivot sequence and visiting order (C16_step_invariant, C16_run_invariant) and the exit condition of every level gives "
    "an output accepted by the complete checker, radial vertex included, no side condition (C16_exit_exact, "
    "C16_exit_radial_vertex, C16_machine_exact).  run_symm: forward visit, backward visit AND the SCC step "
    "(all_cc_upper_bound, symmetric branch: d(pivot,v)+ecc(pivot) is an upper bound, C16_symm_pivot_bound) preserve the full "
    "invariant for any pivots and orders, and the exit gives an output accepted by the complete checker "
    "(C16_symm_step_invariant, C16_symm_exit_exact, C16_symm_machine_exact) under the hypothesis radius <= n/2 that the "
    "initial bound n/2+1 presupposes (true of the largest-component radial set run_symm uses; that graph-theoretic fact is "
    "not proved).  The two former defects remain as refutations of the pre-repair rules (C16_radial_vertex_refuted, "
    "C16_symm_radius_refuted; C16_witnesses_repaired).  DIRECTED branch of all_cc_upper_bound (Algo/EssScc.v): the component "
    "DAG of scc_graph.rs is sound and complete (C16_scc_graph_sound); the values of the two propagation loops bound the "
    "eccentricities of the pivots and the per-node values those of the nodes (C16_ecc_pivot_f_bound, C16_ecc_pivot_b_bound, "
    "C16_scc_node_bounds), for any SCC labelling in reverse topological order, any legal pivots, with the break / clamps; "
    "hence every operation, the SCC step included, preserves the invariant for any order of the parallel per-node loop and "
    "any legal run reaching the exit is accepted by the complete checker (C16_scc_step_invariant, C16_scc_run_invariant, "
    "C16_machine_exact_dir); the numbering of the Tarjan model is such a labelling (C16_tarjan_scc_topo), so the statements "
    "hold without hypotheses on the components (C16_machine_exact_tarjan) and the pivots of the model of find_best_pivot "
    "are legal (C16_best_pivots_dir_legal, C16_tarjan_pivots_legal).  Correspondence: replay of EVERY run on the "
    "machine -- visits, symmetric SCC steps (aspect replaya) and directed SCC steps (aspect replayd: components from the "
    "extracted Tarjan model, bridge selection of scc_graph.rs, propagation, per-node refinement).  The steps are OBSERVED, "
    "not derived from log text or from a model of the choice heuristics: a guarded call-out of the code (cargo feature "
    "verif_hooks of webgraph-algo, off by default; webgraph_algo::verif_hooks::ESS_STEP) reports direction and start vertex "
    "of every breadth-first visit and the pivot array find_best_pivot returned for every SCC step; the machine is run on "
    "exactly those, so the replay is insensitive to log wording, to the tie-breaks of find_best_pivot and to the rule "
    "choosing start vertices (the theorems hold for any legal ones).  Their legality is checked with boolean tests proved "
    "equivalent to the hypotheses of the theorems (aspects vislegal, pivlegal; C16_legal_pivotsb_spec, "
    "C16_legal_pivots_symb_spec); whether the observed pivots equal those of the model of find_best_pivot is reported as "
    "information only (pivots_vs_model_of_find_best_pivot in the distribution).  Exact agreement of all reported values and "
    "iteration counters is required; the radial vertex is "
    "compared exactly except for directed runs with SCC steps on pools of more than one thread, where it depends on the "
    "schedule of the parallel loop (model: an explicit order argument) and is decided by the oracle aspect rv.  What is "
    "NOT covered by proof: that the implementation follows the machine (correspondence is by replay on the explored "
    "graphs); the choice of the next step (the utility heuristic), of the start vertices and of the pivots is taken from "
    "the call-out; the model only decides where the initial SumSweep heuristic ends (its iterations are skipped when no "
    "node is incomplete), which affects the iteration counters alone; breadth-first visits are C13")
ASSUMPTIONS = [
    "the harness builds the transpose itself and symmetric inputs are symmetric (the library leaves the result undefined otherwise)",
    "default radial vertices: the documentation says 'the largest strongly connected component'; when several components "
    "have the largest size the oracle accepts the radius of any of them",
    "the diametral vertex is accepted if its forward or its backward eccentricity equals the diameter",
    "thread schedules are those the OS produces on pools of 1..16 threads",
    "run_symm: radius <= n/2 for a radial set containing a whole connected component is proved (C16_component_radius_half); "
    "the aspect 'symhyp' still evaluates it on every explored symmetric graph as a sanity check of the oracle",
    "the steps of a run (direction and start vertex of every visit, pivot array of every SCC step) are those reported by the "
    "guarded call-out webgraph_algo::verif_hooks::ESS_STEP (add-only patch hooks/ess_step_hook.patch, compiled out unless "
    "the cargo feature verif_hooks of webgraph-algo is on): one call in step_sum_sweep before the visit, one in "
    "all_cc_upper_bound right after find_best_pivot returned; the progress-logger messages are only cross-checked "
    "(information: log_vs_callout in the distribution)",
    "symmetric SCC step: the code's pivot array is indexed by connected component, the machine's by node; the pivot of a "
    "node is taken to be the observed pivot that reaches it, after checking that exactly one does (aspect pivlegal)",
    "directed SCC step: the replay takes the component numbering from the extracted model of sccs::tarjan (proved to be an "
    "SCC labelling in reverse topological order, C16_tarjan_scc_topo; Level::run calls sccs::tarjan on the graph, and C15 "
    "compares that routine with the model); the observed pivot array is indexed by the implementation's numbering, so a "
    "different numbering in the implementation would show as a pivlegal / replay mismatch",
    "directed SCC step on pools of more than one thread: the radial vertex depends on the order in which the parallel "
    "per-node loop meets the candidates (an argument of the model, quantified over in the theorems); it is not compared "
    "with the model's canonical order, only checked by the oracle",
]


def run_ess(ctx, harness_args, oracle_aspects, corr_aspects, nontrivial, seed_offset, name, timeout=3000):
    """codec.run_simple with a property-specific distribution: which machine replayed the run (visits only, symmetric
    SCC steps, directed SCC steps), how many directed SCC steps, whether the schedule-dependent radial vertex of
    a multi-thread directed run coincides with the one of the model's canonical order, whether the observed pivots are
    those of the model of find_best_pivot, and whether the log messages name the same steps as the call-out."""
    tier, seed = ctx["tier"], ctx["seed"]
    path = os.path.join(vlib.RUNS, "C16_%s_%s.cases" % (name, tier))
    vlib.run_harness(["ess", "--seed", str(seed + seed_offset)] + harness_args, path, timeout=timeout)
    order, cases, impl = vlib.read_cases(path)
    results, _ = vlib.run_driver(path, timeout=timeout)
    rmap = {r.get("id"): r for r in results}
    evaluations, keys, samples = 0, set(), []
    oracle_fail, corr_fail = [], []
    dist = collections.Counter()
    for cidx in order:
        case = cases[cidx]
        res = rmap.get(cidx, {"error": "no-driver-output"})
        evaluations += 1
        dist["chan=" + case["_chan"]] += 1
        for a, label in (("replay", "visits-only"), ("replaya", "symmetric-scc-steps"), ("replayd", "directed-scc-steps")):
            if a in res:
                dist["replayed=" + label] += 1
        if "replayd" in res:
            dist["replayed_directed_scc_steps_total"] += int(res.get("i_dsteps", "0") or 0)
            dist["directed_scc_pool=" + ("1" if case.get("pool") == "1" else ">1")] += 1
        if "i_rvsched" in res:
            dist["directed_scc_multithread_radial_vertex=" + res["i_rvsched"]] += 1
        if "i_pivmatch" in res:
            dist["pivots_vs_model_of_find_best_pivot=" + res["i_pivmatch"]] += 1
        if "i_logmatch" in res:
            dist["log_vs_callout=" + res["i_logmatch"]] += 1
        k = nontrivial(case)
        if k is not None:
            keys.add(k)
        if len(samples) < 3:
            samples.append({"id": cidx, "case": case["_line"][:300],
                            "model": {k2: v for k2, v in res.items() if not k2.startswith("_")}})
        of, cf = [], []
        if "error" in res:
            cf.append("driver-error(%s)" % res["error"])
        for a, v in res.items():
            if a.startswith("_") or a == "id" or v == "ok" or a == "error":
                continue
            if a in oracle_aspects and v.startswith("FAIL"):
                of.append("%s:%s" % (a, v))
            elif a in corr_aspects and v.startswith("FAIL"):
                cf.append("%s:%s" % (a, v))
        if of:
            oracle_fail.append((cidx, case, of, path))
        if cf:
            corr_fail.append((cidx, case, cf, path))
    return {"evaluations": evaluations, "distinct_nontrivial": len(keys), "distribution": dict(dist),
            "samples": samples, "oracle_fail": oracle_fail, "corr_fail": corr_fail, "refused": 0, "rule": ""}


def run(ctx):
    quick = ctx["tier"] == "quick"
    oracle = {"status", "exact", "eccf", "eccb", "diam", "dv", "radius", "rv", "sched", "symhyp", "big"}
    corr = {"replay", "replaya", "replayd", "replayrv", "schedrv", "vislegal", "pivlegal"}
    nontrivial = (lambda c: None if int(c.get("n", "0")) < 2 else
                  (c.get("g"), c.get("sym"), c.get("rad"), c.get("lvl"), c.get("tot")))
    matchers = []
    if quick:
        runs = [("quick", "150", 0), ("sawtooth", "120", 20)]
    else:
        runs = [("rest", "1500", 0), ("sawtooth", "1200", 20)] + [("exh4:%d/8" % k, "0", 1 + k) for k in range(8)]
    rs = []
    for mode, count, so in runs:
        rs.append(run_ess(ctx, ["--count", count, "--maxn", "150", "--mode", mode], oracle, corr, nontrivial, so,
                          "ess_" + mode.replace(":", "_").replace("/", "of")))
    r = codec.merge(rs)
    r["rule"] = ("all digraphs on <= 3 nodes (loops included) x every level x use_tot x {default radial set, every explicit "
                 "radial set}; digraphs on 4 nodes (all in the thorough tier) and a sample on 5; all symmetric graphs on <= 4 "
                 "nodes (5 sampled); random digraphs up to 150 nodes (sparse, DAG, many SCCs, disconnected, one big SCC, chains, "
                 "dense) and random symmetric graphs (sparse, trees, equal-sized parts, paths); pools of 1..16 threads; a schedule probe "
                 "(a 1025-node directed path whose nodes all complete in one parallel refinement step, 120/1200 runs on 4 and 16 "
                 "threads, expected values known from the construction: aspect big, unproved); "
                 "distinct = different (graph, symmetric, radial set, level, use_tot) with at least 2 nodes")
    violations, known = codec.verdict("C16", r, known_matchers=matchers)
    r.update({"violations": violations, "known": known})
    return r
