"""C04: parallel compression yields the input graph for every split and schedule."""
from props import codec
LEVEL = "proof"
ASSUMPTIONS = [
    "completion orders are imposed through the verif_hooks call-out (pool size >= number of chunks) or left to the "
    "OS scheduler (pool sizes 1..16); the theorem quantifies over every arrival permutation",
    "temp-file I/O and copy_from are exercised by the correspondence run only",
]


def run(ctx):
    quick = ctx["tier"] == "quick"
    runs = [("par", 500 if quick else 40000, 40, 20, []),
            ("par", 40 if quick else 2000, 300, 21, []),
            ("parperm", 1 if quick else 30, 12, 22, [])]
    r = codec.run_art("C04", ctx, runs)
    def search():
        # other seeds, three times as many cases
        ctx2 = dict(ctx); ctx2["seed"] = ctx["seed"] + 7919
        return codec.run_art("C04", ctx2, [(m, c * 3, n, so, ex) + tuple(rest) for (m, c, n, so, ex, *rest) in runs if m not in ("data",)])
    violations, known = codec.verdict("C04", r, search=search)
    r.update({"violations": violations, "known": known})
    return r
