"""C11: parallel map-fold terminates and equals the sequential fold for every pool size."""
from props import codec
LEVEL = "proof"
ASSUMPTIONS = [
    "the transition systems of coq/theories/PMF/{Sched,Ord}.v correspond to par_map_fold2_with / "
    "par_map_fold_ord_with: checked on every run by comparing the model's verdict (terminates / deadlocks) and "
    "value with the implementation's for every case of the matrix",
    "rayon's scheduler is abstracted to 'an idle worker of the pool may start any queued task; yield_now on a pool "
    "thread may run a queued task; a non-pool thread never runs tasks'; crossbeam bounded channels are FIFO queues "
    "with blocking send/recv and non-blocking try_send/try_recv; the OS scheduler is weakly fair",
    "a run that does not end within the watchdog (10 s, retried with 60 s except in the class repaired as defect "
    "7b, where a deadlock would be deterministic) is a deadlock",
    "one call at a time: the ordered machine has a single caller, every other worker of the global pool is "
    "available to the consumer tasks (concurrent calls that block all the workers of the global pool are outside "
    "the model and outside the matrix)",
]


def key(case):
    if int(case.get("len", "0")) < 1:
        return None
    return (case.get("prim"), case.get("len"), case.get("site"), case.get("pool"), case.get("g"))


def run(ctx):
    quick = ctx["tier"] == "quick"
    r = codec.run_simple("C11", ctx, "pmf", ["--mode", "quick" if quick else "thorough"],
                         oracle_aspects={"terminated", "value", "status"},
                         corr_aspects={"verdict", "mvalue", "mseq", "threads", "expect", "cpool", "worker", "branch",
                                       "seqorder"},
                         nontrivial=key, timeout=3000)
    r["rule"] = ("CLI commands build dcf / analyze codes / run llp with --num-threads 1,2,4 on a 3000-node graph, "
                 "granularity 100 (30 chunks); 8 entry points (par_map_fold, _with, par_map_fold2, _with, par_map_fold_ord, _with, par_node_apply, "
                 "par_apply) x lengths {0,1,2,3,2T-1,2T,2T+1,1000,(100000)} x pool sizes {1,2,3,4,8,16} x call sites "
                 "{outside any pool, inside install of a custom pool, task of a custom pool, scope task of the global "
                 "pool, detached task of the global pool} x global pool sizes {1,2,16}; each run in a child process "
                 "under a watchdog; non-trivial = at least one item; distinct = different (entry point, length, site, "
                 "pool, global pool)")
    violations, known = codec.verdict("C11", r, known_matchers=[])
    r.update({"violations": violations, "known": known})
    return r
