"""C11: parallel map-fold terminates and equals the sequential fold for every pool size."""
from props import codec
LEVEL = "proof"
ASSUMPTIONS = [
    "the transition systems of coq/theories/PMF/{Sched,Ord}.v correspond to par_map_fold2_with / "
    "par_map_fold_ord_with: checked on every run by comparing the model's verdict (terminates / deadlocks) and "
    "value with the implementation's for every case of the matrix",
    "rayon's scheduler is abstracted to 'an idle worker of the pool may start any queued task; yield_now on a pool "
    "thread may run a queued task; a non-pool thread never runs tasks'; crossbeam bounded channels are FIFO queues "
    "with blocking send/recv and non-blocking try_send/try_recv; the OS scheduler is weakly fair",
    "a run that does not end within the watchdog (10 s, retried with 60 s outside the known class) is a deadlock",
]

KNOWN_7B = ("par_map_fold_ord_with (and par_map_fold_ord) deadlocks when called from a task running in the global "
            "rayon pool and that pool has a single thread (RAYON_NUM_THREADS=1): the feeder std::thread spawns the "
            "consumers into the global pool, whose only worker is blocked in the caller's result-drain loop; every "
            "input length, 0 included (webgraph/src/traits/par_map_fold.rs, par_map_fold_ord_with)")


def known_7b(case, failing):
    """ordered variant, caller is a worker of the global pool, global pool size 1, and the
    only failure is non-termination"""
    if case.get("variant") != "ord" or case.get("site") not in ("gspawn", "gdetach") or case.get("g") != "1":
        return None
    if all(f.startswith("terminated:") for f in failing):
        return KNOWN_7B
    return None


def key(case):
    if int(case.get("len", "0")) < 1:
        return None
    return (case.get("prim"), case.get("len"), case.get("site"), case.get("pool"), case.get("g"))


def run(ctx):
    quick = ctx["tier"] == "quick"
    r = codec.run_simple("C11", ctx, "pmf", ["--mode", "quick" if quick else "thorough"],
                         oracle_aspects={"terminated", "value", "status"},
                         corr_aspects={"verdict", "mvalue", "mseq", "threads", "expect"},
                         nontrivial=key, timeout=3000)
    r["rule"] = ("CLI commands build dcf / analyze codes / run llp with --num-threads 1,2,4 on a 3000-node graph, "
                 "granularity 100 (30 chunks); 8 entry points (par_map_fold, _with, par_map_fold2, _with, par_map_fold_ord, _with, par_node_apply, "
                 "par_apply) x lengths {0,1,2,3,2T-1,2T,2T+1,1000,(100000)} x pool sizes {1,2,3,4,8,16} x call sites "
                 "{outside any pool, inside install of a custom pool, task of a custom pool, scope task of the global "
                 "pool, detached task of the global pool} x global pool sizes {1,2,16}; each run in a child process "
                 "under a watchdog; non-trivial = at least one item; distinct = different (entry point, length, site, "
                 "pool, global pool)")
    violations, known = codec.verdict("C11", r, known_matchers=[known_7b])
    r.update({"violations": violations, "known": known})
    return r
