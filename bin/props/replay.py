"""bin/check replay <path>: re-runs the implementation and the model on the case(s) recorded
in a replay file and prints both sides."""
import os, sys
import vlib


def run(path):
    if not os.path.exists(path):
        print("no such replay file: " + path); return 2
    text = open(path).read()
    print(text[:4000])
    lines = [l for l in text.split("\n") if l and not l.startswith("#")]
    if not lines:
        print("(no case line: the replay names a theorem or correspondence that no longer checks)")
        return 0
    vlib.coq_build(); vlib.ocaml_build(); vlib.cargo_build()
    chan = lines[0].split(" ")[0]
    out = os.path.join(vlib.RUNS, "replay.cases")
    os.makedirs(vlib.RUNS, exist_ok=True)
    if chan == "art":
        vlib.run_harness(["art", "--mode", "replay:" + path], out)
        src = out
        print("--- implementation re-run ---")
        for l in open(out):
            print(l.rstrip()[:600])
    else:
        # channels without a re-run mode: re-evaluate the model on the recorded case
        src = path
    res, _ = vlib.run_driver(src)
    print("--- model driver ---")
    bad = 0
    for r in res:
        print(" ".join("%s=%s" % (k, v) for k, v in r.items()))
        bad += sum(1 for v in r.values() if isinstance(v, str) and v.startswith("FAIL"))
    return 1 if bad else 0
