"""C12: the properties file faithfully records how the graph was encoded."""
from props import codec
LEVEL = "proof"
ASSUMPTIONS = [
    "the string-level Coq model of to_properties/from_properties/parse_properties corresponds to the Rust code: "
    "checked on every run by exact text equality (float-valued informational keys dropped) and by equality of the "
    "parsed-back configuration",
    "the java-properties parser is trusted for the plain key=value lines the library writes",
]


def run(ctx):
    quick = ctx["tier"] == "quick"
    r = codec.run_simple("C12", ctx, "flags", ["--count", "3000" if quick else "60000"],
                         oracle_aspects={"roundtrip", "length", "other", "java", "representable", "refusal"},
                         corr_aspects={"text", "back"})
    r["rule"] = ("random code assignments (defaults, shared-k old codes, all 15 nameable codes, non-nameable zeta8/9/12, "
                 "pi0/5/6) x endianness x window/maxref/minlen/nodes/arcs/length values incl. 0 and usize::MAX; plus all "
                 "9 x 32 Java-style version-0 texts (zetak absent,1..8 x every subset of component flags); distinct = "
                 "different case line")
    violations, known = codec.verdict("C12", r)
    r.update({"violations": violations, "known": known})
    return r
