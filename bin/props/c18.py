"""C18: PageRank converges to the solution of its documented equation."""
from props import codec
LEVEL = "other"
EXPLANATION = (
    "Proved in Coq over exact rationals (Properties/C18.v, eleven theorems, closed under the global context): the "
    "documented system x (I - alpha (P + d^T u)) = (1 - alpha) v has at most one solution for alpha < 1 (l1 "
    "contraction), the solution is non-negative, sums to one in the strongly and weakly preferential modes, the "
    "pseudorank is the strongly preferential solution times a positive scalar, a vector is a fixed point of the "
    "modelled per-node update of run_with_logging (self-loop factor, frozen dangling rank, three modes) iff it solves "
    "the system, |x - x*|_1 <= |residual(x)|_1 / (1 - alpha) for every x, the certificate checker used at run time "
    "accepts only that unique solution, and the stopping quantity alpha/(1-alpha) |x(t) - x(t-1)|_1 bounds the l1 error "
    "after every asynchronous iteration: every write order, every per-read choice between the old and the new value "
    "(equational form and the executable sweep model).  So in exact arithmetic 'norm delta <= eps' implies "
    "'error <= eps' for every schedule the model covers.  NOT proved: anything about f64 rounding (Kahan sums, "
    "division, the accumulation of norm delta), and that the real memory model delivers, for each racy read, either "
    "the old or the new value (no torn or older-than-old reads).  These gaps are covered by checking: the implementation "
    "is run to L1Norm(eps) on generated graphs/configurations/thread pools and its f64 result, read as exact dyadic "
    "rationals, is compared in Q with the certified exact solution (l1 distance <= 8 eps, non-negativity, sum, "
    "proportionality); the sweep model is tied to the code by comparing single-threaded k-iteration trajectories and "
    "norm deltas (tolerance 1e-12 / 1e-10).")
ASSUMPTIONS = [
    "the damping factor and the preference vector are given to the model as the exact rationals p/q whose nearest f64 "
    "the implementation receives (relative difference <= 2^-53, far below the tolerance 8 eps >= 8e-12)",
    "graphs have no repeated arcs (VecGraph/BvGraph successor lists are strictly increasing): hypothesis wf_graph of the theorems",
    "f64 rounding (incl. Kahan summation) and the thread schedule of the racy in-place sweep are outside the Coq model; "
    "they are exercised by the run (pools of 1..16 threads, granularities) and bounded only by the oracle's tolerance",
    "hand-written OCaml conversion of f64 bit patterns to exact rationals (ocaml/chan_prank.ml)",
]

ORACLE = {"status", "finite", "len", "l1", "nonneg", "sum", "prop", "stop"}
CORR = {"cert", "propexact", "fixpt", "sweep", "nd", "asyncbound"}


def nontrivial(case):
    if int(case.get("n", "0")) < 2 or int(case.get("arcs", "0")) < 1:
        return None
    return (case.get("gt"), case.get("an"), case.get("ad"), case.get("pref"), case.get("mode"),
            case.get("epsexp"), case.get("gran"), case.get("threads"), case.get("reuse"))


def known_cli_short_t(case, of):
    """`webgraph rank pagerank`: clap rejects the command definition (debug assertions) because -t is the short
    name of both --threshold and --num-threads"""
    if case.get("entry") == "cli" and case.get("status", "").startswith("panic:Command_pagerank:_Short_option_names_must_be_unique") \
            and all(a.startswith("status:") for a in of):
        return ("entry=cli `webgraph rank pagerank` cannot be parsed: short option -t is declared by both 'threshold' "
                "(cli/src/rank/pagerank.rs, #[arg(short, long)] threshold) and 'num_threads' (NumThreadsArg, short = 't'); "
                "clap panics in builds with debug assertions, in release builds -t is ambiguous")
    return None


def known_noise_floor(case, of):
    """the stopping criterion is unreachable: the f64 iteration ends in a limit cycle whose norm delta
    (rounding noise amplified by alpha/(1-alpha) and by the slow convergence) stays above eps"""
    if case.get("status") == "cap" and all(a.startswith("status:") for a in of) \
            and int(case.get("an", "0")) * 100 >= 99 * int(case.get("ad", "1")) and int(case.get("epsexp", "0")) >= 12:
        return ("PageRank::run(L1Norm(1e-12)) with alpha=0.99 never terminates on some graphs: f64 limit cycle with norm "
                "delta above the threshold (witness: arc 1->0, weakly preferential, uniform preference: period-2 cycle "
                "after 2129 iterations, norm delta 1.4013790128331026e-12; the rank vector itself is within 1e-14 of the "
                "exact solution); the CLI has no default --max-iter, so `webgraph rank pagerank -a 0.99 --threshold 1e-12` hangs")
    return None


def run(ctx):
    quick = ctx["tier"] == "quick"
    runs = [("small", ["--count", "1500" if quick else "15000", "--maxn", "10"], 180),
            ("mid", ["--count", "300" if quick else "3000", "--maxn", "24"], 181),
            ("large", ["--count", "60" if quick else "600", "--maxn", "60"], 182)]
    rs = []
    for name, args, so in runs:
        r = codec.run_simple("C18", ctx, "prank", args, ORACLE, CORR, nontrivial=nontrivial, seed_offset=so,
                             name="prank_" + name, timeout=3000)
        rs.append(r)
    r = codec.merge(rs)
    r["rule"] = ("graphs of 12 shapes (sparse with dangling nodes and loops, clique, cycle, star, in-star with dangling or "
                 "looping hub, no arcs, only loops, path into a dangling/looping node, clique+cycle+bridge, dense, "
                 "structured, two components) with 0..60 nodes x alpha in {0,1/100,1/4,1/2,85/100,9/10,99/100} x preference "
                 "(built-in uniform, skewed with zeros, point mass, positive, alternating) x 3 modes x eps in 1e-6..1e-12 x "
                 "granularity (nodes 1,2,3,7,10000; arcs 1,5,1000) x pools of 1,2,3,4,8,16 threads x reuse of the structure; entry points: "
                 "PageRank::run on a VecGraph (all cases), webgraph_cli::rank::pagerank::main on a BvGraph written to disk with ASCII "
                 "preference/rank files (1 in 10), webgraph_cli::rank::cli_main through the argument parser (1 in 200); "
                 "one PRNG; non-trivial = at least 2 nodes and 1 arc; distinct = different (graph, configuration)")
    violations, known = codec.verdict("C18", r, known_matchers=[known_noise_floor])
    r.update({"violations": violations, "known": known})
    return r
