"""C08: external sorting returns exactly the input pairs, sorted and partitioned."""
from props import codec
LEVEL = "proof"
ASSUMPTIONS = [
    "the Coq model (Sort/Pipeline.v: partition ids and boundaries, per-partition buffers flushed when full, "
    "batch = sort + GapsCodec/GroupedGapsCodec encode/decode with optional in-batch deduplication, k-way merge "
    "with last_pair deduplication) corresponds to the Rust code: checked on every run by exact equality of the "
    "model's partitions and boundaries with the implementation's, of the model's batch files with the files the "
    "sequential entry points leave in their temporary directory, and of the model's encoder output with the values "
    "read back from the files written by encode_batch",
    "rdst radix_sort_unstable returns a key-sorted permutation of the batch (hypothesis sort_ok of the theorems; "
    "checked on every codec case), dary_heap surfaces one of the iterators with a minimal head (tie-break argument)",
    "dsi-bitstream gamma/delta/fixed-width codes, buffered file writers and mmap readers transport the written "
    "values unchanged (covered by the end-to-end comparison, not by the proofs)",
    "rayon: every item of the parallel iterator / every block is handed to exactly one producer (the split among "
    "producers is universally quantified in the theorems)",
]

ORACLE = {"status", "bounds", "nparts", "parts", "labels", "sortperm", "dec", "tt", "kmspec", "kmlabels"}
CORR = {"merr", "model", "bfiles", "bunion", "batches", "toks", "mdec", "kmmodel"}


def nontrivial(case):
    ch = case["_chan"]
    if ch == "sort":
        # at least two pairs
        if case.get("blocks", "").count(",") < 5:
            return None
        return ("sort", case.get("entry"), case.get("codec"), case.get("cd"), case.get("md"), case.get("n"),
                case.get("p"), case.get("threads"), case.get("mu"), case.get("maxlen"), case.get("ierr"),
                case.get("blocks"))
    if ch == "sortcodec":
        if case.get("raw", "").count(",") < 5:
            return None
        return ("codec", case.get("codec"), case.get("cd"), case.get("raw"))
    if case.get("lists", "").count(",") < 5:
        return None
    return ("km", case.get("md"), case.get("lists"))


def run(ctx):
    quick = ctx["tier"] == "quick"
    r = codec.run_simple("C08", ctx, "sort", ["--count", "2000" if quick else "60000", "--maxn", "40"],
                         oracle_aspects=ORACLE, corr_aspects=CORR, nontrivial=nontrivial, timeout=3400)
    want = 2000 if quick else 60000
    if r["evaluations"] != want:
        import vlib
        raise vlib.CheckError("sort harness produced %d of %d cases (watchdog stopped early?)" % (r["evaluations"], want))
    r["rule"] = ("8 of 10 cases: one call of an entry point among ParSortPairs::{sort,try_sort,sort_labeled,"
                 "try_sort_labeled}, ParSortIters::{sort,sort_labeled,sort_seq,try_sort_seq,sort_labeled_seq,"
                 "try_sort_labeled_seq}, ParSortedGraph::config().{sort_pairs,par_sort_pairs,par_sort_pair_iters,"
                 "sort_graph,par_sort_graph} x codec (default, GapsCodec, GroupedGapsCodec with 32-bit labels) x "
                 "dedup on/off (codec and merge) x nodes 0..40 x partitions 1..32 (also > nodes) x pools 1..16 x "
                 "per-buffer batch size 1,2,3,4..40,100000,default x with_max_len 0/1/3 on the parallel iterator x "
                 "inputs (uniform, one hot source, one partition only, low/high sources, sorted, reverse sorted, "
                 "duplicates with distinct labels, empty) of 0..400 pairs split into 0..9 blocks; 1 in 7 with an "
                 "out-of-range source at the first/middle/last position, 1 in 8 of the try_ calls with a failing "
                 "input item; 1 of 10: encode_batch/decode_batch of a codec on a random batch (values up to 2^40); "
                 "1 of 10: KMergeIters over 0..12 in-memory sorted lists; every case in a child process with a "
                 "watchdog; non-trivial = at least two pairs; distinct = different case line")
    violations, known = codec.verdict("C08", r)
    r.update({"violations": violations, "known": known})
    return r
