"""C06: reference chains never exceed the configured maximum depth or window."""
from props import codec
LEVEL = "proof"
ASSUMPTIONS = [
    "Zuckerli costs are exact integers in the model; the implementation's f32 sums are exact below 2^24 "
    "(graphs of the correspondence run stay far below)",
]


def run(ctx):
    quick = ctx["tier"] == "quick"
    runs = [("seq", 300 if quick else 20000, 40, 40, []),
            ("par", 200 if quick else 20000, 40, 41, []),
            ("chain", 200 if quick else 4000, 60, 42, []),
            ("zchain", 3000 if quick else 200000, 12, 43, [])]
    r = codec.run_art("C06", ctx, runs)
    def search():
        # other seeds, three times as many cases
        ctx2 = dict(ctx); ctx2["seed"] = ctx["seed"] + 7919
        return codec.run_art("C06", ctx2, [(m, c * 3, n, so, ex) + tuple(rest) for (m, c, n, so, ex, *rest) in runs if m not in ("data",)])
    violations, known = codec.verdict("C06", r, search=search)
    r.update({"violations": violations, "known": known})
    return r
