"""C01: sequential BV compression round-trips every graph under every valid configuration."""
from props import codec
LEVEL = "proof"
ASSUMPTIONS = [
    "the Coq model of Compressor/decoder corresponds to the Rust code: checked on every run by re-encoding "
    "each artefact with the model (bit-exact) and decoding it with the proved decoder",
    "dsi-bitstream table-driven fast paths, file I/O and the properties parser are exercised by the "
    "correspondence run only",
]


def run(ctx):
    quick = ctx["tier"] == "quick"
    runs = [("seq", 400 if quick else 30000, 40, 0, []),
            ("seq", 60 if quick else 3000, 300, 1, [])]
    r = codec.run_art("C01", ctx, runs)
    # the 15 codes through dsi-bitstream's dynamic dispatch (table fast paths included):
    # written bits, reported lengths, length function and read-back against the proved codes
    rc = codec.run_simple("C01", ctx, "codes", ["--count", "1024" if quick else "20000"],
                          oracle_aspects={"back", "dec", "pad"}, corr_aspects={"bits", "len", "written"},
                          name="codes")
    r = codec.merge([r, rc])
    def search():
        # other seeds, three times as many cases
        ctx2 = dict(ctx); ctx2["seed"] = ctx["seed"] + 7919
        return codec.run_art("C01", ctx2, [(m, c * 3, n, so, ex) + tuple(rest) for (m, c, n, so, ex, *rest) in runs if m not in ("data",)])
    violations, known = codec.verdict("C01", r, search=search)
    r.update({"violations": violations, "known": known})
    return r
