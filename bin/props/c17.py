"""C17: layered label propagation always yields a valid, refinement-consistent ordering."""
from props import codec
LEVEL = "proof"
ASSUMPTIONS = [
    "the label-propagation loop itself (gamma, volumes, tie-breaks, stopping predicate, thread interleaving) is only "
    "constrained through the update rule proved in Coq (a node takes its own or a neighbour's possibly stale label); "
    "the stored labelings of real runs are checked against that invariant, not predicted",
    "the parallel sorts of combine/labels_to_ranks compare by a total order without ties, so the model's merge sort "
    "computes the only possible result; checked by exact equality on every case, pools of 1..16 threads",
    "reads of Cell<usize> labels racing with writes return a value that was stored at some time (word-sized accesses)",
]


def known_empty_graph(case, failing):
    """layered_label_propagation* on the graph without nodes: num_arcs / num_nodes panics"""
    if case.get("_chan") == "llprun" and case.get("n") == "0" and any("divide_by_zero" in f for f in failing):
        return ("layered_label_propagation_labels_only panics (attempt to divide by zero, algo/src/llp/mod.rs: "
                "hash_map_init = num_arcs / num_nodes) on the empty graph instead of storing empty labelings or "
                "returning an error")
    return None


def run(ctx):
    quick = ctx["tier"] == "quick"
    oracle = {"accepts", "length", "dense", "refine", "again", "status", "perm", "mono", "inverse", "nodes", "full", "iso", "big"}
    corr = {"refuses", "combined", "ranks", "inv", "pg", "bigagree"}
    rs = []
    rs.append(codec.run_simple("C17", ctx, "llp", ["--mode", "comb", "--count", "1500" if quick else "30000", "--maxn", "40"],
                               oracle, corr, name="llpcomb", seed_offset=170))
    rs.append(codec.run_simple("C17", ctx, "llp", ["--mode", "ranks", "--count", "1000" if quick else "20000", "--maxn", "40"],
                               oracle, corr, name="llpranks", seed_offset=171))
    rs.append(codec.run_simple("C17", ctx, "llp", ["--mode", "run", "--count", "400" if quick else "8000", "--maxn", "40"],
                               oracle, corr, name="llprun", seed_offset=172))
    r = codec.merge(rs)
    r["rule"] = ("llpcomb: families of 1..9 labelings (all distinct, single class, few classes, sparse labels, blocks, "
                 "permutations, random; repeated labelings) of 1..160 nodes (a few of 2000..4000) with tied/negative/"
                 "fractional costs, written to a work directory and combined in pools of 1..16 threads, plus a malformed "
                 "stream (empty directory, zero nodes, length mismatch, label out of range, missing cost, foreign files); "
                 "llpranks/llpinv: label vectors (not necessarily node ids) and permutations of 0..160 (a few of 2000..5000) "
                 "elements, plus invert_permutation / labels_to_ranks on 99 999 .. 250 003 elements (around the minimum task length "
                 "of the parallel loops): inputs and outputs are judged in the driver by the extracted n log n checkers "
                 "big_check_inverse / big_check_ranks, proved to decide what check_perm, check_inverse and check_monotone "
                 "decide (C17_big_inverse_spec, C17_big_ranks_spec; aspect big), and cross-checked against the verdict of "
                 "linear scans in the harness (aspect bigagree); llprun: real LLP runs on symmetric loopless graphs (path, cycle, clique, star, disjoint/chained "
                 "cliques, empty, grid, sparse, dense, two parts) of 1..240 nodes x 1..5 gammas x seeds x node/arc "
                 "granularities x 5 stopping predicates x identity/murmur update order x both entry points x pools 1..16, "
                 "in a watched child process; distinct = different case line")
    violations, known = codec.verdict("C17", r)  # the empty-graph panic has been repaired in /repo
    r.update({"violations": violations, "known": known})
    return r
