"""C05: offsets, Elias-Fano and degree-cumulative indexes always match the bitstream."""
from props import codec
LEVEL = "proof"
ASSUMPTIONS = [
    "Elias-Fano (sux) is a trusted container: its entries are read back through the library and compared",
]


def run(ctx):
    quick = ctx["tier"] == "quick"
    runs = [("seq", 250 if quick else 4000, 40, 30, []),
            ("par", 250 if quick else 4000, 40, 31, []),
            ("all", 25 if quick else 600, 24, 32, [], "cli")]
    r = codec.run_art("C05", ctx, runs)
    violations, known = codec.verdict("C05", r)
    r.update({"violations": violations, "known": known})
    return r
