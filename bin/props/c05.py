"""C05: offsets, Elias-Fano and degree-cumulative indexes always match the bitstream."""
from props import codec
LEVEL = "proof"
ASSUMPTIONS = [
    "Elias-Fano (sux) is a trusted container: its entries are read back through the library and compared",
]


def run(ctx):
    quick = ctx["tier"] == "quick"
    runs = [("seq", 250 if quick else 20000, 40, 30, []),
            ("par", 250 if quick else 20000, 40, 31, []),
            ("all", 25 if quick else 1500, 24, 32, [], "cli")]
    r = codec.run_art("C05", ctx, runs)
    def search():
        # other seeds, three times as many cases
        ctx2 = dict(ctx); ctx2["seed"] = ctx["seed"] + 7919
        return codec.run_art("C05", ctx2, [(m, c * 3, n, so, ex) + tuple(rest) for (m, c, n, so, ex, *rest) in runs if m not in ("data",)])
    violations, known = codec.verdict("C05", r, search=search)
    r.update({"violations": violations, "known": known})
    return r
