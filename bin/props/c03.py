"""C03: all access paths to a compressed graph return the same successors."""
from props import codec
LEVEL = "proof"
ASSUMPTIONS = [
    "the Coq model of the access paths (BV/Access.v: recursive random access through the offsets, outdegree, "
    "pre-filled sequential iteration, degrees-and-offsets scan, ring buffers) corresponds to the Rust code: checked "
    "on every run by running the extracted model on the bytes of each artefact and comparing every path with what "
    "the implementation returned",
    "load modes (Mmap, LoadMem, LoadMmap, File) and dispatch (Dynamic, Static) differ only in the reader back-end; "
    "the model has one reader (a bit list with an offsets table), the product of back-ends is covered by the "
    "correspondence run only; Elias-Fano (sux) is a trusted container whose entries are read back and compared "
    "with the record positions of the proved decoder",
    "the index-level state machines of MaskedIter and Succ (BV/MaskedIter.v) correspond to masked_iter.rs and to "
    "Succ::next of random_access.rs: MaskedIter is public and is compared directly (items, len(), kind of panic) on "
    "canonical, decoder-shaped and malformed block lists; Succ is private and is compared end to end (m_sm) on every "
    "node of reference depth <= 10 of every artefact",
]

PATHS = ["ra", "ralen", "outdeg", "iter", "iter_from", "next_from", "seq_iter", "seq_iter_from", "seq_next",
         "offdeg", "offdeg_from", "check_impl"]
# the property evaluated on what the implementation returned: every path under every variant equals the
# input lists; scan degrees = list lengths; scan offsets = Elias-Fano entries = record positions
ORACLE = {"i_load"} | {"i_" + p for p in PATHS} | {"degs", "offs", "ef", "depth", "mi_spec"}
# model against implementation
CORR = {"rt", "m_ra", "m_merge", "m_outdeg", "m_iter_from", "m_iter_ring", "m_seq_from", "m_next", "m_offdeg", "m_offdeg_from", "m_offdeg_ring", "m_offdeg_from_ring",
        "m_fuel", "m_sm", "m_mi"}


def nontrivial(case):
    if case.get("kind") == "mi":
        return ("mi", case.get("l"), case.get("bs")) if case.get("l") and case.get("bs") else None
    if case.get("skipped") == "1" or int(case.get("n", "0")) < 2 or int(case.get("arcs", "0")) < 1:
        return None
    return (case.get("g"), case.get("comp"), case.get("chunk"), case.get("w"), case.get("mr"), case.get("L"),
            case.get("codes"), case.get("le"))


def run(ctx):
    quick = ctx["tier"] == "quick"
    runs = [
        ("seq", 40, 300 if quick else 6000, 0),      # all start positions 0..n
        ("chain", 40, 120 if quick else 2500, 1),    # long reference chains, small windows
        ("seq", 120, 12 if quick else 300, 2),       # larger graphs, sampled start positions
        ("mi", 14, 4000 if quick else 200000, 3),    # the public MaskedIter alone against its state machine
    ]
    rs = []
    for (mode, maxn, count, so) in runs:
        r = codec.run_simple("C03", ctx, "acc", ["--count", str(count), "--maxn", str(maxn), "--mode", mode],
                             oracle_aspects=ORACLE, corr_aspects=CORR, nontrivial=nontrivial, seed_offset=so,
                             name="acc_%s_%d" % (mode, maxn))
        r["distribution"] = {("mode=%s/maxn=%d" % (mode, maxn)): r["evaluations"]}
        rs.append(r)
    r = codec.merge(rs)
    r["rule"] = ("structured random graphs (copy-heavy, run-heavy, sparse with empty nodes, hubs, neighbourhoods; "
                 "chain mode: near-duplicates of the previous list) x random configurations (window 0..64, max ref "
                 "0..inf, min interval 0..7, all 15 codes per component, BE/LE, both compressors), compressed by "
                 "comp_graph, offsets built by store_ef_with_data; every case read through 12 paths x 16 load-mode "
                 "pairs x dynamic (+ static for default codes) dispatch, all start nodes 0..n for n <= 40, sampled "
                 "otherwise; non-trivial = at least 2 nodes and 1 arc; distinct = different (graph, configuration); "
                 "mode mi: MaskedIter::new + next until None over a Vec iterator on (list of 0..14 items, block list) pairs, "
                 "40% canonical (what the compressor emits), 40% decoder-shaped (first block >= 0, later >= 1, sum within "
                 "the list, any parity), 20% malformed; the extracted state machine must yield the same items and len(), "
                 "or fail with the same kind of panic (index / subtraction overflow / debug assertion)")
    violations, known = codec.verdict("C03", r)
    r.update({"violations": violations, "known": known})
    return r
