"""C20: CLI pipelines preserve the graph they convert."""
from props import codec
LEVEL = "proof"
ASSUMPTIONS = [
    "argument parsing, file naming and process exit codes are glue exercised by the correspondence run only",
    "the expected graph of transpose/symmetrize/perm/map steps is computed by simple reference code in the harness "
    "(sorted, deduplicated arc lists); the file sets are decoded by the proved decoder",
]


def run(ctx):
    quick = ctx["tier"] == "quick"
    runs = [("all", 60 if quick else 1500, 24, 50, [], "cli"),
            ("all", 6 if quick else 100, 200, 51, [], "cli")]
    r = codec.run_art("C20", ctx, runs)
    r["rule"] = ("random graphs piped through `from arcs` (shuffled arcs with duplicates) -> to arcs -> build ef/dcf/offsets "
                 "-> check ef -> to bvgraph (sequential / --dcf / --permutation / parallel) -> to endianness -> one of "
                 "transpose / symmetrize / symmetrize --no-loops / perm / map, each with random compression options and "
                 "thread counts 1,2,16, every command in its own process; one case per produced file set or auxiliary step")
    def search():
        # other seeds, three times as many cases
        ctx2 = dict(ctx); ctx2["seed"] = ctx["seed"] + 7919
        return codec.run_art("C20", ctx2, [(m, c * 3, n, so, ex) + tuple(rest) for (m, c, n, so, ex, *rest) in runs if m not in ("data",)])
    violations, known = codec.verdict("C20", r, search=search)
    r.update({"violations": violations, "known": known})
    return r
