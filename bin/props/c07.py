"""C07: labelled compression keeps every label attached to its arc."""
from props import codec
LEVEL = "proof"
ASSUMPTIONS = [
    "the Coq model of BitStreamStoreLabels / concat_part / BitStreamLabelingSeq / BitStreamLabeling / Zip corresponds "
    "to the Rust code: checked on every run by bit-for-bit equality of the label and label-offsets files with the "
    "model's streams (sequential and parallel entry points, cut sequences with empty chunks, imposed completion "
    "orders) and by running the proved readers on the implementation's files",
    "label serializers: FixedWidth<u64> with 1..64 bits (write_bits/read_bits) and a gamma-coded custom serializer, "
    "modelled with the proved codes of Codes/; zstd is an identity on the bytes of a part file; Elias-Fano is the "
    "identity on the cumulated offsets; temp-file I/O and copy_from are exercised by the correspondence run only",
    "completion orders are imposed through the verif_hooks call-out (pool size >= number of chunks) or left to the "
    "OS scheduler (pool sizes 1..16); the theorems quantify over every arrival permutation",
]

ORACLE = {"status", "offs", "lopad", "lprops", "counts", "mseq", "mra", "mzip", "mzipra", "rstatus", "zseq", "zra",
          "zras", "lseq", "lra", "lfrom", "ldeg", "verify", "leftovers", "grt", "input"}
CORR = {"gbits", "llen", "lbits", "lpad", "lobits"}


def seq_zstd(case, failing):
    """Sequential labelled compression with a zstd label-store configuration writes a zstd-compressed stream
    as the FINAL .labels file (StoreLabelsConf::new_storage is used directly for the final path)."""
    if case.get("path", "").startswith("comp_labeled") and case.get("zstd") == "1":
        return ("comp_labeled_graph/comp_labeled_lender with BitStreamStoreLabelsConf::zstd(): the final "
                ".labels file is a zstd frame, so BitStreamLabelingSeq/BitStreamLabeling read wrong labels or panic "
                "(only par_comp_labeled decompresses parts while concatenating)")
    return None


def nontrivial(case):
    if int(case.get("n", "0")) < 2 or int(case.get("arcs", "0")) < 1:
        return None
    return (case.get("lg"), case.get("comp"), case.get("chunk"), case.get("w"), case.get("mr"), case.get("L"),
            case.get("codes"), case.get("le"), case.get("ser"), case.get("zstd"), case.get("cuts"), case.get("path"),
            case.get("order"), case.get("threads"))


def run(ctx):
    quick = ctx["tier"] == "quick"
    runs = [("seq", 400 if quick else 4000, 30, 70),
            ("par", 700 if quick else 8000, 30, 71),
            ("par", 30 if quick else 250, 64 if quick else 120, 72),
            ("parperm", 8 if quick else 100, 14, 73),
            ("big", 6 if quick else 50, 260, 74)]
    rs = []
    for (mode, count, maxn, so) in runs:
        r = codec.run_simple("C07", ctx, "lab", ["--count", str(count), "--maxn", str(maxn), "--mode", mode],
                             oracle_aspects=ORACLE, corr_aspects=CORR, nontrivial=nontrivial, seed_offset=so,
                             name="lab_%s_%d" % (mode, maxn))
        for k in list(r["distribution"].keys()):
            r["distribution"]["%s[%s]" % (k, mode)] = r["distribution"].pop(k)
        rs.append(r)
    r = codec.merge(rs)
    r["rule"] = ("structured random graphs (util::gen_graph) with random labels: FixedWidth<u64> of 1,3,7,8,13,32,64 bits "
                 "(and random widths 1..64) incl. 0 / all-ones / sign-bit patterns, or gamma-coded values of 0..40 bits; x "
                 "random BV configurations (both compressors, chunk sizes, windows, codes, BE/LE) x {comp_labeled_graph, "
                 "comp_labeled_lender, par_comp_labeled on ParGraph::with_cutpoints (random cuts incl. empty chunks), "
                 "ParGraph::new, &LabeledVecGraph} x pools 1..16 x imposed/OS completion orders (all orders of <= 4 chunks in "
                 "mode parperm) x {plain, zstd} parts; non-trivial = at least 2 nodes and 1 arc; distinct = different "
                 "(labelled graph, configuration, serializer, entry point, cuts, order)")
    # cases of the known-finding class cannot correspond to the model either (the file is a zstd frame)
    r["corr_fail"] = [c for c in r["corr_fail"] if not seq_zstd(c[1], c[2])]
    violations, known = codec.verdict("C07", r, known_matchers=[])
    r.update({"violations": violations, "known": known})
    return r
