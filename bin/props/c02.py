"""C02: emitted bitstreams conform to the documented BV format (independent decoder)."""
from props import codec
LEVEL = "proof"
ASSUMPTIONS = [
    "the independent decoder is the Coq function parse_record/record_succ (extracted), proved inverse to the encoder "
    "model; it is run on the real bytes of every artefact and of the bundled Java-written data sets",
    "for the data sets the windowed bit reader of the OCaml glue feeds the proved code decoders",
]


def run(ctx):
    quick = ctx["tier"] == "quick"
    runs = [("seq", 250 if quick else 20000, 40, 10, []),
            ("par", 250 if quick else 20000, 40, 11, []),
            ("data", 1, 20000 if quick else 0, 0, [])]
    r = codec.run_art("C02", ctx, runs)
    def search():
        # other seeds, three times as many cases
        ctx2 = dict(ctx); ctx2["seed"] = ctx["seed"] + 7919
        return codec.run_art("C02", ctx2, [(m, c * 3, n, so, ex) + tuple(rest) for (m, c, n, so, ex, *rest) in runs if m not in ("data",)])
    violations, known = codec.verdict("C02", r, search=search)
    r.update({"violations": violations, "known": known})
    return r
