"""Evaluation of compressed-graph artefacts ("art" channel) for the codec properties
C01, C02, C04, C05, C06.  The harness produced each artefact through a public entry point
of the library; the model driver (extracted Coq) decoded it with the proved decoder,
re-encoded the input with the proved encoder using the implementation's own reference
choices, recomputed offsets, depths, selections.  Here the per-case results are turned into
a verdict for one property."""
import os, collections
import vlib

# which driver aspects are the *property itself evaluated on the implementation's output*
# (oracle) and which are *model/implementation correspondence* for each property
ORACLE = {
    "C01": ["refusal", "rt", "trail", "reload", "counts", "propsback", "load"],
    "C02": ["rt", "trail", "wf", "reload"],
    "C04": ["refusal", "status", "rt", "trail", "reload", "counts", "offsets", "offpad", "propsback", "load", "loadra"],
    "C05": ["offsets", "offpad", "pos", "trail", "propsback", "ef", "ef2", "dcf", "exits", "loadra"],
    "C06": ["depth", "chunkrefs", "wf"],
    "C20": ["refusal", "status", "rt", "trail", "reload", "counts", "offsets", "offpad", "propsback", "load", "loadra", "wf",
            "ef", "ef2", "dcf", "exits", "xspec"],
}
CORR = {
    "C20": ["reenc", "props"],
    "C01": ["reenc", "props"],
    "C02": ["reenc"],
    "C04": ["reenc", "props"],
    "C05": ["reenc"],
    # selrun: the greedy compressor's choices are a run of the greedy rule under SOME tie-break
    # (proved checker greedy_run_ok); selmatch: exact equality with the model, emitted for the
    # Zuckerli-style compressor only (for greedy cases the exact comparison is the
    # informational key i_selmatch=same|differs, which no verdict looks at)
    "C06": ["selrun", "selmatch"],
}


def inner_empty(cuts, n):
    """an empty segment that is followed by a non-empty one"""
    segs = [(a, b) for a, b in zip(cuts, cuts[1:])]
    for i, (a, b) in enumerate(segs):
        if a == b and any(c < d for c, d in segs[i + 1:]):
            return True
    return False


def evaluate(cid, case, impl, res):
    """Returns (oracle_failures, corr_failures, refused) for one case."""
    of, cf = [], []
    status = case.get("status", "ok")
    refused = False
    if status != "ok":
        # an error return: acceptable only as a refusal of an unrepresentable configuration
        # (the model decides which those are), which must not leave a loadable file set behind
        refused = True
        if "refusal" in ORACLE[cid]:
            if case.get("props", "") != "":
                of.append("status(%s but properties written)" % status[:40])
            if status.startswith("panic"):
                of.append("status(%s)" % status[:80])
            if res.get("refusal") != "ok":
                of.append("refusal(%s on a representable configuration)" % status[:80])
        return of, cf, refused
    if "error" in res:
        cf.append("driver-error(%s)" % res["error"])
        return of, cf, refused
    derived = dict(res)
    derived["reload"] = "ok" if impl.get("reload", "ok") == "ok" else "FAIL(%s)" % impl.get("reload")[:60]
    counts_ok = (case.get("pnodes") == case.get("n") and case.get("parcs") == case.get("arcs"))
    derived["counts"] = "ok" if counts_ok else "FAIL(nodes=%s/%s arcs=%s/%s)" % (
        case.get("pnodes"), case.get("n"), case.get("parcs"), case.get("arcs"))
    derived["status"] = "ok"
    for a in ORACLE[cid]:
        v = derived.get(a)
        if v is None:
            # aspect not computed because an earlier one failed (e.g. no re-encoding when the
            # round trip failed): the earlier failure is already recorded
            continue
        if v != "ok":
            of.append("%s:%s" % (a, v))
    for a in CORR[cid]:
        v = derived.get(a)
        if v is not None and v != "ok":
            cf.append("%s:%s" % (a, v))
    return of, cf, refused


def nontrivial_key(case):
    """distinct & non-trivial: at least 2 nodes and one arc; key = (graph, configuration)"""
    if int(case.get("n", "0")) < 2 or int(case.get("arcs", "0")) < 1:
        return None
    return (case.get("g"), case.get("comp"), case.get("chunk"), case.get("w"), case.get("mr"),
            case.get("L"), case.get("codes"), case.get("le"), case.get("cuts"), case.get("path"))


def run_art(cid, ctx, runs):
    """runs: list of (mode, count, maxn, seed_offset, extra harness args[, channel])."""
    tier, seed = ctx["tier"], ctx["seed"]
    os.makedirs(vlib.RUNS, exist_ok=True)
    evaluations, keys = 0, set()
    dist = collections.Counter()
    samples = []
    oracle_fail, corr_fail = [], []
    refused = 0
    for ri, run in enumerate(runs):
        (mode, count, maxn, so, extra) = run[:5]
        chan = run[5] if len(run) > 5 else "art"
        path = os.path.join(vlib.RUNS, "%s_%s_%s%d_%s.cases" % (cid, chan, mode, ri, tier))
        vlib.run_harness([chan, "--seed", str(seed + so), "--count", str(count), "--maxn", str(maxn),
                          "--mode", mode] + extra, path)
        order, cases, impl = vlib.read_cases(path)
        results, _ = vlib.run_driver(path)
        rmap = {r.get("id"): r for r in results}
        for cidx in order:
            case = cases[cidx]
            res = rmap.get(cidx, {"error": "no-driver-output"})
            evaluations += 1
            if case["_chan"] != "art":
                # auxiliary steps (exit statuses, listings): every aspect is an oracle aspect
                dist["step=" + cidx.split("-")[-1]] += 1
                keys.add(case["_line"].split(" ", 2)[-1])
                of = ["%s:%s" % (a, v) for a, v in res.items()
                      if not a.startswith("_") and a != "id" and v != "ok"]
                if of:
                    oracle_fail.append((cidx, case, of, path))
                continue
            k = nontrivial_key(case)
            if k is not None:
                keys.add(k)
            dist["mode=" + mode] += 1
            dist["path=" + case.get("path", "?").split("_order_")[0]] += 1
            dist["comp=" + case.get("comp", "?")] += 1
            dist["w=" + case.get("w", "?")] += 1
            dist["mr=" + case.get("mr", "?")] += 1
            dist["L=" + case.get("L", "?")] += 1
            dist["le=" + case.get("le", "?")] += 1
            dist["n<=8" if int(case.get("n", "0")) <= 8 else "n<=40" if int(case.get("n", "0")) <= 40 else "n>40"] += 1
            nrefs = int(res.get("nrefs", "0") or 0)
            dist["refs=0" if nrefs == 0 else "refs>0"] += 1
            if "i_selmatch" in res:
                dist["i_selmatch=" + res["i_selmatch"]] += 1
            of, cf, rf = evaluate(cid, case, impl.get(cidx, {}), res)
            if rf:
                refused += 1
                dist["refused"] += 1
                if case.get("status", "").startswith("panic"):
                    dist["panicked"] += 1
            if len(samples) < 3 and not rf:
                samples.append({"id": cidx, "case": case["_line"][:300], "model": {k2: v for k2, v in res.items() if not k2.startswith("_")}})
            if of:
                oracle_fail.append((cidx, case, of, path))
            if cf:
                corr_fail.append((cidx, case, cf, path))
    if dist.get("panicked", 0) * 20 > max(evaluations, 1):
        # more than 5% of the cases panicked inside the harness: the generator feeds
        # the implementation invalid inputs and the run would be vacuous
        raise vlib.CheckError("%d of %d generated cases panicked in the harness (invalid generated inputs?)"
                              % (dist["panicked"], evaluations))
    return {
        "evaluations": evaluations, "distinct_nontrivial": len(keys), "distribution": dict(dist),
        "samples": samples, "oracle_fail": oracle_fail, "corr_fail": corr_fail, "refused": refused,
        "rule": "structured random graphs (copy-heavy, run-heavy, sparse, hubs, neighbourhoods) x random "
                "configurations, one PRNG seeded by VERIF_SEED; non-trivial = at least 2 nodes and 1 arc; "
                "distinct = different (graph, configuration, entry point, cut sequence)",
    }


def _parse_lists(s):
    if s == "":
        return []
    if s == "-":
        return [[]]
    return [[int(t) for t in part.split(",")] if part else [] for part in s.split(";")]


def _fmt_lists(g):
    if len(g) == 1 and not g[0]:
        return "-"
    return ";".join(",".join(str(x) for x in l) for l in g)


def shrink_art(cid, case, budget=40):
    """Greedy shrinking of a failing "art" case: drop trailing nodes, then single arcs,
    re-running implementation (harness replay mode) and model on every candidate."""
    if case.get("_chan") != "art" or case.get("path", "").startswith("cli_") or case.get("path") == "dataset":
        return None
    g = _parse_lists(case.get("g", ""))
    cuts = [int(x) for x in case.get("cuts", "0").split(",") if x != ""]
    tmp = os.path.join(vlib.RUNS, "shrink_%s.cases" % cid)
    out = os.path.join(vlib.RUNS, "shrink_%s.out" % cid)

    def attempt(g2, cuts2):
        toks = []
        for t in case["_line"].split(" "):
            if t.startswith("g="):
                t = "g=" + _fmt_lists(g2)
            elif t.startswith("n="):
                t = "n=%d" % len(g2)
            elif t.startswith("cuts="):
                t = "cuts=" + ",".join(str(c) for c in cuts2)
            elif t.startswith(("graph=", "offsets=", "props=")):
                t = t.split("=")[0] + "="
            toks.append(t)
        open(tmp, "w").write(" ".join(toks) + "\n")
        try:
            vlib.run_harness(["art", "--mode", "replay:" + tmp], out, timeout=120)
            order, cases, impl = vlib.read_cases(out)
            results, _ = vlib.run_driver(out, timeout=120)
        except Exception:
            return None
        if not order:
            return None
        c2 = cases[order[0]]
        res = results[0] if results else {"error": "none"}
        of, cf, rf = evaluate(cid, c2, impl.get(order[0], {}), res)
        return (c2, of) if of else None

    best = None
    used = 0
    # 1. fewer nodes (arcs to removed nodes are dropped)
    k = len(g)
    while k > 1 and used < budget:
        k2 = k // 2 if k > 4 else k - 1
        g2 = [[y for y in l if y < k2] for l in g[:k2]]
        cuts2 = sorted(set(min(c, k2) for c in cuts)) if len(cuts) > 2 else [0, k2]
        if len(cuts2) < 2:
            cuts2 = [0, k2]
        used += 1
        r = attempt(g2, cuts2)
        if r:
            g, cuts, best, k = g2, cuts2, r, k2
        elif k2 == k - 1:
            break
        else:
            k = k2 + (k - k2) // 2 if (k - k2) > 1 else k2  # try a smaller cut next
            if k == k2:
                break
    # 2. fewer arcs
    for x in range(len(g)):
        for y in list(g[x]):
            if used >= budget:
                break
            g2 = [list(l) for l in g]
            g2[x].remove(y)
            used += 1
            r = attempt(g2, cuts)
            if r:
                g, best = g2, r
    return best


def verdict(cid, r, known_matchers=(), search=None):
    """Turns failures into violations / known findings.  A correspondence failure without
    an oracle failure anywhere in the run triggers `search` (more generated cases, other
    seeds, evaluated by the property oracle); if that finds no failing input either, the
    violation is reported as no-failing-input-found."""
    violations, known = [], []
    if r["corr_fail"] and not r["oracle_fail"] and search is not None:
        try:
            extra = search()
            r["oracle_fail"] += extra.get("oracle_fail", [])
            r["evaluations"] += extra.get("evaluations", 0)
            r["search_evaluations"] = extra.get("evaluations", 0)
        except Exception as e:  # the search is best effort
            r["search_error"] = str(e)[:200]
    for (cidx, case, of, path) in r["oracle_fail"]:
        matched = None
        for m in known_matchers:
            desc = m(case, of)
            if desc:
                matched = desc
                break
        if matched:
            if matched not in known:
                known.append(matched)
            continue
        shrunk = None
        if not violations:
            try:
                shrunk = shrink_art(cid, case)
            except Exception:
                shrunk = None
        if shrunk:
            rp = vlib.write_replay(cid, cidx, "# failing aspects (shrunk case): %s\n%s\n# original case, failing aspects: %s\n# %s\n"
                                   % (", ".join(shrunk[1]), shrunk[0]["_line"], ", ".join(of), case["_line"][:2000]))
        else:
            rp = vlib.write_replay(cid, cidx, "# failing aspects: %s\n%s\n" % (", ".join(of), case["_line"]))
        violations.append(("implementation violates %s on case %s: %s" % (cid, cidx, ", ".join(of)[:300]), rp, False))
        if len(violations) >= 5:
            break
    if not violations and r["corr_fail"]:
        # the model no longer corresponds to the implementation; all explored cases satisfied
        # the property on the implementation side
        cidx, case, cf, path = r["corr_fail"][0]
        rp = vlib.write_replay(cid, "corr_" + cidx,
                               "# correspondence between the Coq model and the implementation no longer checks: %s\n"
                               "# (model: coq/theories/BV/*.v; %d cases disagree; the property oracle found no failing input "
                               "among %d cases)\n%s\n" % (", ".join(cf), len(r["corr_fail"]), r["evaluations"], case["_line"]))
        violations.append(("correspondence broken (%s) on %d cases" % (", ".join(cf)[:200], len(r["corr_fail"])), rp, True))
    return violations, known


def run_simple(cid, ctx, chan, harness_args, oracle_aspects, corr_aspects, nontrivial=None, seed_offset=0,
               name=None, timeout=3000, env_extra=None, known_matchers=()):
    """Generic evaluation for channels whose driver output is a list of aspect=ok|FAIL(..)
    pairs.  Returns the same structure as run_art."""
    import collections
    tier, seed = ctx["tier"], ctx["seed"]
    path = os.path.join(vlib.RUNS, "%s_%s_%s.cases" % (cid, name or chan, tier))
    vlib.run_harness([chan, "--seed", str(seed + seed_offset)] + harness_args, path, timeout=timeout, env_extra=env_extra)
    order, cases, impl = vlib.read_cases(path)
    results, _ = vlib.run_driver(path, timeout=timeout)
    rmap = {r.get("id"): r for r in results}
    evaluations, keys, samples = 0, set(), []
    oracle_fail, corr_fail = [], []
    dist = collections.Counter()
    for cidx in order:
        case = cases[cidx]
        res = rmap.get(cidx, {"error": "no-driver-output"})
        evaluations += 1
        dist["chan=" + case["_chan"]] += 1
        k = nontrivial(case) if nontrivial else case["_line"].split(" id=")[-1].split(" ", 1)[-1]
        if k is not None:
            keys.add(k)
        if len(samples) < 3:
            samples.append({"id": cidx, "case": case["_line"][:300], "model": {k2: v for k2, v in res.items() if not k2.startswith("_")}})
        of, cf = [], []
        if "error" in res:
            cf.append("driver-error(%s)" % res["error"])
        for a, v in res.items():
            if a.startswith("_") or a == "id" or v == "ok" or a == "error":
                continue
            if a in oracle_aspects and v.startswith("FAIL"):
                of.append("%s:%s" % (a, v))
            elif a in corr_aspects and v.startswith("FAIL"):
                cf.append("%s:%s" % (a, v))
        if of:
            oracle_fail.append((cidx, case, of, path))
        if cf:
            corr_fail.append((cidx, case, cf, path))
    return {"evaluations": evaluations, "distinct_nontrivial": len(keys), "distribution": dict(dist),
            "samples": samples, "oracle_fail": oracle_fail, "corr_fail": corr_fail, "refused": 0, "rule": ""}


def merge(rs):
    out = {"evaluations": 0, "distinct_nontrivial": 0, "distribution": {}, "samples": [], "oracle_fail": [],
           "corr_fail": [], "refused": 0, "rule": ""}
    for r in rs:
        out["evaluations"] += r["evaluations"]
        out["distinct_nontrivial"] += r["distinct_nontrivial"]
        for k, v in r["distribution"].items():
            out["distribution"][k] = out["distribution"].get(k, 0) + v
        out["samples"] += r["samples"][:2]
        out["oracle_fail"] += r["oracle_fail"]
        out["corr_fail"] += r["corr_fail"]
        out["refused"] += r.get("refused", 0)
        if r.get("rule"):
            out["rule"] = (out["rule"] + " | " + r["rule"]).strip(" |")
    return out
