"""C10: every split of a graph for parallel work covers each node exactly once, in order."""
from props import codec
LEVEL = "proof"
ASSUMPTIONS = [
    "the Coq model of split::seq::Iter, split::ra::Iter, CsrSplitIter, the forwarding wrappers (union, permuted, "
    "no-self-loops, projections, unit labels, ParGraph), uniform boundaries, par_node_apply ranges and sux FairChunks "
    "corresponds to the Rust code: checked on every run by exact comparison of parts, boundaries, ranges and panic kinds",
    "a lender is modelled by the list of elements it yields (advance_by = drop, take = truncate, clone = identity); "
    "iter_from(c) of the concrete representations is the scan without its first c elements (compared on every case "
    "through the parts of the random-access splitters; C03 covers the access paths themselves)",
    "float conversions inside Granularity are bypassed: the model takes the node / arc granularity returned by the "
    "library's own Granularity::{node,arc}_granularity; zero granularities are outside the property",
    "ParSortedGraph boundaries are decided by the sort (C08): only the oracle (lenders match reported boundaries and "
    "cover the scan) is evaluated for it",
]

ORACLE = {"nopanic", "legalcuts", "parts", "count", "fullbounds", "cover", "nparts", "boundsgiven", "ids", "partition"}
CORR = {"mscan", "mn", "mparts", "mbounds", "mranges", "malist"}


def key(case):
    return (case.get("_chan"), case.get("impl"), case.get("shape"), case.get("g0"), case.get("g1"), case.get("perm"),
            case.get("op"), case.get("cuts"), case.get("k"), case.get("gran"), case.get("degs"), case.get("n"))


def run(ctx):
    quick = ctx["tier"] == "quick"
    rs = []
    # (count, maxn, seed offset): small graphs for density of edge cases, larger ones for long scans
    for i, (count, maxn) in enumerate([(120, 12), (60, 40)] if quick else [(1500, 12), (800, 40), (60, 300)]):
        r = codec.run_simple("C10", ctx, "split", ["--count", str(count), "--maxn", str(maxn)],
                             oracle_aspects=ORACLE, corr_aspects=CORR, nontrivial=key, seed_offset=100 + i,
                             name="split%d" % i)
        rs.append(r)
    for i, (count, maxn) in enumerate([(600, 12), (300, 60)] if quick else [(8000, 12), (4000, 60), (300, 600)]):
        r = codec.run_simple("C10", ctx, "split", ["--mode", "ranges", "--count", str(count), "--maxn", str(maxn)],
                             oracle_aspects=ORACLE, corr_aspects=CORR, nontrivial=key, seed_offset=200 + i,
                             name="ranges%d" % i)
        rs.append(r)
    r = codec.merge(rs)
    # distribution by implementor / operation
    r["rule"] = ("42 implementor/wrapper types (VecGraph, BTreeGraph, CsrGraph, CsrSortedGraph, CompressedCsrGraph, BvGraph, BvGraphSeq, "
                 "ArcListGraph, Left/Right of LabeledVecGraph and LabeledBTreeGraph, UnitLabelGraph, UnitLabelParLenders, NoSelfLoops, Permuted, Union incl. operands of "
                 "different sizes, depth-2 nestings, ParGraph::{new,with_cutpoints,with_dcf}, ParSortedGraph) x "
                 "{split_iter_at on legal cut sequences (repeats, first cut > 0, last cut < n, all equal, more parts than "
                 "nodes) and on a malformed stream, split_iter(k) k=1..64, into_par_lenders under pools of 1..64 threads}; "
                 "par_node_apply / par_apply with a recording closure for node and arc granularities 1..n+1 over "
                 "structured and hub-heavy degree sequences; distinct = different (type, inputs, operation)")
    violations, known = codec.verdict("C10", r)
    r.update({"violations": violations, "known": known})
    return r
