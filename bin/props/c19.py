"""C19: HyperBall results are independent of schedule and mode, and track the truth."""
from props import codec
LEVEL = "other"
ASSUMPTIONS = [
    "the Coq model of iterate/process_node/run (ping-pong arrays and spill store, curr/next_modified, "
    "must_be_checked, local check list, systolic/local/pre-local decisions) corresponds to the Rust code: checked on "
    "every run by replaying each case from the initial registers and comparing exactly the per-iteration mode and "
    "modified-counter trace (captured from the progress log) and the iteration count, and with relative tolerance "
    "1e-9 the per-node estimates and the neighbourhood function recomputed from the model's registers",
    "HyperLogLog register merging (broadword / SIMD maximum) is the pointwise maximum and DefaultHasher is "
    "deterministic: initial registers are read through the public estimator API; the floating-point estimate "
    "formula (LogLog-beta) is re-implemented in the driver (hand-written glue)",
    "thread interleavings are those the OS scheduler produces for pools of 1..16 threads; the theorems quantify over "
    "every order of the per-node writes",
]
EXPLANATION = (
    "Exact equality of the per-node counters across threads, granularities, transpose, stores and entry points is "
    "proved for the model (every legal skipping decision and schedule yields the synchronous iteration, whose value "
    "is the join over the ball; the neighbourhood function the repaired code accumulates -- full scan in standard "
    "iterations, compensation of the modified counters in systolic ones -- is proved equal to the sum of the exact "
    "sizes at every iteration) and tested on the implementation by exact comparison inside groups. The statistical "
    "clause (estimates within 6 standard errors with 2^14 registers) and floating-point sums are tolerance tests, "
    "not theorems; hence level 'other'.")

ORACLE = {"refusal", "status", "nf_mono", "shape", "group_est", "group_iters", "group_nf", "group_cent", "accuracy"}
CORR = {"trace", "iters", "model_sync", "est_corr", "nf_corr"}


# No known findings: the two defects this check found (a local, non-systolic iteration recorded a wrong
# neighbourhood function: /repo 2d19c25; index out of bounds when run in a pool larger than the one HyperBall was
# built in: /repo 9351bae) are repaired.  A recurrence of either is a VIOLATION (group_nf / nf_corr, resp. status).


def nontrivial(case):
    if int(case.get("n", "0")) < 2 or int(case.get("arcs", "0")) < 1 or case.get("status") != "ok":
        return None
    return tuple(case.get(k) for k in ("g", "w", "kind", "log2m", "seed", "ub", "t", "gran", "tr", "store", "api",
                                       "cent", "bo"))


def run(ctx):
    quick = ctx["tier"] == "quick"
    rs = []
    rs.append(codec.run_simple("C19", ctx, "hball", ["--count", "300" if quick else "5000", "--maxn", "120", "--mode", "seq"],
                               ORACLE, CORR, nontrivial=nontrivial, name="hball_mix",
                               env_extra={"HBALL_CASES": "6" if quick else "8"}))
    rs.append(codec.run_simple("C19", ctx, "hball", ["--count", "40" if quick else "600", "--maxn", "260", "--mode", "seq"],
                               ORACLE, CORR, nontrivial=nontrivial, seed_offset=1, name="hball_large",
                               env_extra={"HBALL_CASES": "5" if quick else "8"}))
    rs.append(codec.run_simple("C19", ctx, "hball", ["--count", "12" if quick else "150", "--maxn", "90", "--mode", "acc"],
                               ORACLE, CORR, nontrivial=nontrivial, seed_offset=2, name="hball_acc",
                               env_extra={"HBALL_CASES": "4"}))
    # a machine with 3 cores (global pool of 3 threads) running pools of up to 16 threads built as the CLI does
    # (outside the pool that runs the iterations: the per-thread buffers must follow the running pool)
    rs.append(codec.run_simple("C19", ctx, "hball", ["--count", "15" if quick else "150", "--maxn", "60", "--mode", "seq"],
                               ORACLE, CORR, nontrivial=nontrivial, seed_offset=3, name="hball_cli",
                               env_extra={"HBALL_CASES": "5", "HBALL_BO_ALWAYS": "1", "RAYON_NUM_THREADS": "3"}))
    r = codec.merge(rs)
    # distribution: what the cases exercised
    import os, collections, vlib
    dist = collections.Counter()
    for name in ("hball_mix", "hball_large", "hball_acc", "hball_cli"):
        path = os.path.join(vlib.RUNS, "C19_%s_%s.cases" % (name, ctx["tier"]))
        order, cases, _ = vlib.read_cases(path)
        for cidx in order:
            c = cases[cidx]
            st = c.get("status", "?")
            if st != "ok":
                dist["refused" if st.startswith("refused") else "status=" + st[:25]] += 1
                if st.startswith("refused"):
                    r["refused"] += 1
                continue
            for k in ("kind", "store", "tr", "api", "cent", "bo", "fam"):
                dist["%s=%s" % (k, c.get(k))] += 1
            dist["log2m=" + c.get("log2m", "?")] += 1
            dist["threads=" + c.get("t", "?")] += 1
            dist["weighted" if c.get("w", "-") != "-" else "unweighted"] += 1
            dist["ub=" + ("bounded" if c.get("ub", "done") not in ("done", "max") else c.get("ub"))] += 1
            modes = set(m.split(":")[0] for m in c.get("trace", "").split(",") if ":" in m)
            for m in modes:
                dist["mode:" + m] += 1
            if "regs" in c:
                dist["groups-replayed-by-model"] += 1
    r["distribution"] = dict(dist)
    r["rule"] = ("groups = (graph from 11 families: structured, paths/cycles, fans into a hub heading a chain, sparse, "
                 "components, symmetric, layered, trees, arcless; optional node weights; seed; log2m 4..14; HyperLogLog or "
                 "HyperLogLog8; run_until_done / run_until_stable(bound)); cases within a group vary threads 1..16, "
                 "granularity (nodes/arcs), transpose, in-memory/external store, high/low-level builder, centralities "
                 "on/off, build inside/outside the pool; non-trivial = >= 2 nodes, >= 1 arc, not refused; distinct = "
                 "different (group, configuration)")
    violations, known = codec.verdict("C19", r, known_matchers=[])
    r.update({"violations": violations, "known": known})
    return r
