"""C09: graph transforms compute exactly the specified arc set."""
from props import codec
LEVEL = "proof"
ASSUMPTIONS = [
    "the sorting of one partition of ParSortIters (batches, codecs, k-way merge, in-batch and last_pair deduplication) "
    "is a parameter of the model assumed to return the sorted permutation (or the strictly sorted set of keys) of the "
    "pairs of that partition, for every memory budget: this is what property C08 establishes; the theorems hold for "
    "every such sorter, and the budgets 1..4 and default are exercised on the implementation",
    "the Coq pipeline model (into_pairs, endpoint maps, range check, partition ids, boundaries, arrival order of "
    "per-thread blocks, MergeDedupPairs, re-split of the forward graph, arc_list_graph::NodeLabels with its "
    "assertions, both ways of reading a ParSortedGraph) corresponds to the Rust code: checked on every run by exact "
    "equality of the successor lists (and labels) returned by every public entry point",
    "source lenders (VecGraph, ParGraph, BvGraphSeq, BvGraph) enumerate the graph's lists in node order split at the "
    "reported cutpoints (properties C01/C10)",
]

ORACLE = {"status", "nopanic", "spec", "specp", "speclab", "specplab", "involutive", "involutivep", "nout"}
CORR = {"model", "modelp", "modellab", "modelplab", "bounds", "refusal"}


def nontrivial(case):
    if int(case.get("n", "0")) < 2 or case.get("g", "").replace(";", "") == "":
        return None
    return (case.get("op"), case.get("kind"), case.get("g"), case.get("t"), case.get("k"), case.get("cuts"),
            case.get("nl"), case.get("f"), case.get("m"))


def run(ctx):
    quick = ctx["tier"] == "quick"
    rs = []
    rs.append(codec.run_simple("C09", ctx, "xform", ["--count", "1200" if quick else "25000", "--maxn", "24"],
                               ORACLE, CORR, nontrivial=nontrivial, name="xform_random"))
    rs.append(codec.run_simple("C09", ctx, "xform", ["--count", "150" if quick else "2500", "--maxn", "90"],
                               ORACLE, CORR, nontrivial=nontrivial, seed_offset=7, name="xform_large"))
    if not quick:
        rs.append(codec.run_simple("C09", ctx, "xform", ["--mode", "exhaustive"], ORACLE, CORR,
                                   nontrivial=nontrivial, seed_offset=9, name="xform_exhaustive"))
    r = codec.merge(rs)
    r["rule"] = ("random graphs (isolated nodes only, loops only, already symmetric, complete, sparse, star, structured "
                 "BV-style) x 14 entry points (transpose/symmetrize/symmetrize_sorted/permute/map seq+par, labelled "
                 "transpose seq+par, transpose twice seq+par) x sources VecGraph / ParGraph with random cutpoints "
                 "(empty segments included) / BvGraphSeq / BvGraph / ParGraph over BvGraphSeq x pools 1..16 x "
                 "MemoryUsage::BatchSize 1,2,3,4,7 and default x random bijections and non-injective maps into smaller "
                 "and larger targets; 10% of permute/map cases malformed (wrong length, non-injective, value out of "
                 "range); results read through iter() and through into_par_lenders(); non-trivial = at least 2 nodes "
                 "and one arc; distinct = different (entry point, source, graph, pool, budget, cuts, map)")
    violations, known = codec.verdict("C09", r)
    r.update({"violations": violations, "known": known})
    return r
