(** The lender of [ArcListGraph] (graphs/arc_list_graph.rs, [NodeLabels] and [Succ]),
    which is also the lender handed out by [ParSortedGraph]: a cursor over a list of
    arcs sorted by source.  Unlike the other lenders its clone shares no decoded state
    but carries the arcs of skipped nodes, which [next] discards lazily.  Definitions and
    the pinned statement only. *)
From WG Require Import Base.Prelude Split.Model.

Module ArcListM.
Local Open Scope N_scope.

Fixpoint dropwhile {A} (f : A -> bool) (l : list A) : list A :=
  match l with
  | [] => []
  | a :: l' => if f a then dropwhile f l' else l
  end.

Fixpoint takewhile {A} (f : A -> bool) (l : list A) : list A :=
  match l with
  | [] => []
  | a :: l' => if f a then a :: takewhile f l' else []
  end.

(** [next_node] and the arcs not yet consumed *)
Record al_state := mkAl { al_node : N; al_arcs : list (N * N) }.

(** [Lender::next] for a graph of [n] nodes: the arcs left over by the previous node are
    discarded first *)
Definition al_next (n : N) (st : al_state) : option (N * al_state) :=
  if al_node st =? n then None
  else Some (al_node st,
             mkAl (al_node st + 1) (dropwhile (fun a => fst a <? al_node st) (al_arcs st))).

(** the lent [Succ] iterator read to its end: the arcs whose source is below [next_node] *)
Definition al_succ (st : al_state) : list N * al_state :=
  (map snd (takewhile (fun a => fst a <? al_node st) (al_arcs st)),
   mkAl (al_node st) (dropwhile (fun a => fst a <? al_node st) (al_arcs st))).

(** [advance_by k]: [k] calls of [next], the successors are not read *)
Fixpoint al_skip (k : nat) (n : N) (st : al_state) : option al_state :=
  match k with
  | O => Some st
  | S k' =>
    match al_next n st with
    | None => None
    | Some (_, st') => al_skip k' n st'
    end
  end.

(** [take(m)] driven by a consumer that reads every successor list *)
Fixpoint al_collect (m : nat) (n : N) (st : al_state) : lender N :=
  match m with
  | O => []
  | S m' =>
    match al_next n st with
    | None => []
    | Some (x, st') => let (s, st'') := al_succ st' in (x, s) :: al_collect m' n st''
    end
  end.

(** the graph an arc list denotes *)
Definition graph_of_arcs (n : N) (arcs : list (N * N)) : list (list N) :=
  map (fun x => map snd (filter (fun a => fst a =? x) arcs)) (nseq 0 (N.to_nat n)).

(** For arcs sorted by source: skipping [k] nodes, cloning, and collecting the next [m]
    nodes yields nodes [k, k+m) of the scan of the denoted graph — so the clone-and-advance
    splitter sees [ArcListGraph] as the sequential labeling of [graph_of_arcs]. *)
Definition S_arclist_lender : Prop := forall n arcs k m,
  nondec (map fst arcs) = true -> N.of_nat (k + m) <= n ->
  exists st, al_skip k n (mkAl 0 arcs) = Some st
  /\ al_collect m n st
     = slice (N.of_nat k) (N.of_nat (k + m)) (scan (graph_of_arcs n arcs)).


End ArcListM.
Export ArcListM.
