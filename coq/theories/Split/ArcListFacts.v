(** Proof of the pinned statement of Split/ArcList.v. *)
From WG Require Import Base.Prelude Split.Model Split.Statements Split.SplitFacts
  Split.RangesFacts Split.ArcList.
From Coq Require Import ZifyBool ZifyN ZifyNat.
Local Open Scope N_scope.

Definition src_sorted (l : list (N * N)) : Prop := nondec (map fst l) = true.

Lemma src_sorted_tail a l : src_sorted (a :: l) -> src_sorted l.
Proof. unfold src_sorted. cbn [map]. apply nondec_tail. Qed.

Lemma src_sorted_hd a l : src_sorted (a :: l) -> Forall (fun b => fst a <= fst b) l.
Proof.
  unfold src_sorted. cbn [map]. intros H. apply nondec_hd_le_all in H.
  rewrite Forall_forall in *. intros b Hb. apply H. apply in_map. exact Hb.
Qed.

Lemma filter_all {A} (f : A -> bool) l : Forall (fun a => f a = true) l -> filter f l = l.
Proof.
  induction 1 as [|a l Ha _ IH]; [reflexivity|]. cbn [filter]. rewrite Ha, IH. reflexivity.
Qed.

Lemma filter_none {A} (f : A -> bool) l : Forall (fun a => f a = false) l -> filter f l = [].
Proof.
  induction 1 as [|a l Ha _ IH]; [reflexivity|]. cbn [filter]. rewrite Ha. exact IH.
Qed.

Lemma dropwhile_sorted j : forall l, src_sorted l ->
  dropwhile (fun a => fst a <? j) l = filter (fun a => j <=? fst a) l.
Proof.
  induction l as [|a l IH]; intros Hs; [reflexivity|].
  cbn [dropwhile filter].
  destruct (N.ltb_spec (fst a) j) as [Hlt|Hge].
  - destruct (N.leb_spec j (fst a)); [lia|]. apply IH. apply (src_sorted_tail _ _ Hs).
  - destruct (N.leb_spec j (fst a)); [|lia]. f_equal. symmetry. apply filter_all.
    apply (Forall_impl _ (fun b (Hb : fst a <= fst b) => proj2 (N.leb_le j (fst b)) (N.le_trans _ _ _ Hge Hb))).
    apply src_sorted_hd. exact Hs.
Qed.

Lemma takewhile_sorted j : forall l, src_sorted l -> Forall (fun a => j <= fst a) l ->
  takewhile (fun a => fst a <? j + 1) l = filter (fun a => fst a =? j) l.
Proof.
  induction l as [|a l IH]; intros Hs Hall; [reflexivity|].
  inversion Hall as [|? ? Ha Hall']; subst.
  cbn [takewhile filter].
  destruct (N.ltb_spec (fst a) (j + 1)) as [Hlt|Hge].
  - destruct (N.eqb_spec (fst a) j); [|lia]. f_equal. apply IH; [apply (src_sorted_tail _ _ Hs)|exact Hall'].
  - destruct (N.eqb_spec (fst a) j); [lia|]. symmetry. apply filter_none.
    pose proof (src_sorted_hd _ _ Hs) as Hhd.
    apply (Forall_impl _ (fun b (Hb : fst a <= fst b) => proj2 (N.eqb_neq (fst b) j) ltac:(lia))).
    exact Hhd.
Qed.

Lemma src_sorted_filter (f : N * N -> bool) : forall l, src_sorted l -> src_sorted (filter f l).
Proof.
  induction l as [|a l IH]; intros Hs; [reflexivity|].
  pose proof (IH (src_sorted_tail _ _ Hs)) as Ht.
  cbn [filter]. destruct (f a); [|exact Ht].
  unfold src_sorted in *. cbn [map]. apply nondec_cons_hd; [|exact Ht].
  destruct (filter f l) as [|b r] eqn:Hf; cbn [map hd]; [lia|].
  pose proof (src_sorted_hd _ _ Hs) as Hhd. rewrite Forall_forall in Hhd.
  apply Hhd. apply (proj1 (filter_In f b l)). rewrite Hf. left. reflexivity.
Qed.

Lemma filter_filter_le (arcs : list (N * N)) i j : i <= j ->
  filter (fun a => j <=? fst a) (filter (fun a => i <=? fst a) arcs) = filter (fun a => j <=? fst a) arcs.
Proof.
  intros Hij. induction arcs as [|a l IH]; [reflexivity|].
  cbn [filter]. destruct (N.leb_spec i (fst a)) as [H1|H1].
  - cbn [filter]. destruct (N.leb_spec j (fst a)); rewrite IH; reflexivity.
  - destruct (N.leb_spec j (fst a)); [lia|]. exact IH.
Qed.

Lemma filter_eq_le (arcs : list (N * N)) j :
  filter (fun a => fst a =? j) (filter (fun a => j <=? fst a) arcs) = filter (fun a => fst a =? j) arcs.
Proof.
  induction arcs as [|a l IH]; [reflexivity|].
  cbn [filter]. destruct (N.leb_spec j (fst a)) as [H1|H1].
  - cbn [filter]. destruct (N.eqb_spec (fst a) j); rewrite IH; reflexivity.
  - destruct (N.eqb_spec (fst a) j); [lia|]. exact IH.
Qed.

Section ArcList.
Variable n : N.
Variable arcs : list (N * N).
Hypothesis Hsorted : src_sorted arcs.

Definition rest (j : N) : list (N * N) := filter (fun a => j <=? fst a) arcs.

(** the lender is at node [j] with exactly the arcs of nodes >= j still to come, possibly
    preceded by unread arcs of earlier nodes *)
Definition at_node (j : N) (st : al_state) : Prop :=
  al_node st = j /\ dropwhile (fun a => fst a <? j) (al_arcs st) = rest j.

Lemma rest_sorted j : src_sorted (rest j).
Proof. apply src_sorted_filter. exact Hsorted. Qed.

Lemma rest_ge j : Forall (fun a => j <= fst a) (rest j).
Proof.
  apply Forall_forall. intros a Ha. apply filter_In in Ha. destruct Ha as [_ Ha].
  apply N.leb_le. exact Ha.
Qed.

Lemma drop_rest j : dropwhile (fun a => fst a <? j + 1) (rest j) = rest (j + 1).
Proof.
  rewrite (dropwhile_sorted (j + 1) _ (rest_sorted j)). unfold rest.
  apply filter_filter_le. lia.
Qed.

Lemma drop_rest_id j : dropwhile (fun a => fst a <? j) (rest j) = rest j.
Proof.
  rewrite (dropwhile_sorted j _ (rest_sorted j)). unfold rest.
  apply filter_filter_le. lia.
Qed.

Lemma at_node_init : at_node 0 (mkAl 0 arcs).
Proof.
  split; [reflexivity|]. cbn [al_arcs]. rewrite (dropwhile_sorted 0 _ Hsorted). reflexivity.
Qed.

Lemma al_skip_spec : forall k j st, at_node j st -> j + N.of_nat k <= n ->
  exists st', al_skip k n st = Some st' /\ at_node (j + N.of_nat k) st'.
Proof.
  induction k as [|k IH]; intros j st Hat Hle.
  - exists st. split; [reflexivity|]. rewrite N.add_0_r. exact Hat.
  - destruct Hat as [Hj Hd]. cbn [al_skip]. unfold al_next. rewrite Hj.
    destruct (N.eqb_spec j n); [lia|]. rewrite Hd.
    destruct (IH (j + 1) (mkAl (j + 1) (rest j))) as (st' & Hs & Hat'); [|lia|].
    + split; [reflexivity|]. cbn [al_arcs]. apply drop_rest.
    + exists st'. split; [exact Hs|]. replace (j + N.of_nat (S k)) with (j + 1 + N.of_nat k) by lia.
      exact Hat'.
Qed.

Lemma al_collect_spec : forall m j st, at_node j st -> j + N.of_nat m <= n ->
  al_collect m n st
  = map (fun x => (x, map snd (filter (fun a => fst a =? x) arcs))) (nseq j m).
Proof.
  induction m as [|m IH]; intros j st [Hj Hd] Hle; [reflexivity|].
  cbn [al_collect nseq map]. unfold al_next. rewrite Hj.
  destruct (N.eqb_spec j n); [lia|]. rewrite Hd.
  unfold al_succ. cbn [al_node al_arcs].
  rewrite (takewhile_sorted j _ (rest_sorted j) (rest_ge j)). unfold rest at 1.
  rewrite filter_eq_le. f_equal.
  apply IH; [|lia]. split; [reflexivity|]. cbn [al_arcs].
  rewrite drop_rest. apply drop_rest_id.
Qed.
End ArcList.

Lemma combine_map_self {A B} (F : A -> B) : forall l,
  combine l (map F l) = map (fun x => (x, F x)) l.
Proof. induction l as [|a l IH]; [reflexivity|]. cbn [map combine]. rewrite IH. reflexivity. Qed.

Theorem arclist_lender : S_arclist_lender.
Proof.
  intros n arcs k m Hs Hle.
  destruct (al_skip_spec n arcs Hs k 0 (mkAl 0 arcs) (at_node_init arcs Hs)) as (st & Hsk & Hat); [lia|].
  exists st. split; [exact Hsk|].
  rewrite (al_collect_spec n arcs Hs m _ st Hat) by lia.
  unfold scan, graph_of_arcs. rewrite map_length, nseq_length, combine_map_self.
  rewrite <- slice_map. f_equal. unfold slice.
  rewrite skipn_nseq, firstn_nseq by lia.
  f_equal; lia.
Qed.
