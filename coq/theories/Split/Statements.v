(** Pinned statements of C10: every split of a graph for parallel work covers each node
    exactly once, in order.  Statements only. *)
From WG Require Import Base.Prelude Split.Model.
Local Open Scope N_scope.

(** A labeling behaves: its scan has [num_nodes] elements, [iter_from c] is the scan
    without its first [c] elements, and for EVERY legal cutpoint sequence (repeats, first
    cut > 0, last cut < n, more parts than nodes) [split_iter_at] returns without
    panicking exactly one part per pair of consecutive cutpoints, the [i]-th part being
    positions [c_i, c_{i+1}) of the full sequential scan. *)
Definition lab_ok {A} (L : labeling A) : Prop :=
  nlen (lb_iter L) = lb_n L
  /\ (forall c, c <= lb_n L -> lb_from L c = skipn (N.to_nat c) (lb_iter L))
  /\ (forall cuts, cuts_ok cuts (lb_n L) = true ->
        lb_split L cuts = Parts (slices cuts (lb_iter L))).

(** ** What the specification [slices] means *)

(** as many parts as the cutpoints imply *)
Definition S_num_parts : Prop := forall A (cuts : list N) (l : list A),
  length (slices cuts l) = (length cuts - 1)%nat.

(** part [a, b) of the scan of a graph has exactly the nodes [a; a+1; ...; b-1], in
    order, each with its own list *)
Definition S_subg_nodes : Prop := forall A (g : list (list A)) a b,
  a <= b -> b <= nlen g ->
  map fst (subg g a b) = nseq a (N.to_nat (b - a))
  /\ map snd (subg g a b) = slice a b g.

(** the parts of a non-decreasing cut sequence, concatenated, are the scan between the
    first and the last cutpoint: nothing lost, nothing repeated, order kept; in
    particular cuts from 0 to [n] give back the whole scan *)
Definition S_slices_cover : Prop := forall A (cuts : list N) (l : list A),
  nondec cuts = true -> last cuts 0 <= nlen l ->
  concat (slices cuts l) = slice (hd 0 cuts) (last cuts 0) l.

Definition S_slices_cover_all : Prop := forall A (cuts : list N) (l : list A),
  cuts_ok cuts (nlen l) = true -> hd 0 cuts = 0 -> last cuts 0 = nlen l ->
  concat (slices cuts l) = l.

(** ** The two ready-made splitters *)
Definition S_seq_parts : Prop := forall A (l : lender A) cuts,
  cuts_ok cuts (nlen l) = true -> seq_split l cuts = Parts (slices cuts l).

Definition S_ra_parts : Prop := forall A (from : N -> lender A) (l : lender A) cuts,
  (forall c, c <= nlen l -> from c = skipn (N.to_nat c) l) ->
  cuts_ok cuts (nlen l) = true -> ra_split from (nlen l) cuts = Parts (slices cuts l).

(** ** Representations and wrappers *)
Definition S_ra_lab_ok : Prop := forall A (g : list (list A)),
  lab_ok (ra_lab g) /\ lb_iter (ra_lab g) = scan g.
Definition S_seq_lab_ok : Prop := forall A (g : list (list A)),
  lab_ok (seq_lab g) /\ lb_iter (seq_lab g) = scan g.

(** [Left], [Right], [UnitLabelGraph] *)
Definition S_elementwise_ok : Prop := forall A B (f : N * list A -> N * list B) L,
  lab_ok L -> lab_ok (elementwise_lab f L) /\ lb_iter (elementwise_lab f L) = map f (lb_iter L).
(** [PermutedGraph] (any node map), [NoSelfLoopsGraph] *)
Definition S_seqwrap_ok : Prop := forall A B (f : N * list A -> N * list B) L,
  lab_ok L -> lab_ok (seqwrap_lab f L) /\ lb_iter (seqwrap_lab f L) = map f (lb_iter L).
(** [ParGraph] *)
Definition S_par_ok : Prop := forall A (L : labeling A),
  lab_ok L -> lab_ok (par_lab L) /\ lb_iter (par_lab L) = lb_iter L.
(** [UnionGraph], operands of any two sizes: the scan has max(n0, n1) elements and every
    legal cut sequence over it is split exactly *)
Definition S_union_ok : Prop := forall L0 L1,
  lab_ok L0 -> lab_ok L1 ->
  lab_ok (union_lab L0 L1)
  /\ lb_iter (union_lab L0 L1) = union_lender (lb_iter L0) (lb_iter L1)
  /\ lb_n (union_lab L0 L1) = N.max (lb_n L0) (lb_n L1).

(** ** Uniform cutpoints, [split_iter], parallel lenders *)
Definition S_uniform_cuts_legal : Prop := forall n k, 0 < k ->
  cuts_ok (uniform_cuts n k) n = true
  /\ hd 0 (uniform_cuts n k) = 0 /\ last (uniform_cuts n k) 0 = n
  /\ length (uniform_cuts n k) = S (N.to_nat k).

(** [into_par_lenders] of [impl_parallel_from_split] and of [ParGraph::new]: the lenders
    match the separately computed boundaries, there are [k] of them, and together they
    are the whole scan *)
Definition S_boundaries_match_uniform : Prop := forall A (L : labeling A) k,
  lab_ok L -> 0 < k ->
  let bs := uniform_cuts (lb_n L) k in
  into_par_uniform L k = (Parts (slices bs (lb_iter L)), bs)
  /\ length (slices bs (lb_iter L)) = N.to_nat k
  /\ concat (slices bs (lb_iter L)) = lb_iter L.

(** [ParGraph::with_cutpoints] *)
Definition S_boundaries_match_cutpoints : Prop := forall A (L : labeling A) cp,
  lab_ok L -> cuts_ok cp (lb_n L) = true ->
  into_par_cutpoints L cp = (Parts (slices cp (lb_iter L)), cp)
  /\ length (slices cp (lb_iter L)) = (length cp - 1)%nat.

(** ** Node ranges *)
Definition S_chainb_spec : Prop := forall rs a b, chainb a rs b = true <-> chain a rs b.

(** chained ranges enumerate [a, b) exactly once, in order *)
Definition S_chain_cover : Prop := forall rs a b,
  chain a rs b -> a <= b /\ flat_map range_nodes rs = nseq a (N.to_nat (b - a)).

(** [par_node_apply]: for every positive granularity the ranges partition [0, n) *)
Definition S_node_ranges_partition : Prop := forall n g, 0 < g ->
  chain 0 (node_ranges n g) n /\ Forall (fun r => fst r < snd r) (node_ranges n g).

(** ** FairChunks *)
(** a cumulative weight function: starts at 0, non-decreasing *)
Definition cwf_ok (cwf : list N) : bool :=
  match cwf with
  | [] => false
  | c0 :: _ => (c0 =? 0) && nondec cwf
  end.

(** [par_apply]: for every positive arc granularity the chunks partition [0, n) *)
Definition S_fair_chunks_partition : Prop := forall cwf target,
  cwf_ok cwf = true -> 0 < target ->
  chain 0 (fair_chunks_new target cwf) (nlen cwf - 1).

(** [ParGraph::with_dcf]: the cutpoints are legal, from 0 to [n], whatever the degree
    distribution; without arcs they are [0; n] *)
Definition S_dcf_cuts_legal : Prop := forall cwf k,
  cwf_ok cwf = true -> 0 < k ->
  let n := nlen cwf - 1 in
  let cuts := dcf_cuts cwf n (last cwf 0) k in
  cuts_ok cuts n = true /\ hd 0 cuts = 0 /\ last cuts 0 = n
  /\ (last cwf 0 = 0 -> cuts = [0; n]).

(** the degree cumulative function of a scan is a cumulative weight function over its
    nodes *)
Definition S_dcf_of_ok : Prop := forall A (l : lender A),
  cwf_ok (dcf_of l) = true /\ nlen (dcf_of l) = nlen l + 1.

(** ** All compositions *)
(** every nesting of wrappers over every representation behaves, and its scan is the
    structurally defined one *)
Definition S_all_compositions : Prop := forall e,
  lab_ok (denote e) /\ lb_iter (denote e) = gscan e.

(** spelled out: parts, their number, and coverage, for every composition and every legal
    cut sequence *)
Definition S_split_exact : Prop := forall e cuts,
  cuts_ok cuts (lb_n (denote e)) = true ->
  lb_split (denote e) cuts = Parts (slices cuts (gscan e))
  /\ length (slices cuts (gscan e)) = (length cuts - 1)%nat
  /\ concat (slices cuts (gscan e)) = slice (hd 0 cuts) (last cuts 0) (gscan e).
