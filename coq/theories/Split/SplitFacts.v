(** Proofs of the pinned statements of Split/Statements.v about splitters, representations
    and wrappers. *)
From WG Require Import Base.Prelude Split.Model Split.Statements.
From Coq Require Import ZifyBool ZifyN ZifyNat.
Local Open Scope N_scope.

(** * Lists *)
Lemma nlen_skipn {A} (l : list A) k : nlen (skipn k l) = nlen l - N.of_nat k.
Proof. unfold nlen. rewrite skipn_length. lia. Qed.

Lemma nlen_map {A B} (f : A -> B) l : nlen (map f l) = nlen l.
Proof. unfold nlen. rewrite map_length. reflexivity. Qed.

Lemma skipn_skipn' {A} (l : list A) x y : skipn x (skipn y l) = skipn (x + y) l.
Proof.
  revert l; induction y as [|y IH]; intros l.
  - rewrite Nat.add_0_r. reflexivity.
  - rewrite Nat.add_succ_r. destruct l as [|a l].
    + rewrite !skipn_nil. reflexivity.
    + cbn [skipn]. apply IH.
Qed.

Lemma slice_map {A B} (f : A -> B) a b l : map f (slice a b l) = slice a b (map f l).
Proof. unfold slice. rewrite skipn_map, firstn_map. reflexivity. Qed.

Lemma slices_map {A B} (f : A -> B) cuts l :
  map (map f) (slices cuts l) = slices cuts (map f l).
Proof.
  induction cuts as [|a [|b rest] IH]; try reflexivity.
  cbn [slices map]. rewrite slice_map. f_equal. exact IH.
Qed.

(** * Cutpoints *)
Lemma nondec_cons a b rest :
  nondec (a :: b :: rest) = true <-> a <= b /\ nondec (b :: rest) = true.
Proof.
  cbn [nondec]. rewrite andb_true_iff, N.leb_le. reflexivity.
Qed.

Lemma nondec_le_last : forall l a, nondec (a :: l) = true -> a <= last (a :: l) 0.
Proof.
  induction l as [|b l IH]; intros a H.
  - cbn [last]. lia.
  - apply nondec_cons in H. destruct H as [Hab H].
    specialize (IH b H). cbn [last] in *. destruct l; lia.
Qed.

Lemma last_cons {A} (a b : A) l d : last (a :: b :: l) d = last (b :: l) d.
Proof. reflexivity. Qed.

Lemma cuts_ok_spec cuts n :
  cuts_ok cuts n = true <->
  (2 <= length cuts)%nat /\ nondec cuts = true /\ last cuts 0 <= n.
Proof.
  unfold cuts_ok. rewrite !andb_true_iff, Nat.leb_le, N.leb_le. tauto.
Qed.

Lemma check_cuts_ok cuts n : cuts_ok cuts n = true -> check_cuts cuts = None.
Proof.
  intros H. apply cuts_ok_spec in H. destruct H as (Hl & Hn & _).
  unfold check_cuts. destruct (Nat.ltb_spec (length cuts) 2); [lia|].
  rewrite Hn. reflexivity.
Qed.

(** * Slices *)
Theorem num_parts : S_num_parts.
Proof.
  intros A cuts l. induction cuts as [|a [|b rest] IH]; try reflexivity.
  cbn [slices length] in *. rewrite IH. lia.
Qed.

(** * The sequential splitter *)
Lemma seq_parts_spec {A} (l0 : lender A) : forall cuts prev,
  nondec (prev :: cuts) = true -> last (prev :: cuts) 0 <= nlen l0 ->
  seq_parts (skipn (N.to_nat prev) l0) prev cuts = slices cuts l0.
Proof.
  induction cuts as [|a cuts IH]; intros prev Hnd Hlast; [reflexivity|].
  destruct cuts as [|b rest]; [reflexivity|].
  apply nondec_cons in Hnd. destruct Hnd as [Hpa Hnd].
  rewrite last_cons in Hlast.
  pose proof (nondec_le_last _ _ Hnd) as Hal.
  cbn [seq_parts slices].
  unfold advance_by. rewrite nlen_skipn.
  destruct (N.ltb_spec (nlen l0 - N.of_nat (N.to_nat prev)) (a - prev)) as [Hlt|_]; [lia|].
  rewrite skipn_skipn'.
  replace (N.to_nat (a - prev) + N.to_nat prev)%nat with (N.to_nat a) by lia.
  f_equal. apply (IH a Hnd Hlast).
Qed.

Theorem seq_parts_ok : S_seq_parts.
Proof.
  intros A l cuts Hok. unfold seq_split. rewrite (check_cuts_ok _ _ Hok).
  apply cuts_ok_spec in Hok. destruct Hok as (Hl & Hn & Hlast).
  f_equal. change l with (skipn (N.to_nat 0) l) at 1.
  destruct cuts as [|a [|b rest]]; cbn [length] in Hl; try lia.
  apply seq_parts_spec.
  - apply nondec_cons. split; [lia|exact Hn].
  - exact Hlast.
Qed.

(** * The random-access splitter *)
Lemma ra_parts_spec {A} (from : N -> lender A) (l : lender A) :
  (forall c, c <= nlen l -> from c = skipn (N.to_nat c) l) ->
  forall cuts, nondec cuts = true -> last cuts 0 <= nlen l ->
  ra_parts from cuts = slices cuts l.
Proof.
  intros Hfrom. induction cuts as [|a cuts IH]; intros Hnd Hlast; [reflexivity|].
  destruct cuts as [|b rest]; [reflexivity|].
  apply nondec_cons in Hnd. destruct Hnd as [Hab Hnd].
  rewrite last_cons in Hlast.
  pose proof (nondec_le_last _ _ Hnd) as Hbl.
  cbn [ra_parts slices]. rewrite Hfrom by lia. f_equal. apply IH; assumption.
Qed.

Theorem ra_parts_ok : S_ra_parts.
Proof.
  intros A from l cuts Hfrom Hok. unfold ra_split. rewrite (check_cuts_ok _ _ Hok).
  apply cuts_ok_spec in Hok. destruct Hok as (Hl & Hn & Hlast).
  destruct (N.ltb_spec (nlen l) (last cuts 0)); [lia|].
  f_equal. apply ra_parts_spec; assumption.
Qed.

(** * Representations *)
Lemma scan_length {A} (g : list (list A)) : length (scan g) = length g.
Proof.
  unfold scan. rewrite combine_length.
  assert (H : forall n a, length (nseq a n) = n).
  { induction n; intros a; cbn [nseq length]; [reflexivity|]. rewrite IHn. reflexivity. }
  rewrite H. lia.
Qed.

Lemma nlen_scan {A} (g : list (list A)) : nlen (scan g) = nlen g.
Proof. unfold nlen. rewrite scan_length. reflexivity. Qed.

Theorem ra_lab_ok : S_ra_lab_ok.
Proof.
  intros A g. split; [|reflexivity].
  unfold lab_ok, lb_iter. cbn [ra_lab lb_n lb_from lb_split].
  change (N.to_nat 0) with O. cbn [skipn].
  split; [apply nlen_scan|]. split; [reflexivity|].
  intros cuts Hok. rewrite <- (nlen_scan g) in *.
  apply ra_parts_ok; [reflexivity|exact Hok].
Qed.

Theorem seq_lab_ok : S_seq_lab_ok.
Proof.
  intros A g. split; [|reflexivity].
  unfold lab_ok, lb_iter. cbn [seq_lab lb_n lb_from lb_split].
  change (N.to_nat 0) with O. cbn [skipn].
  split; [apply nlen_scan|]. split; [reflexivity|].
  intros cuts Hok. rewrite <- (nlen_scan g) in Hok.
  apply seq_parts_ok. exact Hok.
Qed.

(** * Wrappers *)
Theorem elementwise_ok : S_elementwise_ok.
Proof.
  intros A B f L (Hn & Hfrom & Hsplit). split; [|reflexivity].
  unfold lab_ok, lb_iter in *. cbn [elementwise_lab lb_n lb_from lb_split].
  split; [rewrite nlen_map; exact Hn|]. split.
  - intros c Hc. rewrite (Hfrom c Hc). symmetry. apply skipn_map.
  - intros cuts Hok. rewrite (Hsplit cuts Hok). cbn [map_result]. f_equal. apply slices_map.
Qed.

Theorem seqwrap_ok : S_seqwrap_ok.
Proof.
  intros A B f L (Hn & Hfrom & Hsplit). split; [|reflexivity].
  unfold lab_ok, lb_iter in *. cbn [seqwrap_lab lb_n lb_from lb_split].
  split; [rewrite nlen_map; exact Hn|]. split.
  - intros c Hc. rewrite (Hfrom c Hc). symmetry. apply skipn_map.
  - intros cuts Hok. apply seq_parts_ok. rewrite nlen_map, Hn. exact Hok.
Qed.

Theorem par_ok : S_par_ok.
Proof.
  intros A L H. split; [|reflexivity]. exact H.
Qed.

(** * Union *)
Lemma union_lender_nil_l b : union_lender [] b = b.
Proof. destruct b; reflexivity. Qed.

Lemma union_lender_nil_r a : union_lender a [] = a.
Proof. destruct a as [|[x s] a]; reflexivity. Qed.

Lemma union_lender_cons x s a y t b :
  union_lender ((x, s) :: a) ((y, t) :: b) = (x, merge_succ s t) :: union_lender a b.
Proof. reflexivity. Qed.

Lemma union_lender_length : forall a b,
  length (union_lender a b) = Nat.max (length a) (length b).
Proof.
  induction a as [|[x s] a IH]; intros b.
  - rewrite union_lender_nil_l. reflexivity.
  - destruct b as [|[y t] b].
    + rewrite union_lender_nil_r. cbn [length]. lia.
    + rewrite union_lender_cons. cbn [length]. rewrite IH. lia.
Qed.

Lemma skipn_union : forall k a b,
  skipn k (union_lender a b) = union_lender (skipn k a) (skipn k b).
Proof.
  induction k as [|k IH]; intros a b; [reflexivity|].
  destruct a as [|[x s] a].
  - rewrite skipn_nil, !union_lender_nil_l. reflexivity.
  - destruct b as [|[y t] b].
    + rewrite skipn_nil, !union_lender_nil_r. reflexivity.
    + rewrite union_lender_cons. cbn [skipn]. apply IH.
Qed.

Lemma firstn_union : forall k a b,
  firstn k (union_lender a b) = union_lender (firstn k a) (firstn k b).
Proof.
  induction k as [|k IH]; intros a b; [reflexivity|].
  destruct a as [|[x s] a].
  - rewrite firstn_nil, !union_lender_nil_l. reflexivity.
  - destruct b as [|[y t] b].
    + rewrite firstn_nil, !union_lender_nil_r. reflexivity.
    + rewrite union_lender_cons. cbn [firstn]. rewrite union_lender_cons, IH. reflexivity.
Qed.

Lemma slice_union a b l0 l1 :
  slice a b (union_lender l0 l1) = union_lender (slice a b l0) (slice a b l1).
Proof. unfold slice. rewrite skipn_union, firstn_union. reflexivity. Qed.

Lemma skipn_clamp {A} (l : list A) c :
  skipn (N.to_nat (N.min c (nlen l))) l = skipn (N.to_nat c) l.
Proof.
  destruct (N.le_gt_cases c (nlen l)) as [H|H].
  - rewrite N.min_l by exact H. reflexivity.
  - rewrite N.min_r by lia. unfold nlen in *.
    rewrite !skipn_all2 by lia. reflexivity.
Qed.

Lemma slice_clamp {A} (l : list A) a b : a <= b ->
  slice (N.min a (nlen l)) (N.min b (nlen l)) l = slice a b l.
Proof.
  intros Hab. unfold slice. rewrite skipn_clamp.
  destruct (N.le_gt_cases b (nlen l)) as [Hb|Hb].
  - rewrite !N.min_l by lia. reflexivity.
  - destruct (N.le_gt_cases a (nlen l)) as [Ha|Ha].
    + rewrite (N.min_l a) by lia. rewrite (N.min_r b) by lia.
      unfold nlen in *. rewrite !firstn_all2; [reflexivity| |]; rewrite skipn_length; lia.
    + unfold nlen in *. rewrite !skipn_all2 by lia. rewrite !firstn_nil. reflexivity.
Qed.

Lemma nondec_map_min n : forall cuts,
  nondec cuts = true -> nondec (map (fun c => N.min c n) cuts) = true.
Proof.
  induction cuts as [|a [|b rest] IH]; intros H; try reflexivity.
  apply nondec_cons in H. destruct H as [Hab H].
  cbn [map]. apply nondec_cons. split; [lia|]. apply IH. exact H.
Qed.

Lemma last_map_min n : forall cuts,
  last (map (fun c => N.min c n) cuts) 0 = N.min (last cuts 0) n.
Proof.
  induction cuts as [|a [|b rest] IH]; [cbn; lia|reflexivity|].
  cbn [map] in *. rewrite !last_cons. exact IH.
Qed.

Lemma cuts_ok_clamp cuts n m :
  cuts_ok cuts n = true -> cuts_ok (map (fun c => N.min c m) cuts) m = true.
Proof.
  intros H. apply cuts_ok_spec in H. destruct H as (Hl & Hn & _).
  apply cuts_ok_spec. rewrite map_length, last_map_min.
  split; [exact Hl|]. split; [apply nondec_map_min; exact Hn|lia].
Qed.

Lemma union_parts_slices l0 l1 : forall cuts, nondec cuts = true ->
  union_parts (slices (map (fun c => N.min c (nlen l0)) cuts) l0)
              (slices (map (fun c => N.min c (nlen l1)) cuts) l1)
  = slices cuts (union_lender l0 l1).
Proof.
  induction cuts as [|a [|b rest] IH]; intros H; try reflexivity.
  apply nondec_cons in H. destruct H as [Hab H].
  cbn [map slices union_parts] in *. rewrite !slice_clamp by exact Hab.
  rewrite slice_union. f_equal. apply IH. exact H.
Qed.

Theorem union_ok : S_union_ok.
Proof.
  intros L0 L1 (Hn0 & Hfrom0 & Hsplit0) (Hn1 & Hfrom1 & Hsplit1).
  assert (Hiter : lb_iter (union_lab L0 L1) = union_lender (lb_iter L0) (lb_iter L1)).
  { unfold lb_iter. cbn [union_lab lb_from]. rewrite !N.min_0_l. reflexivity. }
  split; [|split; [exact Hiter|reflexivity]].
  unfold lab_ok. rewrite Hiter. cbn [union_lab lb_n lb_from lb_split].
  split; [|split].
  - unfold nlen in *. rewrite union_lender_length. lia.
  - intros c Hc. rewrite Hfrom0, Hfrom1 by lia.
    rewrite <- Hn0 at 1. rewrite <- Hn1 at 1. rewrite !skipn_clamp.
    symmetry. apply skipn_union.
  - intros cuts Hok.
    rewrite (Hsplit0 _ (cuts_ok_clamp _ _ _ Hok)), (Hsplit1 _ (cuts_ok_clamp _ _ _ Hok)).
    f_equal. rewrite <- Hn0, <- Hn1. apply union_parts_slices.
    apply cuts_ok_spec in Hok. tauto.
Qed.

(** * What a slice of a scan is *)
Lemma nseq_length a : forall n, length (nseq a n) = n.
Proof.
  intros n; revert a; induction n; intros a; cbn [nseq length]; [reflexivity|].
  rewrite IHn. reflexivity.
Qed.

Lemma combine_fst_snd {A B} : forall (l1 : list A) (l2 : list B),
  length l1 = length l2 ->
  map fst (combine l1 l2) = l1 /\ map snd (combine l1 l2) = l2.
Proof.
  induction l1 as [|a l1 IH]; intros [|b l2] H; cbn [length] in H; try discriminate.
  - split; reflexivity.
  - destruct (IH l2) as [H1 H2]; [lia|]. cbn [combine map fst snd]. rewrite H1, H2. split; reflexivity.
Qed.

Lemma skipn_nseq : forall k a n,
  skipn k (nseq a n) = nseq (a + N.of_nat k) (n - k).
Proof.
  induction k as [|k IH]; intros a n.
  - cbn [skipn]. rewrite N.add_0_r, Nat.sub_0_r. reflexivity.
  - destruct n as [|n]; [reflexivity|]. cbn [nseq skipn]. rewrite IH.
    replace (a + 1 + N.of_nat k) with (a + N.of_nat (S k)) by lia. reflexivity.
Qed.

Lemma firstn_nseq : forall k a n, (k <= n)%nat -> firstn k (nseq a n) = nseq a k.
Proof.
  induction k as [|k IH]; intros a n H; [reflexivity|].
  destruct n as [|n]; [lia|]. cbn [nseq firstn]. rewrite IH by lia. reflexivity.
Qed.

Theorem subg_nodes : S_subg_nodes.
Proof.
  intros A g a b Hab Hb. unfold subg. rewrite !slice_map.
  unfold scan.
  destruct (combine_fst_snd (nseq 0 (length g)) g) as [H1 H2]; [apply nseq_length|].
  rewrite H1, H2. split; [|reflexivity].
  unfold slice. rewrite skipn_nseq, firstn_nseq.
  - f_equal. lia.
  - unfold nlen in Hb. lia.
Qed.

(** * Covering *)
Lemma firstn_app_skipn {A} : forall x y (m : list A),
  firstn x m ++ firstn y (skipn x m) = firstn (x + y) m.
Proof.
  induction x as [|x IH]; intros y m; [reflexivity|].
  destruct m as [|e m].
  - rewrite skipn_nil, !firstn_nil. reflexivity.
  - cbn [firstn skipn app Nat.add]. rewrite IH. reflexivity.
Qed.

Lemma slice_app {A} (l : list A) a b c : a <= b -> b <= c ->
  slice a b l ++ slice b c l = slice a c l.
Proof.
  intros Hab Hbc. unfold slice.
  replace (N.to_nat b) with (N.to_nat (b - a) + N.to_nat a)%nat by lia.
  rewrite <- skipn_skipn'. rewrite firstn_app_skipn. f_equal. lia.
Qed.

Theorem slices_cover : S_slices_cover.
Proof.
  intros A cuts l. induction cuts as [|a [|b rest] IH]; intros Hnd Hlast.
  - reflexivity.
  - cbn [slices concat hd last]. unfold slice. rewrite N.sub_diag. reflexivity.
  - apply nondec_cons in Hnd. destruct Hnd as [Hab Hnd].
    rewrite last_cons in *.
    change (concat (slices (a :: b :: rest) l)) with (slice a b l ++ concat (slices (b :: rest) l)).
    rewrite (IH Hnd Hlast). cbn [hd].
    apply slice_app; [exact Hab|]. apply nondec_le_last. exact Hnd.
Qed.

Theorem slices_cover_all : S_slices_cover_all.
Proof.
  intros A cuts l Hok Hhd Hlast. apply cuts_ok_spec in Hok. destruct Hok as (_ & Hnd & Hle).
  rewrite (slices_cover A cuts l Hnd Hle), Hhd, Hlast.
  unfold slice, nlen. cbn [skipn]. change (N.to_nat 0) with O. cbn [skipn].
  rewrite N.sub_0_r, Nat2N.id. apply firstn_all.
Qed.

(** * All compositions *)
Theorem all_compositions : S_all_compositions.
Proof.
  intros e. induction e as [g|g|g|g|e IH|p e IH|e IH|e IH|e1 IH1 e2 IH2]; cbn [denote gscan].
  - apply ra_lab_ok.
  - apply seq_lab_ok.
  - destruct (ra_lab_ok _ g) as [Hok Hit].
    destruct (elementwise_ok _ _ (@left_elem N N) _ Hok) as [H1 H2].
    split; [exact H1|]. unfold left_lab. rewrite H2, Hit. reflexivity.
  - destruct (ra_lab_ok _ g) as [Hok Hit].
    destruct (elementwise_ok _ _ (@right_elem N N) _ Hok) as [H1 H2].
    split; [exact H1|]. unfold right_lab. rewrite H2, Hit. reflexivity.
  - destruct IH as [Hok Hit].
    destruct (elementwise_ok _ _ unit_elem _ Hok) as [H1 H2].
    destruct (elementwise_ok _ _ (@left_elem N unit) _ H1) as [H3 H4].
    split; [exact H3|]. unfold left_lab, unit_lab in *. rewrite H4, H2, Hit. reflexivity.
  - destruct IH as [Hok Hit].
    destruct (seqwrap_ok _ _ (perm_elem p) _ Hok) as [H1 H2].
    split; [exact H1|]. unfold permuted_lab. rewrite H2, Hit. reflexivity.
  - destruct IH as [Hok Hit].
    destruct (seqwrap_ok _ _ noloops_elem _ Hok) as [H1 H2].
    split; [exact H1|]. unfold noloops_lab. rewrite H2, Hit. reflexivity.
  - destruct IH as [Hok Hit]. destruct (par_ok _ _ Hok) as [H1 H2].
    split; [exact H1|]. rewrite H2. exact Hit.
  - destruct IH1 as [Hok1 Hit1]. destruct IH2 as [Hok2 Hit2].
    destruct (union_ok _ _ Hok1 Hok2) as (H1 & H2 & _).
    split; [exact H1|]. rewrite H2, Hit1, Hit2. reflexivity.
Qed.

Theorem split_exact : S_split_exact.
Proof.
  intros e cuts Hok. destruct (all_compositions e) as [(Hn & Hfrom & Hsplit) Hit].
  rewrite <- Hit. split; [apply Hsplit; exact Hok|]. split; [apply num_parts|].
  apply cuts_ok_spec in Hok. destruct Hok as (_ & Hnd & Hlast).
  apply slices_cover; [exact Hnd|]. rewrite Hn. exact Hlast.
Qed.
