(** Splitting a labeling for parallel work (C10): [split::seq::Iter], [split::ra::Iter],
    [CsrSplitIter] (traits/split.rs, graphs/csr_graph.rs), the wrappers that forward
    [split_iter_at] (union, permuted, no-self-loops, projections, unit labels, [ParGraph]),
    [split_iter] / [impl_parallel_from_split] / [ParGraph::into_par_lenders] boundaries, the
    node ranges of [par_node_apply] and sux's [FairChunks] as used by [par_apply] and
    [ParGraph::with_dcf].  Definitions only.

    A _lender_ is modelled by the list of the elements (node, labels) it still has to
    yield; [advance_by] drops, [take] truncates, [clone] is the identity.  A _labeling_
    is the triple (number of nodes, [iter_from], [split_iter_at]); wrappers are functions
    on labelings, so nestings are compositions.  The code modelled is the one after the
    repairs 917e64b (sequential splitting advances to the first cutpoint), 68aa5f2 (union
    clamps the cutpoints per operand) and b5e97f9 (DCF cutpoints of an arcless graph). *)
From WG Require Import Base.Prelude.

Module SplitM.
Local Open Scope N_scope.

(** * Lenders *)
Definition lender (A : Type) : Type := list (N * list A).

(** the full sequential scan of an explicit graph: node [i] with its list *)
Definition scan {A} (g : list (list A)) : lender A := combine (nseq 0 (length g)) g.

(** positions [a, b) of a list *)
Definition slice {A} (a b : N) (l : list A) : list A :=
  firstn (N.to_nat (b - a)) (skipn (N.to_nat a) l).

(** nodes [a, b) of a graph with their lists *)
Definition subg {A} (g : list (list A)) (a b : N) : lender A := slice a b (scan g).

(** the specification of a split: one slice per pair of consecutive cutpoints *)
Fixpoint slices {A} (cuts : list N) (l : list A) : list (list A) :=
  match cuts with
  | a :: ((b :: _) as rest) => slice a b l :: slices rest l
  | _ => []
  end.

(** [Lender::advance_by]: fails when fewer than [k] elements are left *)
Definition advance_by {A} (k : N) (l : list A) : option (list A) :=
  if nlen l <? k then None else Some (skipn (N.to_nat k) l).

(** [Lender::take] *)
Definition take {A} (k : N) (l : list A) : list A := firstn (N.to_nat k) l.

(** * Cutpoint checks *)
Inductive panic := TooFew | Decreasing | BeyondEnd.

Inductive split_result (A : Type) :=
| Parts (ps : list (lender A))
| Panic (k : panic).
Arguments Parts {A} ps.
Arguments Panic {A} k.

Fixpoint nondec (l : list N) : bool :=
  match l with
  | a :: ((b :: _) as rest) => (a <=? b) && nondec rest
  | _ => true
  end.

(** the two assertions shared by [seq::Iter::new], [ra::Iter::new], [CsrSplitIter::new] *)
Definition check_cuts (cuts : list N) : option panic :=
  if (length cuts <? 2)%nat then Some TooFew
  else if nondec cuts then None else Some Decreasing.

(** legal cutpoint sequences of the property: at least two, non-decreasing, ending at most
    at [n] (the first need not be 0, the last need not be [n]) *)
Definition cuts_ok (cuts : list N) (n : N) : bool :=
  (2 <=? length cuts)%nat && nondec cuts && (last cuts 0 <=? n).

(** * The two ready-made splitters *)

(** [split::seq::Iter]: [l] is the shared lender, [prev] the previous cutpoint (0 before
    the first part, so that the first advance is [cutpoints[0]]); a failing [advance_by]
    ends the iteration *)
Fixpoint seq_parts {A} (l : lender A) (prev : N) (cuts : list N) : list (lender A) :=
  match cuts with
  | a :: ((b :: _) as rest) =>
      match advance_by (a - prev) l with
      | Some l' => take (b - a) l' :: seq_parts l' a rest
      | None => []
      end
  | _ => []
  end.

Definition seq_split {A} (l : lender A) (cuts : list N) : split_result A :=
  match check_cuts cuts with
  | Some k => Panic k
  | None => Parts (seq_parts l 0 cuts)
  end.

(** [split::ra::Iter] and [CsrSplitIter]: [iter_from(c_i).take(c_{i+1} - c_i)] *)
Fixpoint ra_parts {A} (from : N -> lender A) (cuts : list N) : list (lender A) :=
  match cuts with
  | a :: ((b :: _) as rest) => take (b - a) (from a) :: ra_parts from rest
  | _ => []
  end.

Definition ra_split {A} (from : N -> lender A) (n : N) (cuts : list N) : split_result A :=
  match check_cuts cuts with
  | Some k => Panic k
  | None => if n <? last cuts 0 then Panic BeyondEnd else Parts (ra_parts from cuts)
  end.

(** * Labelings *)
Record labeling (A : Type) := mkLab {
  lb_n : N;                                   (* num_nodes *)
  lb_from : N -> lender A;                    (* iter_from *)
  lb_split : list N -> split_result A }.      (* split_iter_at *)
Arguments mkLab {A} _ _ _.
Arguments lb_n {A} _.
Arguments lb_from {A} _ _.
Arguments lb_split {A} _ _.

Definition lb_iter {A} (L : labeling A) : lender A := lb_from L 0.

(** random-access representations: [VecGraph], [LabeledVecGraph], [BTreeGraph],
    [BvGraph] ([ra::Iter]); [CsrGraph], [CsrSortedGraph] ([CsrSplitIter]) *)
Definition ra_lab {A} (g : list (list A)) : labeling A :=
  let from := fun c => skipn (N.to_nat c) (scan g) in
  mkLab (nlen g) from (ra_split from (nlen g)).

(** sequential representations: [BvGraphSeq], [ArcListGraph] ([seq::Iter] over [iter()]) *)
Definition seq_lab {A} (g : list (list A)) : labeling A :=
  mkLab (nlen g) (fun c => skipn (N.to_nat c) (scan g)) (seq_split (scan g)).

(** * Wrappers *)
Definition map_result {A B} (f : N * list A -> N * list B) (r : split_result A) : split_result B :=
  match r with
  | Parts ps => Parts (map (map f) ps)
  | Panic k => Panic k
  end.

(** wrappers that forward [split_iter_at] and map every part: [Left], [Right],
    [UnitLabelGraph] *)
Definition elementwise_lab {A B} (f : N * list A -> N * list B) (L : labeling A) : labeling B :=
  mkLab (lb_n L) (fun c => map f (lb_from L c)) (fun cuts => map_result f (lb_split L cuts)).

(** wrappers that split their own [iter()] with [seq::Iter]: [PermutedGraph],
    [NoSelfLoopsGraph] *)
Definition seqwrap_lab {A B} (f : N * list A -> N * list B) (L : labeling A) : labeling B :=
  mkLab (lb_n L) (fun c => map f (lb_from L c)) (seq_split (map f (lb_from L 0))).

Definition left_elem {A B} (e : N * list (A * B)) : N * list A := (fst e, map fst (snd e)).
Definition right_elem {A B} (e : N * list (A * B)) : N * list B := (fst e, map snd (snd e)).
Definition unit_elem (e : N * list N) : N * list (N * unit) := (fst e, map (fun y => (y, tt)) (snd e)).
Definition perm_elem (p : list N) (e : N * list N) : N * list N :=
  (nth (N.to_nat (fst e)) p 0, map (fun y => nth (N.to_nat y) p 0) (snd e)).
Definition noloops_elem (e : N * list N) : N * list N :=
  (fst e, filter (fun y => negb (y =? fst e)) (snd e)).

Definition left_lab {A B} (L : labeling (A * B)) : labeling A := elementwise_lab left_elem L.
Definition right_lab {A B} (L : labeling (A * B)) : labeling B := elementwise_lab right_elem L.
Definition unit_lab (L : labeling N) : labeling (N * unit) := elementwise_lab unit_elem L.
Definition permuted_lab (p : list N) (L : labeling N) : labeling N := seqwrap_lab (perm_elem p) L.
Definition noloops_lab (L : labeling N) : labeling N := seqwrap_lab noloops_elem L.

(** [ParGraph] forwards everything to the wrapped graph *)
Definition par_lab {A} (L : labeling A) : labeling A :=
  mkLab (lb_n L) (lb_from L) (lb_split L).

(** ** Union *)
(** [union_graph::Succ]: merge of two sorted iterators, equal heads emitted once *)
Fixpoint merge_succ (s : list N) : list N -> list N :=
  fix inner (t : list N) : list N :=
    match s, t with
    | [], _ => t
    | _, [] => s
    | x :: s', y :: t' =>
        if x <? y then x :: merge_succ s' t
        else if y <? x then y :: inner t'
        else x :: merge_succ s' t'
    end.

(** [union_graph::NodeLabels]: both lenders advance together; the node is the one of the
    first lender if it has one, else that of the second *)
Fixpoint union_lender (a : lender N) : lender N -> lender N :=
  fix inner (b : lender N) : lender N :=
    match a, b with
    | [], _ => b
    | _, [] => a
    | (x, s) :: a', (y, t) :: b' => (x, merge_succ s t) :: union_lender a' b'
    end.

(** [union_graph::SplitIter]: parts are paired until either side runs out *)
Fixpoint union_parts (ps qs : list (lender N)) : list (lender N) :=
  match ps, qs with
  | p :: ps', q :: qs' => union_lender p q :: union_parts ps' qs'
  | _, _ => []
  end.

Definition union_lab (L0 L1 : labeling N) : labeling N :=
  let n0 := lb_n L0 in
  let n1 := lb_n L1 in
  mkLab (N.max n0 n1)
    (fun c => union_lender (lb_from L0 (N.min c n0)) (lb_from L1 (N.min c n1)))
    (fun cuts =>
       match lb_split L0 (map (fun c => N.min c n0) cuts) with
       | Panic k => Panic k
       | Parts ps =>
         match lb_split L1 (map (fun c => N.min c n1) cuts) with
         | Panic k => Panic k
         | Parts qs => Parts (union_parts ps qs)
         end
       end).

(** * Uniform splitting and parallel lenders *)
Definition div_ceil (a b : N) : N := (a + b - 1) / b.

(** [(0..=k).map(|i| (i * n.div_ceil(k)).min(n))] for [k > 0] *)
Definition uniform_cuts (n k : N) : list N :=
  map (fun i => N.min (i * div_ceil n k) n) (nseq 0 (S (N.to_nat k))).

(** [SplitLabeling::split_iter] *)
Definition split_iter {A} (L : labeling A) (k : N) : split_result A :=
  lb_split L (uniform_cuts (lb_n L) k).

(** [impl_parallel_from_split] ([k] = [rayon::current_num_threads()]) and
    [ParGraph::new(g, k).into_par_lenders()]: lenders and boundaries are computed
    separately *)
Definition into_par_uniform {A} (L : labeling A) (k : N) : split_result A * list N :=
  (split_iter L k, uniform_cuts (lb_n L) k).

(** [ParGraph::with_cutpoints(g, cp).into_par_lenders()] *)
Definition into_par_cutpoints {A} (L : labeling A) (cp : list N) : split_result A * list N :=
  (lb_split L cp, cp).

(** * Node ranges of [par_node_apply] *)
Definition node_ranges (n g : N) : list (N * N) :=
  map (fun i => (i * g, N.min n ((i + 1) * g))) (nseq 0 (N.to_nat (div_ceil n g))).

(** ranges that follow one another from [from] to [to] *)
Fixpoint chain (from : N) (rs : list (N * N)) (to : N) : Prop :=
  match rs with
  | [] => from = to
  | (a, b) :: rs' => a = from /\ a <= b /\ chain b rs' to
  end.

Fixpoint chainb (from : N) (rs : list (N * N)) (to : N) : bool :=
  match rs with
  | [] => from =? to
  | (a, b) :: rs' => (a =? from) && (a <=? b) && chainb b rs' to
  end.

Definition range_nodes (r : N * N) : list N := nseq (fst r) (N.to_nat (snd r - fst r)).

(** * FairChunks (sux 0.14, utils/fair_chunks.rs) *)
(** [succ_unchecked::<false>]: first position whose value is at least [t] *)
Fixpoint find_succ (cwf : list N) (i t : N) : option (N * N) :=
  match cwf with
  | [] => None
  | w :: r => if t <=? w then Some (i, w) else find_succ r (i + 1) t
  end.

(** the iterator, unrolled; one unit of fuel per call of [next] *)
Fixpoint fair_chunks (fuel : nat) (cwf : list N) (target pos w nw maxw : N) : list (N * N) :=
  match fuel with
  | O => []
  | S f =>
    if target =? 0 then []
    else
      let t := w + target in
      if maxw <? t then [(pos, nw)]
      else match find_succ cwf 0 t with
           | Some (p, w') => (pos, p) :: fair_chunks f cwf target p w' nw maxw
           | None => []
           end
  end.

(** [FairChunks::new_with(target, cwf, num_weights, max_weight)] collected *)
Definition fair_chunks_with (target : N) (cwf : list N) (nw maxw : N) : list (N * N) :=
  fair_chunks (S (length cwf)) cwf target 0 0 nw maxw.

(** [FairChunks::new(target, cwf)] collected *)
Definition fair_chunks_new (target : N) (cwf : list N) : list (N * N) :=
  fair_chunks_with target cwf (nlen cwf - 1) (last cwf 0).

(** the degree cumulative function of a scan: 0, d0, d0+d1, ... *)
Fixpoint cumul (acc : N) (ds : list N) : list N :=
  match ds with
  | [] => [acc]
  | d :: ds' => acc :: cumul (acc + d) ds'
  end.
Definition dcf_of {A} (l : lender A) : list N := cumul 0 (map (fun e => nlen (snd e)) l).

(** [ParGraph::with_dcf(g, num_arcs, dcf, k)]: the cutpoints *)
Definition dcf_cuts (cwf : list N) (n arcs k : N) : list N :=
  let cuts := 0 :: map snd (fair_chunks_with (div_ceil arcs k) cwf n arcs) in
  match cuts with
  | [_] => cuts ++ [n]
  | _ => cuts
  end.

(** * Compositions *)
(** the splittable graph types as a grammar: every nesting of the wrappers over the
    plain representations *)
Inductive gexpr :=
| GRa (g : list (list N))               (* VecGraph, BTreeGraph, BvGraph, CsrGraph, CsrSortedGraph *)
| GSeq (g : list (list N))              (* BvGraphSeq, ArcListGraph *)
| GLeftRa (g : list (list (N * N)))     (* Left<LabeledVecGraph> *)
| GRightRa (g : list (list (N * N)))    (* Right<LabeledVecGraph> *)
| GLeftUnit (e : gexpr)                 (* Left<UnitLabelGraph<_>> *)
| GPermuted (p : list N) (e : gexpr)
| GNoLoops (e : gexpr)
| GPar (e : gexpr)
| GUnion (e1 e2 : gexpr).

Fixpoint denote (e : gexpr) : labeling N :=
  match e with
  | GRa g => ra_lab g
  | GSeq g => seq_lab g
  | GLeftRa g => left_lab (ra_lab g)
  | GRightRa g => right_lab (ra_lab g)
  | GLeftUnit e => left_lab (unit_lab (denote e))
  | GPermuted p e => permuted_lab p (denote e)
  | GNoLoops e => noloops_lab (denote e)
  | GPar e => par_lab (denote e)
  | GUnion e1 e2 => union_lab (denote e1) (denote e2)
  end.

(** the full sequential scan of a composition, defined on its own *)
Fixpoint gscan (e : gexpr) : lender N :=
  match e with
  | GRa g => scan g
  | GSeq g => scan g
  | GLeftRa g => map left_elem (scan g)
  | GRightRa g => map right_elem (scan g)
  | GLeftUnit e => map left_elem (map unit_elem (gscan e))
  | GPermuted p e => map (perm_elem p) (gscan e)
  | GNoLoops e => map noloops_elem (gscan e)
  | GPar e => gscan e
  | GUnion e1 e2 => union_lender (gscan e1) (gscan e2)
  end.


End SplitM.
Export SplitM.
