(** Proofs of the pinned statements of Split/Statements.v about uniform cutpoints,
    parallel lenders, node ranges and FairChunks. *)
From WG Require Import Base.Prelude Split.Model Split.Statements Split.SplitFacts.
From Coq Require Import ZifyBool ZifyN ZifyNat.
Local Open Scope N_scope.

(** * Arithmetic of [div_ceil] *)
Lemma div_ceil_ge n k : 0 < k -> n <= k * div_ceil n k.
Proof.
  intros Hk. unfold div_ceil.
  pose proof (N.mul_succ_div_gt (n + k - 1) k ltac:(lia)) as H.
  rewrite N.mul_succ_r in H. lia.
Qed.

Lemma div_ceil_le n k : 0 < k -> k * div_ceil n k <= n + k - 1.
Proof.
  intros Hk. unfold div_ceil. apply N.mul_div_le. lia.
Qed.

(** * Lists over [nseq] *)
Lemma last_nseq : forall m a d, last (nseq a (S m)) d = a + N.of_nat m.
Proof.
  induction m as [|m IH]; intros a d.
  - cbn [nseq last]. lia.
  - change (nseq a (S (S m))) with (a :: nseq (a + 1) (S m)).
    change (last (a :: nseq (a + 1) (S m)) d) with (last (nseq (a + 1) (S m)) d).
    rewrite IH. lia.
Qed.

Lemma last_map_ne {A B} (f : A -> B) : forall l d d', l <> [] -> last (map f l) d' = f (last l d).
Proof.
  induction l as [|a [|b l] IH]; intros d d' H; [congruence|reflexivity|].
  change (last (map f (a :: b :: l)) d') with (last (map f (b :: l)) d').
  change (last (a :: b :: l) d) with (last (b :: l) d).
  apply IH. discriminate.
Qed.

Lemma nondec_map_nseq (f : N -> N) : (forall i, f i <= f (i + 1)) ->
  forall m a, nondec (map f (nseq a m)) = true.
Proof.
  intros Hf. induction m as [|[|m] IH]; intros a; try reflexivity.
  change (nseq a (S (S m))) with (a :: nseq (a + 1) (S m)).
  change (nseq (a + 1) (S m)) with ((a + 1) :: nseq (a + 1 + 1) m) in *.
  cbn [map]. apply nondec_cons. split; [apply Hf|]. apply (IH (a + 1)).
Qed.

(** * Uniform cutpoints *)
Theorem uniform_cuts_legal : S_uniform_cuts_legal.
Proof.
  intros n k Hk. unfold uniform_cuts.
  set (d := div_ceil n k).
  set (f := fun i => N.min (i * d) n).
  assert (Hlen : length (map f (nseq 0 (S (N.to_nat k)))) = S (N.to_nat k)).
  { rewrite map_length. apply nseq_length. }
  assert (Hlast : last (map f (nseq 0 (S (N.to_nat k)))) 0 = n).
  { rewrite (last_map_ne f _ 0 0) by (cbn [nseq]; discriminate).
    rewrite last_nseq. unfold f. rewrite N.add_0_l, N2Nat.id.
    pose proof (div_ceil_ge n k Hk). fold d in H. rewrite N.mul_comm. lia. }
  assert (Hnd : nondec (map f (nseq 0 (S (N.to_nat k)))) = true).
  { apply nondec_map_nseq. intros i. unfold f. rewrite N.mul_add_distr_r. lia. }
  split; [|split; [|split]].
  - apply cuts_ok_spec. rewrite Hlen, Hlast. split; [lia|]. split; [exact Hnd|lia].
  - cbn [nseq map hd]. unfold f. rewrite N.mul_0_l. lia.
  - exact Hlast.
  - exact Hlen.
Qed.

Theorem boundaries_match_uniform : S_boundaries_match_uniform.
Proof.
  intros A L k (Hn & Hfrom & Hsplit) Hk bs.
  destruct (uniform_cuts_legal (lb_n L) k Hk) as (Hok & Hhd & Hlast & Hlen).
  fold bs in Hok, Hhd, Hlast, Hlen.
  split; [|split].
  - unfold into_par_uniform, split_iter. fold bs. rewrite (Hsplit bs Hok). reflexivity.
  - rewrite num_parts, Hlen. lia.
  - apply slices_cover_all; [rewrite Hn; exact Hok|exact Hhd|rewrite Hn; exact Hlast].
Qed.

Theorem boundaries_match_cutpoints : S_boundaries_match_cutpoints.
Proof.
  intros A L cp (Hn & Hfrom & Hsplit) Hok. split.
  - unfold into_par_cutpoints. rewrite (Hsplit cp Hok). reflexivity.
  - apply num_parts.
Qed.

(** * Chains *)
Theorem chainb_spec : S_chainb_spec.
Proof.
  intros rs. induction rs as [|[x y] rs IH]; intros a b; cbn [chainb chain].
  - apply N.eqb_eq.
  - rewrite !andb_true_iff, N.eqb_eq, N.leb_le, IH. tauto.
Qed.

Lemma nseq_app : forall x y a, nseq a (x + y) = nseq a x ++ nseq (a + N.of_nat x) y.
Proof.
  induction x as [|x IH]; intros y a.
  - cbn [Nat.add nseq app]. rewrite N.add_0_r. reflexivity.
  - cbn [Nat.add nseq app]. rewrite IH. f_equal. f_equal. f_equal. lia.
Qed.

Theorem chain_cover : S_chain_cover.
Proof.
  intros rs. induction rs as [|[x y] rs IH]; intros a b H; cbn [chain] in H.
  - subst b. split; [lia|]. rewrite N.sub_diag. reflexivity.
  - destruct H as (Hx & Hxy & H). subst x. destruct (IH y b H) as [Hyb Hflat].
    split; [lia|]. cbn [flat_map]. rewrite Hflat. unfold range_nodes. cbn [fst snd].
    replace (N.to_nat (b - a)) with (N.to_nat (y - a) + N.to_nat (b - y))%nat by lia.
    rewrite nseq_app. f_equal. f_equal. lia.
Qed.

(** * Node ranges *)
Lemma node_ranges_chain n g q : 0 < g -> n <= q * g -> (q - 1) * g < n \/ q = 0 ->
  forall m i0, i0 + N.of_nat (S m) = q -> i0 * g <= n ->
  chain (i0 * g) (map (fun i => (i * g, N.min n ((i + 1) * g))) (nseq i0 (S m))) n.
Proof.
  intros Hg Hq1 Hq2. induction m as [|m IH]; intros i0 Hi Hle.
  - cbn [nseq map chain]. split; [reflexivity|].
    replace (i0 + 1) with q by lia. split; lia.
  - change (nseq i0 (S (S m))) with (i0 :: nseq (i0 + 1) (S m)).
    cbn [map chain]. split; [reflexivity|].
    assert (Hin : (i0 + 1) * g <= (q - 1) * g).
    { apply N.mul_le_mono_r. lia. }
    assert (Hmin : N.min n ((i0 + 1) * g) = (i0 + 1) * g) by lia.
    rewrite Hmin. split.
    + rewrite N.mul_add_distr_r. lia.
    + apply IH; lia.
Qed.

Lemma Forall_map_nseq {B} (P : B -> Prop) (F : N -> B) : forall m a,
  (forall i, a <= i -> i < a + N.of_nat m -> P (F i)) -> Forall P (map F (nseq a m)).
Proof.
  induction m as [|m IH]; intros a H; cbn [nseq map]; constructor.
  - apply H; lia.
  - apply IH. intros i H1 H2. apply H; lia.
Qed.

Theorem node_ranges_partition : S_node_ranges_partition.
Proof.
  intros n g Hg. unfold node_ranges.
  set (q := div_ceil n g).
  pose proof (div_ceil_ge n g Hg) as Hge. fold q in Hge.
  pose proof (div_ceil_le n g Hg) as Hle. fold q in Hle.
  rewrite (N.mul_comm g q) in Hge, Hle.
  assert (Hq2 : (q - 1) * g < n \/ q = 0).
  { destruct (N.eq_dec q 0) as [Hq|Hq]; [right; exact Hq|left].
    assert (Hgq : 1 * g <= q * g) by (apply N.mul_le_mono_r; lia).
    rewrite N.mul_sub_distr_r, N.mul_1_l. lia. }
  split.
  - destruct (N.to_nat q) as [|m] eqn:Hm.
    + cbn [nseq map chain]. assert (Hq0 : q = 0) by lia. rewrite Hq0 in Hge. lia.
    + apply (node_ranges_chain n g q Hg); try lia.
  - apply Forall_map_nseq. intros i _ Hi. cbn [fst snd].
    assert (Hin : i * g <= (q - 1) * g) by (apply N.mul_le_mono_r; lia).
    destruct Hq2 as [Hq2|Hq2]; [|lia].
    rewrite N.mul_add_distr_r. lia.
Qed.

(** * FairChunks *)
Lemma nondec_tail a l : nondec (a :: l) = true -> nondec l = true.
Proof.
  destruct l as [|b l]; [reflexivity|]. intros H. apply nondec_cons in H. tauto.
Qed.

Lemma nondec_hd_le_all : forall l a, nondec (a :: l) = true -> Forall (fun x => a <= x) l.
Proof.
  induction l as [|b l IH]; intros a H; constructor.
  - apply nondec_cons in H. tauto.
  - apply nondec_cons in H. destruct H as [Hab H].
    apply (Forall_impl _ (fun x (Hx : b <= x) => N.le_trans _ _ _ Hab Hx)). apply IH. exact H.
Qed.

Lemma nondec_nth_le : forall l i j, nondec l = true -> (i <= j)%nat -> (j < length l)%nat ->
  nth i l 0 <= nth j l 0.
Proof.
  induction l as [|a l IH]; intros i j Hnd Hij Hj; cbn [length] in Hj; [lia|].
  destruct j as [|j].
  - assert (i = O) by lia. subst i. lia.
  - destruct i as [|i].
    + cbn [nth]. pose proof (nondec_hd_le_all l a Hnd) as Hall.
      rewrite Forall_forall in Hall. apply Hall. apply nth_In. lia.
    + cbn [nth]. apply IH; [apply (nondec_tail a l Hnd)|lia|lia].
Qed.

Lemma find_succ_some : forall cwf i t p w, find_succ cwf i t = Some (p, w) ->
  exists k, (k < length cwf)%nat /\ p = i + N.of_nat k /\ nth k cwf 0 = w /\ t <= w.
Proof.
  induction cwf as [|x cwf IH]; intros i t p w H; cbn [find_succ] in H; [discriminate|].
  destruct (N.leb_spec t x) as [Htx|Htx].
  - inversion H; subst. exists O. cbn [length nth]. repeat split; lia.
  - destruct (IH _ _ _ _ H) as (k & Hk & Hp & Hn & Hw).
    exists (S k). cbn [length nth]. repeat split; try assumption; lia.
Qed.

Lemma find_succ_none : forall cwf i t, find_succ cwf i t = None -> Forall (fun x => x < t) cwf.
Proof.
  induction cwf as [|x cwf IH]; intros i t H; cbn [find_succ] in H; [constructor|].
  destruct (N.leb_spec t x) as [Htx|Htx]; [discriminate|].
  constructor; [exact Htx|]. apply (IH _ _ H).
Qed.

Lemma last_In {A} : forall (l : list A) d, l <> [] -> In (last l d) l.
Proof.
  induction l as [|a [|b l] IH]; intros d H; [congruence|left; reflexivity|].
  right. apply IH. discriminate.
Qed.

Lemma fair_chunks_chain cwf target n' :
  0 < target -> nondec cwf = true -> length cwf = S n' ->
  forall fuel pos w,
  (N.to_nat pos <= n')%nat -> nth (N.to_nat pos) cwf 0 = w -> (n' - N.to_nat pos < fuel)%nat ->
  chain pos (fair_chunks fuel cwf target pos w (N.of_nat n') (last cwf 0)) (N.of_nat n').
Proof.
  intros Ht Hnd Hlen. induction fuel as [|f IH]; intros pos w Hpos Hw Hfuel; [lia|].
  cbn [fair_chunks].
  destruct (N.eqb_spec target 0) as [H0|_]; [lia|].
  destruct (N.ltb_spec (last cwf 0) (w + target)) as [Hmax|Hmax].
  - cbn [chain]. repeat split; lia.
  - destruct (find_succ cwf 0 (w + target)) as [[p w']|] eqn:Hfs.
    + destruct (find_succ_some _ _ _ _ _ Hfs) as (k & Hk & Hp & Hn & Hw').
      assert (Hgt : (N.to_nat pos < k)%nat).
      { destruct (Nat.lt_ge_cases (N.to_nat pos) k) as [Hlt|Hge]; [exact Hlt|].
        pose proof (nondec_nth_le cwf k (N.to_nat pos) Hnd Hge ltac:(lia)) as Hmono. lia. }
      cbn [chain]. split; [reflexivity|]. split; [lia|].
      apply IH; [lia| |lia].
      replace (N.to_nat p) with k by lia. exact Hn.
    + exfalso. pose proof (find_succ_none _ _ _ Hfs) as Hall.
      rewrite Forall_forall in Hall.
      assert (Hne : cwf <> []) by (destruct cwf; [discriminate|congruence]).
      specialize (Hall _ (last_In cwf 0 Hne)). lia.
Qed.

Lemma cwf_ok_spec cwf : cwf_ok cwf = true ->
  exists n', length cwf = S n' /\ nth 0 cwf 0 = 0 /\ nondec cwf = true.
Proof.
  destruct cwf as [|c0 cwf]; [discriminate|]. cbn [cwf_ok].
  rewrite andb_true_iff, N.eqb_eq. intros [H0 Hnd].
  exists (length cwf). cbn [length nth]. tauto.
Qed.

Theorem fair_chunks_partition : S_fair_chunks_partition.
Proof.
  intros cwf target Hok Ht.
  destruct (cwf_ok_spec cwf Hok) as (n' & Hlen & H0 & Hnd).
  unfold fair_chunks_new, fair_chunks_with, nlen. rewrite Hlen.
  replace (N.of_nat (S n') - 1) with (N.of_nat n') by lia.
  apply (fair_chunks_chain cwf target n' Ht Hnd Hlen); change (N.to_nat 0) with O; [lia|exact H0|lia].
Qed.

(** * Degree-balanced cutpoints *)
Lemma chain_cuts : forall rs a b, chain a rs b ->
  nondec (a :: map snd rs) = true /\ last (a :: map snd rs) 0 = b.
Proof.
  induction rs as [|[x y] rs IH]; intros a b H; cbn [chain] in H.
  - subst b. split; reflexivity.
  - destruct H as (Hx & Hxy & H). subst x. destruct (IH y b H) as [Hnd Hlast].
    cbn [map snd]. split.
    + apply nondec_cons. split; assumption.
    + rewrite last_cons. exact Hlast.
Qed.

Theorem dcf_cuts_legal : S_dcf_cuts_legal.
Proof.
  intros cwf k Hok Hk n cuts.
  destruct (cwf_ok_spec cwf Hok) as (n' & Hlen & H0 & Hnd).
  assert (Hn : n = N.of_nat n') by (unfold n, nlen; rewrite Hlen; lia).
  unfold cuts, dcf_cuts, fair_chunks_with.
  set (arcs := last cwf 0).
  destruct (N.eq_dec arcs 0) as [Ha|Ha].
  - (* no arcs: target 0, no chunk *)
    assert (Htz : div_ceil arcs k = 0).
    { unfold div_ceil. rewrite Ha. apply N.div_small. lia. }
    rewrite Htz. cbn [fair_chunks]. change (0 =? 0) with true. cbn [map app].
    repeat split; try reflexivity.
    apply cuts_ok_spec. cbn [length last nondec]. repeat split; try lia.
  - assert (Htp : 0 < div_ceil arcs k).
    { pose proof (div_ceil_ge arcs k Hk). destruct (N.eq_dec (div_ceil arcs k) 0) as [Hz|Hz]; [|lia].
      rewrite Hz in H. lia. }
    pose proof (fair_chunks_chain cwf (div_ceil arcs k) n' Htp Hnd Hlen (S (length cwf)) 0 0) as Hch.
    change (N.to_nat 0) with O in Hch. specialize (Hch ltac:(lia) H0 ltac:(lia)).
    fold arcs in Hch. rewrite <- Hn in Hch.
    destruct (chain_cuts _ _ _ Hch) as [Hcnd Hclast].
    destruct (fair_chunks (S (length cwf)) cwf (div_ceil arcs k) 0 0 n arcs) as [|c cs] eqn:Hfc.
    + cbn [chain] in Hch. cbn [map app]. rewrite <- Hch.
      repeat split; try reflexivity; try contradiction.
    + cbn [map] in *. repeat split.
      * apply cuts_ok_spec. cbn [length]. rewrite Hclast. repeat split; [lia|exact Hcnd|lia].
      * exact Hclast.
      * intros Hz. contradiction.
Qed.

Lemma nondec_cons_hd a l : a <= hd a l -> nondec l = true -> nondec (a :: l) = true.
Proof.
  destruct l as [|b l]; intros H1 H2; [reflexivity|].
  apply nondec_cons. split; assumption.
Qed.

Lemma cumul_spec : forall ds acc,
  nondec (cumul acc ds) = true /\ length (cumul acc ds) = S (length ds)
  /\ hd 0 (cumul acc ds) = acc.
Proof.
  induction ds as [|d ds IH]; intros acc; cbn [cumul].
  - repeat split.
  - destruct (IH (acc + d)) as (Hnd & Hlen & Hhd). split; [|split].
    + apply nondec_cons_hd; [|exact Hnd].
      destruct (cumul (acc + d) ds) as [|c cs]; cbn [hd] in *; lia.
    + cbn [length]. rewrite Hlen. reflexivity.
    + reflexivity.
Qed.

Theorem dcf_of_ok : S_dcf_of_ok.
Proof.
  intros A l. unfold dcf_of.
  destruct (cumul_spec (map (fun e => nlen (snd e)) l) 0) as (Hnd & Hlen & Hhd).
  split.
  - destruct (cumul 0 (map (fun e => nlen (snd e)) l)) as [|c cs]; [discriminate|].
    cbn [cwf_ok hd] in *. subst c. rewrite Hnd. reflexivity.
  - unfold nlen at 1. rewrite Hlen, map_length. unfold nlen. lia.
Qed.
