(** Proofs about the machine of [par_map_fold2_with] (PMF/Sched.v): the measure decreases,
    an invariant holds in every reachable state, no reachable state is a deadlock, final
    states carry the sequential fold, and the executable runner terminates with it under
    every schedule. *)
From WG Require Import Base.Prelude PMF.Sched PMF.Statements PMF.ValueFacts.
From Coq Require Import ZifyBool ZifyN ZifyNat.

(** * Lists *)
Lemma upd_length {A} : forall (l : list A) i x, length (upd l i x) = length l.
Proof.
  induction l as [|a l IH]; intros i x; destruct i; cbn [upd length]; try reflexivity.
  rewrite IH. reflexivity.
Qed.

Lemma sum_upd {A} (w : A -> nat) : forall (l : list A) i x y,
  nth_error l i = Some y ->
  (list_sum (map w (upd l i x)) + w y = list_sum (map w l) + w x)%nat.
Proof.
  induction l as [|a l IH]; intros i x y H; destruct i; cbn [nth_error] in H; try discriminate.
  - injection H as ->. simpl. lia.
  - simpl. specialize (IH i x y H). lia.
Qed.

Lemma existsb_upd {A} (p : A -> bool) : forall (l : list A) i x,
  existsb p (upd l i x) = true -> p x = true \/ existsb p l = true.
Proof.
  induction l as [|a l IH]; intros i x H; destruct i; cbn [upd existsb] in *;
    try discriminate.
  - apply orb_true_iff in H. destruct H as [H|H]; [left; exact H|right].
    rewrite H. apply orb_true_r.
  - apply orb_true_iff in H. destruct H as [H|H].
    + right. rewrite H. reflexivity.
    + destruct (IH i x H) as [H'|H']; [left; exact H'|right]. rewrite H'. apply orb_true_r.
Qed.

Lemma existsb_nth {A} (p : A -> bool) (l : list A) :
  existsb p l = true -> exists i x, nth_error l i = Some x /\ p x = true.
Proof.
  intros H. apply existsb_exists in H. destruct H as (x & Hin & Hp).
  apply In_nth_error in Hin. destruct Hin as [i Hi]. exists i, x. split; assumption.
Qed.

Lemma nth_existsb {A} (p : A -> bool) (l : list A) i x :
  nth_error l i = Some x -> p x = true -> existsb p l = true.
Proof.
  intros H Hp. apply existsb_exists. exists x. split; [|exact Hp].
  apply nth_error_In with i. exact H.
Qed.

Lemma forallb_nth {A} (p : A -> bool) (l : list A) i x :
  forallb p l = true -> nth_error l i = Some x -> p x = true.
Proof.
  intros H Hn. rewrite forallb_forall in H. apply H. apply nth_error_In with i. exact Hn.
Qed.

Lemma forallb_false_nth {A} (p : A -> bool) : forall (l : list A),
  forallb p l = false -> exists i x, nth_error l i = Some x /\ p x = false.
Proof.
  induction l as [|a l IH]; intros H; cbn [forallb] in H; [discriminate|].
  destruct (p a) eqn:Ea.
  - cbn [andb] in H. destruct (IH H) as (i & x & Hi & Hx). exists (S i), x. split; assumption.
  - exists O, a. split; [reflexivity|exact Ea].
Qed.

Lemma filter_none {A} (p : A -> bool) : forall (l : list A),
  (forall x, In x l -> p x = false) -> filter p l = [].
Proof.
  induction l as [|a l IH]; intros H; cbn [filter]; [reflexivity|].
  rewrite (H a (or_introl eq_refl)). apply IH. intros x Hx. apply H. right. exact Hx.
Qed.

(** * Inversion of a step *)
Ltac step_inv H :=
  unfold set_cons in H;
  repeat match type of H with
  | context [match ?x with _ => _ end] =>
      let E := fresh "E" in destruct x eqn:E; try discriminate H
  end;
  try (injection H as H; subst).

(** * The measure decreases *)
Theorem measure_decreases : S_measure_decreases.
Proof.
  intros k s s' l H. destruct s as [ph rest inq cons outq self got].
  unfold measure. destruct l; cbn [step s_phase s_rest s_inq s_cons s_outq s_self s_got set_cons] in H;
    step_inv H; cbn [s_phase s_rest s_inq s_cons s_outq s_self s_got pweight length];
    rewrite ?app_length; cbn [length];
    try match goal with
    | E : nth_error cons ?c = Some ?y |- context [upd cons ?c ?x] =>
        pose proof (sum_upd cweight cons c x y E) as Hs; cbn [cweight] in Hs
    end; lia.
Qed.

(** * Invariant *)
Definition ndw (c : cstate) : nat := if is_done c then 0 else 1.
Definition notdone (cs : list cstate) : nat := list_sum (map ndw cs).
Definition acc_of (c : cstate) : list N := match c with CRunning _ a => a | _ => [] end.
Definition accs (cs : list cstate) : list N := flat_map acc_of cs.
Definition cnt (l : list N) (z : N) : nat := count_occ N.eq_dec l z.

Definition pool (s : st) : list N :=
  s_self s ++ concat (s_got s) ++ concat (s_outq s) ++ accs (s_cons s) ++ s_inq s ++ s_rest s.

Lemma cnt_app l1 l2 z : cnt (l1 ++ l2) z = (cnt l1 z + cnt l2 z)%nat.
Proof. apply count_occ_app. Qed.

Lemma cnt_cons x l z : cnt (x :: l) z = (cnt [x] z + cnt l z)%nat.
Proof. change (x :: l) with ([x] ++ l). apply cnt_app. Qed.

Lemma cnt_nil z : cnt [] z = 0%nat.
Proof. reflexivity. Qed.

Lemma cnt_concat_cons r l z : cnt (concat (r :: l)) z = (cnt r z + cnt (concat l) z)%nat.
Proof. cbn [concat]. apply cnt_app. Qed.

Lemma cnt_concat_snoc l r z : cnt (concat (l ++ [r])) z = (cnt (concat l) z + cnt r z)%nat.
Proof. rewrite concat_app, cnt_app. cbn [concat]. rewrite app_nil_r. reflexivity. Qed.

Lemma cnt_accs_upd z : forall cs c x y,
  nth_error cs c = Some y ->
  (cnt (acc_of y) z + cnt (accs (upd cs c x)) z = cnt (acc_of x) z + cnt (accs cs) z)%nat.
Proof.
  unfold accs.
  induction cs as [|a cs IH]; intros c x y H; destruct c; cbn [nth_error] in H; try discriminate.
  - injection H as ->. cbn [upd flat_map]. rewrite !cnt_app. lia.
  - cbn [upd flat_map]. rewrite !cnt_app. specialize (IH c x y H). lia.
Qed.

Record Inv (k : cfg) (items : list N) (s : st) : Prop := {
  i_len : length (s_cons s) = c_tasks k;
  i_out : (length (s_outq s) + length (s_got s) + notdone (s_cons s) = c_tasks k)%nat;
  i_done : existsb is_done (s_cons s) = true -> s_phase s <> Feeding /\ s_inq s = [];
  i_rest : s_phase s <> Feeding -> s_rest s = [];
  i_ret : s_phase s = Returned -> all_done (s_cons s) = true /\ s_outq s = [];
  i_cnt : forall z, cnt (pool s) z = cnt items z }.

Lemma notdone_repeat n : notdone (repeat CQueued n) = n.
Proof. unfold notdone. induction n as [|n IH]; simpl; [reflexivity|]. rewrite IH. reflexivity. Qed.

Lemma existsb_done_repeat n : existsb is_done (repeat CQueued n) = false.
Proof. induction n as [|n IH]; cbn [repeat existsb is_done orb]; [reflexivity|exact IH]. Qed.

Lemma accs_repeat n : accs (repeat CQueued n) = [].
Proof. unfold accs. induction n as [|n IH]; cbn [repeat flat_map acc_of app]; [reflexivity|exact IH]. Qed.

Lemma inv_init k items : Inv k items (init k items).
Proof.
  unfold init. constructor; cbn [s_phase s_rest s_inq s_cons s_outq s_self s_got].
  - apply repeat_length.
  - rewrite notdone_repeat. reflexivity.
  - rewrite existsb_done_repeat. discriminate.
  - intros H. exfalso. apply H. reflexivity.
  - discriminate.
  - intros z. unfold pool. cbn [s_phase s_rest s_inq s_cons s_outq s_self s_got concat app].
    rewrite accs_repeat. reflexivity.
Qed.

Lemma all_done_upd_contra cs c y :
  all_done cs = true -> nth_error cs c = Some y -> is_done y = false -> False.
Proof.
  intros Ha Hn Hd. unfold all_done in Ha. rewrite (forallb_nth _ _ _ _ Ha Hn) in Hd. discriminate.
Qed.

Ltac mk_inv :=
  constructor; cbn [s_phase s_rest s_inq s_cons s_outq s_self s_got]; try assumption;
  try (let Hx := fresh in intros Hx; discriminate Hx);
  try (let Hf := fresh in intros Hf; exfalso; apply Hf; reflexivity).

Lemma inv_step k items s l s' : Inv k items s -> step k s l = Some s' -> Inv k items s'.
Proof.
  intros I H. destruct s as [ph rest inq cons outq self got].
  pose proof (i_len _ _ _ I) as Ilen. pose proof (i_out _ _ _ I) as Iout.
  pose proof (i_done _ _ _ I) as Idone. pose proof (i_rest _ _ _ I) as Irest.
  pose proof (i_ret _ _ _ I) as Iret. pose proof (i_cnt _ _ _ I) as Icnt.
  unfold pool in Icnt.
  cbn [s_phase s_rest s_inq s_cons s_outq s_self s_got] in *.
  destruct l; cbn [step s_phase s_rest s_inq s_cons s_outq s_self s_got set_cons] in H;
    step_inv H.
  - (* LFeedSend *)
    mk_inv.
    + intros Hd. destruct (Idone Hd) as [Hf _]. exfalso. apply Hf. reflexivity.
    + intros z. specialize (Icnt z). unfold pool.
      cbn [s_phase s_rest s_inq s_cons s_outq s_self s_got].
      rewrite !cnt_app in *. rewrite (cnt_cons n l) in Icnt. lia.
  - (* LFeedSelf *)
    mk_inv.
    intros z. specialize (Icnt z). unfold pool.
    cbn [s_phase s_rest s_inq s_cons s_outq s_self s_got].
    rewrite !cnt_app in *. rewrite (cnt_cons n l) in Icnt. rewrite (cnt_cons n self). lia.
  - (* LClose *)
    mk_inv.
    + intros Hd. destruct (Idone Hd) as [Hf _]. exfalso. apply Hf. reflexivity.
    + reflexivity.
  - (* LStart *)
    mk_inv.
    + rewrite upd_length. exact Ilen.
    + unfold notdone in *. pose proof (sum_upd ndw cons c (CRunning w []) _ E0) as Hs.
      cbn [ndw is_done] in Hs. lia.
    + intros Hd. apply existsb_upd in Hd. destruct Hd as [Hd|Hd]; [discriminate Hd|]. exact (Idone Hd).
    + intros Hr. destruct (Iret Hr) as [Ha _]. exfalso.
      exact (all_done_upd_contra _ _ _ Ha E0 eq_refl).
    + intros z. specialize (Icnt z). unfold pool.
      cbn [s_phase s_rest s_inq s_cons s_outq s_self s_got].
      pose proof (cnt_accs_upd z cons c (CRunning w []) _ E0) as Ha. cbn [acc_of] in Ha.
      rewrite !cnt_app in *. rewrite cnt_nil in Ha. lia.
  - (* LRecv *)
    mk_inv.
    + rewrite upd_length. exact Ilen.
    + unfold notdone in *. pose proof (sum_upd ndw cons c (CRunning w (n :: acc)) _ E) as Hs.
      cbn [ndw is_done] in Hs. lia.
    + intros Hd. apply existsb_upd in Hd. destruct Hd as [Hd|Hd]; [discriminate Hd|].
      destruct (Idone Hd) as [_ Hq]. discriminate Hq.
    + intros Hr. destruct (Iret Hr) as [Ha _]. exfalso.
      exact (all_done_upd_contra _ _ _ Ha E eq_refl).
    + intros z. specialize (Icnt z). unfold pool.
      cbn [s_phase s_rest s_inq s_cons s_outq s_self s_got].
      pose proof (cnt_accs_upd z cons c (CRunning w (n :: acc)) _ E) as Ha. cbn [acc_of] in Ha.
      rewrite !cnt_app in *. rewrite (cnt_cons n acc) in Ha. rewrite (cnt_cons n l) in Icnt. lia.
  - (* LFinish, Draining *)
    mk_inv.
    + rewrite upd_length. exact Ilen.
    + unfold notdone in *. pose proof (sum_upd ndw cons c CDone _ E) as Hs.
      cbn [ndw is_done] in Hs. rewrite app_length. cbn [length]. lia.
    + intros _. split; [discriminate|reflexivity].
    + intros z. specialize (Icnt z). unfold pool.
      cbn [s_phase s_rest s_inq s_cons s_outq s_self s_got].
      pose proof (cnt_accs_upd z cons c CDone _ E) as Ha. cbn [acc_of] in Ha.
      rewrite !cnt_app in *. rewrite cnt_concat_snoc. rewrite cnt_nil in Ha. lia.
  - (* LFinish, Returned: impossible, all consumers are done *)
    exfalso. destruct (Iret eq_refl) as [Ha _].
    exact (all_done_upd_contra _ _ _ Ha E eq_refl).
  - (* LDrainRecv *)
    mk_inv.
    + cbn [length] in *. lia.
    + intros z. specialize (Icnt z). unfold pool.
      cbn [s_phase s_rest s_inq s_cons s_outq s_self s_got].
      rewrite !cnt_app in *. rewrite cnt_concat_cons in *. lia.
  - (* LDrainYield *)
    mk_inv.
    + rewrite upd_length. exact Ilen.
    + unfold notdone in *. pose proof (sum_upd ndw cons c (CRunning 0 []) _ E1) as Hs.
      cbn [ndw is_done] in Hs. lia.
    + intros Hd. apply existsb_upd in Hd. destruct Hd as [Hd|Hd]; [discriminate Hd|]. exact (Idone Hd).
    + intros z. specialize (Icnt z). unfold pool.
      cbn [s_phase s_rest s_inq s_cons s_outq s_self s_got].
      pose proof (cnt_accs_upd z cons c (CRunning 0 []) _ E1) as Ha. cbn [acc_of] in Ha.
      rewrite !cnt_app in *. rewrite cnt_nil in Ha. lia.
  - (* LDrainEnd *)
    apply andb_true_iff in E1. destruct E1 as [_ Hall].
    mk_inv.
    + intros Hd. destruct (Idone Hd) as [_ Hq]. split; [discriminate|exact Hq].
    + intros _. apply Irest. discriminate.
    + intros _. split; [exact Hall|reflexivity].
Qed.

Lemma inv_reachable k items s : reachable k items s -> Inv k items s.
Proof.
  induction 1 as [|s l s' _ IH Hs]; [apply inv_init|]. exact (inv_step _ _ _ _ _ IH Hs).
Qed.

(** * Progress *)
Definition is_running (c : cstate) : bool := match c with CRunning _ _ => true | _ => false end.

Lemma busy_no_running cs w : existsb is_running cs = false -> busy cs w = false.
Proof.
  intros H. unfold busy. destruct (existsb (runs_on w) cs) eqn:E; [|reflexivity].
  apply existsb_nth in E. destruct E as (i & x & Hi & Hx).
  assert (is_running x = true) by (destruct x; try discriminate; reflexivity).
  rewrite (nth_existsb _ _ _ _ Hi H0) in H. discriminate.
Qed.

Lemma notdone_pos cs c y : nth_error cs c = Some y -> is_done y = false -> (1 <= notdone cs)%nat.
Proof.
  intros Hn Hd. unfold notdone.
  pose proof (sum_upd ndw cs c CDone y Hn) as Hs.
  assert (H1 : ndw y = 1%nat) by (unfold ndw; rewrite Hd; reflexivity).
  assert (H0 : ndw CDone = 0%nat) by reflexivity. lia.
Qed.

(** a running consumer can always move once the input channel is closed *)
Lemma running_moves k items s c w acc :
  Inv k items s -> s_phase s = Draining ->
  nth_error (s_cons s) c = Some (CRunning w acc) ->
  exists l s', step k s l = Some s'.
Proof.
  intros I Hp Hn. destruct (s_inq s) as [|x q] eqn:Eq.
  - exists (LFinish c). cbn [step]. rewrite Hn, Eq, Hp.
    pose proof (i_out _ _ _ I) as Hout.
    pose proof (notdone_pos _ _ _ Hn eq_refl) as Hpos.
    destruct (Nat.ltb_spec (length (s_outq s)) (c_tasks k)) as [_|Hge]; [eexists; reflexivity|lia].
  - exists (LRecv c). cbn [step]. rewrite Hn, Eq. eexists; reflexivity.
Qed.

Theorem progress : S_progress.
Proof.
  intros k items s HN HT Hr Hfin. pose proof (inv_reachable _ _ _ Hr) as I.
  destruct (s_phase s) eqn:Hp.
  - (* Feeding: the feeder never blocks *)
    destruct (s_rest s) as [|x r] eqn:Er.
    + exists LClose. cbn [step]. rewrite Hp, Er. eexists; reflexivity.
    + destruct (Nat.ltb (length (s_inq s)) (2 * c_tasks k)) eqn:El.
      * exists LFeedSend. cbn [step]. rewrite Hp, Er, El. eexists; reflexivity.
      * exists LFeedSelf. cbn [step]. rewrite Hp, Er, El. eexists; reflexivity.
  - (* Draining *)
    destruct (existsb is_running (s_cons s)) eqn:Erun.
    + (* some consumer runs: it can move *)
      apply existsb_nth in Erun. destruct Erun as (c & y & Hn & Hy).
      destruct y as [|w acc|]; try discriminate.
      exact (running_moves _ _ _ _ _ _ I Hp Hn).
    + (* nobody runs: the caller is free *)
      assert (Hfree : caller_free k s = true).
      { unfold caller_free. rewrite (busy_no_running _ 0 Erun). rewrite andb_false_r. reflexivity. }
      destruct (s_outq s) as [|r o] eqn:Eo.
      * destruct (all_done (s_cons s)) eqn:Eall.
        -- exists LDrainEnd. cbn [step]. rewrite Hp, Eo, Hfree, Eall. eexists; reflexivity.
        -- apply forallb_false_nth in Eall. destruct Eall as (c & y & Hn & Hy).
           assert (y = CQueued).
           { destruct y as [|w acc|]; [reflexivity| |discriminate].
             rewrite (nth_existsb is_running _ _ _ Hn eq_refl) in Erun. discriminate. }
           subst y. destruct (c_internal k) eqn:Eint.
           ++ exists (LDrainYield c). cbn [step]. rewrite Hp, Eint, (busy_no_running _ 0 Erun), Hn.
              eexists; reflexivity.
           ++ exists (LStart 0 c). cbn [step]. rewrite Eint, (busy_no_running _ 0 Erun), Hn.
              destruct (Nat.ltb_spec 0 (c_workers k)) as [_|Hge]; [|lia].
              eexists; reflexivity.
      * exists LDrainRecv. cbn [step]. rewrite Hp, Eo, Hfree. eexists; reflexivity.
  - unfold final in Hfin. rewrite Hp in Hfin. discriminate.
Qed.

(** * [stuck] is exact *)
Lemma label_in_all k items s l s' :
  Inv k items s -> step k s l = Some s' -> In l (all_labels k).
Proof.
  intros I H. pose proof (i_len _ _ _ I) as Ilen. unfold all_labels.
  assert (Hc : forall c x, nth_error (s_cons s) c = Some x -> In c (seq 0 (c_tasks k))).
  { intros c x Hn. apply in_seq. rewrite <- Ilen.
    assert (c < length (s_cons s))%nat by (apply nth_error_Some; rewrite Hn; discriminate). lia. }
  destruct l; try (cbn; tauto); apply in_or_app; right; apply in_flat_map;
    cbn [step] in H.
  - (* LStart *)
    destruct ((w <? c_workers k)%nat && negb (c_internal k && Nat.eqb w 0) && negb (busy (s_cons s) w)) eqn:G;
      [|discriminate].
    destruct (nth_error (s_cons s) c) as [y|] eqn:Hn; [|discriminate].
    exists c. split; [exact (Hc _ _ Hn)|]. right. right. right. apply in_map_iff. exists w. split; [reflexivity|]. apply in_seq.
    apply andb_true_iff in G. destruct G as [G _]. apply andb_true_iff in G. destruct G as [G _].
    apply Nat.ltb_lt in G. lia.
  - destruct (nth_error (s_cons s) c) as [y|] eqn:Hn; [|discriminate].
    exists c. split; [exact (Hc _ _ Hn)|]. left. reflexivity.
  - destruct (nth_error (s_cons s) c) as [y|] eqn:Hn; [|discriminate].
    exists c. split; [exact (Hc _ _ Hn)|]. right. left. reflexivity.
  - destruct (s_phase s); try discriminate.
    destruct (c_internal k && negb (busy (s_cons s) 0)); [|discriminate].
    destruct (nth_error (s_cons s) c) as [y|] eqn:Hn; [|discriminate].
    exists c. split; [exact (Hc _ _ Hn)|]. right. right. left. reflexivity.
Qed.

Theorem stuck_spec : S_stuck_spec.
Proof.
  intros k items s Hr. pose proof (inv_reachable _ _ _ Hr) as I. unfold stuck, enabled. split.
  - intros H l. destruct (step k s l) as [s'|] eqn:Hs; [|reflexivity]. exfalso.
    pose proof (label_in_all _ _ _ _ _ I Hs) as Hin.
    assert (Hf : In l (filter (fun l => is_some (step k s l)) (all_labels k))).
    { apply filter_In. split; [exact Hin|]. rewrite Hs. reflexivity. }
    destruct (filter (fun l => is_some (step k s l)) (all_labels k)); [contradiction|discriminate].
  - intros H. rewrite filter_none; [reflexivity|]. intros l _. rewrite H. reflexivity.
Qed.

(** * Value of final states *)
Lemma accs_all_done cs : all_done cs = true -> accs cs = [].
Proof.
  unfold accs, all_done. induction cs as [|a cs IH]; intros H; cbn [forallb flat_map] in *; [reflexivity|].
  apply andb_true_iff in H. destruct H as [Ha H]. destruct a; try discriminate.
  cbn [acc_of app]. apply IH. exact H.
Qed.

Lemma cnt_rev l z : cnt (lrev l) z = cnt l z.
Proof. unfold lrev. rewrite <- rev_alt. unfold cnt. apply count_occ_rev. Qed.

Lemma cnt_concat_map_lrev : forall l z, cnt (concat (map lrev l)) z = cnt (concat l) z.
Proof.
  induction l as [|a l IH]; intros z; cbn [map concat]; [reflexivity|].
  rewrite !cnt_app, cnt_rev, IH. reflexivity.
Qed.

Lemma cnt_concat_rev : forall (l : list (list N)) z, cnt (concat (rev l)) z = cnt (concat l) z.
Proof.
  induction l as [|a l IH]; intros z; cbn [rev concat]; [reflexivity|].
  rewrite cnt_concat_snoc, cnt_app, IH. lia.
Qed.

Lemma final_pool k items s :
  (1 <= c_tasks k)%nat -> Inv k items s -> final s = true ->
  Permutation (lrev (s_self s) ++ concat (map lrev (lrev (s_got s)))) items.
Proof.
  intros HT I Hf. unfold final in Hf. destruct (s_phase s) eqn:Hp; try discriminate.
  destruct (i_ret _ _ _ I Hp) as [Hall Hout].
  assert (Hrest : s_rest s = []) by (apply (i_rest _ _ _ I); rewrite Hp; discriminate).
  assert (Hinq : s_inq s = []).
  { apply (i_done _ _ _ I). pose proof (i_len _ _ _ I) as Hl.
    destruct (s_cons s) as [|a cs]; [cbn [length] in Hl; lia|].
    cbn [existsb]. unfold all_done in Hall. cbn [forallb] in Hall.
    apply andb_true_iff in Hall. destruct Hall as [Ha _]. rewrite Ha. reflexivity. }
  apply (Permutation_count_occ N.eq_dec). intros z.
  pose proof (i_cnt _ _ _ I z) as Hc. unfold pool in Hc.
  rewrite Hout, Hrest, Hinq, (accs_all_done _ Hall) in Hc. cbn [concat app] in Hc.
  rewrite !app_nil_r in Hc. fold (cnt items z). rewrite <- Hc.
  fold (cnt (lrev (s_self s) ++ concat (map lrev (lrev (s_got s)))) z).
  rewrite !cnt_app, cnt_rev, cnt_concat_map_lrev. unfold lrev at 1. rewrite <- rev_alt.
  rewrite cnt_concat_rev. reflexivity.
Qed.

Theorem machine_value : S_machine_value.
Proof.
  intros R A f inner outer dflt Hmon Hc k items s HT Hr Hf.
  unfold st_value. apply fold_value; try assumption.
  apply final_pool with k; [exact HT|apply inv_reachable; exact Hr|exact Hf].
Qed.

(** * The runner *)
Lemma nth_mod_in {A} (en : list A) l0 ch : en <> [] -> In (nth (ch mod length en) en l0) en.
Proof.
  intros H. apply nth_In. apply Nat.mod_upper_bound. destruct en; [contradiction|discriminate].
Qed.

Lemma run_ok k items : (1 <= c_workers k)%nat -> (1 <= c_tasks k)%nat ->
  forall fuel s sched0 sched,
  reachable k items s -> (measure s <= fuel)%nat ->
  exists s', reachable k items s' /\ final s' = true
    /\ run k fuel sched0 sched s = Terminated (lrev (s_self s')) (map lrev (lrev (s_got s'))).
Proof.
  intros HN HT. induction fuel as [|fuel IH]; intros s sched0 sched Hr Hm.
  - destruct (final s) eqn:Hf.
    + exists s. split; [exact Hr|]. split; [exact Hf|]. cbn [run]. rewrite Hf. reflexivity.
    + exfalso. destruct (progress k items s HN HT Hr Hf) as (l & s' & Hs).
      pose proof (measure_decreases _ _ _ _ Hs). lia.
  - destruct (final s) eqn:Hf.
    + exists s. split; [exact Hr|]. split; [exact Hf|]. cbn [run]. rewrite Hf. reflexivity.
    + cbn [run]. rewrite Hf.
      set (en0 := filter (fun l => is_some (step k s l)) (candidates k s)).
      set (en := match en0 with [] => enabled k s | _ => en0 end).
      assert (Hall : forall l, In l en -> is_some (step k s l) = true).
      { intros l Hin. subst en. destruct en0 eqn:E0.
        - unfold enabled in Hin. apply filter_In in Hin. apply Hin.
        - rewrite <- E0 in Hin. subst en0. apply filter_In in Hin. apply Hin. }
      assert (Hne : en <> []).
      { subst en. destruct en0 eqn:E0; [|discriminate].
        intros Hnil. destruct (progress k items s HN HT Hr Hf) as (l & s' & Hs).
        assert (Hst : stuck k s = true) by (unfold stuck; rewrite Hnil; reflexivity).
        apply (stuck_spec k items s Hr) with (l := l) in Hst. rewrite Hs in Hst. discriminate. }
      destruct en as [|l0 en'] eqn:Een; [contradiction|].
      rewrite <- Een in *.
      pose proof (Hall _ (nth_mod_in en l0 (fst (next_choice sched0 sched)) Hne)) as Hsome.
      destruct (step k s (nth (fst (next_choice sched0 sched) mod length en) en l0)) as [s'|] eqn:Hs;
        [|discriminate].
      apply IH.
      * exact (reach_step _ _ _ _ _ Hr Hs).
      * pose proof (measure_decreases _ _ _ _ Hs) as Hd. clear - Hd Hm. lia.
Qed.

Theorem run_total : S_run_total.
Proof.
  intros R A f inner outer dflt Hmon Hc workers hint internal len sched HN.
  unfold pmf_run.
  set (k := mkCfg workers (pmf_tasks workers hint) internal).
  assert (HT : (1 <= c_tasks k)%nat) by (subst k; cbn [c_tasks]; unfold pmf_tasks; apply Nat.le_max_l).
  destruct (run_ok k (nseq 0 len) HN HT _ _ sched sched (reach_init _ _) (le_n _))
    as (s' & Hr & Hf & Hrun).
  exists (lrev (s_self s')), (map lrev (lrev (s_got s'))). split; [exact Hrun|].
  exact (machine_value R A f inner outer dflt Hmon Hc k _ s' HT Hr Hf).
Qed.
