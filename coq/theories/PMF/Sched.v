(** Parallel map-fold ([ParMapFold::par_map_fold2_with] of webgraph/src/traits/par_map_fold.rs,
    to which [par_map_fold], [par_map_fold_with], [par_map_fold2] and, through
    [par_map_fold_with], [par_node_apply]/[par_apply] of traits/labels.rs delegate), as the
    code is after the "caller runs" repair: a small-step machine.  Definitions only.

    Participants.  A rayon pool with [c_workers] worker threads; the calling thread, which
    is either external to the pool ([c_internal = false]: the pool is the global one and
    the caller is a plain thread) or worker 0 of the pool ([c_internal = true]: the call is
    made inside [install] or inside a task); [c_tasks] consumer tasks spawned by
    [in_place_scope] (the code takes [pmf_tasks]); the input channel of capacity
    [2 * c_tasks]; the result channel of capacity [c_tasks].

    The caller's code: feed ([try_send]; when the channel is full it maps the item itself),
    close the channel, then drain the result channel with [try_recv]/[yield_now] until it
    is disconnected.  A pool thread that calls [yield_now] may execute a queued task on its
    own stack; an external thread just spins.  Spinning (a failed [try_recv] followed by a
    [yield_now] that finds nothing) does not change the state and is not a transition:
    absence of deadlock is the existence of a state-changing transition.

    Items are identified by their position in the input (an [N]); every accumulator is the
    list of the items folded so far, most recent first. *)
From WG Require Import Base.Prelude.

Module PmfM.

Inductive cstate :=
| CQueued                                  (* spawned, not yet started *)
| CRunning (w : nat) (acc : list N)        (* executing on worker w *)
| CDone.                                   (* result sent, closure dropped *)

Inductive phase := Feeding | Draining | Returned.

Record cfg := mkCfg {
  c_workers : nat;        (* threads of the pool the tasks are spawned into *)
  c_tasks : nat;          (* num_scoped_threads *)
  c_internal : bool }.    (* the caller is worker 0 of that pool *)

(** [num_scoped_threads]: [current_num_threads()], capped by the upper size hint when the
    iterator has one, at least one *)
Definition pmf_tasks (workers : nat) (hint : option nat) : nat :=
  Nat.max 1 (match hint with Some h => Nat.min workers h | None => workers end).

Record st := mkSt {
  s_phase : phase;
  s_rest : list N;              (* items the iterator has not produced yet *)
  s_inq : list N;               (* input channel, oldest first *)
  s_cons : list cstate;         (* the consumer tasks *)
  s_outq : list (list N);       (* result channel, oldest first *)
  s_self : list N;              (* items mapped by the caller, most recent first *)
  s_got : list (list N) }.      (* results folded by the caller, most recent first *)

Inductive label :=
| LFeedSend                 (* try_send succeeds *)
| LFeedSelf                 (* try_send reports Full: the caller maps the item *)
| LClose                    (* iterator exhausted: drop(in_tx) *)
| LStart (w c : nat)        (* idle pool worker w starts queued consumer c *)
| LRecv (c : nat)           (* running consumer c receives an item and folds it *)
| LFinish (c : nat)         (* running consumer c sees closed+empty, sends its result, ends *)
| LDrainRecv                (* caller: try_recv succeeds *)
| LDrainYield (c : nat)     (* caller (a pool thread): yield_now runs queued consumer c *)
| LDrainEnd.                (* caller: try_recv reports Disconnected *)

Fixpoint upd {A} (l : list A) (i : nat) (x : A) : list A :=
  match l, i with
  | [], _ => []
  | _ :: t, O => x :: t
  | h :: t, S j => h :: upd t j x
  end.

Definition runs_on (w : nat) (c : cstate) : bool :=
  match c with CRunning w' _ => Nat.eqb w w' | _ => false end.
Definition busy (cs : list cstate) (w : nat) : bool := existsb (runs_on w) cs.
Definition is_done (c : cstate) : bool := match c with CDone => true | _ => false end.
Definition all_done (cs : list cstate) : bool := forallb is_done cs.

(** the caller executes its own code (it is not inside a task it picked up in yield_now) *)
Definition caller_free (k : cfg) (s : st) : bool :=
  negb (c_internal k && busy (s_cons s) 0).

Definition set_cons (s : st) (cs : list cstate) : st :=
  mkSt (s_phase s) (s_rest s) (s_inq s) cs (s_outq s) (s_self s) (s_got s).

Definition step (k : cfg) (s : st) (l : label) : option st :=
  match l with
  | LFeedSend =>
      match s_phase s, s_rest s with
      | Feeding, x :: r =>
          if (length (s_inq s) <? 2 * c_tasks k)%nat
          then Some (mkSt Feeding r (s_inq s ++ [x]) (s_cons s) (s_outq s) (s_self s) (s_got s))
          else None
      | _, _ => None
      end
  | LFeedSelf =>
      match s_phase s, s_rest s with
      | Feeding, x :: r =>
          if (length (s_inq s) <? 2 * c_tasks k)%nat then None
          else Some (mkSt Feeding r (s_inq s) (s_cons s) (s_outq s) (x :: s_self s) (s_got s))
      | _, _ => None
      end
  | LClose =>
      match s_phase s, s_rest s with
      | Feeding, [] =>
          Some (mkSt Draining [] (s_inq s) (s_cons s) (s_outq s) (s_self s) (s_got s))
      | _, _ => None
      end
  | LStart w c =>
      if (w <? c_workers k)%nat && negb (c_internal k && Nat.eqb w 0) && negb (busy (s_cons s) w)
      then match nth_error (s_cons s) c with
           | Some CQueued => Some (set_cons s (upd (s_cons s) c (CRunning w [])))
           | _ => None
           end
      else None
  | LRecv c =>
      match nth_error (s_cons s) c, s_inq s with
      | Some (CRunning w acc), x :: q =>
          Some (mkSt (s_phase s) (s_rest s) q (upd (s_cons s) c (CRunning w (x :: acc)))
                  (s_outq s) (s_self s) (s_got s))
      | _, _ => None
      end
  | LFinish c =>
      match nth_error (s_cons s) c, s_inq s, s_phase s with
      | Some (CRunning w acc), [], (Draining | Returned) =>
          if (length (s_outq s) <? c_tasks k)%nat
          then Some (mkSt (s_phase s) (s_rest s) [] (upd (s_cons s) c CDone)
                       (s_outq s ++ [acc]) (s_self s) (s_got s))
          else None
      | _, _, _ => None
      end
  | LDrainRecv =>
      match s_phase s, s_outq s with
      | Draining, r :: o =>
          if caller_free k s
          then Some (mkSt Draining (s_rest s) (s_inq s) (s_cons s) o (s_self s) (r :: s_got s))
          else None
      | _, _ => None
      end
  | LDrainYield c =>
      match s_phase s with
      | Draining =>
          if c_internal k && negb (busy (s_cons s) 0)
          then match nth_error (s_cons s) c with
               | Some CQueued => Some (set_cons s (upd (s_cons s) c (CRunning 0 [])))
               | _ => None
               end
          else None
      | _ => None
      end
  | LDrainEnd =>
      match s_phase s, s_outq s with
      | Draining, [] =>
          if caller_free k s && all_done (s_cons s)
          then Some (mkSt Returned (s_rest s) (s_inq s) (s_cons s) [] (s_self s) (s_got s))
          else None
      | _, _ => None
      end
  end.

Definition init (k : cfg) (items : list N) : st :=
  mkSt Feeding items [] (repeat CQueued (c_tasks k)) [] [] [].

Definition final (s : st) : bool :=
  match s_phase s with Returned => true | _ => false end.

Inductive reachable (k : cfg) (items : list N) : st -> Prop :=
| reach_init : reachable k items (init k items)
| reach_step : forall s l s', reachable k items s -> step k s l = Some s' -> reachable k items s'.

(** every label the machine can ever take *)
Definition all_labels (k : cfg) : list label :=
  [LFeedSend; LFeedSelf; LClose; LDrainRecv; LDrainEnd]
  ++ flat_map (fun c => [LRecv c; LFinish c; LDrainYield c]
                        ++ map (fun w => LStart w c) (seq 0 (c_workers k)))
       (seq 0 (c_tasks k)).

Definition is_some {A} (o : option A) : bool := match o with Some _ => true | None => false end.

Definition enabled (k : cfg) (s : st) : list label :=
  filter (fun l => is_some (step k s l)) (all_labels k).

Definition stuck (k : cfg) (s : st) : bool :=
  match enabled k s with [] => true | _ => false end.

(** * Termination measure: every transition decreases it *)
Definition cweight (c : cstate) : nat :=
  match c with CQueued => 3 | CRunning _ _ => 2 | CDone => 0 end.
Definition pweight (p : phase) : nat :=
  match p with Feeding => 2 | Draining => 1 | Returned => 0 end.
Definition measure (s : st) : nat :=
  pweight (s_phase s) + 2 * length (s_rest s) + length (s_inq s)
  + list_sum (map cweight (s_cons s)) + length (s_outq s).

(** linear-time list reversal (equal to [rev], see [rev_alt]) *)
Definition lrev {X} (l : list X) : list X := rev_append l [].

(** * The value returned *)
Section Value.
  Context {R A : Type}.
  Variable f : N -> R.                 (* map, applied to the item at a position *)
  Variable inner : A -> R -> A.
  Variable outer : A -> A -> A.
  Variable dflt : A.

  (** what one thread accumulates over the items it received, in the order received *)
  Definition part_value (received : list N) : A :=
    fold_left inner (map f received) dflt.

  (** the caller folds the results in arrival order onto its own accumulator *)
  Definition combine_results (caller_part : list N) (parts : list (list N)) : A :=
    fold_left outer (map part_value parts) (part_value caller_part).

  Definition seq_fold (items : list N) : A :=
    fold_left inner (map f items) dflt.

  (** the value of a final state *)
  Definition st_value (s : st) : A :=
    combine_results (lrev (s_self s)) (map lrev (lrev (s_got s))).
End Value.

(** * Running the machine under an explicit schedule *)

(** a short list of labels that contains an enabled one whenever the machine is not stuck
    (proved in SchedFacts: [candidates_complete]) *)
Fixpoint first_free (cs : list cstate) (from : bool) (w n : nat) : option nat :=
  match n with
  | O => None
  | S n' =>
      if from && negb (busy cs w) then Some w
      else first_free cs true (S w) n'
  end.

Definition candidates (k : cfg) (s : st) : list label :=
  let free := first_free (s_cons s) (negb (c_internal k)) 0 (c_workers k) in
  [LFeedSend; LFeedSelf; LClose; LDrainRecv; LDrainEnd]
  ++ flat_map (fun c =>
       match nth_error (s_cons s) c with
       | Some CQueued =>
           (match free with Some w => [LStart w c] | None => [] end) ++ [LDrainYield c]
       | Some (CRunning _ _) => [LRecv c; LFinish c]
       | _ => []
       end) (seq 0 (c_tasks k)).

Inductive outcome :=
| Terminated (self : list N) (got : list (list N))
| Deadlock
| OutOfFuel.

(** [sched] chooses among the enabled candidates: one number per step, used modulo the
    number of choices; the schedule is read cyclically ([sched0] is the whole schedule,
    [sched] what is left of the current round) *)
Definition next_choice (sched0 sched : list nat) : nat * list nat :=
  match sched with
  | c :: r => (c, r)
  | [] => match sched0 with c :: r => (c, r) | [] => (O, []) end
  end.

Fixpoint run (k : cfg) (fuel : nat) (sched0 sched : list nat) (s : st) : outcome :=
  if final s then Terminated (lrev (s_self s)) (map lrev (lrev (s_got s)))
  else match fuel with
  | O => OutOfFuel
  | S fuel' =>
      let en := filter (fun l => is_some (step k s l)) (candidates k s) in
      let en := match en with [] => enabled k s | _ => en end in
      match en with
      | [] => Deadlock
      | l0 :: _ =>
          let cs := next_choice sched0 sched in
          match step k s (nth (fst cs mod length en) en l0) with
          | Some s' => run k fuel' sched0 (snd cs) s'
          | None => Deadlock
          end
      end
  end.

Definition pmf_run (workers : nat) (hint : option nat) (internal : bool) (len : nat)
  (sched : list nat) : outcome :=
  let k := mkCfg workers (pmf_tasks workers hint) internal in
  let s := init k (nseq 0 len) in
  run k (measure s) sched sched s.


End PmfM.
Export PmfM.
