(** Proofs about the two-pool machine of the ordered variant (PMF/Ord.v): the measure
    decreases; with a free worker in the global pool no reachable state is a deadlock and
    final states have drained a permutation of the input (so the reorder buffer yields the
    in-order fold); when the caller is the only worker of the global pool no final state is
    reachable and every run deadlocks. *)
From WG Require Import Base.Prelude PMF.Sched PMF.Ord PMF.Statements PMF.ValueFacts PMF.SchedFacts.
From Coq Require Import ZifyBool ZifyN ZifyNat.

Ltac ostep_inv H :=
  repeat match type of H with
  | context [match ?x with _ => _ end] =>
      let E := fresh "E" in destruct x eqn:E; try discriminate H
  end;
  try (injection H as H; subst).

Ltac osimpl := cbn [o_closed o_rest o_inq o_cons o_outq o_arr o_returned].

(** * The measure decreases *)
Theorem ord_measure_decreases : S_ord_measure_decreases.
Proof.
  intros k s s' l H. destruct s as [cl rest inq cons outq arr ret].
  unfold omeasure. destruct l; cbn [ostep o_closed o_rest o_inq o_cons o_outq o_arr o_returned] in H;
    ostep_inv H; osimpl; rewrite ?app_length; cbn [length];
    try match goal with
    | E : nth_error cons ?c = Some ?y |- context [upd cons ?c ?x] =>
        pose proof (sum_upd ocweight cons c x y E) as Hs; cbn [ocweight] in Hs
    end; lia.
Qed.

(** * Invariant *)
Definition hold_of (c : ocstate) : list N := match c with OHolding _ x => [x] | _ => [] end.
Definition holds (cs : list ocstate) : list N := flat_map hold_of cs.
Definition opool (s : ost) : list N :=
  o_arr s ++ o_outq s ++ holds (o_cons s) ++ o_inq s ++ o_rest s.

Lemma cnt_holds_upd z : forall cs c x y,
  nth_error cs c = Some y ->
  (cnt (hold_of y) z + cnt (holds (upd cs c x)) z = cnt (hold_of x) z + cnt (holds cs) z)%nat.
Proof.
  unfold holds.
  induction cs as [|a cs IH]; intros c x y H; destruct c; cbn [nth_error] in H; try discriminate.
  - injection H as ->. cbn [upd flat_map]. rewrite !cnt_app. lia.
  - cbn [upd flat_map]. rewrite !cnt_app. specialize (IH c x y H). lia.
Qed.

Record OInv (k : ocfg) (items : list N) (s : ost) : Prop := {
  oi_len : length (o_cons s) = o_tasks k;
  oi_done : existsb o_is_done (o_cons s) = true -> o_closed s = true /\ o_inq s = [];
  oi_rest : o_closed s = true -> o_rest s = [];
  oi_ret : o_returned s = true -> o_all_done (o_cons s) = true /\ o_outq s = [];
  oi_cnt : forall z, cnt (opool s) z = cnt items z }.

Lemma o_existsb_done_repeat n : existsb o_is_done (repeat OQueued n) = false.
Proof. induction n as [|n IH]; cbn [repeat existsb o_is_done orb]; [reflexivity|exact IH]. Qed.

Lemma holds_repeat n : holds (repeat OQueued n) = [].
Proof. unfold holds. induction n as [|n IH]; cbn [repeat flat_map hold_of app]; [reflexivity|exact IH]. Qed.

Lemma oinv_init k items : OInv k items (oinit k items).
Proof.
  unfold oinit. constructor; osimpl.
  - apply repeat_length.
  - rewrite o_existsb_done_repeat. intros Hx. discriminate Hx.
  - intros Hx. discriminate Hx.
  - intros Hx. discriminate Hx.
  - intros z. unfold opool. osimpl. rewrite holds_repeat. reflexivity.
Qed.

Lemma o_all_done_contra cs c y :
  o_all_done cs = true -> nth_error cs c = Some y -> o_is_done y = false -> False.
Proof.
  intros Ha Hn Hd. unfold o_all_done in Ha. rewrite (forallb_nth _ _ _ _ Ha Hn) in Hd. discriminate.
Qed.

Ltac mk_oinv :=
  constructor; osimpl; try assumption;
  try (let Hx := fresh in intros Hx; discriminate Hx).

Lemma oinv_step k items s l s' : OInv k items s -> ostep k s l = Some s' -> OInv k items s'.
Proof.
  intros I H. destruct s as [cl rest inq cons outq arr ret].
  pose proof (oi_len _ _ _ I) as Ilen. pose proof (oi_done _ _ _ I) as Idone.
  pose proof (oi_rest _ _ _ I) as Irest. pose proof (oi_ret _ _ _ I) as Iret.
  pose proof (oi_cnt _ _ _ I) as Icnt. unfold opool in Icnt.
  cbn [o_closed o_rest o_inq o_cons o_outq o_arr o_returned] in *.
  destruct l; cbn [ostep o_closed o_rest o_inq o_cons o_outq o_arr o_returned] in H;
    ostep_inv H.
  - (* OFeedSend *)
    mk_oinv.
    + intros Hd. destruct (Idone Hd) as [Hx _]. discriminate Hx.
    + intros z. specialize (Icnt z). unfold opool. osimpl.
      rewrite !cnt_app in *. rewrite (cnt_cons n l) in Icnt. lia.
  - (* OClose *)
    mk_oinv.
    + intros Hd. destruct (Idone Hd) as [Hx _]. discriminate Hx.
    + reflexivity.
  - (* OStart *)
    mk_oinv.
    + rewrite upd_length. exact Ilen.
    + intros Hd. apply existsb_upd in Hd. destruct Hd as [Hd|Hd]; [discriminate Hd|]. exact (Idone Hd).
    + intros Hr. destruct (Iret Hr) as [Ha _]. exfalso.
      exact (o_all_done_contra _ _ _ Ha E0 eq_refl).
    + intros z. specialize (Icnt z). unfold opool. osimpl.
      pose proof (cnt_holds_upd z cons c (OIdle w) _ E0) as Ha. cbn [hold_of] in Ha.
      rewrite !cnt_app in *. lia.
  - (* ORecv *)
    mk_oinv.
    + rewrite upd_length. exact Ilen.
    + intros Hd. apply existsb_upd in Hd. destruct Hd as [Hd|Hd]; [discriminate Hd|].
      destruct (Idone Hd) as [_ Hq]. discriminate Hq.
    + intros Hr. destruct (Iret Hr) as [Ha _]. exfalso.
      exact (o_all_done_contra _ _ _ Ha E eq_refl).
    + intros z. specialize (Icnt z). unfold opool. osimpl.
      pose proof (cnt_holds_upd z cons c (OHolding w n) _ E) as Ha. cbn [hold_of] in Ha.
      rewrite !cnt_app in *. rewrite (cnt_cons n l) in Icnt. rewrite cnt_nil in Ha. lia.
  - (* OSendOut *)
    mk_oinv.
    + rewrite upd_length. exact Ilen.
    + intros Hd. apply existsb_upd in Hd. destruct Hd as [Hd|Hd]; [discriminate Hd|]. exact (Idone Hd).
    + intros Hr. destruct (Iret Hr) as [Ha _]. exfalso.
      exact (o_all_done_contra _ _ _ Ha E eq_refl).
    + intros z. specialize (Icnt z). unfold opool. osimpl.
      pose proof (cnt_holds_upd z cons c (OIdle w) _ E) as Ha. cbn [hold_of] in Ha.
      rewrite !cnt_app in *. rewrite cnt_nil in Ha. lia.
  - (* OFinish *)
    mk_oinv.
    + rewrite upd_length. exact Ilen.
    + intros _. split; reflexivity.
    + intros Hr. destruct (Iret Hr) as [Ha _]. exfalso.
      exact (o_all_done_contra _ _ _ Ha E eq_refl).
    + intros z. specialize (Icnt z). unfold opool. osimpl.
      pose proof (cnt_holds_upd z cons c ODone _ E) as Ha. cbn [hold_of] in Ha.
      rewrite !cnt_app in *. lia.
  - (* ODrainRecv *)
    mk_oinv.
    intros z. specialize (Icnt z). unfold opool. osimpl.
    rewrite !cnt_app in *. rewrite (cnt_cons n l) in Icnt. rewrite (cnt_cons n arr). lia.
  - (* ODrainEnd *)
    mk_oinv.
    intros _. split; [assumption|reflexivity].
Qed.

Lemma oinv_reachable k items s : oreachable k items s -> OInv k items s.
Proof.
  induction 1 as [|s l s' _ IH Hs]; [apply oinv_init|]. exact (oinv_step _ _ _ _ _ IH Hs).
Qed.

(** * Progress with a free worker *)
Definition is_holding (c : ocstate) : bool := match c with OHolding _ _ => true | _ => false end.
Definition is_idle (c : ocstate) : bool := match c with OIdle _ => true | _ => false end.

Lemma obusy_none cs w :
  existsb is_holding cs = false -> existsb is_idle cs = false -> obusy cs w = false.
Proof.
  intros Hh Hi. unfold obusy. destruct (existsb (oruns_on w) cs) eqn:E; [|reflexivity].
  apply existsb_nth in E. destruct E as (i & x & Hn & Hx). destruct x; try discriminate.
  - rewrite (nth_existsb is_idle _ _ _ Hn eq_refl) in Hi. discriminate.
  - rewrite (nth_existsb is_holding _ _ _ Hn eq_refl) in Hh. discriminate.
Qed.

Theorem ord_progress : S_ord_progress.
Proof.
  intros k items s Hfree HT Hr Hfin. pose proof (oinv_reachable _ _ _ Hr) as I.
  (* the caller can take a result *)
  destruct (o_returned s) eqn:Eret; [|destruct (o_outq s) as [|x o] eqn:Eo].
  3: { exists ODrainRecv. cbn [ostep]. rewrite Eret, Eo. eexists; reflexivity. }
  all: assert (Hout : o_outq s = []) by
         (first [exact Eo | exact (proj2 (oi_ret _ _ _ I Eret))]).
  all: destruct (existsb is_holding (o_cons s)) eqn:Ehold.
  1,3: (* a consumer holding a result can send it: the result channel is empty *)
    apply existsb_nth in Ehold; destruct Ehold as (c & y & Hn & Hy);
    destruct y as [|w|w x|]; try discriminate;
    exists (OSendOut c); cbn [ostep]; rewrite Hn, Hout; cbn [length];
    destruct (Nat.ltb_spec 0 (2 * o_tasks k)) as [_|Hge]; [eexists; reflexivity|lia].
  all: destruct (existsb is_idle (o_cons s)) eqn:Eidle.
  1,3: (* an idle consumer receives, or ends, or waits for the feeder, which can move *)
    apply existsb_nth in Eidle; destruct Eidle as (c & y & Hn & Hy);
    destruct y as [|w|w x|]; try discriminate;
    (destruct (o_inq s) as [|x q] eqn:Eq;
     [ destruct (o_closed s) eqn:Ecl;
       [ exists (OFinish c); cbn [ostep]; rewrite Hn, Eq, Ecl; eexists; reflexivity
       | destruct (o_rest s) as [|x r] eqn:Er;
         [ exists OClose; cbn [ostep]; rewrite Ecl, Er; eexists; reflexivity
         | exists OFeedSend; cbn [ostep]; rewrite Ecl, Er, Eq; cbn [length];
           destruct (Nat.ltb_spec 0 (2 * o_tasks k)) as [_|Hge]; [eexists; reflexivity|lia] ] ]
     | exists (ORecv c); cbn [ostep]; rewrite Hn, Eq; eexists; reflexivity ]).
  all: destruct (o_all_done (o_cons s)) eqn:Eall.
  - (* returned, all done: the state is final *)
    exfalso. unfold ofinal in Hfin. rewrite Eret, Eall in Hfin.
    assert (Hcl : o_closed s = true).
    { apply (oi_done _ _ _ I). pose proof (oi_len _ _ _ I) as Hl.
      destruct (o_cons s) as [|a cs]; [cbn [length] in Hl; lia|].
      unfold o_all_done in Eall. cbn [forallb existsb] in *.
      apply andb_true_iff in Eall. destruct Eall as [Ha _]. rewrite Ha. reflexivity. }
    rewrite Hcl in Hfin. discriminate.
  - exfalso. destruct (oi_ret _ _ _ I Eret) as [Ha _]. rewrite Ha in Eall. discriminate.
  - exists ODrainEnd. cbn [ostep]. rewrite Eret, Eo, Eall. eexists; reflexivity.
  - (* a queued consumer and a free worker *)
    apply forallb_false_nth in Eall. destruct Eall as (c & y & Hn & Hy).
    assert (y = OQueued).
    { destruct y as [|w|w x|]; [reflexivity| | |discriminate].
      - rewrite (nth_existsb is_idle _ _ _ Hn eq_refl) in Eidle. discriminate.
      - rewrite (nth_existsb is_holding _ _ _ Hn eq_refl) in Ehold. discriminate. }
    subst y. unfold o_has_free_worker in Hfree.
    destruct (o_caller_in_g k) eqn:Eg.
    + exists (OStart 1 c). cbn [ostep]. rewrite Eg, (obusy_none _ 1 Ehold Eidle), Hn.
      apply Nat.leb_le in Hfree.
      destruct (Nat.ltb_spec 1 (o_gworkers k)) as [_|Hge]; [|lia]. eexists; reflexivity.
    + exists (OStart 0 c). cbn [ostep]. rewrite Eg, (obusy_none _ 0 Ehold Eidle), Hn.
      apply Nat.leb_le in Hfree.
      destruct (Nat.ltb_spec 0 (o_gworkers k)) as [_|Hge]; [|lia]. eexists; reflexivity.
Qed.

(** * [ostuck] is exact *)
Lemma olabel_in_all k items s l s' :
  OInv k items s -> ostep k s l = Some s' -> In l (o_all_labels k).
Proof.
  intros I H. pose proof (oi_len _ _ _ I) as Ilen. unfold o_all_labels.
  assert (Hc : forall c x, nth_error (o_cons s) c = Some x -> In c (seq 0 (o_tasks k))).
  { intros c x Hn. apply in_seq. rewrite <- Ilen.
    assert (c < length (o_cons s))%nat by (apply nth_error_Some; rewrite Hn; discriminate). lia. }
  destruct l; try (cbn; tauto); apply in_or_app; right; apply in_flat_map;
    cbn [ostep] in H.
  - (* OStart *)
    destruct ((w <? o_gworkers k)%nat && negb (o_caller_in_g k && Nat.eqb w 0)
              && negb (obusy (o_cons s) w)) eqn:G; [|discriminate].
    destruct (nth_error (o_cons s) c) as [y|] eqn:Hn; [|discriminate].
    exists c. split; [exact (Hc _ _ Hn)|]. right. right. right.
    apply in_map_iff. exists w. split; [reflexivity|]. apply in_seq.
    apply andb_true_iff in G. destruct G as [G _]. apply andb_true_iff in G. destruct G as [G _].
    apply Nat.ltb_lt in G. lia.
  - destruct (nth_error (o_cons s) c) as [y|] eqn:Hn; [|discriminate].
    exists c. split; [exact (Hc _ _ Hn)|]. left. reflexivity.
  - destruct (nth_error (o_cons s) c) as [y|] eqn:Hn; [|discriminate].
    exists c. split; [exact (Hc _ _ Hn)|]. right. left. reflexivity.
  - destruct (nth_error (o_cons s) c) as [y|] eqn:Hn; [|discriminate].
    exists c. split; [exact (Hc _ _ Hn)|]. right. right. left. reflexivity.
Qed.

Theorem ord_stuck_spec : S_ord_stuck_spec.
Proof.
  intros k items s Hr. pose proof (oinv_reachable _ _ _ Hr) as I. unfold ostuck, oenabled. split.
  - intros H l. destruct (ostep k s l) as [s'|] eqn:Hs; [|reflexivity]. exfalso.
    pose proof (olabel_in_all _ _ _ _ _ I Hs) as Hin.
    assert (Hf : In l (filter (fun l => is_some (ostep k s l)) (o_all_labels k))).
    { apply filter_In. split; [exact Hin|]. rewrite Hs. reflexivity. }
    destruct (filter (fun l => is_some (ostep k s l)) (o_all_labels k)); [contradiction|discriminate].
  - intros H. rewrite filter_none; [reflexivity|]. intros l _. rewrite H. reflexivity.
Qed.

(** * The caller is the only worker of the global pool *)
Definition is_queued (c : ocstate) : bool := match c with OQueued => true | _ => false end.

Lemma all_queued_upd_contra cs c y :
  forallb is_queued cs = true -> nth_error cs c = Some y -> is_queued y = false -> False.
Proof.
  intros Ha Hn Hq. rewrite (forallb_nth _ _ _ _ Ha Hn) in Hq. discriminate.
Qed.

Lemma never_started k items s :
  o_caller_in_g k = true -> o_gworkers k = 1%nat ->
  oreachable k items s -> forallb is_queued (o_cons s) = true.
Proof.
  intros Hg HG. induction 1 as [|s l s' _ IH Hs].
  - unfold oinit. osimpl. induction (o_tasks k) as [|n IHn]; cbn [repeat forallb is_queued andb];
      [reflexivity|exact IHn].
  - destruct s as [cl rest inq cons outq arr ret]. osimpl. cbn [o_cons] in IH.
    destruct l; cbn [ostep o_closed o_rest o_inq o_cons o_outq o_arr o_returned] in Hs;
      ostep_inv Hs; osimpl; try assumption; exfalso.
    + (* OStart: the only worker is the caller *)
      rewrite Hg, HG in E. destruct w as [|w]; cbn in E; discriminate.
    + exact (all_queued_upd_contra _ _ _ IH E eq_refl).
    + exact (all_queued_upd_contra _ _ _ IH E eq_refl).
    + exact (all_queued_upd_contra _ _ _ IH E eq_refl).
Qed.

Theorem ord_deadlock_all : S_ord_deadlock_all.
Proof.
  intros k items s Hg HG HT Hr. pose proof (never_started _ _ _ Hg HG Hr) as Hq.
  pose proof (oi_len _ _ _ (oinv_reachable _ _ _ Hr)) as Hl.
  unfold ofinal. destruct (o_cons s) as [|a cs]; [cbn [length] in Hl; lia|].
  cbn [forallb] in Hq. apply andb_true_iff in Hq. destruct Hq as [Ha _].
  destruct a; try discriminate. unfold o_all_done. cbn [forallb o_is_done andb].
  apply andb_false_r.
Qed.

Theorem ord_deadlock_refuted : S_ord_deadlock_refuted.
Proof.
  (* one consumer, five items: the feeder fills the input channel (capacity 2) and blocks,
     the consumer is never started, the caller blocks on the empty result channel *)
  set (k := mkOCfg 1 1 true).
  set (items := nseq 0 5).
  set (s := mkOSt false (nseq 2 3) (nseq 0 2) [OQueued] [] [] false).
  assert (Hr : oreachable k items s).
  { apply (oreach_step k items (mkOSt false (nseq 1 4) (nseq 0 1) [OQueued] [] [] false) OFeedSend);
      [|reflexivity].
    apply (oreach_step k items (oinit k items) OFeedSend); [|reflexivity].
    apply oreach_init. }
  exists k, items, s. split; [reflexivity|]. split; [reflexivity|]. split; [cbn; lia|].
  split; [exact Hr|]. split; [reflexivity|].
  apply (ord_stuck_spec k items s Hr). vm_compute. reflexivity.
Qed.

(** * Value of final states *)
Lemma holds_all_done cs : o_all_done cs = true -> holds cs = [].
Proof.
  unfold holds, o_all_done. induction cs as [|a cs IH]; intros H; cbn [forallb flat_map] in *; [reflexivity|].
  apply andb_true_iff in H. destruct H as [Ha H]. destruct a; try discriminate.
  cbn [hold_of app]. apply IH. exact H.
Qed.

Lemma ofinal_perm k items s :
  (1 <= o_tasks k)%nat -> OInv k items s -> ofinal s = true -> Permutation (lrev (o_arr s)) items.
Proof.
  intros HT I Hf. unfold ofinal in Hf.
  apply andb_true_iff in Hf. destruct Hf as [Hf Hall].
  apply andb_true_iff in Hf. destruct Hf as [Hret Hcl].
  destruct (oi_ret _ _ _ I Hret) as [_ Hout].
  pose proof (oi_rest _ _ _ I Hcl) as Hrest.
  assert (Hinq : o_inq s = []).
  { apply (oi_done _ _ _ I). pose proof (oi_len _ _ _ I) as Hl.
    destruct (o_cons s) as [|a cs]; [cbn [length] in Hl; lia|].
    unfold o_all_done in Hall. cbn [forallb existsb] in *.
    apply andb_true_iff in Hall. destruct Hall as [Ha _]. rewrite Ha. reflexivity. }
  apply (Permutation_count_occ N.eq_dec). intros z.
  pose proof (oi_cnt _ _ _ I z) as Hc. unfold opool in Hc.
  rewrite Hout, Hrest, Hinq, (holds_all_done _ Hall) in Hc. cbn [app] in Hc.
  rewrite !app_nil_r in Hc. fold (cnt items z). rewrite <- Hc.
  fold (cnt (lrev (o_arr s)) z). apply cnt_rev.
Qed.

Lemma combine_map_self {X} (g : N -> X) : forall l, combine l (map g l) = map (fun i => (i, g i)) l.
Proof. induction l as [|a l IH]; cbn [map combine]; [reflexivity|]. rewrite IH. reflexivity. Qed.

Lemma ord_value_perm {R A} (f : N -> R) (fold : A -> R -> A) (init : A) len arr :
  Permutation arr (nseq 0 len) ->
  ord_value f fold init arr = fold_left fold (map f (nseq 0 len)) init.
Proof.
  intros Hp. unfold ord_value, rb_value.
  rewrite (rb_ord_value R A fold init (map f (nseq 0 len))); [reflexivity|].
  rewrite map_length, nseq_length, combine_map_self. apply Permutation_map. exact Hp.
Qed.

Theorem ord_machine_value : S_ord_machine_value.
Proof.
  intros R A f fold init k len s HT Hr Hf.
  apply ord_value_perm. apply ofinal_perm with k; [exact HT|apply oinv_reachable; exact Hr|exact Hf].
Qed.

(** * The runner *)
Lemma orun_ok k items : o_has_free_worker k = true -> (1 <= o_tasks k)%nat ->
  forall fuel s sched0 sched,
  oreachable k items s -> (omeasure s <= fuel)%nat ->
  exists s', oreachable k items s' /\ ofinal s' = true
    /\ orun k fuel sched0 sched s = OTerminated (lrev (o_arr s')).
Proof.
  intros HN HT. induction fuel as [|fuel IH]; intros s sched0 sched Hr Hm.
  - destruct (ofinal s) eqn:Hf.
    + exists s. split; [exact Hr|]. split; [exact Hf|]. cbn [orun]. rewrite Hf. reflexivity.
    + exfalso. destruct (ord_progress k items s HN HT Hr Hf) as (l & s' & Hs).
      pose proof (ord_measure_decreases _ _ _ _ Hs). lia.
  - destruct (ofinal s) eqn:Hf.
    + exists s. split; [exact Hr|]. split; [exact Hf|]. cbn [orun]. rewrite Hf. reflexivity.
    + cbn [orun]. rewrite Hf.
      set (en0 := filter (fun l => is_some (ostep k s l)) (ocandidates k s)).
      set (en := match en0 with [] => oenabled k s | _ => en0 end).
      assert (Hall : forall l, In l en -> is_some (ostep k s l) = true).
      { intros l Hin. subst en. destruct en0 eqn:E0.
        - unfold oenabled in Hin. apply filter_In in Hin. apply Hin.
        - rewrite <- E0 in Hin. subst en0. apply filter_In in Hin. apply Hin. }
      assert (Hne : en <> []).
      { subst en. destruct en0 eqn:E0; [|discriminate].
        intros Hnil. destruct (ord_progress k items s HN HT Hr Hf) as (l & s' & Hs).
        assert (Hst : ostuck k s = true) by (unfold ostuck; rewrite Hnil; reflexivity).
        apply (ord_stuck_spec k items s Hr) with (l := l) in Hst. rewrite Hs in Hst. discriminate. }
      destruct en as [|l0 en'] eqn:Een; [contradiction|].
      rewrite <- Een in *.
      pose proof (Hall _ (nth_mod_in en l0 (fst (next_choice sched0 sched)) Hne)) as Hsome.
      destruct (ostep k s (nth (fst (next_choice sched0 sched) mod length en) en l0)) as [s'|] eqn:Hs;
        [|discriminate].
      apply IH.
      * exact (oreach_step _ _ _ _ _ Hr Hs).
      * pose proof (ord_measure_decreases _ _ _ _ Hs) as Hd. clear - Hd Hm. lia.
Qed.

Theorem ord_run_total : S_ord_run_total.
Proof.
  intros R A f fold init cw gw hint in_g len sched HN.
  unfold pmf_ord_run.
  set (k := mkOCfg gw (pmf_tasks cw hint) in_g).
  assert (HT : (1 <= o_tasks k)%nat) by (subst k; cbn [o_tasks]; unfold pmf_tasks; apply Nat.le_max_l).
  assert (Hfree : o_has_free_worker k = true).
  { subst k. unfold o_has_free_worker. cbn [o_caller_in_g o_gworkers].
    destruct in_g; apply Nat.leb_le; exact HN. }
  destruct (orun_ok k (nseq 0 len) Hfree HT _ _ sched sched (oreach_init _ _) (le_n _))
    as (s' & Hr & Hf & Hrun).
  exists (lrev (o_arr s')). split; [exact Hrun|].
  exact (ord_machine_value R A f fold init k len s' HT Hr Hf).
Qed.

Lemma orun_deadlock k items :
  o_caller_in_g k = true -> o_gworkers k = 1%nat -> (1 <= o_tasks k)%nat ->
  forall fuel s sched0 sched,
  oreachable k items s -> (omeasure s <= fuel)%nat ->
  orun k fuel sched0 sched s = ODeadlock.
Proof.
  intros Hg HG HT. induction fuel as [|fuel IH]; intros s sched0 sched Hr Hm.
  - exfalso. pose proof (never_started _ _ _ Hg HG Hr) as Hq.
    pose proof (oi_len _ _ _ (oinv_reachable _ _ _ Hr)) as Hl.
    unfold omeasure in Hm. destruct (o_cons s) as [|a cs]; [cbn [length] in Hl; lia|].
    cbn [forallb] in Hq. apply andb_true_iff in Hq. destruct Hq as [Ha _].
    destruct a; try discriminate. simpl in Hm. lia.
  - cbn [orun]. rewrite (ord_deadlock_all k items s Hg HG HT Hr).
    set (en0 := filter (fun l => is_some (ostep k s l)) (ocandidates k s)).
    set (en := match en0 with [] => oenabled k s | _ => en0 end).
    destruct en as [|l0 en'] eqn:Een; [reflexivity|].
    rewrite <- Een.
    destruct (ostep k s (nth (fst (next_choice sched0 sched) mod length en) en l0)) as [s'|] eqn:Hs;
      [|reflexivity].
    apply IH.
    + exact (oreach_step _ _ _ _ _ Hr Hs).
    + pose proof (ord_measure_decreases _ _ _ _ Hs) as Hd. clear - Hd Hm. lia.
Qed.

Theorem ord_run_deadlock : S_ord_run_deadlock.
Proof.
  intros cw hint len sched. unfold pmf_ord_run.
  set (k := mkOCfg 1 (pmf_tasks cw hint) true).
  assert (HT : (1 <= o_tasks k)%nat) by (subst k; cbn [o_tasks]; unfold pmf_tasks; apply Nat.le_max_l).
  apply (orun_deadlock k (nseq 0 len) eq_refl eq_refl HT).
  - apply oreach_init.
  - apply le_n.
Qed.
