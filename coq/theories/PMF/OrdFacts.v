(** Proofs about the two-pool machine of the ordered variant (PMF/Ord.v): the measure
    decreases; in the concurrent branch, with a free worker in the global pool no reachable
    state is a deadlock and final states have drained a permutation of the input (so the
    reorder buffer yields the in-order fold); the sequential branch terminates with the
    items in order; the code as it is now always has one or the other.  Under the rule
    before the repair ([o_fixed k = false]), when the caller is the only worker of the
    global pool no final state is reachable and every run deadlocks. *)
From WG Require Import Base.Prelude PMF.Sched PMF.Ord PMF.Statements PMF.ValueFacts PMF.SchedFacts.
From Coq Require Import ZifyBool ZifyN ZifyNat.

Ltac ostep_inv H :=
  repeat match type of H with
  | context [match ?x with _ => _ end] =>
      let E := fresh "E" in destruct x eqn:E; try discriminate H
  end;
  try (injection H as H; subst).

Ltac osimpl := cbn [o_closed o_rest o_inq o_cons o_outq o_arr o_returned].

Lemma ostep_par k s l : o_takes_seq k = false -> ostep k s l = opar_step k s l.
Proof. intros H. unfold ostep. rewrite H. reflexivity. Qed.

Lemma ostep_seq k s l : o_takes_seq k = true -> ostep k s l = oseq_step s l.
Proof. intros H. unfold ostep. rewrite H. reflexivity. Qed.

Lemma prefix_not_seq k : o_fixed k = false -> o_takes_seq k = false.
Proof. intros H. unfold o_takes_seq. rewrite H. reflexivity. Qed.

(** * The measure decreases *)
Theorem ord_measure_decreases : S_ord_measure_decreases.
Proof.
  intros k s s' l H. destruct s as [cl rest inq cons outq arr ret].
  unfold ostep in H. unfold omeasure.
  destruct (o_takes_seq k);
  destruct l; cbn [opar_step oseq_step o_closed o_rest o_inq o_cons o_outq o_arr o_returned] in H;
    try discriminate H;
    ostep_inv H; osimpl; rewrite ?app_length; cbn [length];
    try match goal with
    | E : nth_error cons ?c = Some ?y |- context [upd cons ?c ?x] =>
        pose proof (sum_upd ocweight cons c x y E) as Hs; cbn [ocweight] in Hs
    end; lia.
Qed.

(** * Invariant *)
Definition hold_of (c : ocstate) : list N := match c with OHolding _ x => [x] | _ => [] end.
Definition holds (cs : list ocstate) : list N := flat_map hold_of cs.
Definition opool (s : ost) : list N :=
  o_arr s ++ o_outq s ++ holds (o_cons s) ++ o_inq s ++ o_rest s.

Lemma cnt_holds_upd z : forall cs c x y,
  nth_error cs c = Some y ->
  (cnt (hold_of y) z + cnt (holds (upd cs c x)) z = cnt (hold_of x) z + cnt (holds cs) z)%nat.
Proof.
  unfold holds.
  induction cs as [|a cs IH]; intros c x y H; destruct c; cbn [nth_error] in H; try discriminate.
  - injection H as ->. cbn [upd flat_map]. rewrite !cnt_app. lia.
  - cbn [upd flat_map]. rewrite !cnt_app. specialize (IH c x y H). lia.
Qed.

Record OInv (k : ocfg) (items : list N) (s : ost) : Prop := {
  oi_len : length (o_cons s) = o_tasks k;
  oi_done : existsb o_is_done (o_cons s) = true -> o_closed s = true /\ o_inq s = [];
  oi_rest : o_closed s = true -> o_rest s = [];
  oi_ret : o_returned s = true -> o_all_done (o_cons s) = true /\ o_outq s = [];
  oi_cnt : forall z, cnt (opool s) z = cnt items z }.

Lemma o_existsb_done_repeat n : existsb o_is_done (repeat OQueued n) = false.
Proof. induction n as [|n IH]; cbn [repeat existsb o_is_done orb]; [reflexivity|exact IH]. Qed.

Lemma holds_repeat n : holds (repeat OQueued n) = [].
Proof. unfold holds. induction n as [|n IH]; cbn [repeat flat_map hold_of app]; [reflexivity|exact IH]. Qed.

Lemma oinv_init k items : o_takes_seq k = false -> OInv k items (oinit k items).
Proof.
  intros Hpar. unfold oinit. rewrite Hpar. constructor; osimpl.
  - apply repeat_length.
  - rewrite o_existsb_done_repeat. intros Hx. discriminate Hx.
  - intros Hx. discriminate Hx.
  - intros Hx. discriminate Hx.
  - intros z. unfold opool. osimpl. rewrite holds_repeat. reflexivity.
Qed.

Lemma o_all_done_contra cs c y :
  o_all_done cs = true -> nth_error cs c = Some y -> o_is_done y = false -> False.
Proof.
  intros Ha Hn Hd. unfold o_all_done in Ha. rewrite (forallb_nth _ _ _ _ Ha Hn) in Hd. discriminate.
Qed.

Ltac mk_oinv :=
  constructor; osimpl; try assumption;
  try (let Hx := fresh in intros Hx; discriminate Hx).

Lemma oinv_step k items s l s' :
  o_takes_seq k = false -> OInv k items s -> ostep k s l = Some s' -> OInv k items s'.
Proof.
  intros Hpar I H. rewrite (ostep_par _ _ _ Hpar) in H. destruct s as [cl rest inq cons outq arr ret].
  pose proof (oi_len _ _ _ I) as Ilen. pose proof (oi_done _ _ _ I) as Idone.
  pose proof (oi_rest _ _ _ I) as Irest. pose proof (oi_ret _ _ _ I) as Iret.
  pose proof (oi_cnt _ _ _ I) as Icnt. unfold opool in Icnt.
  cbn [o_closed o_rest o_inq o_cons o_outq o_arr o_returned] in *.
  destruct l; cbn [opar_step o_closed o_rest o_inq o_cons o_outq o_arr o_returned] in H;
    try discriminate H; ostep_inv H.
  - (* OFeedSend *)
    mk_oinv.
    + intros Hd. destruct (Idone Hd) as [Hx _]. discriminate Hx.
    + intros z. specialize (Icnt z). unfold opool. osimpl.
      rewrite !cnt_app in *. rewrite (cnt_cons n l) in Icnt. lia.
  - (* OClose *)
    mk_oinv.
    + intros Hd. destruct (Idone Hd) as [Hx _]. discriminate Hx.
    + reflexivity.
  - (* OStart *)
    mk_oinv.
    + rewrite upd_length. exact Ilen.
    + intros Hd. apply existsb_upd in Hd. destruct Hd as [Hd|Hd]; [discriminate Hd|]. exact (Idone Hd).
    + intros Hr. destruct (Iret Hr) as [Ha _]. exfalso.
      exact (o_all_done_contra _ _ _ Ha E0 eq_refl).
    + intros z. specialize (Icnt z). unfold opool. osimpl.
      pose proof (cnt_holds_upd z cons c (OIdle w) _ E0) as Ha. cbn [hold_of] in Ha.
      rewrite !cnt_app in *. lia.
  - (* ORecv *)
    mk_oinv.
    + rewrite upd_length. exact Ilen.
    + intros Hd. apply existsb_upd in Hd. destruct Hd as [Hd|Hd]; [discriminate Hd|].
      destruct (Idone Hd) as [_ Hq]. discriminate Hq.
    + intros Hr. destruct (Iret Hr) as [Ha _]. exfalso.
      exact (o_all_done_contra _ _ _ Ha E eq_refl).
    + intros z. specialize (Icnt z). unfold opool. osimpl.
      pose proof (cnt_holds_upd z cons c (OHolding w n) _ E) as Ha. cbn [hold_of] in Ha.
      rewrite !cnt_app in *. rewrite (cnt_cons n l) in Icnt. rewrite cnt_nil in Ha. lia.
  - (* OSendOut *)
    mk_oinv.
    + rewrite upd_length. exact Ilen.
    + intros Hd. apply existsb_upd in Hd. destruct Hd as [Hd|Hd]; [discriminate Hd|]. exact (Idone Hd).
    + intros Hr. destruct (Iret Hr) as [Ha _]. exfalso.
      exact (o_all_done_contra _ _ _ Ha E eq_refl).
    + intros z. specialize (Icnt z). unfold opool. osimpl.
      pose proof (cnt_holds_upd z cons c (OIdle w) _ E) as Ha. cbn [hold_of] in Ha.
      rewrite !cnt_app in *. rewrite cnt_nil in Ha. lia.
  - (* OFinish *)
    mk_oinv.
    + rewrite upd_length. exact Ilen.
    + intros _. split; reflexivity.
    + intros Hr. destruct (Iret Hr) as [Ha _]. exfalso.
      exact (o_all_done_contra _ _ _ Ha E eq_refl).
    + intros z. specialize (Icnt z). unfold opool. osimpl.
      pose proof (cnt_holds_upd z cons c ODone _ E) as Ha. cbn [hold_of] in Ha.
      rewrite !cnt_app in *. lia.
  - (* ODrainRecv *)
    mk_oinv.
    intros z. specialize (Icnt z). unfold opool. osimpl.
    rewrite !cnt_app in *. rewrite (cnt_cons n l) in Icnt. rewrite (cnt_cons n arr). lia.
  - (* ODrainEnd *)
    mk_oinv.
    intros _. split; [assumption|reflexivity].
Qed.

Lemma oinv_reachable k items s : o_takes_seq k = false -> oreachable k items s -> OInv k items s.
Proof.
  intros Hpar. induction 1 as [|s l s' _ IH Hs]; [apply oinv_init; exact Hpar|].
  exact (oinv_step _ _ _ _ _ Hpar IH Hs).
Qed.

(** * The sequential branch *)
Record SInv (items : list N) (s : ost) : Prop := {
  si_inq : o_inq s = [];
  si_cons : o_cons s = [];
  si_outq : o_outq s = [];
  si_items : rev (o_arr s) ++ o_rest s = items;
  si_flags : o_closed s = o_returned s;
  si_ret : o_returned s = true -> o_rest s = [] }.

Lemma sinv_init k items : o_takes_seq k = true -> SInv items (oinit k items).
Proof.
  intros Hseq. unfold oinit. rewrite Hseq. constructor; osimpl; try reflexivity.
  intros Hx. discriminate Hx.
Qed.

Lemma sinv_step k items s l s' :
  o_takes_seq k = true -> SInv items s -> ostep k s l = Some s' -> SInv items s'.
Proof.
  intros Hseq I H. rewrite (ostep_seq _ _ _ Hseq) in H.
  destruct I as [Iq Ic Io Ii If Ir]. destruct s as [cl rest inq cons outq arr ret].
  cbn [o_closed o_rest o_inq o_cons o_outq o_arr o_returned] in *.
  destruct l; cbn [oseq_step o_closed o_rest o_inq o_cons o_outq o_arr o_returned] in H;
    try discriminate H; ostep_inv H; constructor; osimpl; try assumption; try reflexivity.
  - cbn [rev]. rewrite <- app_assoc. reflexivity.
  - intros Hx. discriminate Hx.
Qed.

Lemma sinv_reachable k items s : o_takes_seq k = true -> oreachable k items s -> SInv items s.
Proof.
  intros Hseq. induction 1 as [|s l s' _ IH Hs]; [apply sinv_init; exact Hseq|].
  exact (sinv_step _ _ _ _ _ Hseq IH Hs).
Qed.

Lemma lrev_rev {X} (l : list X) : lrev l = rev l.
Proof. unfold lrev. symmetry. apply rev_alt. Qed.

Lemma seq_progress k items s :
  o_takes_seq k = true -> oreachable k items s -> ofinal s = false ->
  exists l s', ostep k s l = Some s'.
Proof.
  intros Hseq Hr Hfin. destruct (sinv_reachable _ _ _ Hseq Hr) as [Iq Ic Io Ii If Ir].
  destruct (o_returned s) eqn:Eret.
  - exfalso. unfold ofinal in Hfin. rewrite If, Eret, Ic in Hfin. discriminate Hfin.
  - destruct (o_rest s) as [|x r] eqn:Er.
    + exists OSeqReturn. rewrite (ostep_seq _ _ _ Hseq). cbn [oseq_step]. rewrite Eret, Er.
      eexists; reflexivity.
    + exists OSeqFold. rewrite (ostep_seq _ _ _ Hseq). cbn [oseq_step]. rewrite Eret, Er.
      eexists; reflexivity.
Qed.

(** a final state of the sequential branch has folded the items in order *)
Lemma seq_final_inorder k items s :
  o_takes_seq k = true -> oreachable k items s -> ofinal s = true -> lrev (o_arr s) = items.
Proof.
  intros Hseq Hr Hfin. destruct (sinv_reachable _ _ _ Hseq Hr) as [Iq Ic Io Ii If Ir].
  unfold ofinal in Hfin. apply andb_true_iff in Hfin. destruct Hfin as [Hfin _].
  apply andb_true_iff in Hfin. destruct Hfin as [Hret _].
  rewrite (Ir Hret), app_nil_r in Ii. rewrite lrev_rev. exact Ii.
Qed.

(** * Progress with a free worker *)
Definition is_holding (c : ocstate) : bool := match c with OHolding _ _ => true | _ => false end.
Definition is_idle (c : ocstate) : bool := match c with OIdle _ => true | _ => false end.

Lemma obusy_none cs w :
  existsb is_holding cs = false -> existsb is_idle cs = false -> obusy cs w = false.
Proof.
  intros Hh Hi. unfold obusy. destruct (existsb (oruns_on w) cs) eqn:E; [|reflexivity].
  apply existsb_nth in E. destruct E as (i & x & Hn & Hx). destruct x; try discriminate.
  - rewrite (nth_existsb is_idle _ _ _ Hn eq_refl) in Hi. discriminate.
  - rewrite (nth_existsb is_holding _ _ _ Hn eq_refl) in Hh. discriminate.
Qed.

Lemma par_progress k items s :
  o_takes_seq k = false -> o_has_free_worker k = true -> (1 <= o_tasks k)%nat ->
  oreachable k items s -> ofinal s = false ->
  exists l s', ostep k s l = Some s'.
Proof.
  intros Hpar Hfree HT Hr Hfin. pose proof (oinv_reachable _ _ _ Hpar Hr) as I.
  assert (Hgoal : exists l s', opar_step k s l = Some s');
    [|destruct Hgoal as (l & s' & Hs); exists l, s'; rewrite (ostep_par _ _ _ Hpar); exact Hs].
  (* the caller can take a result *)
  destruct (o_returned s) eqn:Eret; [|destruct (o_outq s) as [|x o] eqn:Eo].
  3: { exists ODrainRecv. cbn [opar_step]. rewrite Eret, Eo. eexists; reflexivity. }
  all: assert (Hout : o_outq s = []) by
         (first [exact Eo | exact (proj2 (oi_ret _ _ _ I Eret))]).
  all: destruct (existsb is_holding (o_cons s)) eqn:Ehold.
  1,3: (* a consumer holding a result can send it: the result channel is empty *)
    apply existsb_nth in Ehold; destruct Ehold as (c & y & Hn & Hy);
    destruct y as [|w|w x|]; try discriminate;
    exists (OSendOut c); cbn [opar_step]; rewrite Hn, Hout; cbn [length];
    destruct (Nat.ltb_spec 0 (2 * o_tasks k)) as [_|Hge]; [eexists; reflexivity|lia].
  all: destruct (existsb is_idle (o_cons s)) eqn:Eidle.
  1,3: (* an idle consumer receives, or ends, or waits for the feeder, which can move *)
    apply existsb_nth in Eidle; destruct Eidle as (c & y & Hn & Hy);
    destruct y as [|w|w x|]; try discriminate;
    (destruct (o_inq s) as [|x q] eqn:Eq;
     [ destruct (o_closed s) eqn:Ecl;
       [ exists (OFinish c); cbn [opar_step]; rewrite Hn, Eq, Ecl; eexists; reflexivity
       | destruct (o_rest s) as [|x r] eqn:Er;
         [ exists OClose; cbn [opar_step]; rewrite Ecl, Er; eexists; reflexivity
         | exists OFeedSend; cbn [opar_step]; rewrite Ecl, Er, Eq; cbn [length];
           destruct (Nat.ltb_spec 0 (2 * o_tasks k)) as [_|Hge]; [eexists; reflexivity|lia] ] ]
     | exists (ORecv c); cbn [opar_step]; rewrite Hn, Eq; eexists; reflexivity ]).
  all: destruct (o_all_done (o_cons s)) eqn:Eall.
  - (* returned, all done: the state is final *)
    exfalso. unfold ofinal in Hfin. rewrite Eret, Eall in Hfin.
    assert (Hcl : o_closed s = true).
    { apply (oi_done _ _ _ I). pose proof (oi_len _ _ _ I) as Hl.
      destruct (o_cons s) as [|a cs]; [cbn [length] in Hl; lia|].
      unfold o_all_done in Eall. cbn [forallb existsb] in *.
      apply andb_true_iff in Eall. destruct Eall as [Ha _]. rewrite Ha. reflexivity. }
    rewrite Hcl in Hfin. discriminate.
  - exfalso. destruct (oi_ret _ _ _ I Eret) as [Ha _]. rewrite Ha in Eall. discriminate.
  - exists ODrainEnd. cbn [opar_step]. rewrite Eret, Eo, Eall. eexists; reflexivity.
  - (* a queued consumer and a free worker *)
    apply forallb_false_nth in Eall. destruct Eall as (c & y & Hn & Hy).
    assert (y = OQueued).
    { destruct y as [|w|w x|]; [reflexivity| | |discriminate].
      - rewrite (nth_existsb is_idle _ _ _ Hn eq_refl) in Eidle. discriminate.
      - rewrite (nth_existsb is_holding _ _ _ Hn eq_refl) in Ehold. discriminate. }
    subst y. unfold o_has_free_worker in Hfree.
    destruct (o_caller_in_g k) eqn:Eg.
    + exists (OStart 1 c). cbn [opar_step]. rewrite Eg, (obusy_none _ 1 Ehold Eidle), Hn.
      apply Nat.leb_le in Hfree.
      destruct (Nat.ltb_spec 1 (o_gworkers k)) as [_|Hge]; [|lia]. eexists; reflexivity.
    + exists (OStart 0 c). cbn [opar_step]. rewrite Eg, (obusy_none _ 0 Ehold Eidle), Hn.
      apply Nat.leb_le in Hfree.
      destruct (Nat.ltb_spec 0 (o_gworkers k)) as [_|Hge]; [|lia]. eexists; reflexivity.
Qed.

(** the code as it is now either takes the sequential branch or has a free global worker *)
Lemma fixed_seq_or_free k :
  o_fixed k = true -> (1 <= o_gworkers k)%nat ->
  o_takes_seq k = false -> o_has_free_worker k = true.
Proof.
  intros Hfix HG Hpar. unfold o_takes_seq in Hpar. rewrite Hfix in Hpar. cbn [andb] in Hpar.
  unfold o_has_free_worker, o_caller_in_g. unfold seq_branch, caller_pool in Hpar.
  destruct (o_caller k); apply Nat.leb_le; try exact HG.
  apply Nat.eqb_neq in Hpar. lia.
Qed.

Theorem ord_progress : S_ord_progress.
Proof.
  intros k items s Hfix HG HT Hr Hfin. destruct (o_takes_seq k) eqn:Eseq.
  - exact (seq_progress _ _ _ Eseq Hr Hfin).
  - exact (par_progress _ _ _ Eseq (fixed_seq_or_free _ Hfix HG Eseq) HT Hr Hfin).
Qed.

Theorem ord_progress_prefix : S_ord_progress_prefix.
Proof.
  intros k items s Hfix Hfree HT Hr Hfin.
  exact (par_progress _ _ _ (prefix_not_seq _ Hfix) Hfree HT Hr Hfin).
Qed.

(** * [ostuck] is exact *)
Lemma olabel_in_all_par k items s l s' :
  OInv k items s -> opar_step k s l = Some s' -> In l (o_all_labels k).
Proof.
  intros I H. pose proof (oi_len _ _ _ I) as Ilen. unfold o_all_labels.
  assert (Hc : forall c x, nth_error (o_cons s) c = Some x -> In c (seq 0 (o_tasks k))).
  { intros c x Hn. apply in_seq. rewrite <- Ilen.
    assert (c < length (o_cons s))%nat by (apply nth_error_Some; rewrite Hn; discriminate). lia. }
  destruct l; try (cbn; tauto); apply in_or_app; right; apply in_flat_map;
    cbn [opar_step] in H.
  - (* OStart *)
    destruct ((w <? o_gworkers k)%nat && negb (o_caller_in_g k && Nat.eqb w 0)
              && negb (obusy (o_cons s) w)) eqn:G; [|discriminate].
    destruct (nth_error (o_cons s) c) as [y|] eqn:Hn; [|discriminate].
    exists c. split; [exact (Hc _ _ Hn)|]. right. right. right.
    apply in_map_iff. exists w. split; [reflexivity|]. apply in_seq.
    apply andb_true_iff in G. destruct G as [G _]. apply andb_true_iff in G. destruct G as [G _].
    apply Nat.ltb_lt in G. lia.
  - destruct (nth_error (o_cons s) c) as [y|] eqn:Hn; [|discriminate].
    exists c. split; [exact (Hc _ _ Hn)|]. left. reflexivity.
  - destruct (nth_error (o_cons s) c) as [y|] eqn:Hn; [|discriminate].
    exists c. split; [exact (Hc _ _ Hn)|]. right. left. reflexivity.
  - destruct (nth_error (o_cons s) c) as [y|] eqn:Hn; [|discriminate].
    exists c. split; [exact (Hc _ _ Hn)|]. right. right. left. reflexivity.
Qed.

Lemma olabel_in_all k items s l s' :
  oreachable k items s -> ostep k s l = Some s' -> In l (o_all_labels k).
Proof.
  intros Hr H. destruct (o_takes_seq k) eqn:Eseq.
  - rewrite (ostep_seq _ _ _ Eseq) in H. unfold o_all_labels.
    destruct l; cbn [oseq_step] in H; try discriminate H; cbn; tauto.
  - rewrite (ostep_par _ _ _ Eseq) in H.
    exact (olabel_in_all_par _ _ _ _ _ (oinv_reachable _ _ _ Eseq Hr) H).
Qed.

Theorem ord_stuck_spec : S_ord_stuck_spec.
Proof.
  intros k items s Hr. unfold ostuck, oenabled. split.
  - intros H l. destruct (ostep k s l) as [s'|] eqn:Hs; [|reflexivity]. exfalso.
    pose proof (olabel_in_all _ _ _ _ _ Hr Hs) as Hin.
    assert (Hf : In l (filter (fun l => is_some (ostep k s l)) (o_all_labels k))).
    { apply filter_In. split; [exact Hin|]. rewrite Hs. reflexivity. }
    destruct (filter (fun l => is_some (ostep k s l)) (o_all_labels k)); [contradiction|discriminate].
  - intros H. rewrite filter_none; [reflexivity|]. intros l _. rewrite H. reflexivity.
Qed.

(** * The caller is the only worker of the global pool *)
Definition is_queued (c : ocstate) : bool := match c with OQueued => true | _ => false end.

Lemma all_queued_upd_contra cs c y :
  forallb is_queued cs = true -> nth_error cs c = Some y -> is_queued y = false -> False.
Proof.
  intros Ha Hn Hq. rewrite (forallb_nth _ _ _ _ Ha Hn) in Hq. discriminate.
Qed.

Lemma never_started k items s :
  o_fixed k = false -> o_caller_in_g k = true -> o_gworkers k = 1%nat ->
  oreachable k items s -> forallb is_queued (o_cons s) = true.
Proof.
  intros Hfix Hg HG. pose proof (prefix_not_seq _ Hfix) as Hpar.
  induction 1 as [|s l s' _ IH Hs].
  - unfold oinit. rewrite Hpar. osimpl.
    induction (o_tasks k) as [|n IHn]; cbn [repeat forallb is_queued andb];
      [reflexivity|exact IHn].
  - rewrite (ostep_par _ _ _ Hpar) in Hs.
    destruct s as [cl rest inq cons outq arr ret]. osimpl. cbn [o_cons] in IH.
    destruct l; cbn [opar_step o_closed o_rest o_inq o_cons o_outq o_arr o_returned] in Hs;
      try discriminate Hs;
      ostep_inv Hs; osimpl; try assumption; exfalso.
    + (* OStart: the only worker is the caller *)
      rewrite Hg, HG in E. destruct w as [|w]; cbn in E; discriminate.
    + exact (all_queued_upd_contra _ _ _ IH E eq_refl).
    + exact (all_queued_upd_contra _ _ _ IH E eq_refl).
    + exact (all_queued_upd_contra _ _ _ IH E eq_refl).
Qed.

Theorem ord_deadlock_all : S_ord_deadlock_all.
Proof.
  intros k items s Hfix Hc HG HT Hr.
  assert (Hg : o_caller_in_g k = true) by (unfold o_caller_in_g; rewrite Hc; reflexivity).
  pose proof (never_started _ _ _ Hfix Hg HG Hr) as Hq.
  pose proof (oi_len _ _ _ (oinv_reachable _ _ _ (prefix_not_seq _ Hfix) Hr)) as Hl.
  unfold ofinal. destruct (o_cons s) as [|a cs]; [cbn [length] in Hl; lia|].
  cbn [forallb] in Hq. apply andb_true_iff in Hq. destruct Hq as [Ha _].
  destruct a; try discriminate. unfold o_all_done. cbn [forallb o_is_done andb].
  apply andb_false_r.
Qed.

Theorem ord_deadlock_refuted : S_ord_deadlock_refuted.
Proof.
  (* one consumer, five items: the feeder fills the input channel (capacity 2) and blocks,
     the consumer is never started, the caller blocks on the empty result channel *)
  set (k := mkOCfg 1 1 OGlobalWorker false).
  set (items := nseq 0 5).
  set (s := mkOSt false (nseq 2 3) (nseq 0 2) [OQueued] [] [] false).
  assert (Hr : oreachable k items s).
  { apply (oreach_step k items (mkOSt false (nseq 1 4) (nseq 0 1) [OQueued] [] [] false) OFeedSend);
      [|reflexivity].
    apply (oreach_step k items (oinit k items) OFeedSend); [|reflexivity].
    apply oreach_init. }
  exists k, items, s. split; [reflexivity|]. split; [reflexivity|]. split; [reflexivity|].
  split; [cbn; lia|].
  split; [exact Hr|]. split; [reflexivity|].
  apply (ord_stuck_spec k items s Hr). vm_compute. reflexivity.
Qed.

(** * Value of final states *)
Lemma holds_all_done cs : o_all_done cs = true -> holds cs = [].
Proof.
  unfold holds, o_all_done. induction cs as [|a cs IH]; intros H; cbn [forallb flat_map] in *; [reflexivity|].
  apply andb_true_iff in H. destruct H as [Ha H]. destruct a; try discriminate.
  cbn [hold_of app]. apply IH. exact H.
Qed.

Lemma ofinal_perm k items s :
  (1 <= o_tasks k)%nat -> OInv k items s -> ofinal s = true -> Permutation (lrev (o_arr s)) items.
Proof.
  intros HT I Hf. unfold ofinal in Hf.
  apply andb_true_iff in Hf. destruct Hf as [Hf Hall].
  apply andb_true_iff in Hf. destruct Hf as [Hret Hcl].
  destruct (oi_ret _ _ _ I Hret) as [_ Hout].
  pose proof (oi_rest _ _ _ I Hcl) as Hrest.
  assert (Hinq : o_inq s = []).
  { apply (oi_done _ _ _ I). pose proof (oi_len _ _ _ I) as Hl.
    destruct (o_cons s) as [|a cs]; [cbn [length] in Hl; lia|].
    unfold o_all_done in Hall. cbn [forallb existsb] in *.
    apply andb_true_iff in Hall. destruct Hall as [Ha _]. rewrite Ha. reflexivity. }
  apply (Permutation_count_occ N.eq_dec). intros z.
  pose proof (oi_cnt _ _ _ I z) as Hc. unfold opool in Hc.
  rewrite Hout, Hrest, Hinq, (holds_all_done _ Hall) in Hc. cbn [app] in Hc.
  rewrite !app_nil_r in Hc. fold (cnt items z). rewrite <- Hc.
  fold (cnt (lrev (o_arr s)) z). apply cnt_rev.
Qed.

Lemma combine_map_self {X} (g : N -> X) : forall l, combine l (map g l) = map (fun i => (i, g i)) l.
Proof. induction l as [|a l IH]; cbn [map combine]; [reflexivity|]. rewrite IH. reflexivity. Qed.

Lemma ord_value_perm {R A} (f : N -> R) (fold : A -> R -> A) (init : A) len arr :
  Permutation arr (nseq 0 len) ->
  ord_value f fold init arr = fold_left fold (map f (nseq 0 len)) init.
Proof.
  intros Hp. unfold ord_value, rb_value.
  rewrite (rb_ord_value R A fold init (map f (nseq 0 len))); [reflexivity|].
  rewrite map_length, nseq_length, combine_map_self. apply Permutation_map. exact Hp.
Qed.

Theorem ord_machine_value : S_ord_machine_value.
Proof.
  intros R A f fold init k len s HT Hr Hf.
  apply ord_value_perm. destruct (o_takes_seq k) eqn:Eseq.
  - rewrite (seq_final_inorder _ _ _ Eseq Hr Hf). apply Permutation_refl.
  - apply ofinal_perm with k; [exact HT|apply oinv_reachable; [exact Eseq|exact Hr]|exact Hf].
Qed.

(** * The runner *)
Lemma orun_ok k items :
  (forall s, oreachable k items s -> ofinal s = false -> exists l s', ostep k s l = Some s') ->
  forall fuel s sched0 sched,
  oreachable k items s -> (omeasure s <= fuel)%nat ->
  exists s', oreachable k items s' /\ ofinal s' = true
    /\ orun k fuel sched0 sched s = OTerminated (lrev (o_arr s')).
Proof.
  intros Hprog. induction fuel as [|fuel IH]; intros s sched0 sched Hr Hm.
  - destruct (ofinal s) eqn:Hf.
    + exists s. split; [exact Hr|]. split; [exact Hf|]. cbn [orun]. rewrite Hf. reflexivity.
    + exfalso. destruct (Hprog s Hr Hf) as (l & s' & Hs).
      pose proof (ord_measure_decreases _ _ _ _ Hs). lia.
  - destruct (ofinal s) eqn:Hf.
    + exists s. split; [exact Hr|]. split; [exact Hf|]. cbn [orun]. rewrite Hf. reflexivity.
    + cbn [orun]. rewrite Hf.
      set (en0 := filter (fun l => is_some (ostep k s l)) (ocandidates k s)).
      set (en := match en0 with [] => oenabled k s | _ => en0 end).
      assert (Hall : forall l, In l en -> is_some (ostep k s l) = true).
      { intros l Hin. subst en. destruct en0 eqn:E0.
        - unfold oenabled in Hin. apply filter_In in Hin. apply Hin.
        - rewrite <- E0 in Hin. subst en0. apply filter_In in Hin. apply Hin. }
      assert (Hne : en <> []).
      { subst en. destruct en0 eqn:E0; [|discriminate].
        intros Hnil. destruct (Hprog s Hr Hf) as (l & s' & Hs).
        assert (Hst : ostuck k s = true) by (unfold ostuck; rewrite Hnil; reflexivity).
        apply (ord_stuck_spec k items s Hr) with (l := l) in Hst. rewrite Hs in Hst. discriminate. }
      destruct en as [|l0 en'] eqn:Een; [contradiction|].
      rewrite <- Een in *.
      pose proof (Hall _ (nth_mod_in en l0 (fst (next_choice sched0 sched)) Hne)) as Hsome.
      destruct (ostep k s (nth (fst (next_choice sched0 sched) mod length en) en l0)) as [s'|] eqn:Hs;
        [|discriminate].
      apply IH.
      * exact (oreach_step _ _ _ _ _ Hr Hs).
      * pose proof (ord_measure_decreases _ _ _ _ Hs) as Hd. clear - Hd Hm. lia.
Qed.

Lemma pmf_tasks_pos w hint : (1 <= pmf_tasks w hint)%nat.
Proof. unfold pmf_tasks. apply Nat.le_max_l. Qed.

Theorem ord_run_total : S_ord_run_total.
Proof.
  intros R A f fold init gw caller hint len sched HG.
  unfold pmf_ord_run, pmf_ord_run_gen.
  set (k := mkOCfg gw (pmf_tasks (caller_threads gw caller) hint) caller true).
  assert (HT : (1 <= o_tasks k)%nat) by (subst k; cbn [o_tasks]; apply pmf_tasks_pos).
  assert (Hprog : forall s, oreachable k (nseq 0 len) s -> ofinal s = false ->
                  exists l s', ostep k s l = Some s').
  { intros s Hr Hf. exact (ord_progress k (nseq 0 len) s eq_refl HG HT Hr Hf). }
  destruct (orun_ok k (nseq 0 len) Hprog _ _ sched sched (oreach_init _ _) (le_n _))
    as (s' & Hr & Hf & Hrun).
  exists (lrev (o_arr s')). split; [exact Hrun|].
  exact (ord_machine_value R A f fold init k len s' HT Hr Hf).
Qed.

Theorem ord_run_seq : S_ord_run_seq.
Proof.
  intros gw caller hint len sched Hc.
  unfold pmf_ord_run, pmf_ord_run_gen.
  set (k := mkOCfg gw (pmf_tasks (caller_threads gw caller) hint) caller true).
  assert (Hseq : o_takes_seq k = true).
  { subst k. unfold o_takes_seq, seq_branch. cbn [o_fixed o_gworkers o_caller andb].
    rewrite Hc. reflexivity. }
  assert (Hprog : forall s, oreachable k (nseq 0 len) s -> ofinal s = false ->
                  exists l s', ostep k s l = Some s').
  { intros s Hr Hf. exact (seq_progress _ _ _ Hseq Hr Hf). }
  destruct (orun_ok k (nseq 0 len) Hprog _ _ sched sched (oreach_init _ _) (le_n _))
    as (s' & Hr & Hf & Hrun).
  rewrite Hrun. rewrite (seq_final_inorder _ _ _ Hseq Hr Hf). reflexivity.
Qed.

Theorem ord_run_total_prefix : S_ord_run_total_prefix.
Proof.
  intros R A f fold init gw caller hint len sched HN.
  unfold pmf_ord_run_prefix, pmf_ord_run_gen.
  set (k := mkOCfg gw (pmf_tasks (caller_threads gw caller) hint) caller false).
  assert (HT : (1 <= o_tasks k)%nat) by (subst k; cbn [o_tasks]; apply pmf_tasks_pos).
  assert (Hfree : o_has_free_worker k = true).
  { subst k. unfold o_has_free_worker, o_caller_in_g. cbn [o_caller o_gworkers].
    destruct caller; apply Nat.leb_le; exact HN. }
  assert (Hprog : forall s, oreachable k (nseq 0 len) s -> ofinal s = false ->
                  exists l s', ostep k s l = Some s').
  { intros s Hr Hf. exact (ord_progress_prefix k (nseq 0 len) s eq_refl Hfree HT Hr Hf). }
  destruct (orun_ok k (nseq 0 len) Hprog _ _ sched sched (oreach_init _ _) (le_n _))
    as (s' & Hr & Hf & Hrun).
  exists (lrev (o_arr s')). split; [exact Hrun|].
  exact (ord_machine_value R A f fold init k len s' HT Hr Hf).
Qed.

Lemma orun_deadlock k items :
  o_fixed k = false -> o_caller k = OGlobalWorker -> o_gworkers k = 1%nat -> (1 <= o_tasks k)%nat ->
  forall fuel s sched0 sched,
  oreachable k items s -> (omeasure s <= fuel)%nat ->
  orun k fuel sched0 sched s = ODeadlock.
Proof.
  intros Hfix Hc HG HT.
  assert (Hg : o_caller_in_g k = true) by (unfold o_caller_in_g; rewrite Hc; reflexivity).
  induction fuel as [|fuel IH]; intros s sched0 sched Hr Hm.
  - exfalso. pose proof (never_started _ _ _ Hfix Hg HG Hr) as Hq.
    pose proof (oi_len _ _ _ (oinv_reachable _ _ _ (prefix_not_seq _ Hfix) Hr)) as Hl.
    unfold omeasure in Hm. destruct (o_cons s) as [|a cs]; [cbn [length] in Hl; lia|].
    cbn [forallb] in Hq. apply andb_true_iff in Hq. destruct Hq as [Ha _].
    destruct a; try discriminate. simpl in Hm. lia.
  - cbn [orun]. rewrite (ord_deadlock_all k items s Hfix Hc HG HT Hr).
    set (en0 := filter (fun l => is_some (ostep k s l)) (ocandidates k s)).
    set (en := match en0 with [] => oenabled k s | _ => en0 end).
    destruct en as [|l0 en'] eqn:Een; [reflexivity|].
    rewrite <- Een.
    destruct (ostep k s (nth (fst (next_choice sched0 sched) mod length en) en l0)) as [s'|] eqn:Hs;
      [|reflexivity].
    apply IH.
    + exact (oreach_step _ _ _ _ _ Hr Hs).
    + pose proof (ord_measure_decreases _ _ _ _ Hs) as Hd. clear - Hd Hm. lia.
Qed.

Theorem ord_run_deadlock : S_ord_run_deadlock.
Proof.
  intros hint len sched. unfold pmf_ord_run_prefix, pmf_ord_run_gen.
  set (k := mkOCfg 1 (pmf_tasks (caller_threads 1 OGlobalWorker) hint) OGlobalWorker false).
  assert (HT : (1 <= o_tasks k)%nat) by (subst k; cbn [o_tasks]; apply pmf_tasks_pos).
  apply (orun_deadlock k (nseq 0 len) eq_refl eq_refl eq_refl HT).
  - apply oreach_init.
  - apply le_n.
Qed.
