(** Proofs of the value statements of PMF/Statements.v: folding any partition of the items,
    in any order, over a commutative monoid is the sequential fold; the reorder buffer
    re-sequences every arrival order. *)
From WG Require Import Base.Prelude PMF.Sched PMF.Ord PMF.Statements.
From Coq Require Import ZifyBool ZifyN ZifyNat.
Local Open Scope N_scope.

(** * Commutative-monoid folds *)
Section Monoid.
  Context {R A : Type}.
  Variable f : N -> R.
  Variable inner : A -> R -> A.
  Variable outer : A -> A -> A.
  Variable dflt : A.
  Hypothesis Hmon : comm_monoid outer dflt.
  Hypothesis Hcompat : compatible inner outer.

  Let assoc := proj1 Hmon.
  Let comm := proj1 (proj2 Hmon).
  Let unit_r := proj2 (proj2 Hmon).

  Lemma unit_l a : outer dflt a = a.
  Proof. rewrite comm. apply unit_r. Qed.

  (** the monoid element of a list of items *)
  Fixpoint prod (l : list N) : A :=
    match l with [] => dflt | x :: l' => outer (inner dflt (f x)) (prod l') end.

  Lemma inner_outer a r : inner a r = outer a (inner dflt r).
  Proof. rewrite <- (unit_r a) at 1. apply Hcompat. Qed.

  Lemma fold_inner_prod : forall l a, fold_left inner (map f l) a = outer a (prod l).
  Proof.
    induction l as [|x l IH]; intros a; cbn [map fold_left prod].
    - symmetry. apply unit_r.
    - rewrite IH. rewrite inner_outer. apply assoc.
  Qed.

  Lemma part_value_prod l : part_value f inner dflt l = prod l.
  Proof. unfold part_value. rewrite fold_inner_prod. apply unit_l. Qed.

  Lemma prod_app : forall l1 l2, prod (l1 ++ l2) = outer (prod l1) (prod l2).
  Proof.
    induction l1 as [|x l1 IH]; intros l2; cbn [app prod].
    - symmetry. apply unit_l.
    - rewrite IH. symmetry. apply assoc.
  Qed.

  Lemma prod_perm l1 l2 : Permutation l1 l2 -> prod l1 = prod l2.
  Proof.
    induction 1 as [|x l1 l2 _ IH|x y l|l1 l2 l3 _ IH1 _ IH2]; cbn [prod].
    - reflexivity.
    - rewrite IH. reflexivity.
    - rewrite <- !assoc. rewrite (comm (inner dflt (f y))). reflexivity.
    - rewrite IH1. exact IH2.
  Qed.

  Lemma fold_outer_parts : forall parts a,
    fold_left outer (map (part_value f inner dflt) parts) a = outer a (prod (concat parts)).
  Proof.
    induction parts as [|p parts IH]; intros a; cbn [map fold_left concat].
    - cbn [prod]. symmetry. apply unit_r.
    - rewrite IH. rewrite part_value_prod. rewrite prod_app. apply assoc.
  Qed.

  Lemma combine_results_prod caller_part parts :
    combine_results f inner outer dflt caller_part parts = prod (caller_part ++ concat parts).
  Proof.
    unfold combine_results. rewrite fold_outer_parts, part_value_prod, prod_app. reflexivity.
  Qed.

  Lemma seq_fold_prod items : seq_fold f inner dflt items = prod items.
  Proof. unfold seq_fold. rewrite fold_inner_prod. apply unit_l. Qed.

  Lemma fold_value_sec items caller_part parts :
    Permutation (caller_part ++ concat parts) items ->
    combine_results f inner outer dflt caller_part parts = seq_fold f inner dflt items.
  Proof.
    intros Hp. rewrite combine_results_prod, seq_fold_prod. apply prod_perm. exact Hp.
  Qed.
End Monoid.

Theorem fold_value : S_fold_value.
Proof.
  intros R A f inner outer dflt Hmon Hc items cp parts Hp.
  apply fold_value_sec; assumption.
Qed.

Theorem fold_value_same : S_fold_value_same.
Proof.
  intros A f fold dflt Hmon items cp parts Hp.
  apply fold_value_sec; try assumption.
  intros a b r. apply (proj1 Hmon).
Qed.

(** * Reorder buffer *)
Section Reorder.
  Context {R A : Type}.
  Variable fold : A -> R -> A.

  Definition slot (buf : list (option R)) (j : nat) : option R := nth j buf None.

  Lemma slot_nil j : slot [] j = None.
  Proof. unfold slot. destruct j; reflexivity. Qed.

  Lemma rb_set_slot (r : R) : forall off buf j,
    slot (rb_set buf off r) j = if Nat.eqb j off then Some r else slot buf j.
  Proof.
    unfold slot.
    induction off as [|off IH]; intros buf j; destruct buf as [|a buf]; cbn [rb_set].
    - destruct j as [|j]; cbn [nth Nat.eqb]; [reflexivity|]. destruct j; reflexivity.
    - destruct j as [|j]; cbn [nth Nat.eqb]; reflexivity.
    - destruct j as [|j]; cbn [nth Nat.eqb]; [reflexivity|].
      rewrite IH. destruct (Nat.eqb j off); [reflexivity|]. destruct j; reflexivity.
    - destruct j as [|j]; cbn [nth Nat.eqb]; [reflexivity|]. apply IH.
  Qed.

  (** the last cell of a non-empty buffer is occupied *)
  Definition last_some (buf : list (option R)) : Prop :=
    buf = [] \/ exists r, slot buf (length buf - 1) = Some r.

  Lemma rb_set_length (r : R) : forall off buf,
    length (rb_set buf off r) = Nat.max (length buf) (S off).
  Proof.
    induction off as [|off IH]; intros buf; destruct buf as [|a buf]; cbn [rb_set length].
    - reflexivity.
    - lia.
    - rewrite IH. cbn [length]. lia.
    - rewrite IH. lia.
  Qed.

  Lemma rb_set_last_some (r : R) off buf : last_some buf -> last_some (rb_set buf off r).
  Proof.
    intros [->|[r0 Hr0]]; right.
    - rewrite rb_set_length. cbn [length]. exists r. rewrite rb_set_slot.
      replace (Nat.max 0 (S off) - 1)%nat with off by lia. rewrite Nat.eqb_refl. reflexivity.
    - rewrite rb_set_length, rb_set_slot.
      destruct (Nat.eqb (Nat.max (length buf) (S off) - 1) off) eqn:E; [eexists; reflexivity|].
      apply Nat.eqb_neq in E.
      assert (length buf <> 0)%nat.
      { intros H0. destruct buf; [|discriminate]. rewrite slot_nil in Hr0. discriminate. }
      replace (Nat.max (length buf) (S off) - 1)%nat with (length buf - 1)%nat by lia.
      exists r0. exact Hr0.
  Qed.

  Variable init : A.
  Variable rs : list R.

  (** [todo] = the arrivals not yet processed *)
  Record RInv (buf : list (option R)) (next : N) (acc : A) (todo : list (N * R)) : Prop := {
    j_next : (N.to_nat next <= length rs)%nat;
    j_acc : acc = fold_left fold (firstn (N.to_nat next) rs) init;
    j_buf : forall j r, slot buf j = Some r -> nth_error rs (N.to_nat next + j) = Some r;
    j_todo : forall i r, In (i, r) todo ->
               next <= i /\ nth_error rs (N.to_nat i) = Some r
               /\ slot buf (N.to_nat (i - next)) = None;
    j_nodup : NoDup (map fst todo);
    j_cov : forall i, next <= i -> i < nlen rs ->
               (exists r, slot buf (N.to_nat (i - next)) = Some r) \/ In i (map fst todo);
    j_last : last_some buf }.

  Lemma set_ok buf next acc i r todo :
    RInv buf next acc ((i, r) :: todo) ->
    RInv (rb_set buf (N.to_nat (i - next)) r) next acc todo.
  Proof.
    intros J.
    destruct (j_todo _ _ _ _ J i r (or_introl eq_refl)) as (Hle & Hnth & Hnone).
    pose proof (j_nodup _ _ _ _ J) as Hnd. cbn [map fst] in Hnd.
    apply NoDup_cons_iff in Hnd. destruct Hnd as [Hnin Hnd].
    constructor.
    - exact (j_next _ _ _ _ J).
    - exact (j_acc _ _ _ _ J).
    - intros j r0 H. rewrite rb_set_slot in H.
      destruct (Nat.eqb j (N.to_nat (i - next))) eqn:E.
      + apply Nat.eqb_eq in E. injection H as <-. subst j.
        replace (N.to_nat next + N.to_nat (i - next))%nat with (N.to_nat i) by lia. exact Hnth.
      + exact (j_buf _ _ _ _ J j r0 H).
    - intros i' r' Hin.
      destruct (j_todo _ _ _ _ J i' r' (or_intror Hin)) as (H1 & H2 & H3).
      split; [exact H1|]. split; [exact H2|]. rewrite rb_set_slot.
      destruct (Nat.eqb (N.to_nat (i' - next)) (N.to_nat (i - next))) eqn:E; [|exact H3].
      apply Nat.eqb_eq in E. exfalso. apply Hnin.
      assert (i' = i) by lia. subst i'.
      change i with (fst (i, r')). apply in_map. exact Hin.
    - exact Hnd.
    - intros i' H1 H2. destruct (j_cov _ _ _ _ J i' H1 H2) as [[r0 Hs]|Hin].
      + left. rewrite rb_set_slot.
        destruct (Nat.eqb (N.to_nat (i' - next)) (N.to_nat (i - next))); eexists; [reflexivity|exact Hs].
      + cbn [map fst] in Hin. destruct Hin as [<-|Hin]; [|right; exact Hin].
        left. rewrite rb_set_slot. rewrite Nat.eqb_refl. eexists; reflexivity.
    - apply rb_set_last_some. exact (j_last _ _ _ _ J).
  Qed.

  Lemma firstn_S_nth {X} : forall k (l : list X) x,
    nth_error l k = Some x -> firstn (S k) l = firstn k l ++ [x].
  Proof.
    induction k as [|k IH]; intros l x H; destruct l as [|a l]; cbn [nth_error] in H;
      try discriminate.
    - injection H as <-. reflexivity.
    - cbn [firstn app]. f_equal. apply (IH l x H).
  Qed.

  Lemma flush_ok todo : forall buf next acc,
    RInv buf next acc todo ->
    let '(b', n', a') := rb_flush fold buf next acc in
    RInv b' n' a' todo /\ slot b' 0 = None.
  Proof.
    induction buf as [|o buf IH]; intros next acc J.
    - cbn [rb_flush]. split; [exact J|reflexivity].
    - destruct o as [r|]; cbn [rb_flush]; [|split; [exact J|reflexivity]].
      apply IH.
      pose proof (j_buf _ _ _ _ J 0%nat r eq_refl) as H0.
      rewrite Nat.add_0_r in H0.
      assert (Hlt : (N.to_nat next < length rs)%nat).
      { apply nth_error_Some. rewrite H0. discriminate. }
      constructor.
      + lia.
      + replace (N.to_nat (next + 1)) with (S (N.to_nat next)) by lia.
        rewrite (firstn_S_nth _ _ _ H0). rewrite fold_left_app. cbn [fold_left].
        rewrite <- (j_acc _ _ _ _ J). reflexivity.
      + intros j r0 H.
        replace (N.to_nat (next + 1) + j)%nat with (N.to_nat next + S j)%nat by lia.
        apply (j_buf _ _ _ _ J (S j) r0). exact H.
      + intros i r0 Hin. destruct (j_todo _ _ _ _ J i r0 Hin) as (H1 & H2 & H3).
        assert (Hne : N.to_nat (i - next) <> 0%nat).
        { intros E. rewrite E in H3. discriminate. }
        split; [lia|]. split; [exact H2|].
        replace (N.to_nat (i - next)) with (S (N.to_nat (i - (next + 1)))) in H3 by lia.
        exact H3.
      + exact (j_nodup _ _ _ _ J).
      + intros i H1 H2. destruct (j_cov _ _ _ _ J i ltac:(lia) H2) as [[r0 Hs]|Hin];
          [|right; exact Hin].
        left. exists r0.
        replace (N.to_nat (i - next)) with (S (N.to_nat (i - (next + 1)))) in Hs by lia.
        exact Hs.
      + destruct (j_last _ _ _ _ J) as [E|[r0 Hr0]]; [discriminate|].
        destruct buf as [|o' buf']; [left; reflexivity|right].
        exists r0. cbn [length] in Hr0 |- *.
        replace (S (S (length buf')) - 1)%nat with (S (S (length buf') - 1)) in Hr0 by lia.
        exact Hr0.
  Qed.

  Lemma drain_ok : forall todo buf next acc,
    RInv buf next acc todo -> slot buf 0 = None ->
    fold_left (rb_step fold) todo (buf, next, acc) = ([], nlen rs, fold_left fold rs init).
  Proof.
    induction todo as [|[i r] todo IH]; intros buf next acc J Hf.
    - cbn [fold_left].
      assert (Hn : next = nlen rs).
      { unfold nlen. pose proof (j_next _ _ _ _ J) as Hle.
        destruct (N.eq_dec next (N.of_nat (length rs))) as [E|E]; [exact E|exfalso].
        destruct (j_cov _ _ _ _ J next (N.le_refl _) ltac:(unfold nlen; lia)) as [[r Hs]|[]].
        rewrite N.sub_diag in Hs. change (N.to_nat 0) with 0%nat in Hs. rewrite Hs in Hf. discriminate. }
      assert (Hb : buf = []).
      { destruct (j_last _ _ _ _ J) as [E|[r Hr]]; [exact E|exfalso].
        apply (j_buf _ _ _ _ J) in Hr.
        assert (N.to_nat next + (length buf - 1) < length rs)%nat.
        { apply nth_error_Some. rewrite Hr. discriminate. }
        unfold nlen in Hn. lia. }
      subst buf. rewrite (j_acc _ _ _ _ J). rewrite Hn. unfold nlen.
      rewrite Nat2N.id, firstn_all. reflexivity.
    - cbn [fold_left]. unfold rb_step at 2. cbn [fst snd].
      pose proof (flush_ok todo _ _ _ (set_ok _ _ _ _ _ _ J)) as H.
      destruct (rb_flush fold (rb_set buf (N.to_nat (i - next)) r) next acc) as [[b' n'] a'].
      destruct H as [J' Hf']. apply IH; assumption.
  Qed.

  Lemma in_nseq : forall n a x, In x (nseq a n) <-> a <= x < a + N.of_nat n.
  Proof.
    induction n as [|n IH]; intros a x; cbn [nseq In].
    - lia.
    - rewrite IH. lia.
  Qed.

  Lemma nodup_nseq : forall n a, NoDup (nseq a n).
  Proof.
    induction n as [|n IH]; intros a; cbn [nseq]; constructor.
    - rewrite in_nseq. lia.
    - apply IH.
  Qed.

  Lemma nseq_length : forall n a, length (nseq a n) = n.
  Proof. induction n as [|n IH]; intros a; cbn [nseq length]; [reflexivity|]. rewrite IH. reflexivity. Qed.

  Lemma in_combine_nseq : forall (l : list R) a i r,
    In (i, r) (combine (nseq a (length l)) l) ->
    a <= i /\ nth_error l (N.to_nat (i - a)) = Some r.
  Proof.
    induction l as [|x l IH]; intros a i r H; cbn [length nseq combine In] in H; [contradiction|].
    destruct H as [E|H].
    - injection E as <- <-. rewrite N.sub_diag. split; [lia|reflexivity].
    - apply IH in H. destruct H as [H1 H2]. split; [lia|].
      replace (N.to_nat (i - a)) with (S (N.to_nat (i - (a + 1)))) by lia. exact H2.
  Qed.

  Lemma map_fst_combine {X Y} : forall (l : list X) (l' : list Y),
    length l = length l' -> map fst (combine l l') = l.
  Proof.
    induction l as [|x l IH]; intros l' H; destruct l' as [|y l']; cbn [length] in H;
      try discriminate; cbn [combine map fst]; [reflexivity|].
    f_equal. apply IH. lia.
  Qed.

  Lemma ord_value_sec arr :
    Permutation arr (combine (nseq 0 (length rs)) rs) ->
    rb_run fold arr init = ([], nlen rs, fold_left fold rs init).
  Proof.
    intros Hp. unfold rb_run. apply drain_ok; [|reflexivity].
    assert (Hfst : Permutation (map fst arr) (nseq 0 (length rs))).
    { rewrite <- (map_fst_combine (nseq 0 (length rs)) rs) by apply nseq_length.
      apply Permutation_map. exact Hp. }
    constructor.
    - cbn. lia.
    - reflexivity.
    - intros j r H. rewrite slot_nil in H. discriminate.
    - intros i r Hin. apply (Permutation_in _ Hp) in Hin.
      apply in_combine_nseq in Hin. destruct Hin as [H1 H2].
      rewrite N.sub_0_r in *. split; [lia|]. split; [exact H2|apply slot_nil].
    - apply (Permutation_NoDup (Permutation_sym Hfst)). apply nodup_nseq.
    - intros i H1 H2. right. apply (Permutation_in _ (Permutation_sym Hfst)).
      apply in_nseq. unfold nlen in H2. lia.
    - left. reflexivity.
  Qed.
End Reorder.

Theorem rb_ord_value : S_ord_value.
Proof. intros R A fold init rs arr Hp. apply ord_value_sec. exact Hp. Qed.
