(** The ordered parallel map-fold ([ParMapFold::par_map_fold_ord_with], to which
    [par_map_fold_ord] delegates): reorder buffer and two-pool machine.  Definitions only.

    Three activities: a feeder [std::thread] (not a pool thread) that spawns the consumers
    with [in_place_scope] — hence into the GLOBAL rayon pool, whatever pool the caller runs
    in — and then sends the enumerated items with a blocking [send]; the consumers, which
    loop "[recv] an item, map it, blocking [send] of (index, result)"; the calling thread,
    which drains the result channel with a blocking [recv] and re-sequences the results
    with a [VecDeque<Option<R>>].  Both channels have capacity [2 * o_tasks].  The caller
    never executes pool tasks while it drains: if it is itself a worker of the global pool
    it is simply lost to the pool.

    Before any of that the code (since the repair of defect 7b) tests
    [rayon::current_thread_index().is_some() && rayon::current_num_threads() == 1]: a
    caller that is a worker of a pool -- the global one or a custom one -- whose size is 1
    folds the items sequentially on its own stack, without feeder thread, channels or
    tasks ([o_takes_seq], [oseq_step]).  [current_num_threads()] is the size of the pool
    the CALLER runs in: the custom pool inside [install]/a task of a custom pool, the
    global pool for a task of the global pool and for a thread outside any pool (for which
    [current_thread_index()] is [None], so the branch is not taken whatever the size).

    The configuration carries the flag [o_fixed]: [true] is the code as it is now,
    [false] the rule the code had before the repair (no sequential branch), kept so that
    the refutation theorems about the old rule remain ([pmf_ord_run_prefix]).

    The machine has ONE caller: every worker of the global pool other than the caller is
    available to the consumers. *)
From WG Require Import Base.Prelude PMF.Sched.

Module PmfOrdM.
Local Open Scope N_scope.

(** * Reorder buffer *)
Section Reorder.
  Context {R A : Type}.
  Variable fold : A -> R -> A.

  (** [buffer.resize_with(offset + 1, || None); buffer[offset] = Some(r)] *)
  Fixpoint rb_set (buf : list (option R)) (off : nat) (r : R) : list (option R) :=
    match off, buf with
    | O, [] => [Some r]
    | O, _ :: b => Some r :: b
    | S o, [] => None :: rb_set [] o r
    | S o, x :: b => x :: rb_set b o r
    end.

  (** [while let Some(Some(r)) = buffer.front_mut().map(Option::take)
         { buffer.pop_front(); acc = fold(acc, r); next += 1 }] *)
  Fixpoint rb_flush (buf : list (option R)) (next : N) (acc : A) : list (option R) * N * A :=
    match buf with
    | Some r :: b => rb_flush b (next + 1) (fold acc r)
    | _ => (buf, next, acc)
    end.

  (** one iteration of the drain loop; [idx - next] is the [usize] subtraction of the code *)
  Definition rb_step (st : list (option R) * N * A) (ir : N * R) : list (option R) * N * A :=
    let '(buf, next, acc) := st in
    rb_flush (rb_set buf (N.to_nat (fst ir - next)) (snd ir)) next acc.

  Definition rb_run (arrivals : list (N * R)) (init : A) : list (option R) * N * A :=
    fold_left rb_step arrivals ([], 0, init).

  Definition rb_value (arrivals : list (N * R)) (init : A) : A := snd (rb_run arrivals init).
End Reorder.

(** * Two-pool machine *)
Inductive ocstate :=
| OQueued
| OIdle (w : nat)                 (* running on global worker w, about to recv *)
| OHolding (w : nat) (i : N)      (* running, has mapped item i, about to send it *)
| ODone.

(** what the calling thread is *)
Inductive ocaller :=
| OExternal                  (* not a pool thread: [current_thread_index()] is [None] *)
| OGlobalWorker              (* worker 0 of the global pool (a task of the global pool) *)
| OCustomWorker (n : nat).   (* a worker of another pool, of [n] threads ([install], or a
                                task of that pool) *)

Record ocfg := mkOCfg {
  o_gworkers : nat;        (* threads of the global pool *)
  o_tasks : nat;           (* num_scoped_threads, computed from the CALLER's pool *)
  o_caller : ocaller;
  o_fixed : bool }.        (* the code as it is now / [false]: before the repair of 7b *)

(** the caller is worker 0 of the global pool *)
Definition o_caller_in_g (k : ocfg) : bool :=
  match o_caller k with OGlobalWorker => true | _ => false end.

(** size of the caller's own pool when the caller is a pool worker
    ([current_thread_index().map(|_| current_num_threads())]) *)
Definition caller_pool (gworkers : nat) (c : ocaller) : option nat :=
  match c with
  | OExternal => None
  | OGlobalWorker => Some gworkers
  | OCustomWorker n => Some n
  end.

(** [rayon::current_num_threads()] at the call site *)
Definition caller_threads (gworkers : nat) (c : ocaller) : nat :=
  match c with OCustomWorker n => n | _ => gworkers end.

(** [current_thread_index().is_some() && current_num_threads() == 1] *)
Definition seq_branch (gworkers : nat) (c : ocaller) : bool :=
  match caller_pool gworkers c with
  | Some n => Nat.eqb n 1
  | None => false
  end.

Definition o_takes_seq (k : ocfg) : bool :=
  o_fixed k && seq_branch (o_gworkers k) (o_caller k).

Record ost := mkOSt {
  o_closed : bool;              (* feeder has dropped in_tx *)
  o_rest : list N;              (* not yet sent *)
  o_inq : list N;
  o_cons : list ocstate;
  o_outq : list N;              (* (index, result) pairs: the index determines the pair *)
  o_arr : list N;               (* indices drained by the caller, most recent first *)
  o_returned : bool }.          (* the drain loop has ended *)

Inductive olabel :=
| OFeedSend                 (* blocking send succeeds (channel not full) *)
| OClose
| OStart (w c : nat)
| ORecv (c : nat)
| OSendOut (c : nat)        (* blocking send of the result succeeds (channel not full) *)
| OFinish (c : nat)         (* input closed and empty: the consumer ends *)
| ODrainRecv
| ODrainEnd
| OSeqFold                  (* sequential branch: [acc = fold(acc, map(&mut init, val))] *)
| OSeqReturn.               (* sequential branch: the iterator is exhausted, [return acc] *)

Definition oruns_on (w : nat) (c : ocstate) : bool :=
  match c with OIdle w' | OHolding w' _ => Nat.eqb w w' | _ => false end.
Definition obusy (cs : list ocstate) (w : nat) : bool := existsb (oruns_on w) cs.
Definition o_is_done (c : ocstate) : bool := match c with ODone => true | _ => false end.
Definition o_all_done (cs : list ocstate) : bool := forallb o_is_done cs.

(** the concurrent part: feeder, consumers in the global pool, draining caller *)
Definition opar_step (k : ocfg) (s : ost) (l : olabel) : option ost :=
  match l with
  | OFeedSend =>
      match o_closed s, o_rest s with
      | false, x :: r =>
          if (length (o_inq s) <? 2 * o_tasks k)%nat
          then Some (mkOSt false r (o_inq s ++ [x]) (o_cons s) (o_outq s) (o_arr s) (o_returned s))
          else None
      | _, _ => None
      end
  | OClose =>
      match o_closed s, o_rest s with
      | false, [] => Some (mkOSt true [] (o_inq s) (o_cons s) (o_outq s) (o_arr s) (o_returned s))
      | _, _ => None
      end
  | OStart w c =>
      if (w <? o_gworkers k)%nat && negb (o_caller_in_g k && Nat.eqb w 0)
         && negb (obusy (o_cons s) w)
      then match nth_error (o_cons s) c with
           | Some OQueued =>
               Some (mkOSt (o_closed s) (o_rest s) (o_inq s) (upd (o_cons s) c (OIdle w))
                       (o_outq s) (o_arr s) (o_returned s))
           | _ => None
           end
      else None
  | ORecv c =>
      match nth_error (o_cons s) c, o_inq s with
      | Some (OIdle w), x :: q =>
          Some (mkOSt (o_closed s) (o_rest s) q (upd (o_cons s) c (OHolding w x))
                  (o_outq s) (o_arr s) (o_returned s))
      | _, _ => None
      end
  | OSendOut c =>
      match nth_error (o_cons s) c with
      | Some (OHolding w x) =>
          if (length (o_outq s) <? 2 * o_tasks k)%nat
          then Some (mkOSt (o_closed s) (o_rest s) (o_inq s) (upd (o_cons s) c (OIdle w))
                       (o_outq s ++ [x]) (o_arr s) (o_returned s))
          else None
      | _ => None
      end
  | OFinish c =>
      match nth_error (o_cons s) c, o_inq s, o_closed s with
      | Some (OIdle w), [], true =>
          Some (mkOSt true (o_rest s) [] (upd (o_cons s) c ODone) (o_outq s) (o_arr s)
                  (o_returned s))
      | _, _, _ => None
      end
  | ODrainRecv =>
      match o_returned s, o_outq s with
      | false, x :: o =>
          Some (mkOSt (o_closed s) (o_rest s) (o_inq s) (o_cons s) o (x :: o_arr s) false)
      | _, _ => None
      end
  | ODrainEnd =>
      match o_returned s, o_outq s with
      | false, [] =>
          if o_all_done (o_cons s)
          then Some (mkOSt (o_closed s) (o_rest s) (o_inq s) (o_cons s) [] (o_arr s) true)
          else None
      | _, _ => None
      end
  | OSeqFold | OSeqReturn => None
  end.

(** the sequential branch: the caller alone; [o_arr] records the items in the order in
    which [fold] is applied to their images.  There is no channel: [OSeqReturn] sets
    [o_closed] only so that [ofinal] has one definition for both branches *)
Definition oseq_step (s : ost) (l : olabel) : option ost :=
  match l with
  | OSeqFold =>
      match o_returned s, o_rest s with
      | false, x :: r =>
          Some (mkOSt (o_closed s) r (o_inq s) (o_cons s) (o_outq s) (x :: o_arr s) false)
      | _, _ => None
      end
  | OSeqReturn =>
      match o_returned s, o_rest s with
      | false, [] => Some (mkOSt true [] (o_inq s) (o_cons s) (o_outq s) (o_arr s) true)
      | _, _ => None
      end
  | _ => None
  end.

Definition ostep (k : ocfg) (s : ost) (l : olabel) : option ost :=
  if o_takes_seq k then oseq_step s l else opar_step k s l.

(** no consumer task is created in the sequential branch *)
Definition oinit (k : ocfg) (items : list N) : ost :=
  mkOSt false items [] (repeat OQueued (if o_takes_seq k then 0 else o_tasks k)) [] [] false.

(** the drain loop has ended, the feeder has closed the channel and its scope is complete *)
Definition ofinal (s : ost) : bool :=
  o_returned s && o_closed s && o_all_done (o_cons s).

Inductive oreachable (k : ocfg) (items : list N) : ost -> Prop :=
| oreach_init : oreachable k items (oinit k items)
| oreach_step : forall s l s', oreachable k items s -> ostep k s l = Some s' ->
    oreachable k items s'.

Definition o_all_labels (k : ocfg) : list olabel :=
  [OFeedSend; OClose; ODrainRecv; ODrainEnd; OSeqFold; OSeqReturn]
  ++ flat_map (fun c => [ORecv c; OSendOut c; OFinish c]
                        ++ map (fun w => OStart w c) (seq 0 (o_gworkers k)))
       (seq 0 (o_tasks k)).

Definition oenabled (k : ocfg) (s : ost) : list olabel :=
  filter (fun l => is_some (ostep k s l)) (o_all_labels k).

Definition ostuck (k : ocfg) (s : ost) : bool :=
  match oenabled k s with [] => true | _ => false end.

Definition ocweight (c : ocstate) : nat :=
  match c with OQueued => 2 | OIdle _ => 1 | OHolding _ _ => 3 | ODone => 0 end.
Definition omeasure (s : ost) : nat :=
  (if o_closed s then 0 else 1) + (if o_returned s then 0 else 1)
  + 4 * length (o_rest s) + 3 * length (o_inq s)
  + list_sum (map ocweight (o_cons s)) + length (o_outq s).

(** the global pool has a thread that can execute the consumers *)
Definition o_has_free_worker (k : ocfg) : bool :=
  if o_caller_in_g k then (2 <=? o_gworkers k)%nat else (1 <=? o_gworkers k)%nat.

(** * Running the machine under an explicit schedule *)
Fixpoint o_first_free (cs : list ocstate) (from : bool) (w n : nat) : option nat :=
  match n with
  | O => None
  | S n' =>
      if from && negb (obusy cs w) then Some w
      else o_first_free cs true (S w) n'
  end.

Definition ocandidates (k : ocfg) (s : ost) : list olabel :=
  let free := o_first_free (o_cons s) (negb (o_caller_in_g k)) 0 (o_gworkers k) in
  [OFeedSend; OClose; ODrainRecv; ODrainEnd; OSeqFold; OSeqReturn]
  ++ flat_map (fun c =>
       match nth_error (o_cons s) c with
       | Some OQueued => match free with Some w => [OStart w c] | None => [] end
       | Some (OIdle _) => [ORecv c; OFinish c]
       | Some (OHolding _ _) => [OSendOut c]
       | _ => []
       end) (seq 0 (o_tasks k)).

Inductive ooutcome :=
| OTerminated (arrivals : list N)     (* in arrival order *)
| ODeadlock
| OOutOfFuel.

Fixpoint orun (k : ocfg) (fuel : nat) (sched0 sched : list nat) (s : ost) : ooutcome :=
  if ofinal s then OTerminated (lrev (o_arr s))
  else match fuel with
  | O => OOutOfFuel
  | S fuel' =>
      let en := filter (fun l => is_some (ostep k s l)) (ocandidates k s) in
      let en := match en with [] => oenabled k s | _ => en end in
      match en with
      | [] => ODeadlock
      | l0 :: _ =>
          let cs := next_choice sched0 sched in
          match ostep k s (nth (fst cs mod length en) en l0) with
          | Some s' => orun k fuel' sched0 (snd cs) s'
          | None => ODeadlock
          end
      end
  end.

(** [gworkers]: size of the global pool, which runs the consumers; [caller]: what the
    calling thread is, which determines [current_num_threads()] and hence the number of
    consumers, and whether the sequential branch is taken *)
Definition pmf_ord_run_gen (fixed : bool) (gworkers : nat) (caller : ocaller) (hint : option nat)
  (len : nat) (sched : list nat) : ooutcome :=
  let k := mkOCfg gworkers (pmf_tasks (caller_threads gworkers caller) hint) caller fixed in
  let s := oinit k (nseq 0 len) in
  orun k (omeasure s) sched sched s.

(** the code as it is now *)
Definition pmf_ord_run := pmf_ord_run_gen true.
(** the code before the repair of defect 7b (no sequential branch) *)
Definition pmf_ord_run_prefix := pmf_ord_run_gen false.

(** the value computed from an arrival order *)
Definition ord_value {R A} (f : N -> R) (fold : A -> R -> A) (init : A) (arrivals : list N) : A :=
  rb_value fold (map (fun i => (i, f i)) arrivals) init.


End PmfOrdM.
Export PmfOrdM.
