(** Pinned statements for the parallel map-fold primitives (property C11).  Statements
    only. *)
From WG Require Import Base.Prelude PMF.Sched PMF.Ord.
Local Open Scope N_scope.

(** * Value of the unordered primitives *)

(** [outer] is a commutative monoid on the accumulator type with unit [dflt]
    ([A::default()]), and [inner] folds one mapped item into an accumulator compatibly
    with it.  For [par_map_fold]/[par_map_fold_with] ([inner = outer]) the compatibility
    law is a consequence of associativity ([S_fold_value_same]). *)
Definition comm_monoid {A} (outer : A -> A -> A) (dflt : A) : Prop :=
  (forall a b c, outer (outer a b) c = outer a (outer b c))
  /\ (forall a b, outer a b = outer b a)
  /\ (forall a, outer a dflt = a).

Definition compatible {R A} (inner : A -> R -> A) (outer : A -> A -> A) : Prop :=
  forall a b r, inner (outer a b) r = outer a (inner b r).

(** whatever items the caller maps itself, however the other items are distributed over
    the consumers, in whatever order each of them receives its items, and in whatever order
    the results reach the caller, the value is the sequential fold *)
Definition S_fold_value : Prop :=
  forall (R A : Type) (f : N -> R) (inner : A -> R -> A) (outer : A -> A -> A) (dflt : A),
  comm_monoid outer dflt -> compatible inner outer ->
  forall (items caller_part : list N) (parts : list (list N)),
  Permutation (caller_part ++ concat parts) items ->
  combine_results f inner outer dflt caller_part parts = seq_fold f inner dflt items.

Definition S_fold_value_same : Prop :=
  forall (A : Type) (f : N -> A) (fold : A -> A -> A) (dflt : A),
  comm_monoid fold dflt ->
  forall (items caller_part : list N) (parts : list (list N)),
  Permutation (caller_part ++ concat parts) items ->
  combine_results f fold fold dflt caller_part parts = seq_fold f fold dflt items.

(** * The machine of [par_map_fold2_with] *)

(** no deadlock: for every pool size from one thread up, every number of consumer tasks,
    both kinds of caller and every input, a reachable state that is not final has a
    state-changing transition *)
Definition S_progress : Prop :=
  forall (k : cfg) (items : list N) (s : st),
  (1 <= c_workers k)%nat -> (1 <= c_tasks k)%nat ->
  reachable k items s -> final s = false ->
  exists l s', step k s l = Some s'.

(** termination: every transition decreases the measure, so every execution has at most
    [measure (init k items)] transitions *)
Definition S_measure_decreases : Prop :=
  forall (k : cfg) (s s' : st) (l : label),
  step k s l = Some s' -> (measure s' < measure s)%nat.

(** [stuck] (computed over the finite label set) is exact on reachable states *)
Definition S_stuck_spec : Prop :=
  forall (k : cfg) (items : list N) (s : st),
  reachable k items s ->
  (stuck k s = true <-> forall l, step k s l = None).

(** every final reachable state carries the sequential fold *)
Definition S_machine_value : Prop :=
  forall (R A : Type) (f : N -> R) (inner : A -> R -> A) (outer : A -> A -> A) (dflt : A),
  comm_monoid outer dflt -> compatible inner outer ->
  forall (k : cfg) (items : list N) (s : st),
  (1 <= c_tasks k)%nat ->
  reachable k items s -> final s = true ->
  st_value f inner outer dflt s = seq_fold f inner dflt items.

(** all of it at once, on the executable runner: under every schedule the run ends, within
    the fuel given by the measure, in a final state whose value is the sequential fold *)
Definition S_run_total : Prop :=
  forall (R A : Type) (f : N -> R) (inner : A -> R -> A) (outer : A -> A -> A) (dflt : A),
  comm_monoid outer dflt -> compatible inner outer ->
  forall (workers : nat) (hint : option nat) (internal : bool) (len : nat) (sched : list nat),
  (1 <= workers)%nat ->
  exists self got,
    pmf_run workers hint internal len sched = Terminated self got
    /\ combine_results f inner outer dflt self got = seq_fold f inner dflt (nseq 0 len).

(** * The ordered variant *)

(** the reorder buffer applies [fold] to the results in index order, for every arrival
    order, and ends empty with [next] equal to the number of items *)
Definition S_ord_value : Prop :=
  forall (R A : Type) (fold : A -> R -> A) (init : A) (rs : list R) (arr : list (N * R)),
  Permutation arr (combine (nseq 0 (length rs)) rs) ->
  rb_run fold arr init = ([], nlen rs, fold_left fold rs init).

Definition S_ord_measure_decreases : Prop :=
  forall (k : ocfg) (s s' : ost) (l : olabel),
  ostep k s l = Some s' -> (omeasure s' < omeasure s)%nat.

(** no deadlock, for the code as it is now: for every kind of caller -- external thread,
    worker of the global pool, worker of a custom pool of any size -- every size >= 1 of
    the global pool, every number >= 1 of consumers and every input, a reachable state that
    is not final has a transition.  (A worker of a pool of size 1 takes the sequential
    branch; a worker of the global pool of size >= 2 leaves a free global worker; the
    others are not global workers.) *)
Definition S_ord_progress : Prop :=
  forall (k : ocfg) (items : list N) (s : ost),
  o_fixed k = true -> (1 <= o_gworkers k)%nat -> (1 <= o_tasks k)%nat ->
  oreachable k items s -> ofinal s = false ->
  exists l s', ostep k s l = Some s'.

(** the rule before the repair: no deadlock when the global pool has a thread that is not
    the blocked caller *)
Definition S_ord_progress_prefix : Prop :=
  forall (k : ocfg) (items : list N) (s : ost),
  o_fixed k = false -> o_has_free_worker k = true -> (1 <= o_tasks k)%nat ->
  oreachable k items s -> ofinal s = false ->
  exists l s', ostep k s l = Some s'.

Definition S_ord_stuck_spec : Prop :=
  forall (k : ocfg) (items : list N) (s : ost),
  oreachable k items s ->
  (ostuck k s = true <-> forall l, ostep k s l = None).

(** BEFORE THE REPAIR ([o_fixed k = false]) the property FAILED for the ordered variant when
    the caller was the only thread of the global pool: a reachable, non-final state without
    any transition *)
Definition S_ord_deadlock_refuted : Prop :=
  exists (k : ocfg) (items : list N) (s : ost),
    o_fixed k = false /\ o_caller k = OGlobalWorker /\ o_gworkers k = 1%nat /\ (1 <= o_tasks k)%nat
    /\ oreachable k items s /\ ofinal s = false /\ (forall l, ostep k s l = None).

(** ... and it failed for EVERY input and every number of consumers: no execution from the
    initial state ever reached a final state (since executions are finite, each of them
    ended in a deadlock) *)
Definition S_ord_deadlock_all : Prop :=
  forall (k : ocfg) (items : list N) (s : ost),
  o_fixed k = false -> o_caller k = OGlobalWorker -> o_gworkers k = 1%nat -> (1 <= o_tasks k)%nat ->
  oreachable k items s -> ofinal s = false.

(** every final reachable state has drained a permutation of the input, hence (with
    [S_ord_value]) the value is the in-order fold; both rules, both branches *)
Definition S_ord_machine_value : Prop :=
  forall (R A : Type) (f : N -> R) (fold : A -> R -> A) (init : A)
         (k : ocfg) (len : nat) (s : ost),
  (1 <= o_tasks k)%nat ->
  oreachable k (nseq 0 len) s -> ofinal s = true ->
  ord_value f fold init (lrev (o_arr s)) = fold_left fold (map f (nseq 0 len)) init.

(** on the executable runner, the code as it is now: for every kind of caller, every size
    >= 1 of the global pool, every size hint, every length and every schedule the run
    terminates with the in-order fold *)
Definition S_ord_run_total : Prop :=
  forall (R A : Type) (f : N -> R) (fold : A -> R -> A) (init : A)
         (gw : nat) (caller : ocaller) (hint : option nat) (len : nat) (sched : list nat),
  (1 <= gw)%nat ->
  exists arr,
    pmf_ord_run gw caller hint len sched = OTerminated arr
    /\ ord_value f fold init arr = fold_left fold (map f (nseq 0 len)) init.

(** the sequential branch (caller a worker of a pool of size 1, global or custom): [fold]
    is applied to the images of the items in the order of the iterator, whatever the size
    of the global pool (0 included: no task is spawned) *)
Definition S_ord_run_seq : Prop :=
  forall (gw : nat) (caller : ocaller) (hint : option nat) (len : nat) (sched : list nat),
  caller_pool gw caller = Some 1%nat ->
  pmf_ord_run gw caller hint len sched = OTerminated (nseq 0 len).

(** the rule before the repair: termination with the in-order fold when the global pool has
    a thread that is not the blocked caller; a deadlock, for every size hint, length and
    schedule, when the caller is the only thread of the global pool *)
Definition S_ord_run_total_prefix : Prop :=
  forall (R A : Type) (f : N -> R) (fold : A -> R -> A) (init : A)
         (gw : nat) (caller : ocaller) (hint : option nat) (len : nat) (sched : list nat),
  (match caller with OGlobalWorker => 2 <= gw | _ => 1 <= gw end)%nat ->
  exists arr,
    pmf_ord_run_prefix gw caller hint len sched = OTerminated arr
    /\ ord_value f fold init arr = fold_left fold (map f (nseq 0 len)) init.

Definition S_ord_run_deadlock : Prop :=
  forall (hint : option nat) (len : nat) (sched : list nat),
  pmf_ord_run_prefix 1 OGlobalWorker hint len sched = ODeadlock.
