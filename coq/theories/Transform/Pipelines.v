(** Graph transforms (webgraph/src/transform/{transpose,symmetrize,perm,map}.rs), the
    sorted graph they return (graphs/par_sorted_graph.rs, graphs/arc_list_graph.rs) and
    the partitioning of the external sorter (utils/par_sort_iters.rs).
    Definitions only.

    A graph is [list (list N)] (successor lists); a labelled graph is
    [list (list (N * L))].  Every Rust transform is
      lender(s) -> [into_pairs] -> endpoint map -> [ParSortIters] -> [ParSortedGraph]
    and the result is read back through [arc_list_graph::NodeLabels].

    The in-memory/on-disk sorting of one partition (batches, codecs, k-way merge: property
    C08) is the parameter [sort]; everything around it is modelled: the range check on
    sources, the partition id [src / ceil(n/p)], the boundaries, the per-thread blocks and
    their arrival order, the re-split of the forward graph and [MergeDedupPairs] of
    [symmetrize_sorted_par], the [NodeLabels] lender with its assertions. *)
From WG Require Import Base.Prelude Par.Splice.

Module XformM.
Local Open Scope N_scope.

(** * Pairs and orders *)

Definition pair_leb (a b : N * N) : bool :=
  (fst a <? fst b) || ((fst a =? fst b) && (snd a <=? snd b)).
Definition pair_ltb (a b : N * N) : bool :=
  (fst a <? fst b) || ((fst a =? fst b) && (snd a <? snd b)).
Definition pair_eqb (a b : N * N) : bool := (fst a =? fst b) && (snd a =? snd b).

Definition pair_lt (a b : N * N) : Prop :=
  fst a < fst b \/ (fst a = fst b /\ snd a < snd b).
Definition pair_le (a b : N * N) : Prop :=
  fst a < fst b \/ (fst a = fst b /\ snd a <= snd b).

Section Labelled.
Context {L : Type}.

(** a labelled pair [((src, dst), label)] *)
Definition lpair : Type := ((N * N) * L)%type.
Definition src (e : lpair) : N := fst (fst e).
Definition dst (e : lpair) : N := snd (fst e).

Definition key_lt (a b : lpair) : Prop := pair_lt (fst a) (fst b).
Definition key_le (a b : lpair) : Prop := pair_le (fst a) (fst b).

(** * [into_labeled_pairs]: the arcs of the nodes [v, v+1, ...] in lender order *)
Fixpoint pairs_from (v : N) (g : list (list (N * L))) : list lpair :=
  match g with
  | [] => []
  | l :: g' => map (fun dx => ((v, fst dx), snd dx)) l ++ pairs_from (v + 1) g'
  end.

(** the lenders returned by [into_par_lenders] / [split_iter_at] for a cut sequence, each
    turned into pairs *)
Fixpoint blocks_from (cuts : list N) (segs : list (list (list (N * L)))) : list (list lpair) :=
  match cuts, segs with
  | c :: cuts', s :: segs' => pairs_from c s :: blocks_from cuts' segs'
  | _, _ => []
  end.

Fixpoint lsegments (cuts : list N) (g : list (list (N * L))) : list (list (list (N * L))) :=
  match cuts with
  | a :: ((b :: _) as rest) =>
      let k := N.to_nat (b - a) in firstn k g :: lsegments rest (skipn k g)
  | _ => []
  end.

Definition blocks (cuts : list N) (g : list (list (N * L))) : list (list lpair) :=
  blocks_from cuts (lsegments cuts g).

(** the per-thread blocks reach the sorter in an arbitrary order ([par_bridge]): the
    positions in [arrival] *)
Definition arrive {A} (arrival : list nat) (bl : list (list A)) : list A :=
  flat_map (fun i => match nth_opt bl i with Some b => b | None => [] end) arrival.

(** * [ParSortIters] *)

(** Rust's [usize::div_ceil] (for a positive divisor) *)
Definition div_ceil (a b : N) : N := a / b + (if a mod b =? 0 then 0 else 1).

Definition boundaries (n : N) (p : nat) : list N :=
  map (fun i => N.min (N.of_nat i * div_ceil n (N.of_nat p)) n) (seq 0 (S p)).

(** [sort] sorts one partition (the batches of that partition, merged).  [None] is the
    error return "Source node is out of bounds". *)
Definition ext_sort (sort : list lpair -> list lpair) (n : N) (p : nat) (input : list lpair)
  : option (list (list lpair)) :=
  if forallb (fun e => src e <? n) input then
    let npp := div_ceil n (N.of_nat p) in
    Some (map (fun i => sort (filter (fun e => src e / npp =? N.of_nat i) input)) (seq 0 p))
  else None.

(** * [arc_list_graph::NodeLabels] *)

(** the successors of node [v]: [Succ::next] until the peeked source is at least [v + 1];
    a smaller source fails [assert_eq!(curr, next_node - 1)] (panic = [None]) *)
Fixpoint take_succ (v : N) (l : list lpair) : option (list (N * L) * list lpair) :=
  match l with
  | [] => Some ([], [])
  | e :: l' =>
      if v <? src e then Some ([], l)
      else if src e =? v then
        match take_succ v l' with
        | Some (ds, r) => Some ((dst e, snd e) :: ds, r)
        | None => None
        end
      else None
  end.

(** [k] nodes from [v] on; the successor lists are consumed completely, so the "discard
    residual arcs" loop of [NodeLabels::next] finds nothing to discard *)
Fixpoint node_labels (k : nat) (v : N) (l : list lpair) : option (list (list (N * L))) :=
  match k with
  | O => Some []
  | S k' =>
      match take_succ v l with
      | Some (ds, r) =>
          match node_labels k' (v + 1) r with
          | Some rest => Some (ds :: rest)
          | None => None
          end
      | None => None
      end
  end.

(** sequential iteration of a [ParSorted(Labeled)Graph]: the partition iterators chained *)
Definition read_seq (n : N) (parts : list (list lpair)) : option (list (list (N * L))) :=
  node_labels (N.to_nat n) 0 (concat parts).

(** [into_par_lenders] of the result: one [NodeLabels::try_new_from] per partition
    (which refuses an iterator starting before the boundary), concatenated *)
Fixpoint read_par (bs : list N) (parts : list (list lpair)) : option (list (list (N * L))) :=
  match bs, parts with
  | a :: ((b :: _) as bs'), part :: parts' =>
      let ok := match part with e :: _ => a <=? src e | [] => true end in
      if ok then
        match node_labels (N.to_nat (b - a)) a part, read_par bs' parts' with
        | Some x, Some y => Some (x ++ y)
        | _, _ => None
        end
      else None
  | _, _ => Some []
  end.

(** * The generic pipeline *)

(** [phi] is the endpoint map applied to each pair ([map]/[flat_map] adaptor) *)
Definition xform_seq (sort : list lpair -> list lpair) (phi : lpair -> list lpair)
  (nout : N) (p : nat) (g : list (list (N * L))) : option (list (list (N * L))) :=
  match ext_sort sort nout p (flat_map phi (pairs_from 0 g)) with
  | Some parts => read_seq nout parts
  | None => None
  end.

Definition xform_par (sort : list lpair -> list lpair) (phi : lpair -> list lpair)
  (nout : N) (p : nat) (cuts : list N) (arrival : list nat) (g : list (list (N * L)))
  : option (list (list (N * L))) :=
  match ext_sort sort nout p (arrive arrival (map (flat_map phi) (blocks cuts g))) with
  | Some parts => read_seq nout parts
  | None => None
  end.

Definition swap_pair (e : lpair) : lpair := ((dst e, src e), snd e).

Definition phi_transpose (e : lpair) : list lpair := [swap_pair e].

Definition phi_symm (noloops : bool) (e : lpair) : list lpair :=
  if negb (src e =? dst e) then [e; swap_pair e]
  else if negb noloops then [e] else [].

(** [index_value]: a slice access *)
Definition idx (f : list N) (x : N) : N := nth (N.to_nat x) f 0.

Definition phi_map (f : list N) (e : lpair) : list lpair :=
  [((idx f (src e), idx f (dst e)), snd e)].

End Labelled.

(** * Unlabelled graphs: the label is [()] and is projected away ([LeftIterator]) *)

Definition unit_labels (g : list (list N)) : list (list (N * unit)) :=
  map (map (fun d => (d, tt))) g.
Definition left_proj (g : list (list (N * unit))) : list (list N) := map (map fst) g.
Definition omap {A B} (f : A -> B) (o : option A) : option B :=
  match o with Some a => Some (f a) | None => None end.

(** ** [MergeDedupPairs] *)
Definition opt_pair_eqb (o : option (N * N)) (x : N * N) : bool :=
  match o with Some y => pair_eqb y x | None => false end.

(** the [match (self.pending0, self.pending1)] of [next]: the pair taken and the two
    streams afterwards *)
Definition pick (a b : list (N * N)) : option ((N * N) * (list (N * N) * list (N * N))) :=
  match a, b with
  | x :: a', y :: b' => if pair_leb x y then Some (x, (a', b)) else Some (y, (a, b'))
  | x :: a', [] => Some (x, (a', []))
  | [], y :: b' => Some (y, ([], b'))
  | [], [] => None
  end.

(** the output of the iterator: one loop iteration per unit of fuel *)
Fixpoint merge_dedup_go (fuel : nat) (noloops : bool) (a b : list (N * N))
  (last : option (N * N)) : list (N * N) :=
  match fuel with
  | O => []
  | S f =>
    match pick a b with
    | None => []
    | Some (x, (a', b')) =>
      if opt_pair_eqb last x then merge_dedup_go f noloops a' b' last
      else if noloops && (fst x =? snd x) then merge_dedup_go f noloops a' b' (Some x)
      else x :: merge_dedup_go f noloops a' b' (Some x)
    end
  end.

Definition merge_dedup (noloops : bool) (a b : list (N * N)) : list (N * N) :=
  merge_dedup_go (S (length a + length b)) noloops a b None.

Fixpoint merge_parts (noloops : bool) (fwd rev : list (list (N * N))) : list (list (N * N)) :=
  match fwd, rev with
  | f :: fwd', r :: rev' => merge_dedup noloops f r :: merge_parts noloops fwd' rev'
  | _, _ => []
  end.

Section Transforms.
(** [sort]: the sorter without deduplication, [sortd]: with ([DEDUP = true]) *)
Variable sort sortd : list (@lpair unit) -> list (@lpair unit).

Definition with_unit (r : option (list (list (N * unit)))) : option (list (list N)) :=
  omap left_proj r.

Definition transpose_seq (p : nat) (g : list (list N)) :=
  with_unit (xform_seq sort phi_transpose (nlen g) p (unit_labels g)).
Definition transpose_par (p : nat) (cuts : list N) (arrival : list nat) (g : list (list N)) :=
  with_unit (xform_par sort phi_transpose (nlen g) p cuts arrival (unit_labels g)).

(** [symmetrize_seq] and [symmetrize_sorted_seq] have the same body *)
Definition symmetrize_seq (noloops : bool) (p : nat) (g : list (list N)) :=
  with_unit (xform_seq sortd (phi_symm noloops) (nlen g) p (unit_labels g)).
Definition symmetrize_par (noloops : bool) (p : nat) (cuts : list N) (arrival : list nat)
  (g : list (list N)) :=
  with_unit (xform_par sortd (phi_symm noloops) (nlen g) p cuts arrival (unit_labels g)).

(** [ensure!(perm.len() == graph.num_nodes())] *)
Definition permute_seq (perm : list N) (p : nat) (g : list (list N)) :=
  if nlen perm =? nlen g
  then with_unit (xform_seq sort (phi_map perm) (nlen g) p (unit_labels g)) else None.
Definition permute_par (perm : list N) (p : nat) (cuts : list N) (arrival : list nat)
  (g : list (list N)) :=
  if nlen perm =? nlen g
  then with_unit (xform_par sort (phi_map perm) (nlen g) p cuts arrival (unit_labels g))
  else None.

Definition map_seq (f : list N) (m : N) (p : nat) (g : list (list N)) :=
  if nlen f =? nlen g
  then with_unit (xform_seq sortd (phi_map f) m p (unit_labels g)) else None.
Definition map_par (f : list N) (m : N) (p : nat) (cuts : list N) (arrival : list nat)
  (g : list (list N)) :=
  if nlen f =? nlen g
  then with_unit (xform_par sortd (phi_map f) m p cuts arrival (unit_labels g)) else None.

(** [symmetrize_sorted_par]: the reversed arcs are sorted (no deduplication) into [p]
    partitions; the forward graph is re-split at the sorter's boundaries; each pair of
    streams goes through [MergeDedupPairs]; the merged streams are the parts of the
    result.  Both ways of reading the result are given. *)
Definition symm_sorted_parts (noloops : bool) (p : nat) (cuts : list N) (arrival : list nat)
  (g : list (list N)) : option (list (list (N * N))) :=
  let n := nlen g in
  let ug := unit_labels g in
  match ext_sort sort n p (arrive arrival (map (flat_map phi_transpose) (blocks cuts ug))) with
  | Some rev =>
      let fwd := blocks (boundaries n p) ug in
      Some (merge_parts noloops (map (map fst) fwd) (map (map fst) rev))
  | None => None
  end.

Definition relabel (parts : list (list (N * N))) : list (list (@lpair unit)) :=
  map (map (fun x => (x, tt))) parts.

Definition symmetrize_sorted_par (noloops : bool) (p : nat) (cuts : list N)
  (arrival : list nat) (g : list (list N)) : option (list (list N)) :=
  match symm_sorted_parts noloops p cuts arrival g with
  | Some parts => with_unit (read_seq (nlen g) (relabel parts))
  | None => None
  end.

Definition symmetrize_sorted_par_lenders (noloops : bool) (p : nat) (cuts : list N)
  (arrival : list nat) (g : list (list N)) : option (list (list N)) :=
  match symm_sorted_parts noloops p cuts arrival g with
  | Some parts => with_unit (read_par (boundaries (nlen g) p) (relabel parts))
  | None => None
  end.

(** reading a sorted result through [into_par_lenders] instead of [iter] *)
Definition transpose_seq_lenders (p : nat) (g : list (list N)) : option (list (list N)) :=
  match ext_sort sort (nlen g) p (flat_map phi_transpose (pairs_from 0 (unit_labels g))) with
  | Some parts => with_unit (read_par (boundaries (nlen g) p) parts)
  | None => None
  end.
End Transforms.

(** labelled transposition (labels are numbers in the executable instance) *)
Section LabelledTranspose.
Context {L : Type}.
Variable lsort : list (@lpair L) -> list (@lpair L).
Definition transpose_labeled_seq (p : nat) (g : list (list (N * L))) :=
  xform_seq lsort phi_transpose (nlen g) p g.
Definition transpose_labeled_par (p : nat) (cuts : list N) (arrival : list nat)
  (g : list (list (N * L))) :=
  xform_par lsort phi_transpose (nlen g) p cuts arrival g.
End LabelledTranspose.

(** * Specifications: successor lists of a relation, in increasing order *)

Definition lists_of_rel (n : N) (R : N -> N -> bool) : list (list N) :=
  map (fun a => filter (R a) (nseq 0 (N.to_nat n))) (nseq 0 (N.to_nat n)).

Definition has_arc (g : list (list N)) (u v : N) : bool :=
  existsb (N.eqb v) (nth (N.to_nat u) g []).

(** all arcs of [g] as pairs *)
Definition graph_arcs (g : list (list N)) : list (N * N) :=
  map fst (pairs_from 0 (unit_labels g)).

Definition transpose_spec (g : list (list N)) : list (list N) :=
  lists_of_rel (nlen g) (fun a b => has_arc g b a).

Definition symmetrize_spec (noloops : bool) (g : list (list N)) : list (list N) :=
  lists_of_rel (nlen g)
    (fun a b => (has_arc g a b || has_arc g b a) && (negb noloops || negb (a =? b))).

(** the image of the arc set under [f], as a graph with [m] nodes *)
Definition map_spec (f : list N) (m : N) (g : list (list N)) : list (list N) :=
  lists_of_rel m
    (fun a b => existsb (fun uv => (idx f (fst uv) =? a) && (idx f (snd uv) =? b)) (graph_arcs g)).

Definition permute_spec (perm : list N) (g : list (list N)) : list (list N) :=
  map_spec perm (nlen g) g.

(** labelled transpose: node [a] gets, for increasing [b], the labels of the arcs [b -> a] *)
Definition transpose_labeled_spec {L} (g : list (list (N * L))) : list (list (N * L)) :=
  map (fun a =>
         flat_map (fun b => map (fun dx => (b, snd dx))
                              (filter (fun dx => fst dx =? a) (nth (N.to_nat b) g [])))
                  (nseq 0 (length g)))
      (nseq 0 (length g)).

(** well-formed inputs: strictly increasing successor lists with targets below [n]
    (what [VecGraph] and the compressed formats can hold) *)
Definition wf_graph (g : list (list N)) : bool :=
  forallb (fun l => incb l && forallb (fun d => d <? nlen g) l) g.
Definition wf_lgraph {L} (g : list (list (N * L))) : bool :=
  forallb (fun l => incb (map fst l) && forallb (fun d => d <? nlen g) (map fst l)) g.
Definition below (m : N) (f : list N) : bool := forallb (fun x => x <? m) f.

(** * One entry point for the model driver: the partitions of the sorter, read both
      through [iter] and through [into_par_lenders] *)
Definition run_parts {L} (srt : list (@lpair L) -> list (@lpair L)) (phi : @lpair L -> list (@lpair L))
  (nout : N) (par : bool) (p : nat) (cuts : list N) (arrival : list nat)
  (g : list (list (N * L))) : option (list (list (N * L))) * option (list (list (N * L))) :=
  let input := if par then arrive arrival (map (flat_map phi) (blocks cuts g))
               else flat_map phi (pairs_from 0 g) in
  match ext_sort srt nout p input with
  | Some parts => (read_seq nout parts, read_par (boundaries nout p) parts)
  | None => (None, None)
  end.

Inductive xop :=
| XTranspose
| XSymm (noloops : bool)
| XPermute (perm : list N)
| XMap (f : list N) (m : N).

Definition xop_nout (op : xop) (g : list (list N)) : N :=
  match op with XMap _ m => m | _ => nlen g end.
Definition xop_check (op : xop) (g : list (list N)) : bool :=
  match op with XPermute f | XMap f _ => nlen f =? nlen g | _ => true end.
Definition xop_phi (op : xop) : @lpair unit -> list (@lpair unit) :=
  match op with
  | XTranspose => phi_transpose
  | XSymm nl => phi_symm nl
  | XPermute f | XMap f _ => phi_map f
  end.
Definition xop_dedup (op : xop) : bool :=
  match op with XSymm _ | XMap _ _ => true | _ => false end.
Definition xop_spec (op : xop) (g : list (list N)) : list (list N) :=
  match op with
  | XTranspose => transpose_spec g
  | XSymm nl => symmetrize_spec nl g
  | XPermute f => permute_spec f g
  | XMap f m => map_spec f m g
  end.

Definition run_xop (sort sortd : list (@lpair unit) -> list (@lpair unit)) (op : xop)
  (par : bool) (p : nat) (cuts : list N) (arrival : list nat) (g : list (list N))
  : option (list (list N)) * option (list (list N)) :=
  if xop_check op g then
    let r := run_parts (if xop_dedup op then sortd else sort) (xop_phi op) (xop_nout op g)
                       par p cuts arrival (unit_labels g) in
    (with_unit (fst r), with_unit (snd r))
  else (None, None).

(** * A concrete sorter (insertion sort on the key), to run the model *)
Section KeySort.
Context {L : Type}.
(** insertion by key, after equal keys (stable) *)
Fixpoint kinsert (e : @lpair L) (l : list (@lpair L)) : list (@lpair L) :=
  match l with
  | [] => [e]
  | x :: l' => if pair_ltb (fst e) (fst x) then e :: l else x :: kinsert e l'
  end.
Fixpoint ksort (l : list (@lpair L)) : list (@lpair L) :=
  match l with [] => [] | e :: l' => kinsert e (ksort l') end.
(** drop every element whose key equals that of the last element kept ([last_pair]) *)
Fixpoint kdedup_from (prev : N * N) (l : list (@lpair L)) : list (@lpair L) :=
  match l with
  | [] => []
  | x :: l' => if pair_eqb prev (fst x) then kdedup_from prev l' else x :: kdedup_from (fst x) l'
  end.
Definition kdedup (l : list (@lpair L)) : list (@lpair L) :=
  match l with [] => [] | x :: l' => x :: kdedup_from (fst x) l' end.
Definition ksortd (l : list (@lpair L)) : list (@lpair L) := kdedup (ksort l).
End KeySort.


End XformM.
Export XformM.
