(** The concrete sorters satisfy the contract; transposition is involutive. *)
From WG Require Import Base.Prelude Par.Splice Par.SpliceFacts Transform.Pipelines
  Transform.Statements Transform.OrderFacts Transform.SortFacts Transform.Facts Transform.Facts2.
Require Import ZifyBool ZifyN ZifyNat.
Local Open Scope N_scope.

(** * Insertion sort by key and deduplication *)
Section KSort.
Context {L : Type}.
Notation lpair := (@lpair L).

Lemma kinsert_perm (e : lpair) : forall l, Permutation (kinsert e l) (e :: l).
Proof.
  induction l as [|x l IH]; [apply Permutation_refl|]. cbn [kinsert].
  destruct (pair_ltb (fst e) (fst x)); [apply Permutation_refl|].
  apply (perm_trans (l' := x :: e :: l)); [apply perm_skip; exact IH|apply perm_swap].
Qed.

Lemma kinsert_sorted (e : lpair) : forall l,
  StronglySorted key_le l -> StronglySorted key_le (kinsert e l).
Proof.
  induction l as [|x l IH]; intros Hs; [repeat constructor|].
  inversion Hs as [|? ? S F]; subst. cbn [kinsert].
  destruct (pair_ltb (fst e) (fst x)) eqn:E.
  - apply pair_ltb_lt in E. constructor; [exact Hs|]. constructor; [apply pair_lt_le; exact E|].
    rewrite Forall_forall in *. intros y Hy. specialize (F y Hy). unfold key_le in *.
    apply (pair_le_trans _ (fst x)); [apply pair_lt_le; exact E|exact F].
  - constructor; [apply IH; exact S|]. rewrite Forall_forall in *. intros y Hy.
    apply (Permutation_in _ (kinsert_perm e l)) in Hy. destruct Hy as [<-|Hy]; [|apply F; exact Hy].
    unfold key_le. destruct (pair_total (fst x) (fst e)) as [H|H]; [exact H|].
    apply pair_ltb_lt in H. congruence.
Qed.

Lemma ksort_perm : forall l : list lpair, Permutation (ksort l) l.
Proof.
  induction l as [|e l IH]; [constructor|]. cbn [ksort].
  apply (perm_trans (kinsert_perm e (ksort l))). apply perm_skip. exact IH.
Qed.

Lemma ksort_sorted : forall l : list lpair, StronglySorted key_le (ksort l).
Proof.
  induction l as [|e l IH]; [constructor|]. cbn [ksort]. apply kinsert_sorted. exact IH.
Qed.

Lemma kdedup_from_spec : forall (l : list lpair) prev,
  StronglySorted key_le l -> (forall y, In y l -> pair_le prev (fst y)) ->
  StronglySorted key_lt (kdedup_from prev l)
  /\ (forall y, In y (kdedup_from prev l) -> pair_lt prev (fst y) /\ In y l)
  /\ (forall x, In x l -> fst x = prev \/ exists y, In y (kdedup_from prev l) /\ fst y = fst x).
Proof.
  induction l as [|x l IH]; intros prev Hs Hge.
  - cbn [kdedup_from]. split; [constructor|]. split; intros ? [].
  - inversion Hs as [|? ? S F]; subst. rewrite Forall_forall in F. cbn [kdedup_from].
    destruct (pair_eqb prev (fst x)) eqn:E.
    + apply pair_eqb_eq in E.
      destruct (IH prev S) as (H1 & H2 & H3); [intros y Hy; apply Hge; right; exact Hy|].
      split; [exact H1|]. split.
      * intros y Hy. destruct (H2 y Hy). split; [assumption|right; assumption].
      * intros z [<-|Hz]; [left; symmetry; exact E|apply H3; exact Hz].
    + assert (Hlt : pair_lt prev (fst x)).
      { destruct (pair_le_cases _ _ (Hge x (or_introl eq_refl))) as [H|H]; [exact H|].
        apply pair_eqb_eq in H. congruence. }
      destruct (IH (fst x) S) as (H1 & H2 & H3); [intros y Hy; apply F; exact Hy|].
      split; [|split].
      * constructor; [exact H1|]. rewrite Forall_forall. intros y Hy. apply H2 in Hy. exact (proj1 Hy).
      * intros y [<-|Hy]; [split; [exact Hlt|left; reflexivity]|].
        destruct (H2 y Hy) as [Hy1 Hy2]. split; [exact (pair_lt_trans _ _ _ Hlt Hy1)|right; exact Hy2].
      * intros z [<-|Hz]; right.
        -- exists x. split; [left; reflexivity|reflexivity].
        -- destruct (H3 z Hz) as [Ez|(y & Hy & Ey)].
           ++ exists x. split; [left; reflexivity|symmetry; exact Ez].
           ++ exists y. split; [right; exact Hy|exact Ey].
Qed.

Lemma kdedup_spec (l : list lpair) : StronglySorted key_le l ->
  StronglySorted key_lt (kdedup l)
  /\ (forall y, In y (kdedup l) -> In y l)
  /\ (forall x, In x l -> exists y, In y (kdedup l) /\ fst y = fst x).
Proof.
  destruct l as [|x l]; intros Hs.
  - split; [constructor|]. split; intros ? [].
  - inversion Hs as [|? ? S F]; subst. rewrite Forall_forall in F. cbn [kdedup].
    destruct (kdedup_from_spec l (fst x) S) as (H1 & H2 & H3); [intros y Hy; apply F; exact Hy|].
    split; [|split].
    + constructor; [exact H1|]. rewrite Forall_forall. intros y Hy. exact (proj1 (H2 y Hy)).
    + intros y [<-|Hy]; [left; reflexivity|right; exact (proj2 (H2 y Hy))].
    + intros z [<-|Hz]; [exists x; split; [left; reflexivity|reflexivity]|].
      destruct (H3 z Hz) as [Ez|(y & Hy & Ey)].
      * exists x. split; [left; reflexivity|symmetry; exact Ez].
      * exists y. split; [right; exact Hy|exact Ey].
Qed.
End KSort.

Theorem ksort_ok : S_ksort_ok.
Proof.
  intros L. split.
  - intros l. split; [apply StronglySorted_Sorted; apply ksort_sorted|apply ksort_perm].
  - intros l. unfold ksortd. destruct (kdedup_spec (ksort l) (ksort_sorted l)) as (H1 & H2 & H3).
    split; [apply StronglySorted_Sorted; exact H1|]. split.
    + intros x Hx. apply (Permutation_in _ (ksort_perm l)). apply H2. exact Hx.
    + intros x Hx. apply H3. apply (Permutation_in _ (Permutation_sym (ksort_perm l))). exact Hx.
Qed.

(** * Transposition is involutive *)

Lemma incb_from_inc' : forall l a, inc (a :: l) -> incb_from a l = true.
Proof.
  induction l as [|b l IH]; intros a H; cbn [incb_from]; [reflexivity|].
  unfold inc in H. apply StronglySorted_inv in H. destruct H as [Hs Hf].
  inversion Hf as [|? ? Hab _]; subst.
  apply andb_true_iff. split; [apply N.ltb_lt; exact Hab|apply IH; exact Hs].
Qed.

Lemma inc_incb l : inc l -> incb l = true.
Proof. destruct l as [|a l]; intros H; cbn [incb]; [reflexivity|]. apply incb_from_inc'. exact H. Qed.

Lemma nlen_lists_of_rel n R : nlen (lists_of_rel n R) = n.
Proof. unfold nlen. rewrite (proj1 (spec_sorted n R)). lia. Qed.

Lemma wf_lists_of_rel n R : wf_graph (lists_of_rel n R) = true.
Proof.
  unfold wf_graph. apply forallb_forall. intros l Hl. cbv beta. rewrite nlen_lists_of_rel.
  apply andb_true_iff. split.
  - apply inc_incb. pose proof (proj2 (spec_sorted n R)) as H. rewrite Forall_forall in H. apply H. exact Hl.
  - apply forallb_forall. intros d Hd. apply N.ltb_lt.
    unfold lists_of_rel in Hl. apply in_map_iff in Hl. destruct Hl as (a & <- & _).
    apply filter_In in Hd. destruct Hd as [Hd _]. apply in_nseq in Hd. lia.
Qed.

Lemma lists_of_rel_ext n R R' :
  (forall a b, a < n -> b < n -> R a b = R' a b) -> lists_of_rel n R = lists_of_rel n R'.
Proof.
  intros H. unfold lists_of_rel. apply map_ext_in. intros a Ha. apply in_nseq in Ha.
  apply filter_ext_in. intros b Hb. apply in_nseq in Hb. apply H; lia.
Qed.

Lemma graph_as_rel g : wf_graph g = true -> g = lists_of_rel (nlen g) (has_arc g).
Proof.
  intros Hwf. unfold lists_of_rel, nlen. rewrite Nat2N.id.
  apply (nth_ext _ _ [] ((fun a => filter (has_arc g a) (nseq 0 (length g))) 0)).
  - rewrite map_length, nseq_length. reflexivity.
  - intros i Hi. rewrite (map_nth (fun a => filter (has_arc g a) (nseq 0 (length g)))).
    rewrite nth_nseq by exact Hi. replace (0 + N.of_nat i) with (N.of_nat i) by lia.
    apply (sorted_ext (fun x : N => x)).
    + pose proof (wf_succ_inc g (N.of_nat i) Hwf) as H. unfold succ_of in H. rewrite Nat2N.id in H. exact H.
    + apply StronglySorted_filter. apply nseq_sorted.
    + intros b. rewrite filter_In, in_nseq, has_arc_true. unfold succ_of. rewrite Nat2N.id. split.
      * intros Hb. split; [|exact Hb].
        destruct (wf_succ g (N.of_nat i) b Hwf) as [_ Hlt]; [unfold succ_of; rewrite Nat2N.id; exact Hb|].
        unfold nlen in Hlt. lia.
      * tauto.
Qed.

Theorem transpose_involutive : S_transpose_involutive.
Proof.
  intros g Hwf. split; [apply wf_lists_of_rel|].
  assert (En : nlen (transpose_spec g) = nlen g) by (unfold transpose_spec; apply nlen_lists_of_rel).
  unfold transpose_spec at 1. rewrite En.
  transitivity (lists_of_rel (nlen g) (has_arc g)); [|symmetry; apply graph_as_rel; exact Hwf].
  apply lists_of_rel_ext. intros a b Ha Hb.
  apply eq_true_iff_eq. rewrite !has_arc_true.
  pose proof (transpose_mem g b a Hwf) as H. exact H.
Qed.

Theorem transpose_twice : S_transpose_twice.
Proof.
  intros sort Hok g p p' t Hwf Hp Hp' Ht.
  assert (Hsch : forall h : list (list N), legal_schedule [0; nlen h] [0%nat] (nlen h)).
  { intros h. split; [|apply Permutation_refl]. unfold legal_cuts. cbn [last length nondecreasing].
    rewrite !N.eqb_refl. cbn [andb]. rewrite !andb_true_r. apply N.leb_le. lia. }
  destruct (transpose_correct sort Hok g p _ _ Hwf Hp (Hsch g)) as [H1 _].
  rewrite H1 in Ht. inversion Ht; subst t.
  destruct (transpose_involutive g Hwf) as [Hwf' Hinv].
  destruct (transpose_correct sort Hok (transpose_spec g) p' _ _ Hwf' Hp' (Hsch _)) as [H2 _].
  rewrite H2, Hinv. reflexivity.
Qed.
