(** The partitioned sorter followed by the [NodeLabels] reader computes the successor lists
    of the relation "is a key of the input". *)
From WG Require Import Base.Prelude Par.Splice Transform.Pipelines Transform.Statements
  Transform.OrderFacts.
Require Import ZifyBool ZifyN ZifyNat.
Local Open Scope N_scope.

Section Good.
Context {L : Type}.
Notation lpair := (@lpair L).

(** [S] is strictly sorted by key and has exactly the keys of [X], with elements of [X] *)
Definition good (X S : list lpair) : Prop :=
  StronglySorted key_lt S
  /\ (forall x, In x S -> In x X)
  /\ (forall x, In x X -> exists y, In y S /\ fst y = fst x).

Lemma key_lt_trans : Transitive (@key_lt L).
Proof. intros a b c. unfold key_lt. apply pair_lt_trans. Qed.
Lemma key_le_trans : Transitive (@key_le L).
Proof. intros a b c. unfold key_le. apply pair_le_trans. Qed.

Lemma StronglySorted_impl {A} (R Q : A -> A -> Prop) (l : list A) :
  (forall x y, R x y -> Q x y) -> StronglySorted R l -> StronglySorted Q l.
Proof.
  intros H. induction 1 as [|x l S IH F]; constructor; [exact IH|].
  rewrite Forall_forall in *. intros y Hy. apply H. apply F. exact Hy.
Qed.

Lemma ss_le_nodup_lt : forall l : list lpair,
  StronglySorted key_le l -> NoDup (map fst l) -> StronglySorted key_lt l.
Proof.
  induction l as [|x l IH]; intros Hs Hn; [constructor|].
  inversion Hs as [|? ? S F]; subst. cbn [map] in Hn. inversion Hn as [|? ? Hnin Hn']; subst.
  constructor; [apply IH; assumption|].
  rewrite Forall_forall in *. intros y Hy. specialize (F y Hy). unfold key_le in F. unfold key_lt.
  destruct (pair_le_cases _ _ F) as [Hlt|E]; [exact Hlt|].
  exfalso. apply Hnin. rewrite E. apply in_map. exact Hy.
Qed.

Lemma sorter_good sort (l : list lpair) :
  sorter_ok sort -> NoDup (map fst l) -> good l (sort l).
Proof.
  intros Hok Hn. destruct (Hok l) as [Hs Hp]. split; [|split].
  - apply ss_le_nodup_lt.
    + apply Sorted_StronglySorted; [exact key_le_trans|exact Hs].
    + apply (Permutation_NoDup (l := map fst l)); [|exact Hn].
      apply Permutation_map. apply Permutation_sym. exact Hp.
  - intros x Hx. apply (Permutation_in _ Hp). exact Hx.
  - intros x Hx. exists x. split; [|reflexivity].
    apply (Permutation_in _ (Permutation_sym Hp)). exact Hx.
Qed.

Lemma sorterd_good sortd (l : list lpair) : sorterd_ok sortd -> good l (sortd l).
Proof.
  intros Hok. destruct (Hok l) as (Hs & H1 & H2). split; [|split; assumption].
  apply Sorted_StronglySorted; [exact key_lt_trans|exact Hs].
Qed.

Lemma NoDup_map_filter {A B} (f : A -> B) (q : A -> bool) : forall l,
  NoDup (map f l) -> NoDup (map f (filter q l)).
Proof.
  induction l as [|x l IH]; intros H; [constructor|].
  cbn [map] in H. inversion H as [|? ? Hnin Hn]; subst. cbn [filter].
  destruct (q x); [|apply IH; exact Hn].
  cbn [map]. constructor; [|apply IH; exact Hn].
  intros Hin. apply Hnin. apply in_map_iff in Hin. destruct Hin as (y & E & Hy).
  apply filter_In in Hy. rewrite <- E. apply in_map. tauto.
Qed.

(** * Arithmetic of the partitions *)

Lemma div_ceil_mul n p : 0 < p -> n <= div_ceil n p * p.
Proof.
  intros Hp. unfold div_ceil.
  assert (Hp0 : p <> 0) by lia.
  pose proof (N.div_mod n p Hp0) as Hdm. pose proof (N.mod_lt n p Hp0) as Hml.
  destruct (N.eqb_spec (n mod p) 0) as [E|NE]; nia.
Qed.

Lemma pid_lt n p s : (0 < p)%nat -> s < n -> s / div_ceil n (N.of_nat p) < N.of_nat p.
Proof.
  intros Hp Hs. pose proof (div_ceil_mul n (N.of_nat p) ltac:(lia)) as H.
  set (npp := div_ceil n (N.of_nat p)) in *.
  assert (Hn0 : npp <> 0) by nia.
  apply N.div_lt_upper_bound; [exact Hn0|]. nia.
Qed.

Lemma pid_mono c a b : c <> 0 -> a / c < b / c -> a < b.
Proof.
  intros Hc H. destruct (N.lt_ge_cases a b) as [Hlt|Hge]; [exact Hlt|].
  pose proof (N.div_le_mono b a c Hc Hge). lia.
Qed.

(** * [ext_sort] *)

Definition parts_of (srt : list lpair -> list lpair) (n : N) (p : nat) (X : list lpair)
  : list (list lpair) :=
  map (fun i => srt (filter (fun e : lpair => src e / div_ceil n (N.of_nat p) =? N.of_nat i) X)) (seq 0 p).

Lemma ext_sort_parts srt n p (X : list lpair) :
  (forall e, In e X -> src e < n) -> ext_sort srt n p X = Some (parts_of srt n p X).
Proof.
  intros H. unfold ext_sort.
  replace (forallb (fun e => src e <? n) X) with true; [reflexivity|].
  symmetry. apply forallb_forall. intros e He. apply N.ltb_lt. apply H. exact He.
Qed.

Lemma ext_sort_none srt n p (X : list lpair) :
  ext_sort srt n p X = None <-> exists e, In e X /\ n <= src e.
Proof.
  unfold ext_sort. destruct (forallb (fun e => src e <? n) X) eqn:E.
  - split; [discriminate|]. intros (e & He & Hge).
    rewrite forallb_forall in E. specialize (E e He). apply N.ltb_lt in E. lia.
  - split; [|reflexivity]. intros _.
    destruct (existsb (fun e => negb (src e <? n)) X) eqn:E2.
    + apply existsb_exists in E2. destruct E2 as (e & He & Hn). exists e. split; [exact He|].
      destruct (N.ltb_spec (src e) n); [discriminate|lia].
    + exfalso. assert (forallb (fun e => src e <? n) X = true); [|congruence].
      apply forallb_forall. intros e He.
      destruct (src e <? n) eqn:E3; [reflexivity|].
      assert (existsb (fun e => negb (src e <? n)) X = true); [|congruence].
      apply existsb_exists. exists e. rewrite E3. split; [exact He|reflexivity].
Qed.

Section Parts.
Variable srt : list lpair -> list lpair.
Variables (n : N) (p : nat) (X : list lpair).
Hypothesis Hp : (0 < p)%nat.
Hypothesis Hsrc : forall e, In e X -> src e < n.
Hypothesis Hgood : forall q, good (filter q X) (srt (filter q X)).

Let npp := div_ceil n (N.of_nat p).
Let part (i : nat) := srt (filter (fun e => src e / npp =? N.of_nat i) X).

Lemma part_in i e : In e (part i) -> In e X /\ src e / npp = N.of_nat i.
Proof.
  intros He. destruct (Hgood (fun e => src e / npp =? N.of_nat i)) as (_ & H1 & _).
  apply H1 in He. apply filter_In in He. destruct He as [He Hi]. apply N.eqb_eq in Hi. tauto.
Qed.

Lemma npp_nonzero e : In e X -> npp <> 0.
Proof.
  intros He. specialize (Hsrc e He).
  pose proof (div_ceil_mul n (N.of_nat p) ltac:(lia)) as H. fold npp in H. nia.
Qed.

Lemma parts_good : good X (concat (parts_of srt n p X)).
Proof.
  unfold parts_of. fold npp. change (fun i => srt (filter (fun e => src e / npp =? N.of_nat i) X)) with part.
  split; [|split].
  - apply StronglySorted_concat.
    + rewrite Forall_forall. intros q Hq. apply in_map_iff in Hq. destruct Hq as (i & <- & _).
      destruct (Hgood (fun e => src e / npp =? N.of_nat i)) as (H & _). exact H.
    + apply ForallOrdPairs_map_seq. intros i j Hij _ x y Hx Hy.
      apply part_in in Hx. apply part_in in Hy. destruct Hx as [Hx Hxi], Hy as [Hy Hyj].
      unfold key_lt, pair_lt. left. change (src x < src y).
      apply (pid_mono npp); [exact (npp_nonzero x Hx)|]. lia.
  - intros x Hx. apply in_concat in Hx. destruct Hx as (q & Hq & Hx).
    apply in_map_iff in Hq. destruct Hq as (i & <- & _). apply part_in in Hx. tauto.
  - intros x Hx.
    pose proof (pid_lt n p (src x) Hp (Hsrc x Hx)) as Hlt. fold npp in Hlt.
    set (i := N.to_nat (src x / npp)).
    destruct (Hgood (fun e => src e / npp =? N.of_nat i)) as (_ & _ & H2).
    destruct (H2 x) as (y & Hy & Ey).
    { apply filter_In. split; [exact Hx|]. apply N.eqb_eq. unfold i. lia. }
    exists y. split; [|exact Ey]. apply in_concat. exists (part i). split; [|exact Hy].
    apply in_map_iff. exists i. split; [reflexivity|]. apply in_seq. unfold i. lia.
Qed.
End Parts.

(** * The reader on a good list *)

Lemma good_src_sorted X S : good X S -> StronglySorted src_le S.
Proof.
  intros (H & _). apply (StronglySorted_impl key_lt); [|exact H].
  intros x y. unfold key_lt, pair_lt, src_le, src. lia.
Qed.

Lemma lists_of_rel_good (n : N) (X S : list lpair) (R : N -> N -> bool) :
  good X S ->
  (forall e, In e X -> src e < n /\ dst e < n) ->
  (forall a b, a < n -> b < n -> (R a b = true <-> exists x, In x X /\ fst x = (a, b))) ->
  map (fun a => map fst (map out (filter (fun e => src e =? a) S))) (nseq 0 (N.to_nat n))
  = lists_of_rel n R.
Proof.
  intros HG Hr HR. unfold lists_of_rel. apply map_ext_in. intros a Ha. apply in_nseq in Ha.
  destruct HG as (HS & H1 & H2).
  apply (sorted_ext (fun x : N => x)).
  - rewrite map_map.
    apply (StronglySorted_map key_lt); [|apply StronglySorted_filter; exact HS].
    intros x y Hx Hy Hxy. apply filter_In in Hx. apply filter_In in Hy.
    destruct Hx as [_ Ex], Hy as [_ Ey]. apply N.eqb_eq in Ex. apply N.eqb_eq in Ey.
    unfold key_lt, pair_lt in Hxy. unfold out, src, dst in *. cbn [fst]. lia.
  - apply StronglySorted_filter. apply nseq_sorted.
  - intros b. rewrite map_map. rewrite in_map_iff. rewrite filter_In, in_nseq. split.
    + intros (e & Eb & He). apply filter_In in He. destruct He as [He Ea]. apply N.eqb_eq in Ea.
      cbn [out fst] in Eb. specialize (H1 e He). destruct (Hr e H1) as [Hs Hd].
      split; [lia|]. apply HR; [lia|lia|]. exists e. split; [exact H1|].
      destruct e as [[s d] l]. unfold src, dst in *. cbn [fst snd] in *. subst. reflexivity.
    + intros [Hb HRab]. apply HR in HRab; [|lia|lia]. destruct HRab as (x & Hx & Ex).
      destruct (H2 x Hx) as (y & Hy & Ey). exists y. split.
      * cbn [out fst]. unfold dst. rewrite Ey, Ex. reflexivity.
      * apply filter_In. split; [exact Hy|]. apply N.eqb_eq. unfold src. rewrite Ey, Ex. reflexivity.
Qed.

Lemma read_seq_good (n : N) (X S : list lpair) (R : N -> N -> bool) :
  good X S ->
  (forall e, In e X -> src e < n /\ dst e < n) ->
  (forall a b, a < n -> b < n -> (R a b = true <-> exists x, In x X /\ fst x = (a, b))) ->
  omap (map (map fst)) (node_labels (N.to_nat n) 0 S) = Some (lists_of_rel n R).
Proof.
  intros HG Hr HR.
  rewrite node_labels_sorted; [|exact (good_src_sorted X S HG)|intros; lia].
  cbn [omap]. f_equal. rewrite map_map. apply lists_of_rel_good with (X := X); assumption.
Qed.

(** the whole pipeline on an input [X] *)
Lemma pipeline_good srt (n : N) (p : nat) (X : list lpair) (R : N -> N -> bool) :
  (0 < p)%nat ->
  (forall q, good (filter q X) (srt (filter q X))) ->
  (forall e, In e X -> src e < n /\ dst e < n) ->
  (forall a b, a < n -> b < n -> (R a b = true <-> exists x, In x X /\ fst x = (a, b))) ->
  omap (map (map fst))
       (match ext_sort srt n p X with Some parts => read_seq n parts | None => None end)
  = Some (lists_of_rel n R).
Proof.
  intros Hp HG Hr HR.
  rewrite ext_sort_parts by (intros e He; apply Hr; exact He).
  unfold read_seq. apply read_seq_good with (X := X); [|exact Hr|exact HR].
  apply parts_good; [exact Hp|intros e He; apply Hr; exact He|exact HG].
Qed.
End Good.
