(** Labelled transposition: each label travels with its arc. *)
From WG Require Import Base.Prelude Par.Splice Par.SpliceFacts Transform.Pipelines
  Transform.Statements Transform.OrderFacts Transform.SortFacts Transform.Facts Transform.Facts2.
Require Import ZifyBool ZifyN ZifyNat.
Local Open Scope N_scope.

Section Labelled.
Context {L : Type}.
Notation lpair := (@lpair L).

Lemma good_perm (X X' S : list lpair) : Permutation X' X -> good X' S -> good X S.
Proof.
  intros HP (H1 & H2 & H3). split; [exact H1|]. split.
  - intros x Hx. apply (Permutation_in _ HP). apply H2. exact Hx.
  - intros x Hx. apply H3. apply (Permutation_in _ (Permutation_sym HP)). exact Hx.
Qed.

(** with unique keys, a good list has exactly the elements of the input *)
Lemma good_nodup_in (X S : list lpair) : NoDup (map fst X) -> good X S ->
  forall x, In x S <-> In x X.
Proof.
  intros Hn (_ & H2 & H3) x. split; [apply H2|]. intros Hx.
  destruct (H3 x Hx) as (y & Hy & Ey). replace x with y; [exact Hy|].
  pose proof (H2 y Hy) as Hy'.
  clear - Hn Hx Hy' Ey. induction X as [|z X IH]; [destruct Hx|].
  cbn [map] in Hn. inversion Hn as [|? ? Hnin Hn']; subst.
  destruct Hx as [->|Hx], Hy' as [->|Hy']; [reflexivity| | |apply IH; assumption].
  - exfalso. apply Hnin. rewrite <- Ey. apply in_map. exact Hy'.
  - exfalso. apply Hnin. rewrite Ey. apply in_map. exact Hx.
Qed.

Lemma wf_lgraph_forall (g : list (list (N * L))) : wf_lgraph g = true ->
  Forall (fun l => inc (map fst l) /\ forall dx, In dx l -> fst dx < nlen g) g.
Proof.
  unfold wf_lgraph. intros H. rewrite forallb_forall in H. rewrite Forall_forall. intros l Hl.
  specialize (H l Hl). apply andb_prop in H. destruct H as [H1 H2]. split; [apply incb_true; exact H1|].
  rewrite forallb_forall in H2. intros dx Hdx. apply N.ltb_lt. apply H2. apply in_map. exact Hdx.
Qed.

Lemma filter_key_unique (a : N) : forall l : list (N * L), inc (map fst l) ->
  StronglySorted (fun x y : N * L => fst x < fst y) (filter (fun dx => fst dx =? a) l).
Proof.
  intros l H. apply StronglySorted_filter. unfold inc in H.
  induction l as [|x l IH]; [constructor|]. cbn [map] in H. inversion H as [|? ? S F]; subst.
  constructor; [apply IH; exact S|]. rewrite Forall_forall in *. intros y Hy. apply F. apply in_map. exact Hy.
Qed.

Lemma ss_flat_map (f : N -> list (N * L)) : forall l : list N,
  StronglySorted N.lt l ->
  (forall b x, In x (f b) -> fst x = b) ->
  (forall b, StronglySorted (fun x y : N * L => fst x < fst y) (f b)) ->
  StronglySorted (fun x y : N * L => fst x < fst y) (flat_map f l).
Proof.
  induction l as [|b l IH]; intros Hs Hk Hf; [constructor|].
  inversion Hs as [|? ? S F]; subst. cbn [flat_map]. apply StronglySorted_app; [apply Hf|apply IH; assumption|].
  intros x y Hx Hy. apply in_flat_map in Hy. destruct Hy as (b' & Hb' & Hy).
  rewrite (Hk _ _ Hx), (Hk _ _ Hy). rewrite Forall_forall in F. apply F. exact Hb'.
Qed.

Variable lsort : list lpair -> list lpair.
Hypothesis Hok : sorter_ok lsort.
Variable g : list (list (N * L)).
Hypothesis Hwf : wf_lgraph g = true.

Let n := nlen g.
Let X : list lpair := flat_map phi_transpose (pairs_from 0 g).

Lemma lP_sorted : StronglySorted key_lt (pairs_from 0 g).
Proof.
  apply pairs_from_sorted. pose proof (wf_lgraph_forall g Hwf) as H. rewrite Forall_forall in *.
  intros l Hl. exact (proj1 (H l Hl)).
Qed.

Lemma lX_in (e : lpair) :
  In e X <-> (N.to_nat (dst e) < length g)%nat /\ In (src e, snd e) (nth (N.to_nat (dst e)) g []).
Proof.
  unfold X, phi_transpose. rewrite flat_map_single, in_map_iff. split.
  - intros (e0 & <- & He0). apply in_pairs_from in He0. destruct He0 as (k & Hk & Hs & Hin).
    unfold swap_pair, src, dst in *. cbn [fst snd] in *. replace (N.to_nat (fst (fst e0))) with k by lia.
    split; [exact Hk|exact Hin].
  - intros [Hk Hin]. exists ((dst e, src e), snd e). split.
    + destruct e as [[s d] x]. reflexivity.
    + apply in_pairs_from. exists (N.to_nat (dst e)). unfold src, dst. cbn [fst snd].
      split; [exact Hk|]. split; [lia|exact Hin].
Qed.

Lemma lX_nodup : NoDup (map fst X).
Proof.
  unfold X, phi_transpose. rewrite flat_map_single, map_map.
  replace (map (fun x : lpair => fst (swap_pair x)) (pairs_from 0 g))
    with (map (fun k : N * N => (snd k, fst k)) (map fst (pairs_from 0 g))) by (rewrite map_map; reflexivity).
  apply NoDup_map_in; [|apply ss_key_lt_NoDup; exact lP_sorted].
  intros [a b] [c d] _ _ E. inversion E; subst. reflexivity.
Qed.

Lemma lX_range e : In e X -> src e < n /\ dst e < n.
Proof.
  intros He. apply lX_in in He. destruct He as [Hk Hin]. unfold n, nlen. split; [|lia].
  pose proof (wf_lgraph_forall g Hwf) as H. rewrite Forall_forall in H.
  destruct (H _ (nth_In g [] Hk)) as [_ Hd]. exact (Hd _ Hin).
Qed.

Lemma labelled_lists (S : list lpair) : good X S ->
  map (fun a => map out (filter (fun e => src e =? a) S)) (nseq 0 (N.to_nat n))
  = transpose_labeled_spec g.
Proof.
  intros HG. unfold transpose_labeled_spec. unfold n, nlen. rewrite Nat2N.id.
  apply map_ext_in. intros a Ha. apply in_nseq in Ha.
  pose proof (good_nodup_in X S lX_nodup HG) as HS. destruct HG as (HSS & _ & _).
  apply (sorted_ext (fun x : N * L => fst x)).
  - apply (StronglySorted_map key_lt); [|apply StronglySorted_filter; exact HSS].
    intros x y Hx Hy Hxy. apply filter_In in Hx. apply filter_In in Hy.
    destruct Hx as [_ Ex], Hy as [_ Ey]. apply N.eqb_eq in Ex. apply N.eqb_eq in Ey.
    unfold key_lt, pair_lt in Hxy. unfold out, src, dst in *. cbn [fst]. lia.
  - apply ss_flat_map; [apply nseq_sorted| |].
    + intros b x Hx. apply in_map_iff in Hx. destruct Hx as (dx & <- & _). reflexivity.
    + intros b. apply (StronglySorted_map (fun x y : N * L => fst x < fst y)).
      * intros x y Hx Hy H. apply filter_In in Hx. apply filter_In in Hy.
        destruct Hx as [_ Ex], Hy as [_ Ey]. apply N.eqb_eq in Ex. apply N.eqb_eq in Ey. lia.
      * apply filter_key_unique.
        destruct (Nat.lt_ge_cases (N.to_nat b) (length g)) as [Hb|Hb].
        -- pose proof (wf_lgraph_forall g Hwf) as H. rewrite Forall_forall in H.
           exact (proj1 (H _ (nth_In g [] Hb))).
        -- rewrite nth_overflow by exact Hb. constructor.
  - intros [b x]. rewrite in_map_iff, in_flat_map. split.
    + intros (e & E & He). apply filter_In in He. destruct He as [He Ea]. apply N.eqb_eq in Ea.
      apply HS in He. apply lX_in in He. destruct He as [Hk Hin].
      unfold out in E. inversion E; subst. exists (dst e). split; [apply in_nseq; lia|].
      apply in_map_iff. exists (src e, snd e). split; [reflexivity|].
      apply filter_In. split; [exact Hin|apply N.eqb_refl].
    + intros (b' & Hb' & Hin). apply in_nseq in Hb'. apply in_map_iff in Hin.
      destruct Hin as (dx & E & Hdx). apply filter_In in Hdx. destruct Hdx as [Hdx Ea].
      apply N.eqb_eq in Ea. inversion E; subst. exists ((fst dx, b), snd dx). split; [reflexivity|].
      apply filter_In. split; [|unfold src; cbn [fst]; apply N.eqb_refl].
      apply HS. apply lX_in. unfold src, dst. cbn [fst snd]. split; [lia|]. destruct dx. exact Hdx.
Qed.

Lemma labelled_pipeline p (X' : list lpair) : (0 < p)%nat -> Permutation X' X ->
  match ext_sort lsort n p X' with Some parts => read_seq n parts | None => None end
  = Some (transpose_labeled_spec g).
Proof.
  intros Hp HP.
  assert (Hsrc : forall e, In e X' -> src e < n).
  { intros e He. apply (Permutation_in _ HP) in He. apply lX_range in He. tauto. }
  rewrite (ext_sort_parts lsort n p X' Hsrc). unfold read_seq.
  assert (HG : good X (concat (parts_of lsort n p X'))).
  { apply (good_perm X X'); [exact HP|]. apply parts_good; [exact Hp|exact Hsrc|].
    apply (good_nodup lsort X Hok lX_nodup X' HP). }
  rewrite node_labels_sorted; [|exact (good_src_sorted X _ HG)|intros; lia].
  f_equal. apply labelled_lists. exact HG.
Qed.
End Labelled.

Theorem transpose_labeled_correct : S_transpose_labeled.
Proof.
  intros L lsort Hok g p cuts arrival Hwf Hp Hsch. split.
  - unfold transpose_labeled_seq, xform_seq. apply labelled_pipeline; [exact Hok|exact Hwf|exact Hp|].
    apply Permutation_refl.
  - unfold transpose_labeled_par, xform_par. apply labelled_pipeline; [exact Hok|exact Hwf|exact Hp|].
    apply par_input_perm. exact Hsch.
Qed.
