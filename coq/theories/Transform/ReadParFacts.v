(** Reading a sorted graph through [into_par_lenders] (one [NodeLabels] per partition)
    gives the same lists as reading it through [iter]. *)
From WG Require Import Base.Prelude Par.Splice Par.SpliceFacts Transform.Pipelines
  Transform.Statements Transform.OrderFacts Transform.SortFacts Transform.Facts Transform.Facts2
  Transform.Facts3 Transform.MergeFacts Transform.SortedParFacts.
Require Import ZifyBool ZifyN ZifyNat.
Local Open Scope N_scope.

Lemma nseq_app : forall k1 k2 v, nseq v (k1 + k2) = nseq v k1 ++ nseq (v + N.of_nat k1) k2.
Proof.
  induction k1 as [|k1 IH]; intros k2 v.
  - cbn [Nat.add nseq app]. replace (v + N.of_nat 0) with v by lia. reflexivity.
  - cbn [Nat.add nseq app]. rewrite IH. f_equal. f_equal. f_equal. lia.
Qed.

Section ReadPar.
Context {L : Type}.
Notation lpair := (@lpair L).

Lemma node_labels_app k1 k2 v (l1 l2 : list lpair) :
  StronglySorted src_le l1 -> StronglySorted src_le l2 ->
  (forall e, In e l1 -> v <= src e < v + N.of_nat k1) ->
  (forall e, In e l2 -> v + N.of_nat k1 <= src e) ->
  node_labels (k1 + k2) v (l1 ++ l2)
  = match node_labels k1 v l1, node_labels k2 (v + N.of_nat k1) l2 with
    | Some x, Some y => Some (x ++ y)
    | _, _ => None
    end.
Proof.
  intros H1 H2 R1 R2.
  rewrite (node_labels_sorted k1 v l1 H1) by (intros e He; apply R1; exact He).
  rewrite (node_labels_sorted k2 _ l2 H2 R2).
  rewrite node_labels_sorted.
  - f_equal. rewrite nseq_app, map_app. f_equal; apply map_ext_in; intros a Ha; apply in_nseq in Ha;
      rewrite filter_app; f_equal.
    + rewrite (filter_none _ l2); [rewrite app_nil_r; reflexivity|].
      intros x Hx. specialize (R2 x Hx). destruct (N.eqb_spec (src x) a); [lia|reflexivity].
    + rewrite (filter_none _ l1); [reflexivity|].
      intros x Hx. specialize (R1 x Hx). destruct (N.eqb_spec (src x) a); [lia|reflexivity].
  - apply StronglySorted_app; [exact H1|exact H2|].
    intros x y Hx Hy. specialize (R1 x Hx). specialize (R2 y Hy). unfold src_le. lia.
  - intros e He. apply in_app_or in He. destruct He as [He|He]; [apply R1 in He|apply R2 in He]; lia.
Qed.

(** partitions that respect their boundaries *)
Fixpoint ranged (bs : list N) (parts : list (list lpair)) : Prop :=
  match bs, parts with
  | a :: ((b :: _) as bs'), part :: parts' =>
      a <= b /\ StronglySorted src_le part /\ (forall e, In e part -> a <= src e < b)
      /\ ranged bs' parts'
  | [_], [] => True
  | _, _ => False
  end.

Lemma read_par_cons v b bs (part : list lpair) parts :
  read_par (v :: b :: bs) (part :: parts)
  = if (match part with e :: _ => v <=? src e | [] => true end)
    then match node_labels (N.to_nat (b - v)) v part, read_par (b :: bs) parts with
         | Some x, Some y => Some (x ++ y)
         | _, _ => None
         end
    else None.
Proof. reflexivity. Qed.

Lemma read_par_eq : forall (parts : list (list lpair)) bs v,
  ranged (v :: bs) parts ->
  read_par (v :: bs) parts = node_labels (N.to_nat (last (v :: bs) 0 - v)) v (concat parts)
  /\ StronglySorted src_le (concat parts)
  /\ (forall e, In e (concat parts) -> v <= src e)
  /\ v <= last (v :: bs) 0.
Proof.
  induction parts as [|part parts IH]; intros bs v H.
  - destruct bs as [|b bs]; [|destruct H]. cbn [last concat read_par].
    replace (N.to_nat (v - v)) with O by lia. cbn [node_labels].
    split; [reflexivity|]. split; [constructor|]. split; [intros e []|lia].
  - destruct bs as [|b bs]; [destruct H|]. destruct H as (Hab & Hs & Hr & Hrest).
    destruct (IH bs b Hrest) as (E & Hs' & Hge & Hle).
    change (last (v :: b :: bs) 0) with (last (b :: bs) 0). cbn [concat].
    split; [|split; [|split]].
    + rewrite read_par_cons.
      replace (match part with [] => true | e :: _ => v <=? src e end) with true.
      2:{ destruct part as [|e part]; [reflexivity|]. symmetry. apply N.leb_le.
          apply (Hr e). left. reflexivity. }
      rewrite E.
      set (la := last (b :: bs) 0) in *.
      replace (N.to_nat (la - v)) with (N.to_nat (b - v) + N.to_nat (la - b))%nat by lia.
      rewrite node_labels_app; [replace (v + N.of_nat (N.to_nat (b - v))) with b by lia; reflexivity
                               |exact Hs|exact Hs'| |].
      * intros e He. specialize (Hr e He). lia.
      * intros e He. specialize (Hge e He). lia.
    + apply StronglySorted_app; [exact Hs|exact Hs'|].
      intros x y Hx Hy. specialize (Hr x Hx). specialize (Hge y Hy). unfold src_le. lia.
    + intros e He. apply in_app_or in He. destruct He as [He|He]; [apply Hr in He|apply Hge in He]; lia.
    + lia.
Qed.

Lemma ranged_map_seq (bf : nat -> N) (pf : nat -> list lpair) : forall k s,
  (forall i, (s <= i < s + k)%nat ->
     bf i <= bf (S i) /\ StronglySorted src_le (pf i)
     /\ forall e, In e (pf i) -> bf i <= src e < bf (S i)) ->
  ranged (map bf (seq s (S k))) (map pf (seq s k)).
Proof.
  induction k as [|k IH]; intros s H; [exact I|].
  change (seq s (S (S k))) with (s :: seq (S s) (S k)).
  change (seq s (S k)) with (s :: seq (S s) k). cbn [map].
  change (seq (S s) (S k)) with (S s :: seq (S (S s)) k) at 1. cbn [map].
  destruct (H s ltac:(lia)) as (H1 & H2 & H3).
  cbn [ranged]. split; [exact H1|]. split; [exact H2|]. split; [exact H3|].
  specialize (IH (S s)). change (seq (S s) (S k)) with (S s :: seq (S (S s)) k) in IH. cbn [map] in IH.
  apply IH. intros i Hi. apply H. lia.
Qed.
End ReadPar.

(** * [symmetrize_sorted_par] read through its lenders *)

Theorem sorted_par_symm_lenders : S_sorted_par_symm_lenders.
Proof.
  intros sort Hok nl g p cuts arrival Hwf Hp Hsch.
  pose proof (sorted_par_seq_read sort Hok nl g p cuts arrival Hwf Hp Hsch) as Hseq.
  unfold symmetrize_sorted_par_lenders. unfold symmetrize_sorted_par in Hseq.
  rewrite (parts_eq sort nl g p cuts arrival Hwf Hp Hsch) in *.
  rewrite <- Hseq. f_equal. unfold read_seq.
  set (M := fun i => merge_dedup nl _ _).
  assert (HR : ranged (boundaries (nlen g) p) (relabel (map M (seq 0 p)))).
  { unfold relabel, boundaries. rewrite map_map.
    apply (ranged_map_seq (bnd (nlen g) p) (fun i => map (fun x => (x, tt)) (M i))).
    intros i Hi. destruct (M_spec sort Hok nl g p cuts arrival Hwf Hp Hsch i ltac:(lia)) as (H1 & H2 & _).
    split; [apply bnd_mono; lia|]. split.
    - apply (StronglySorted_map pair_lt); [|exact H1].
      intros x y _ _ H. unfold src_le, src. cbn [fst]. unfold pair_lt in H. lia.
    - intros e He. apply in_map_iff in He. destruct He as (k & <- & Hk). exact (H2 k Hk). }
  rewrite boundaries_eq in HR |- *.
  destruct (read_par_eq _ _ _ HR) as (E & _). rewrite E. f_equal.
  destruct (boundaries_legal (nlen g) p Hp) as (_ & Hl & _). rewrite boundaries_eq in Hl. rewrite Hl. lia.
Qed.
