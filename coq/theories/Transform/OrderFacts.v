(** Facts about the lexicographic order on pairs, strictly sorted lists and the
    [NodeLabels] reader of Transform/Pipelines.v. *)
From WG Require Import Base.Prelude Par.Splice Transform.Pipelines.
Require Import ZifyBool ZifyN ZifyNat.
Local Open Scope N_scope.

(** * The order on pairs *)

Lemma pair_ltb_lt a b : pair_ltb a b = true <-> pair_lt a b.
Proof.
  unfold pair_ltb, pair_lt. destruct a as [a1 a2], b as [b1 b2]. cbn [fst snd].
  destruct (N.ltb_spec a1 b1), (N.eqb_spec a1 b1), (N.ltb_spec a2 b2); cbn; split; intros; try lia;
    try discriminate; try reflexivity.
Qed.

Lemma pair_leb_le a b : pair_leb a b = true <-> pair_le a b.
Proof.
  unfold pair_leb, pair_le. destruct a as [a1 a2], b as [b1 b2]. cbn [fst snd].
  destruct (N.ltb_spec a1 b1), (N.eqb_spec a1 b1), (N.leb_spec a2 b2); cbn; split; intros; try lia;
    try discriminate; try reflexivity.
Qed.

Lemma pair_eqb_eq a b : pair_eqb a b = true <-> a = b.
Proof.
  unfold pair_eqb. destruct a as [a1 a2], b as [b1 b2]. cbn [fst snd].
  destruct (N.eqb_spec a1 b1), (N.eqb_spec a2 b2); cbn; split; intros H; try discriminate;
    try reflexivity; try (inversion H; lia). subst. reflexivity.
Qed.

Lemma pair_lt_irrefl a : ~ pair_lt a a.
Proof. unfold pair_lt. lia. Qed.

Lemma pair_lt_trans a b c : pair_lt a b -> pair_lt b c -> pair_lt a c.
Proof. unfold pair_lt. lia. Qed.

Lemma pair_le_trans a b c : pair_le a b -> pair_le b c -> pair_le a c.
Proof. unfold pair_le. lia. Qed.

Lemma pair_le_lt_trans a b c : pair_le a b -> pair_lt b c -> pair_lt a c.
Proof. unfold pair_le, pair_lt. lia. Qed.

Lemma pair_lt_le_trans a b c : pair_lt a b -> pair_le b c -> pair_lt a c.
Proof. unfold pair_le, pair_lt. lia. Qed.

Lemma pair_lt_le a b : pair_lt a b -> pair_le a b.
Proof. unfold pair_le, pair_lt. lia. Qed.

Lemma pair_le_cases a b : pair_le a b -> pair_lt a b \/ a = b.
Proof.
  destruct a as [a1 a2], b as [b1 b2]. unfold pair_le, pair_lt. cbn [fst snd]. intros H.
  destruct (N.eq_dec a1 b1) as [E1|N1]; [|left; lia].
  destruct (N.eq_dec a2 b2) as [E2|N2]; [right; subst; reflexivity|left; lia].
Qed.

Lemma pair_total a b : pair_le a b \/ pair_lt b a.
Proof. unfold pair_le, pair_lt. lia. Qed.

Lemma pair_leb_false a b : pair_leb a b = false -> pair_lt b a.
Proof.
  intros H. destruct (pair_total a b) as [Hle|Hlt]; [|exact Hlt].
  apply pair_leb_le in Hle. congruence.
Qed.

(** * Strictly sorted lists are determined by their elements *)

Section SortedExt.
Context {A : Type} (k : A -> N).
Let klt (x y : A) : Prop := k x < k y.

Lemma sorted_ext : forall l1 l2 : list A,
  StronglySorted klt l1 -> StronglySorted klt l2 ->
  (forall x, In x l1 <-> In x l2) -> l1 = l2.
Proof.
  induction l1 as [|x l1 IH]; intros l2 H1 H2 Hin.
  - destruct l2 as [|y l2]; [reflexivity|]. exfalso. apply (Hin y). left. reflexivity.
  - destruct l2 as [|y l2]; [exfalso; apply (Hin x); left; reflexivity|].
    inversion H1 as [|? ? S1 F1]; subst. inversion H2 as [|? ? S2 F2]; subst.
    rewrite Forall_forall in F1, F2.
    assert (E : x = y).
    { destruct (proj1 (Hin x) (or_introl eq_refl)) as [E|Hx]; [symmetry; exact E|].
      destruct (proj2 (Hin y) (or_introl eq_refl)) as [E|Hy]; [exact E|].
      specialize (F2 _ Hx). specialize (F1 _ Hy). unfold klt in *. lia. }
    subst y. f_equal. apply IH; [exact S1|exact S2|].
    intros z. split; intros Hz.
    + destruct (proj1 (Hin z) (or_intror Hz)) as [E|Hz']; [|exact Hz'].
      subst z. specialize (F1 _ Hz). unfold klt in F1. lia.
    + destruct (proj2 (Hin z) (or_intror Hz)) as [E|Hz']; [|exact Hz'].
      subst z. specialize (F2 _ Hz). unfold klt in F2. lia.
Qed.
End SortedExt.

Lemma StronglySorted_filter {A} (R : A -> A -> Prop) (f : A -> bool) : forall l,
  StronglySorted R l -> StronglySorted R (filter f l).
Proof.
  induction l as [|x l IH]; intros H; [constructor|].
  inversion H as [|? ? S F]; subst. cbn [filter].
  destruct (f x); [|apply IH; exact S].
  constructor; [apply IH; exact S|].
  rewrite Forall_forall in *. intros y Hy. apply filter_In in Hy. apply F. tauto.
Qed.

Lemma StronglySorted_map {A B} (R : A -> A -> Prop) (Q : B -> B -> Prop) (f : A -> B) : forall l,
  (forall x y, In x l -> In y l -> R x y -> Q (f x) (f y)) ->
  StronglySorted R l -> StronglySorted Q (map f l).
Proof.
  induction l as [|x l IH]; intros HRQ H; [constructor|].
  inversion H as [|? ? S F]; subst. cbn [map]. constructor.
  - apply IH; [|exact S]. intros a b Ha Hb. apply HRQ; right; assumption.
  - rewrite Forall_forall in *. intros y Hy. apply in_map_iff in Hy. destruct Hy as (z & <- & Hz).
    apply HRQ; [left; reflexivity|right; exact Hz|apply F; exact Hz].
Qed.

Lemma StronglySorted_app {A} (R : A -> A -> Prop) : forall l1 l2,
  StronglySorted R l1 -> StronglySorted R l2 ->
  (forall x y, In x l1 -> In y l2 -> R x y) -> StronglySorted R (l1 ++ l2).
Proof.
  induction l1 as [|x l1 IH]; intros l2 H1 H2 Hc; [exact H2|].
  inversion H1 as [|? ? S F]; subst. cbn [app]. constructor.
  - apply IH; [exact S|exact H2|]. intros a b Ha Hb. apply Hc; [right; exact Ha|exact Hb].
  - rewrite Forall_forall in *. intros y Hy. apply in_app_or in Hy. destruct Hy as [Hy|Hy].
    + apply F. exact Hy.
    + apply Hc; [left; reflexivity|exact Hy].
Qed.

(** concatenation of sorted parts that are ordered among themselves *)
Lemma StronglySorted_concat {A} (R : A -> A -> Prop) : forall parts : list (list A),
  Forall (StronglySorted R) parts ->
  ForallOrdPairs (fun p q => forall x y, In x p -> In y q -> R x y) parts ->
  StronglySorted R (concat parts).
Proof.
  induction parts as [|p parts IH]; intros Hs Ho; [constructor|].
  inversion Hs as [|? ? Sp Ss]; subst. inversion Ho as [|? ? Fo Oo]; subst.
  cbn [concat]. apply StronglySorted_app; [exact Sp|apply IH; assumption|].
  intros x y Hx Hy. apply in_concat in Hy. destruct Hy as (q & Hq & Hy).
  rewrite Forall_forall in Fo. exact (Fo q Hq x y Hx Hy).
Qed.

Lemma ForallOrdPairs_map_seq {B} (Q : B -> B -> Prop) (f : nat -> B) : forall len start,
  (forall i j, (start <= i < j)%nat -> (j < start + len)%nat -> Q (f i) (f j)) ->
  ForallOrdPairs Q (map f (seq start len)).
Proof.
  induction len as [|len IH]; intros start H; [constructor|].
  cbn [seq map]. constructor.
  - rewrite Forall_forall. intros y Hy. apply in_map_iff in Hy. destruct Hy as (j & <- & Hj).
    apply in_seq in Hj. apply H; lia.
  - apply IH. intros i j Hij Hj. apply H; lia.
Qed.

(** [nseq] *)
Lemma in_nseq : forall k a x, In x (nseq a k) <-> a <= x < a + N.of_nat k.
Proof.
  induction k as [|k IH]; intros a x; cbn [nseq In].
  - lia.
  - rewrite IH. lia.
Qed.

Lemma nseq_sorted : forall k a, StronglySorted N.lt (nseq a k).
Proof.
  induction k as [|k IH]; intros a; cbn [nseq]; constructor; [apply IH|].
  rewrite Forall_forall. intros x Hx. apply in_nseq in Hx. lia.
Qed.

Lemma nseq_length : forall k a, length (nseq a k) = k.
Proof. induction k as [|k IH]; intros a; cbn [nseq length]; [reflexivity|]. rewrite IH. reflexivity. Qed.

(** * [take_succ] and [node_labels] on a list sorted by source *)

Section Reader.
Context {L : Type}.
Notation lpair := (@lpair L).

Definition out (e : lpair) : N * L := (dst e, snd e).
Definition src_le (a b : lpair) : Prop := src a <= src b.

Lemma filter_none {A} (f : A -> bool) (l : list A) :
  (forall x, In x l -> f x = false) -> filter f l = [].
Proof.
  induction l as [|x l IH]; intros H; [reflexivity|]. cbn [filter].
  rewrite (H x (or_introl eq_refl)). apply IH. intros y Hy. apply H. right. exact Hy.
Qed.

Lemma filter_all {A} (f : A -> bool) (l : list A) :
  (forall x, In x l -> f x = true) -> filter f l = l.
Proof.
  induction l as [|x l IH]; intros H; [reflexivity|]. cbn [filter].
  rewrite (H x (or_introl eq_refl)). f_equal. apply IH. intros y Hy. apply H. right. exact Hy.
Qed.

Lemma take_succ_sorted : forall (l : list lpair) v,
  StronglySorted src_le l -> (forall e, In e l -> v <= src e) ->
  take_succ v l = Some (map out (filter (fun e => src e =? v) l),
                        filter (fun e => negb (src e =? v)) l).
Proof.
  induction l as [|e l IH]; intros v Hs Hge; [reflexivity|].
  inversion Hs as [|? ? S F]; subst. rewrite Forall_forall in F.
  cbn [take_succ]. destruct (N.ltb_spec v (src e)) as [Hlt|Hnlt].
  - rewrite filter_none, filter_all; [reflexivity| |].
    + intros x Hx. assert (Hsx : v < src x).
      { destruct Hx as [E|Hx]; [subst x; exact Hlt|specialize (F x Hx); unfold src_le in F; lia]. }
      destruct (N.eqb_spec (src x) v); [lia|reflexivity].
    + intros x Hx. assert (Hsx : v < src x).
      { destruct Hx as [E|Hx]; [subst x; exact Hlt|specialize (F x Hx); unfold src_le in F; lia]. }
      destruct (N.eqb_spec (src x) v); [lia|reflexivity].
  - pose proof (Hge e (or_introl eq_refl)) as Hv.
    assert (E : src e = v) by lia. rewrite (proj2 (N.eqb_eq _ _) E).
    rewrite (IH v S) by (intros x Hx; apply Hge; right; exact Hx).
    cbn [filter]. rewrite (proj2 (N.eqb_eq _ _) E). cbn [negb map]. reflexivity.
Qed.

Lemma filter_filter_eq {A} (f g : A -> bool) (l : list A) :
  (forall x, In x l -> f x = true -> g x = true) -> filter f (filter g l) = filter f l.
Proof.
  induction l as [|x l IH]; intros H; [reflexivity|]. cbn [filter].
  destruct (g x) eqn:G.
  - cbn [filter]. destruct (f x); [f_equal|]; apply IH; intros y Hy; apply H; right; exact Hy.
  - destruct (f x) eqn:Fx.
    + rewrite (H x (or_introl eq_refl) Fx) in G. discriminate.
    + apply IH. intros y Hy. apply H. right. exact Hy.
Qed.

Lemma node_labels_sorted : forall k v (l : list lpair),
  StronglySorted src_le l -> (forall e, In e l -> v <= src e) ->
  node_labels k v l
  = Some (map (fun a => map out (filter (fun e => src e =? a) l)) (nseq v k)).
Proof.
  induction k as [|k IH]; intros v l Hs Hge; [reflexivity|].
  cbn [node_labels nseq map]. rewrite (take_succ_sorted l v Hs Hge).
  rewrite IH.
  - f_equal. f_equal. apply map_ext_in. intros a Ha. apply in_nseq in Ha. f_equal.
    apply filter_filter_eq. intros x _ Hx. apply N.eqb_eq in Hx.
    destruct (N.eqb_spec (src x) v); [lia|reflexivity].
  - apply StronglySorted_filter. exact Hs.
  - intros e He. apply filter_In in He. destruct He as [He Hne].
    specialize (Hge e He). destruct (N.eqb_spec (src e) v); [discriminate|lia].
Qed.
End Reader.
