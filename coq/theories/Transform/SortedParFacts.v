(** [symmetrize_sorted_par]: sorting the reversed arcs, re-splitting the forward graph at
    the sorter's boundaries and merging partition by partition gives the symmetrized
    graph. *)
From WG Require Import Base.Prelude Par.Splice Par.SpliceFacts Transform.Pipelines
  Transform.Statements Transform.OrderFacts Transform.SortFacts Transform.Facts Transform.Facts2
  Transform.MergeFacts.
Require Import ZifyBool ZifyN ZifyNat.
Local Open Scope N_scope.

(** * Boundaries *)

Definition bnd (n : N) (p : nat) (i : nat) : N := N.min (N.of_nat i * div_ceil n (N.of_nat p)) n.

Lemma boundaries_eq n p : boundaries n p = 0 :: map (bnd n p) (seq 1 p).
Proof.
  unfold boundaries. cbn [seq map]. f_equal. lia.
Qed.

Lemma bnd_mono n p i j : (i <= j)%nat -> bnd n p i <= bnd n p j.
Proof.
  intros H. unfold bnd.
  assert (N.of_nat i * div_ceil n (N.of_nat p) <= N.of_nat j * div_ceil n (N.of_nat p))
    by (apply N.mul_le_mono_r; lia).
  lia.
Qed.

Lemma bnd_last n p : (0 < p)%nat -> bnd n p p = n.
Proof.
  intros Hp. unfold bnd. pose proof (div_ceil_mul n (N.of_nat p) ltac:(lia)). lia.
Qed.

Lemma nondecreasing_map_seq (f : nat -> N) : forall len s,
  (forall i, f i <= f (S i)) -> nondecreasing (map f (seq s len)) = true.
Proof.
  induction len as [|len IH]; intros s H; [reflexivity|].
  cbn [seq map]. destruct len as [|len]; [reflexivity|].
  specialize (IH (S s) H). cbn [seq map] in *. cbn [nondecreasing].
  apply andb_true_iff. split; [apply N.leb_le; apply H|exact IH].
Qed.

Lemma boundaries_legal n p : (0 < p)%nat ->
  nondecreasing (boundaries n p) = true /\ last (boundaries n p) 0 = n
  /\ length (boundaries n p) = S p.
Proof.
  intros Hp. split; [|split].
  - unfold boundaries. apply nondecreasing_map_seq. intros i.
    apply (bnd_mono n p i (S i)). lia.
  - unfold boundaries. rewrite seq_S, map_app. cbn [map]. rewrite last_last.
    apply (bnd_last n p Hp).
  - unfold boundaries. rewrite map_length, seq_length. reflexivity.
Qed.

Lemma boundaries_nth n p j : (j <= p)%nat -> nth j (boundaries n p) 0 = bnd n p j.
Proof.
  intros Hj. unfold boundaries.
  rewrite (nth_indep _ 0 (bnd n p 0)) by (rewrite map_length, seq_length; lia).
  rewrite (map_nth (bnd n p)). rewrite seq_nth by lia. reflexivity.
Qed.

Lemma pid_range n p s : (0 < p)%nat -> s < n ->
  let i := N.to_nat (s / div_ceil n (N.of_nat p)) in
  (i < p)%nat /\ bnd n p i <= s < bnd n p (S i).
Proof.
  intros Hp Hs i. pose proof (pid_lt n p s Hp Hs) as Hlt.
  pose proof (div_ceil_mul n (N.of_nat p) ltac:(lia)) as Hm.
  unfold bnd, i. set (npp := div_ceil n (N.of_nat p)) in *.
  assert (Hn0 : npp <> 0) by nia.
  pose proof (N.mul_div_le s npp Hn0). pose proof (N.mul_succ_div_gt s npp Hn0).
  split; [lia|]. rewrite !N2Nat.id. nia.
Qed.

(** an element whose partition id is [i] lies between the boundaries [i] and [i+1] *)
Lemma pid_bounds n p s i : (0 < p)%nat -> s < n ->
  s / div_ceil n (N.of_nat p) = N.of_nat i -> bnd n p i <= s < bnd n p (S i).
Proof.
  intros Hp Hs E. destruct (pid_range n p s Hp Hs) as [_ H].
  rewrite E, Nat2N.id in H. exact H.
Qed.

(** * The blocks of a cut sequence, one by one *)

Lemma nondecreasing_nth_ge : forall cuts b j,
  nondecreasing (b :: cuts) = true -> b <= nth j (b :: cuts) 0 \/ (length cuts < j)%nat.
Proof.
  induction cuts as [|c cuts IH]; intros b j H.
  - destruct j as [|j]; [left; cbn; lia|right; cbn; lia].
  - destruct j as [|j]; [left; cbn; lia|].
    cbn [nondecreasing] in H. apply andb_prop in H. destruct H as [Hbc H]. apply N.leb_le in Hbc.
    destruct (IH c j H) as [K|K]; [left|right; cbn [length]; lia].
    change (nth (S j) (b :: c :: cuts) 0) with (nth j (c :: cuts) 0). lia.
Qed.

Section Blocks.
Context {L : Type}.
Notation lpair := (@lpair L).

Lemma blocks_nth : forall cuts c (g : list (list (N * L))) j (e : lpair),
  nondecreasing (c :: cuts) = true -> c + nlen g = last (c :: cuts) 0 ->
  (j < length cuts)%nat ->
  (In e (nth j (blocks (c :: cuts) g) [])
   <-> In e (pairs_from c g) /\ nth j (c :: cuts) 0 <= src e < nth (S j) (c :: cuts) 0).
Proof.
  induction cuts as [|b cuts IH]; intros c g j e Hnd Hlast Hj; [cbn [length] in Hj; lia|].
  pose proof Hnd as Hnd0. cbn [nondecreasing] in Hnd. apply andb_prop in Hnd. destruct Hnd as [Hcb Hnd].
  apply N.leb_le in Hcb.
  change (last (c :: b :: cuts) 0) with (last (b :: cuts) 0) in Hlast.
  pose proof (nondecreasing_last cuts b Hnd) as Hbl.
  assert (Hk : (N.to_nat (b - c) <= length g)%nat) by (unfold nlen in Hlast; lia).
  rewrite blocks_step.
  assert (Hsplit : pairs_from c g = pairs_from c (firstn (N.to_nat (b - c)) g)
                                   ++ pairs_from b (skipn (N.to_nat (b - c)) g)).
  { rewrite <- (firstn_skipn (N.to_nat (b - c)) g) at 1. rewrite pairs_from_app. f_equal. f_equal.
    unfold nlen. rewrite firstn_length. lia. }
  assert (Hfirst : forall x, In x (pairs_from c (firstn (N.to_nat (b - c)) g)) -> c <= src x < b).
  { intros x Hx. apply in_pairs_from in Hx. destruct Hx as (k & Hk' & Hs & _).
    rewrite firstn_length in Hk'. lia. }
  assert (Hrest : forall x, In x (pairs_from b (skipn (N.to_nat (b - c)) g)) -> b <= src x).
  { intros x Hx. apply in_pairs_from in Hx. destruct Hx as (k & _ & Hs & _). lia. }
  destruct j as [|j].
  - cbn [nth]. rewrite Hsplit, in_app_iff. split.
    + intros He. split; [left; exact He|apply Hfirst; exact He].
    + intros [[He|He] Hr]; [exact He|]. apply Hrest in He. lia.
  - change (nth (S j) (pairs_from c (firstn (N.to_nat (b - c)) g)
                        :: blocks (b :: cuts) (skipn (N.to_nat (b - c)) g)) [])
      with (nth j (blocks (b :: cuts) (skipn (N.to_nat (b - c)) g)) []).
    change (nth (S j) (c :: b :: cuts) 0) with (nth j (b :: cuts) 0).
    change (nth (S (S j)) (c :: b :: cuts) 0) with (nth (S j) (b :: cuts) 0).
    rewrite IH; [|exact Hnd|unfold nlen in *; rewrite skipn_length; lia|cbn [length] in Hj; lia].
    rewrite Hsplit, in_app_iff. split.
    + intros [He Hr]. split; [right; exact He|exact Hr].
    + intros [[He|He] Hr]; [|split; [exact He|exact Hr]].
      apply Hfirst in He. destruct (nondecreasing_nth_ge cuts b j Hnd) as [K|K]; [lia|].
      cbn [length] in Hj. lia.
Qed.

Lemma blocks_sorted : forall cuts c (g : list (list (N * L))),
  Forall (fun l => inc (map fst l)) g -> Forall (StronglySorted key_lt) (blocks (c :: cuts) g).
Proof.
  induction cuts as [|b cuts IH]; intros c g Hg; [constructor|].
  rewrite blocks_step. rewrite <- (firstn_skipn (N.to_nat (b - c)) g) in Hg.
  apply Forall_app in Hg. destruct Hg as [H1 H2].
  constructor; [apply pairs_from_sorted; exact H1|apply IH; exact H2].
Qed.
End Blocks.

Lemma merge_parts_nth nl : forall Fs Rs p,
  length Fs = p -> length Rs = p ->
  merge_parts nl Fs Rs = map (fun i => merge_dedup nl (nth i Fs []) (nth i Rs [])) (seq 0 p).
Proof.
  induction Fs as [|F Fs IH]; intros Rs p HF HR.
  - cbn [length] in HF. subst p. reflexivity.
  - destruct Rs as [|R Rs]; [cbn [length] in *; lia|]. cbn [length] in *. destruct p as [|p]; [lia|].
    cbn [merge_parts seq map nth]. f_equal. rewrite <- seq_shift, map_map. cbn [nth].
    apply IH; lia.
Qed.

(** a strictly sorted list of keys with the keys of [X] is good for [X] *)
Lemma good_of_keys (X : list (@lpair unit)) (K : list (N * N)) :
  StronglySorted pair_lt K -> (forall k, In k K <-> exists x, In x X /\ fst x = k) ->
  good X (map (fun k => (k, tt)) K).
Proof.
  intros HS HK. split; [|split].
  - apply (StronglySorted_map pair_lt); [|exact HS]. intros x y _ _ H. exact H.
  - intros x Hx. apply in_map_iff in Hx. destruct Hx as (k & <- & Hk).
    apply HK in Hk. destruct Hk as (x & Hx & E). rewrite (unit_pair_eq (k, tt) x); [exact Hx|].
    cbn [fst]. symmetry. exact E.
  - intros x Hx. exists (fst x, tt). split; [|reflexivity].
    apply (in_map (fun k : N * N => (k, tt))). apply HK. exists x. tauto.
Qed.

Lemma symm_range noloops g : wf_graph g = true ->
  forall e, In e (flat_map (phi_symm noloops) (P g)) -> src e < nlen g /\ dst e < nlen g.
Proof.
  intros Hwf e He. destruct e as [[a b] u].
  destruct (proj1 (symm_keys noloops g a b)) as [[[Hin _]|[Hin _]] _];
    [exists ((a, b), u); split; [exact He|reflexivity]| |];
    unfold src, dst; cbn [fst snd]; destruct (wf_succ _ _ _ Hwf Hin); tauto.
Qed.

Lemma symm_R noloops g a b : wf_graph g = true ->
  ((has_arc g a b || has_arc g b a) && (negb noloops || negb (a =? b)) = true
   <-> exists x, In x (flat_map (phi_symm noloops) (P g)) /\ fst x = (a, b)).
Proof.
  intros Hwf. rewrite symm_keys.
  rewrite andb_true_iff, orb_true_iff, !has_arc_true, orb_true_iff, !negb_true_iff.
  split; intros [H1 H2]; split.
  - destruct H1 as [H1|H1]; destruct (wf_succ _ _ _ Hwf H1); tauto.
  - intros Enl Eab. destruct H2 as [H2|H2]; [congruence|]. apply N.eqb_neq in H2. contradiction.
  - tauto.
  - destruct noloops; [right; apply N.eqb_neq; apply H2; reflexivity|left; reflexivity].
Qed.

(** * Assembly *)
Section SortedPar.
Variable sort : list (@lpair unit) -> list (@lpair unit).
Hypothesis Hok : sorter_ok sort.
Variables (nl : bool) (g : list (list N)) (p : nat) (cuts : list N) (arrival : list nat).
Hypothesis Hwf : wf_graph g = true.
Hypothesis Hp : (0 < p)%nat.
Hypothesis Hsch : legal_schedule cuts arrival (nlen g).

Let n := nlen g.
Let ug := unit_labels g.
Let npp := div_ceil n (N.of_nat p).
Let T : list (@lpair unit) := flat_map phi_transpose (P g).
Let Xrev : list (@lpair unit) := arrive arrival (map (flat_map phi_transpose) (blocks cuts ug)).
Let F (i : nat) : list (N * N) := map fst (nth i (blocks (boundaries n p) ug) []).
Let Rv (i : nat) : list (N * N) :=
  map fst (sort (filter (fun e : @lpair unit => src e / npp =? N.of_nat i) Xrev)).
Let M (i : nat) : list (N * N) := merge_dedup nl (F i) (Rv i).

Lemma Xrev_perm : Permutation Xrev T.
Proof.
  unfold Xrev, T, P. apply par_input_perm. unfold ug. rewrite nlen_unit_labels. exact Hsch.
Qed.

Lemma T_in a b u : In ((a, b), u) T <-> In a (succ_of g b) /\ b < n.
Proof.
  unfold T, n. rewrite <- transpose_keys. split.
  - intros H. exists ((a, b), u). split; [exact H|reflexivity].
  - intros (x & Hx & E). rewrite (unit_pair_eq ((a, b), u) x); [exact Hx|cbn [fst]; symmetry; exact E].
Qed.

Lemma Xrev_src e : In e Xrev -> src e < n.
Proof.
  intros He. apply (Permutation_in _ Xrev_perm) in He. destruct e as [[a b] u].
  apply T_in in He. destruct He as [Hin _]. destruct (wf_succ _ _ _ Hwf Hin). exact H0.
Qed.

Lemma parts_eq : symm_sorted_parts sort nl p cuts arrival g = Some (map M (seq 0 p)).
Proof.
  unfold symm_sorted_parts. fold n ug Xrev.
  rewrite (ext_sort_parts sort n p Xrev Xrev_src). f_equal.
  rewrite (merge_parts_nth nl _ _ p).
  - apply map_ext_in. intros i Hi. apply in_seq in Hi. unfold M, F, Rv. f_equal.
    + change (@nil (N * N)) with (map (@fst (N * N) unit) []). rewrite map_nth. reflexivity.
    + change (@nil (N * N)) with (map (@fst (N * N) unit) []). rewrite map_nth. f_equal.
      unfold parts_of. fold npp.
      rewrite (nth_indep _ [] ((fun i => sort (filter (fun e : @lpair unit => src e / npp =? N.of_nat i) Xrev)) O))
        by (rewrite map_length, seq_length; lia).
      rewrite (map_nth (fun i => sort (filter (fun e : @lpair unit => src e / npp =? N.of_nat i) Xrev))).
      rewrite seq_nth by lia. reflexivity.
  - destruct (boundaries_legal n p Hp) as (Hnd & Hl & _). rewrite boundaries_eq in Hnd, Hl.
    destruct (blocks_concat (map (bnd n p) (seq 1 p)) 0 ug Hnd) as [_ H2].
    { rewrite Hl. unfold ug. rewrite nlen_unit_labels. reflexivity. }
    rewrite map_length, seq_length in H2. rewrite map_length, boundaries_eq. exact H2.
  - unfold parts_of. rewrite !map_length, seq_length. reflexivity.
Qed.

Lemma F_in i k : (i < p)%nat ->
  (In k (F i) <-> (In (snd k) (succ_of g (fst k)) /\ fst k < n)
                  /\ bnd n p i <= fst k < bnd n p (S i)).
Proof.
  intros Hi. unfold F. rewrite in_map_iff.
  destruct (boundaries_legal n p Hp) as (Hnd & Hl & _).
  assert (HB : forall e : @lpair unit, In e (nth i (blocks (boundaries n p) ug) [])
            <-> In e (P g) /\ bnd n p i <= src e < bnd n p (S i)).
  { intros e. rewrite <- !boundaries_nth by lia. revert Hnd Hl. rewrite boundaries_eq. intros Hnd Hl.
    apply blocks_nth; [exact Hnd|rewrite Hl; unfold ug; rewrite nlen_unit_labels; reflexivity|].
    rewrite map_length, seq_length. exact Hi. }
  split.
  - intros (e & E & He). apply HB in He. destruct He as [He Hr]. apply in_pairs_unit in He.
    subst k. exact (conj He Hr).
  - intros [Hin Hr]. exists (k, tt). split; [reflexivity|]. apply HB. split; [|exact Hr].
    apply in_pairs_unit. destruct k. exact Hin.
Qed.

Lemma Rv_in i k :
  In k (Rv i) <-> (In (fst k) (succ_of g (snd k)) /\ snd k < n) /\ fst k / npp = N.of_nat i.
Proof.
  unfold Rv. rewrite in_map_iff. destruct (Hok (filter (fun e : @lpair unit => src e / npp =? N.of_nat i) Xrev)) as [_ HP].
  split.
  - intros (e & E & He). apply (Permutation_in _ HP) in He. apply filter_In in He.
    destruct He as [He Hi]. apply N.eqb_eq in Hi. apply (Permutation_in _ Xrev_perm) in He.
    destruct e as [[a b] u]. apply T_in in He. subst k. exact (conj He Hi).
  - intros [Hin Hi]. exists (k, tt). split; [reflexivity|].
    apply (Permutation_in _ (Permutation_sym HP)). apply filter_In. split.
    + apply (Permutation_in _ (Permutation_sym Xrev_perm)). destruct k. apply T_in. exact Hin.
    + apply N.eqb_eq. exact Hi.
Qed.

Lemma F_sorted i : StronglySorted pair_le (F i).
Proof.
  unfold F. destruct (Nat.lt_ge_cases i (length (blocks (boundaries n p) ug))) as [Hi|Hi].
  - apply (StronglySorted_map key_lt).
    + intros x y _ _ H. apply pair_lt_le. exact H.
    + assert (HF : Forall (StronglySorted key_lt) (blocks (boundaries n p) ug)).
      { rewrite boundaries_eq. apply blocks_sorted. unfold ug, unit_labels. rewrite Forall_forall.
        intros l Hl. apply in_map_iff in Hl. destruct Hl as (l0 & <- & Hl0). rewrite map_map. cbn [fst].
        rewrite map_id. pose proof (wf_graph_forall g Hwf) as HG. rewrite Forall_forall in HG.
        exact (proj1 (HG l0 Hl0)). }
      rewrite Forall_forall in HF. apply HF. apply nth_In. exact Hi.
  - rewrite nth_overflow by exact Hi. constructor.
Qed.

Lemma Rv_sorted i : StronglySorted pair_le (Rv i).
Proof.
  unfold Rv. destruct (Hok (filter (fun e : @lpair unit => src e / npp =? N.of_nat i) Xrev)) as [HS _].
  apply (StronglySorted_map key_le).
  - intros x y _ _ H. exact H.
  - apply Sorted_StronglySorted; [exact key_le_trans|exact HS].
Qed.

Lemma M_spec i : (i < p)%nat ->
  StronglySorted pair_lt (M i)
  /\ (forall k, In k (M i) -> bnd n p i <= fst k < bnd n p (S i))
  /\ (forall k, In k (M i) <-> (In k (F i) \/ In k (Rv i)) /\ (nl = true -> fst k <> snd k)).
Proof.
  intros Hi. destruct (merge_dedup_spec nl (F i) (Rv i) (F_sorted i) (Rv_sorted i)) as [H1 H2].
  split; [exact H1|]. split; [|exact H2].
  intros k Hk. apply H2 in Hk. destruct Hk as [[Hk|Hk] _].
  - apply (F_in i k Hi) in Hk. tauto.
  - apply Rv_in in Hk. destruct Hk as [[Hin Hs] Hpid].
    destruct (wf_succ _ _ _ Hwf Hin) as [_ Hlt]. apply pid_bounds; [exact Hp|exact Hlt|exact Hpid].
Qed.

Lemma merged_good :
  good (flat_map (phi_symm nl) (P g)) (map (fun k => (k, tt)) (concat (map M (seq 0 p)))).
Proof.
  apply good_of_keys.
  - apply StronglySorted_concat.
    + rewrite Forall_forall. intros q Hq. apply in_map_iff in Hq. destruct Hq as (i & <- & Hi).
      apply in_seq in Hi. apply M_spec. lia.
    + apply ForallOrdPairs_map_seq. intros i j Hij Hj x y Hx Hy.
      destruct (M_spec i) as (_ & Hri & _); [lia|]. destruct (M_spec j) as (_ & Hrj & _); [lia|].
      specialize (Hri x Hx). specialize (Hrj y Hy).
      pose proof (bnd_mono n p (S i) j ltac:(lia)). left. lia.
  - intros [a b]. rewrite in_concat. rewrite symm_keys. split.
    + intros (q & Hq & Hk). apply in_map_iff in Hq. destruct Hq as (i & <- & Hi). apply in_seq in Hi.
      destruct (M_spec i) as (_ & _ & HM); [lia|]. apply HM in Hk. destruct Hk as [[Hk|Hk] Hc].
      * apply F_in in Hk; [|lia]. cbn [fst snd] in *. split; [left; tauto|exact Hc].
      * apply Rv_in in Hk. cbn [fst snd] in *. split; [right; tauto|exact Hc].
    + intros [[H|H] Hc].
      * destruct H as [Hin Ha]. destruct (pid_range n p a Hp Ha) as [Hi Hr].
        set (i := N.to_nat (a / div_ceil n (N.of_nat p))) in *.
        exists (M i). split; [apply in_map; apply in_seq; lia|].
        destruct (M_spec i Hi) as (_ & _ & HM). apply HM. split; [|exact Hc].
        left. apply F_in; [exact Hi|]. cbn [fst snd]. tauto.
      * destruct H as [Hin Hb]. destruct (wf_succ _ _ _ Hwf Hin) as [_ Ha].
        destruct (pid_range n p a Hp Ha) as [Hi Hr].
        set (i := N.to_nat (a / div_ceil n (N.of_nat p))) in *.
        exists (M i). split; [apply in_map; apply in_seq; lia|].
        destruct (M_spec i Hi) as (_ & _ & HM). apply HM. split; [|exact Hc].
        right. apply Rv_in. cbn [fst snd]. split; [tauto|]. unfold i, npp. lia.
Qed.

Lemma relabel_concat parts : concat (relabel parts) = map (fun k => (k, tt)) (concat parts).
Proof. unfold relabel. rewrite concat_map. reflexivity. Qed.

Lemma sorted_par_seq_read :
  symmetrize_sorted_par sort nl p cuts arrival g = Some (symmetrize_spec nl g).
Proof.
  unfold symmetrize_sorted_par. rewrite parts_eq. rewrite left_proj_eq. unfold read_seq.
  rewrite relabel_concat. unfold symmetrize_spec.
  apply read_seq_good with (X := flat_map (phi_symm nl) (P g)).
  - exact merged_good.
  - apply symm_range. exact Hwf.
  - intros a b _ _. apply symm_R. exact Hwf.
Qed.
End SortedPar.

Theorem sorted_par_symm : S_sorted_par_symm.
Proof.
  intros sort Hok noloops g p cuts arrival Hwf Hp Hsch.
  apply sorted_par_seq_read; assumption.
Qed.
