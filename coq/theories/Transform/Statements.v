(** Pinned statements for property C09 (graph transforms compute exactly the specified
    arc set).  Statements only. *)
From WG Require Import Base.Prelude Par.Splice Transform.Pipelines.
Local Open Scope N_scope.

(** * The contract of the external sorter (what property C08 establishes for one
      partition of [ParSortIters]) *)
Section Contracts.
Context {L : Type}.
(** without deduplication: the sorted (by key) permutation of the input *)
Definition sorter_ok (sort : list (@lpair L) -> list (@lpair L)) : Prop :=
  forall l, Sorted key_le (sort l) /\ Permutation (sort l) l.
(** with deduplication: strictly sorted by key, one representative of every key *)
Definition sorterd_ok (sortd : list (@lpair L) -> list (@lpair L)) : Prop :=
  forall l, Sorted key_lt (sortd l)
            /\ (forall x, In x (sortd l) -> In x l)
            /\ (forall x, In x l -> exists y, In y (sortd l) /\ fst y = fst x).
End Contracts.

(** a schedule of the parallel variants: the cutpoints of the source lenders and the order
    in which the per-thread blocks reach the sorter *)
Definition legal_schedule (cuts : list N) (arrival : list nat) (n : N) : Prop :=
  legal_cuts cuts n = true /\ Permutation arrival (seq 0 (length cuts - 1)).

Definition succ_of (g : list (list N)) (a : N) : list N := nth (N.to_nat a) g [].

(** * Specifications are the set-theoretic ones *)

Definition S_spec_lists : Prop := forall n R a b,
  In b (succ_of (lists_of_rel n R) a) <-> a < n /\ b < n /\ R a b = true.

Definition S_spec_sorted : Prop := forall n R,
  length (lists_of_rel n R) = N.to_nat n /\ Forall inc (lists_of_rel n R).

Definition S_transpose_mem : Prop := forall g a b, wf_graph g = true ->
  (In b (succ_of (transpose_spec g) a) <-> In a (succ_of g b)).

Definition S_symmetrize_mem : Prop := forall noloops g a b, wf_graph g = true ->
  (In b (succ_of (symmetrize_spec noloops g) a)
   <-> (In b (succ_of g a) \/ In a (succ_of g b)) /\ (noloops = true -> a <> b)).

Definition S_map_mem : Prop := forall f m g a b,
  wf_graph g = true -> nlen f = nlen g -> below m f = true ->
  (In b (succ_of (map_spec f m g) a)
   <-> exists u v, In v (succ_of g u) /\ idx f u = a /\ idx f v = b).

(** * Pipelines compute the specification, for every sorter satisfying the contract,
      every number of partitions, every cut sequence and every arrival order *)

Definition S_transpose : Prop := forall sort, sorter_ok sort ->
  forall g p cuts arrival,
  wf_graph g = true -> (0 < p)%nat -> legal_schedule cuts arrival (nlen g) ->
  transpose_seq sort p g = Some (transpose_spec g)
  /\ transpose_par sort p cuts arrival g = Some (transpose_spec g).

Definition S_symmetrize_gen : Prop := forall sortd, sorterd_ok sortd ->
  forall noloops g p cuts arrival,
  wf_graph g = true -> (0 < p)%nat -> legal_schedule cuts arrival (nlen g) ->
  symmetrize_seq sortd noloops p g = Some (symmetrize_spec noloops g)
  /\ symmetrize_par sortd noloops p cuts arrival g = Some (symmetrize_spec noloops g).

Definition S_symmetrize : Prop := forall sortd, sorterd_ok sortd ->
  forall g p cuts arrival,
  wf_graph g = true -> (0 < p)%nat -> legal_schedule cuts arrival (nlen g) ->
  symmetrize_seq sortd false p g = Some (symmetrize_spec false g)
  /\ symmetrize_par sortd false p cuts arrival g = Some (symmetrize_spec false g).

Definition S_symmetrize_noloops : Prop := forall sortd, sorterd_ok sortd ->
  forall g p cuts arrival,
  wf_graph g = true -> (0 < p)%nat -> legal_schedule cuts arrival (nlen g) ->
  symmetrize_seq sortd true p g = Some (symmetrize_spec true g)
  /\ symmetrize_par sortd true p cuts arrival g = Some (symmetrize_spec true g).

(** [symmetrize_sorted_par]: sort the reversed arcs only, re-split the forward graph at the
    sorter's boundaries, merge with deduplication; read through [iter] or through
    [into_par_lenders] *)
Definition S_sorted_par_symm : Prop := forall sort, sorter_ok sort ->
  forall noloops g p cuts arrival,
  wf_graph g = true -> (0 < p)%nat -> legal_schedule cuts arrival (nlen g) ->
  symmetrize_sorted_par sort noloops p cuts arrival g = Some (symmetrize_spec noloops g).

Definition S_sorted_par_symm_lenders : Prop := forall sort, sorter_ok sort ->
  forall noloops g p cuts arrival,
  wf_graph g = true -> (0 < p)%nat -> legal_schedule cuts arrival (nlen g) ->
  symmetrize_sorted_par_lenders sort noloops p cuts arrival g = Some (symmetrize_spec noloops g).

Definition S_permute : Prop := forall sort, sorter_ok sort ->
  forall perm g p cuts arrival,
  wf_graph g = true -> (0 < p)%nat -> legal_schedule cuts arrival (nlen g) ->
  nlen perm = nlen g -> below (nlen g) perm = true -> NoDup perm ->
  permute_seq sort perm p g = Some (permute_spec perm g)
  /\ permute_par sort perm p cuts arrival g = Some (permute_spec perm g).

Definition S_map : Prop := forall sortd, sorterd_ok sortd ->
  forall f m g p cuts arrival,
  wf_graph g = true -> (0 < p)%nat -> legal_schedule cuts arrival (nlen g) ->
  nlen f = nlen g -> below m f = true ->
  map_seq sortd f m p g = Some (map_spec f m g)
  /\ map_par sortd f m p cuts arrival g = Some (map_spec f m g).

(** sequential and parallel variants agree, whatever the partition counts, cut sequence
    and arrival order of either *)
Definition S_seq_eq_par : Prop := forall sort sortd, sorter_ok sort -> sorterd_ok sortd ->
  forall g p p' cuts arrival,
  wf_graph g = true -> (0 < p)%nat -> (0 < p')%nat -> legal_schedule cuts arrival (nlen g) ->
  transpose_seq sort p g = transpose_par sort p' cuts arrival g
  /\ (forall noloops,
      symmetrize_seq sortd noloops p g = symmetrize_par sortd noloops p' cuts arrival g
      /\ symmetrize_seq sortd noloops p g = symmetrize_sorted_par sort noloops p' cuts arrival g)
  /\ (forall perm, nlen perm = nlen g -> below (nlen g) perm = true -> NoDup perm ->
      permute_seq sort perm p g = permute_par sort perm p' cuts arrival g)
  /\ (forall f m, nlen f = nlen g -> below m f = true ->
      map_seq sortd f m p g = map_par sortd f m p' cuts arrival g).

(** the transpose of a well-formed graph is well formed, and transposing twice gives back
    the graph — for the specification and hence for the pipelines *)
Definition S_transpose_involutive : Prop := forall g, wf_graph g = true ->
  wf_graph (transpose_spec g) = true /\ transpose_spec (transpose_spec g) = g.

Definition S_transpose_twice : Prop := forall sort, sorter_ok sort ->
  forall g p p' t, wf_graph g = true -> (0 < p)%nat -> (0 < p')%nat ->
  transpose_seq sort p g = Some t -> transpose_seq sort p' t = Some g.

(** labelled transposition: every label travels with its arc *)
Definition S_transpose_labeled : Prop := forall (L : Type) (lsort : list (@lpair L) -> list (@lpair L)),
  sorter_ok lsort ->
  forall g p cuts arrival,
  wf_lgraph g = true -> (0 < p)%nat -> legal_schedule cuts arrival (nlen g) ->
  transpose_labeled_seq lsort p g = Some (transpose_labeled_spec g)
  /\ transpose_labeled_par lsort p cuts arrival g = Some (transpose_labeled_spec g).

(** the concrete sorters used to run the model satisfy the contract *)
Definition S_ksort_ok : Prop := forall L : Type, @sorter_ok L ksort /\ @sorterd_ok L ksortd.

(** * The function run by the model driver: for each transform, sequential ([par = false])
      or parallel, both the [iter] and the [into_par_lenders] reading of the result are the
      specification *)
Definition xop_ok (op : xop) (g : list (list N)) : Prop :=
  match op with
  | XTranspose | XSymm _ => True
  | XPermute perm => nlen perm = nlen g /\ below (nlen g) perm = true /\ NoDup perm
  | XMap f m => nlen f = nlen g /\ below m f = true
  end.

Definition S_run_xop : Prop := forall sort sortd, sorter_ok sort -> sorterd_ok sortd ->
  forall op g par p cuts arrival,
  wf_graph g = true -> (0 < p)%nat -> legal_schedule cuts arrival (nlen g) -> xop_ok op g ->
  run_xop sort sortd op par p cuts arrival g = (Some (xop_spec op g), Some (xop_spec op g)).

(** refusal: a source out of range makes the sorter (hence every transform) fail *)
Definition S_out_of_range : Prop := forall (L : Type) (srt : list (@lpair L) -> list (@lpair L)) n p X,
  ext_sort srt n p X = None <-> exists e, In e X /\ n <= src e.


(** the same for labelled transposition *)
Definition S_run_labeled : Prop := forall (L : Type) (lsort : list (@lpair L) -> list (@lpair L)),
  sorter_ok lsort ->
  forall g par p cuts arrival,
  wf_lgraph g = true -> (0 < p)%nat -> legal_schedule cuts arrival (nlen g) ->
  run_parts lsort phi_transpose (nlen g) par p cuts arrival g
  = (Some (transpose_labeled_spec g), Some (transpose_labeled_spec g)).
