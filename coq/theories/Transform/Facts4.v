(** Sequential and parallel variants agree. *)
From WG Require Import Base.Prelude Par.Splice Par.SpliceFacts Transform.Pipelines
  Transform.Statements Transform.OrderFacts Transform.SortFacts Transform.Facts Transform.Facts2
  Transform.Facts3 Transform.MergeFacts Transform.SortedParFacts.
Local Open Scope N_scope.

Lemma trivial_schedule (g : list (list N)) : legal_schedule [0; nlen g] [0%nat] (nlen g).
Proof.
  split; [|apply Permutation_refl]. unfold legal_cuts. cbn [last length nondecreasing].
  rewrite !N.eqb_refl. cbn [andb]. rewrite !andb_true_r. apply N.leb_le. apply N.le_0_l.
Qed.

Theorem seq_eq_par : S_seq_eq_par.
Proof.
  intros sort sortd Hok Hokd g p p' cuts arrival Hwf Hp Hp' Hsch.
  split; [|split; [|split]].
  - destruct (transpose_correct sort Hok g p _ _ Hwf Hp (trivial_schedule g)) as [H1 _].
    destruct (transpose_correct sort Hok g p' _ _ Hwf Hp' Hsch) as [_ H2].
    rewrite H1, H2. reflexivity.
  - intros noloops.
    destruct (symmetrize_gen_correct sortd Hokd noloops g p _ _ Hwf Hp (trivial_schedule g)) as [H1 _].
    destruct (symmetrize_gen_correct sortd Hokd noloops g p' _ _ Hwf Hp' Hsch) as [_ H2].
    rewrite H1, H2. split; [reflexivity|].
    rewrite (sorted_par_symm sort Hok noloops g p' cuts arrival Hwf Hp' Hsch). reflexivity.
  - intros perm Hlen Hb Hnd.
    destruct (permute_correct sort Hok perm g p _ _ Hwf Hp (trivial_schedule g) Hlen Hb Hnd) as [H1 _].
    destruct (permute_correct sort Hok perm g p' _ _ Hwf Hp' Hsch Hlen Hb Hnd) as [_ H2].
    rewrite H1, H2. reflexivity.
  - intros f m Hlen Hb.
    destruct (map_correct sortd Hokd f m g p _ _ Hwf Hp (trivial_schedule g) Hlen Hb) as [H1 _].
    destruct (map_correct sortd Hokd f m g p' _ _ Hwf Hp' Hsch Hlen Hb) as [_ H2].
    rewrite H1, H2. reflexivity.
Qed.
