(** Symmetrization, permutation, mapping; the specifications are the set-theoretic ones;
    sequential = parallel; transposition is involutive. *)
From WG Require Import Base.Prelude Par.Splice Par.SpliceFacts Transform.Pipelines
  Transform.Statements Transform.OrderFacts Transform.SortFacts Transform.Facts.
Require Import ZifyBool ZifyN ZifyNat.
Local Open Scope N_scope.

(** * Symmetrization *)

Lemma symm_keys noloops g a b :
  (exists x, In x (flat_map (phi_symm noloops) (P g)) /\ fst x = (a, b))
  <-> ((In b (succ_of g a) /\ a < nlen g) \/ (In a (succ_of g b) /\ b < nlen g))
      /\ (noloops = true -> a <> b).
Proof.
  split.
  - intros (x & Hx & E). apply in_flat_map in Hx. destruct Hx as (e & He & Hx).
    apply in_pairs_unit in He. destruct e as [[s d] u]. unfold phi_symm, swap_pair, src, dst in *.
    cbn [fst snd] in *.
    destruct (N.eqb_spec s d) as [Esd|Nsd]; cbn [negb] in Hx.
    + destruct noloops; cbn [negb] in Hx; [destruct Hx|].
      destruct Hx as [<-|[]]. cbn [fst] in E. inversion E; subst. split; [left; exact He|discriminate].
    + destruct Hx as [<-|[<-|[]]]; cbn [fst] in E; inversion E; subst.
      * split; [left; exact He|intros _; exact Nsd].
      * split; [right; exact He|intros _ Eq; apply Nsd; symmetry; exact Eq].
  - intros [[H|H] Hnl].
    + exists ((a, b), tt). split; [|reflexivity]. apply in_flat_map. exists ((a, b), tt).
      split; [apply in_pairs_unit; exact H|].
      unfold phi_symm, src, dst. cbn [fst snd].
      destruct (N.eqb_spec a b) as [Eab|Nab]; cbn [negb]; [|left; reflexivity].
      destruct noloops; cbn [negb]; [exfalso; apply Hnl; [reflexivity|exact Eab]|left; reflexivity].
    + destruct (N.eqb_spec a b) as [Eab|Nab].
      * subst b. exists ((a, a), tt). split; [|reflexivity]. apply in_flat_map. exists ((a, a), tt).
        split; [apply in_pairs_unit; exact H|].
        unfold phi_symm, src, dst. cbn [fst snd]. rewrite N.eqb_refl. cbn [negb].
        destruct noloops; cbn [negb]; [exfalso; apply Hnl; reflexivity|left; reflexivity].
      * exists ((a, b), tt). split; [|reflexivity]. apply in_flat_map. exists ((b, a), tt).
        split; [apply in_pairs_unit; exact H|].
        unfold phi_symm, swap_pair, src, dst. cbn [fst snd].
        destruct (N.eqb_spec b a) as [Eba|Nba]; [exfalso; apply Nab; symmetry; exact Eba|].
        cbn [negb]. right. left. reflexivity.
Qed.

Theorem symmetrize_gen_correct : S_symmetrize_gen.
Proof.
  intros sortd Hok noloops g p cuts arrival Hwf Hp Hsch.
  unfold symmetrize_seq, symmetrize_par. rewrite !left_proj_eq. unfold symmetrize_spec.
  rewrite <- (nlen_unit_labels g) in Hsch.
  apply xform_correct; try assumption.
  - apply good_dedup. exact Hok.
  - intros e He. destruct e as [[a b] u].
    destruct (proj1 (symm_keys noloops g a b)) as [[[Hin _]|[Hin _]] _];
      [exists ((a, b), u); split; [exact He|reflexivity]| |];
      unfold src, dst; cbn [fst snd]; destruct (wf_succ _ _ _ Hwf Hin); tauto.
  - intros a b Ha Hb. fold (P g). rewrite symm_keys.
    rewrite andb_true_iff, orb_true_iff, !has_arc_true, orb_true_iff, !negb_true_iff.
    destruct noloops; destruct (N.eqb_spec a b); split; intros [H1 H2]; (split; [tauto|]);
      try (intros; congruence); try tauto; try (right; reflexivity); try (left; reflexivity).
    destruct H2 as [H2|H2]; discriminate.
Qed.

Theorem symmetrize_correct : S_symmetrize.
Proof. intros sortd Hok g p cuts arrival. apply symmetrize_gen_correct. exact Hok. Qed.

Theorem symmetrize_noloops_correct : S_symmetrize_noloops.
Proof. intros sortd Hok g p cuts arrival. apply symmetrize_gen_correct. exact Hok. Qed.

(** * Mapping and permutation *)

Lemma graph_arcs_in g u v : In (u, v) (graph_arcs g) <-> In v (succ_of g u) /\ u < nlen g.
Proof.
  unfold graph_arcs. fold (P g). rewrite in_map_iff. split.
  - intros (e & E & He). apply in_pairs_unit in He. destruct e as [[s d] x]. cbn [fst] in E.
    inversion E; subst. exact He.
  - intros H. exists ((u, v), tt). split; [reflexivity|]. apply in_pairs_unit. exact H.
Qed.

Lemma map_keys f g a b :
  (exists x, In x (flat_map (phi_map f) (P g)) /\ fst x = (a, b))
  <-> exists u v, In v (succ_of g u) /\ u < nlen g /\ idx f u = a /\ idx f v = b.
Proof.
  unfold phi_map. rewrite flat_map_single. split.
  - intros (x & Hx & E). apply in_map_iff in Hx. destruct Hx as (e & <- & He).
    apply in_pairs_unit in He. cbn [fst] in E. inversion E; subst.
    exists (src e), (dst e). tauto.
  - intros (u & v & Hin & Hu & <- & <-). exists ((idx f u, idx f v), tt). split; [|reflexivity].
    apply in_map_iff. exists ((u, v), tt). split; [reflexivity|]. apply in_pairs_unit. tauto.
Qed.

Lemma idx_below f m x : below m f = true -> (N.to_nat x < length f)%nat -> idx f x < m.
Proof.
  unfold below, idx. intros H Hx. rewrite forallb_forall in H. apply N.ltb_lt. apply H.
  apply nth_In. exact Hx.
Qed.

Lemma map_spec_R f g a b :
  existsb (fun uv => (idx f (fst uv) =? a) && (idx f (snd uv) =? b)) (graph_arcs g) = true
  <-> exists u v, In v (succ_of g u) /\ u < nlen g /\ idx f u = a /\ idx f v = b.
Proof.
  rewrite existsb_exists. split.
  - intros ([u v] & Hin & E). apply graph_arcs_in in Hin. cbn [fst snd] in E.
    apply andb_prop in E. destruct E as [E1 E2]. apply N.eqb_eq in E1. apply N.eqb_eq in E2.
    exists u, v. tauto.
  - intros (u & v & Hin & Hu & E1 & E2). exists (u, v). split; [apply graph_arcs_in; tauto|].
    cbn [fst snd]. rewrite E1, E2, !N.eqb_refl. reflexivity.
Qed.

Lemma map_generic srt f m g p cuts arrival :
  wf_graph g = true -> (0 < p)%nat -> legal_schedule cuts arrival (nlen g) ->
  nlen f = nlen g -> below m f = true ->
  (forall X', Permutation X' (flat_map (phi_map f) (P g)) ->
              forall q, good (filter q X') (srt (filter q X'))) ->
  with_unit (xform_seq srt (phi_map f) m p (unit_labels g)) = Some (map_spec f m g)
  /\ with_unit (xform_par srt (phi_map f) m p cuts arrival (unit_labels g)) = Some (map_spec f m g).
Proof.
  intros Hwf Hp Hsch Hlen Hbelow HG. rewrite !left_proj_eq. unfold map_spec.
  rewrite <- (nlen_unit_labels g) in Hsch.
  apply xform_correct; try assumption.
  - intros e He. destruct e as [[a b] u].
    destruct (proj1 (map_keys f g a b)) as (u0 & v0 & Hin & Hu & Ea & Eb);
      [exists ((a, b), u); split; [exact He|reflexivity]|].
    destruct (wf_succ _ _ _ Hwf Hin) as [Hu' Hv']. unfold src, dst. cbn [fst snd]. subst a b.
    unfold nlen in *. split; apply idx_below; try assumption; lia.
  - intros a b Ha Hb. fold (P g). rewrite map_keys. apply map_spec_R.
Qed.

Theorem map_correct : S_map.
Proof.
  intros sortd Hok f m g p cuts arrival Hwf Hp Hsch Hlen Hbelow.
  unfold map_seq, map_par. rewrite (proj2 (N.eqb_eq _ _) Hlen).
  apply map_generic; try assumption. apply good_dedup. exact Hok.
Qed.

Lemma idx_inj perm n x y :
  nlen perm = n -> NoDup perm -> x < n -> y < n -> idx perm x = idx perm y -> x = y.
Proof.
  intros Hlen Hnd Hx Hy E. unfold idx in E. unfold nlen in Hlen.
  assert (N.to_nat x = N.to_nat y); [|lia].
  apply (proj1 (NoDup_nth perm 0) Hnd); [lia|lia|exact E].
Qed.

Lemma permute_nodup perm g :
  wf_graph g = true -> nlen perm = nlen g -> NoDup perm ->
  NoDup (map fst (flat_map (phi_map perm) (P g))).
Proof.
  intros Hwf Hlen Hnd. unfold phi_map. rewrite flat_map_single, map_map. cbn [fst].
  apply NoDup_map_in.
  - intros x y Hx Hy E. apply in_pairs_unit in Hx. apply in_pairs_unit in Hy.
    destruct Hx as [Hx Hxs], Hy as [Hy Hys].
    destruct (wf_succ _ _ _ Hwf Hx) as [_ Hxd]. destruct (wf_succ _ _ _ Hwf Hy) as [_ Hyd].
    inversion E as [[E1 E2]].
    apply (idx_inj perm (nlen g)) in E1; try assumption.
    apply (idx_inj perm (nlen g)) in E2; try assumption.
    apply unit_pair_eq. destruct x as [[a b] ?], y as [[c d] ?]. unfold src, dst in *. cbn [fst snd] in *.
    subst. reflexivity.
  - apply (NoDup_map_inv fst). apply ss_key_lt_NoDup. apply wf_unit_sorted. exact Hwf.
Qed.

Theorem permute_correct : S_permute.
Proof.
  intros sort Hok perm g p cuts arrival Hwf Hp Hsch Hlen Hbelow Hnd.
  unfold permute_seq, permute_par, permute_spec. rewrite (proj2 (N.eqb_eq _ _) Hlen).
  apply map_generic; try assumption. apply good_nodup; [exact Hok|].
  apply permute_nodup; assumption.
Qed.

(** * The specifications are the set-theoretic ones *)

Lemma nth_nseq : forall k s i, (i < k)%nat -> nth i (nseq s k) 0 = s + N.of_nat i.
Proof.
  induction k as [|k IH]; intros s i Hi; [lia|]. cbn [nseq]. destruct i as [|i]; cbn [nth]; [lia|].
  rewrite IH by lia. lia.
Qed.

Theorem spec_lists : S_spec_lists.
Proof.
  intros n R a b. unfold succ_of, lists_of_rel.
  destruct (N.lt_ge_cases a n) as [Ha|Ha].
  - rewrite (nth_indep _ [] ((fun a => filter (R a) (nseq 0 (N.to_nat n))) 0))
      by (rewrite map_length, nseq_length; lia).
    rewrite (map_nth (fun a => filter (R a) (nseq 0 (N.to_nat n)))).
    rewrite nth_nseq by lia. rewrite filter_In, in_nseq.
    replace (0 + N.of_nat (N.to_nat a)) with a by lia. split; [intros [H1 H2]|intros (H1 & H2 & H3)].
    + split; [exact Ha|]. split; [lia|exact H2].
    + split; [lia|exact H3].
  - rewrite nth_overflow by (rewrite map_length, nseq_length; lia). split; [intros []|lia].
Qed.

Lemma spec_lists' n R a b :
  In b (succ_of (lists_of_rel n R) a) <-> a < n /\ b < n /\ R a b = true.
Proof. apply spec_lists. Qed.

Theorem spec_sorted : S_spec_sorted.
Proof.
  intros n R. unfold lists_of_rel. split.
  - rewrite map_length, nseq_length. reflexivity.
  - rewrite Forall_forall. intros l Hl. apply in_map_iff in Hl. destruct Hl as (a & <- & _).
    unfold inc. apply StronglySorted_filter. apply nseq_sorted.
Qed.

Theorem transpose_mem : S_transpose_mem.
Proof.
  intros g a b Hwf. unfold transpose_spec. rewrite spec_lists', has_arc_true. split; [tauto|].
  intros H. destruct (wf_succ _ _ _ Hwf H). tauto.
Qed.

Theorem symmetrize_mem : S_symmetrize_mem.
Proof.
  intros noloops g a b Hwf. unfold symmetrize_spec. rewrite spec_lists'.
  rewrite andb_true_iff, orb_true_iff, !has_arc_true, orb_true_iff, !negb_true_iff. split.
  - intros (Ha & Hb & H1 & H2). split; [exact H1|]. intros -> Eab.
    destruct H2 as [H2|H2]; [discriminate|]. apply N.eqb_neq in H2. contradiction.
  - intros [H1 H2].
    assert (a < nlen g /\ b < nlen g) as [Ha Hb].
    { destruct H1 as [H1|H1]; destruct (wf_succ _ _ _ Hwf H1); tauto. }
    split; [exact Ha|]. split; [exact Hb|]. split; [exact H1|].
    destruct noloops; [right|left; reflexivity]. apply N.eqb_neq. apply H2. reflexivity.
Qed.

Theorem map_mem : S_map_mem.
Proof.
  intros f m g a b Hwf Hlen Hbelow. unfold map_spec. rewrite spec_lists', map_spec_R. split.
  - intros (_ & _ & u & v & H1 & _ & H2 & H3). exists u, v. tauto.
  - intros (u & v & Hin & Ea & Eb). destruct (wf_succ _ _ _ Hwf Hin) as [Hu Hv].
    unfold nlen in *. split; [subst a; apply idx_below; [exact Hbelow|lia]|].
    split; [subst b; apply idx_below; [exact Hbelow|lia]|].
    exists u, v. unfold nlen. tauto.
Qed.
