(** Proofs of the pinned statements of Transform/Statements.v. *)
From WG Require Import Base.Prelude Par.Splice Par.SpliceFacts Transform.Pipelines
  Transform.Statements Transform.OrderFacts Transform.SortFacts.
Require Import ZifyBool ZifyN ZifyNat.
Local Open Scope N_scope.

(** * Small list facts *)

Lemma incb_from_true : forall l p, incb_from p l = true -> StronglySorted N.lt (p :: l).
Proof.
  induction l as [|x l IH]; intros p H; [repeat constructor|].
  cbn [incb_from] in H. apply andb_prop in H. destruct H as [Hpx Hx]. apply N.ltb_lt in Hpx.
  specialize (IH x Hx). constructor; [exact IH|].
  inversion IH as [|? ? S F]; subst. constructor; [exact Hpx|].
  rewrite Forall_forall in *. intros y Hy. specialize (F y Hy). lia.
Qed.

Lemma incb_true l : incb l = true -> inc l.
Proof. destruct l as [|x l]; [constructor|]. cbn [incb]. apply incb_from_true. Qed.

Lemma ss_lt_NoDup : forall l : list N, StronglySorted N.lt l -> NoDup l.
Proof.
  induction 1 as [|x l S IH F]; constructor; [|exact IH].
  intros Hin. rewrite Forall_forall in F. specialize (F x Hin). lia.
Qed.

Lemma NoDup_map_in {A B} (f : A -> B) : forall l,
  (forall x y, In x l -> In y l -> f x = f y -> x = y) -> NoDup l -> NoDup (map f l).
Proof.
  induction l as [|x l IH]; intros Hinj Hn; [constructor|].
  inversion Hn as [|? ? Hnin Hn']; subst. cbn [map]. constructor.
  - intros Hin. apply in_map_iff in Hin. destruct Hin as (y & E & Hy).
    apply Hnin. rewrite (Hinj x y); [exact Hy|left; reflexivity|right; exact Hy|symmetry; exact E].
  - apply IH; [|exact Hn']. intros a b Ha Hb. apply Hinj; right; assumption.
Qed.

Lemma flat_map_single {A B} (h : A -> B) l : flat_map (fun e => [h e]) l = map h l.
Proof. induction l as [|x l IH]; [reflexivity|]. cbn [flat_map map app]. rewrite IH. reflexivity. Qed.

Lemma concat_map_flat_map {A B} (phi : A -> list B) : forall bl,
  concat (map (flat_map phi) bl) = flat_map phi (concat bl).
Proof.
  induction bl as [|b bl IH]; [reflexivity|]. cbn [map concat]. rewrite flat_map_app, IH. reflexivity.
Qed.

Lemma arrive_seq {A} : forall bl : list (list A), arrive (seq 0 (length bl)) bl = concat bl.
Proof.
  unfold arrive. induction bl as [|b bl IH]; [reflexivity|].
  cbn [length seq flat_map nth_opt concat]. f_equal.
  rewrite <- seq_shift. rewrite flat_map_concat_map, map_map, <- flat_map_concat_map.
  cbn [nth_opt]. exact IH.
Qed.

Lemma arrive_perm {A} arrival (bl : list (list A)) :
  Permutation arrival (seq 0 (length bl)) -> Permutation (arrive arrival bl) (concat bl).
Proof.
  intros H. rewrite <- arrive_seq. unfold arrive. apply Permutation_flat_map. exact H.
Qed.

(** * [pairs_from] and the blocks of a cut sequence *)

Section PairsFrom.
Context {L : Type}.
Notation lpair := (@lpair L).

Lemma pairs_from_app : forall (g1 g2 : list (list (N * L))) v,
  pairs_from v (g1 ++ g2) = pairs_from v g1 ++ pairs_from (v + nlen g1) g2.
Proof.
  induction g1 as [|l g1 IH]; intros g2 v; cbn [app pairs_from].
  - unfold nlen. cbn [length]. replace (v + N.of_nat 0) with v by lia. reflexivity.
  - rewrite IH, app_assoc. f_equal. f_equal. unfold nlen. cbn [length]. lia.
Qed.

Lemma in_pairs_from : forall (g : list (list (N * L))) v (e : lpair),
  In e (pairs_from v g)
  <-> exists k, (k < length g)%nat /\ src e = v + N.of_nat k /\ In (dst e, snd e) (nth k g []).
Proof.
  induction g as [|l g IH]; intros v e; cbn [pairs_from].
  - split; [intros []|]. intros (k & Hk & _). cbn [length] in Hk. lia.
  - rewrite in_app_iff, in_map_iff, IH. split.
    + intros [(dx & E & Hdx)|(k & Hk & Hs & Hin)].
      * exists O. subst e. unfold src, dst. cbn [fst snd length nth]. split; [lia|]. split; [lia|].
        destruct dx. exact Hdx.
      * exists (S k). cbn [length nth]. split; [lia|]. split; [lia|exact Hin].
    + intros (k & Hk & Hs & Hin). destruct k as [|k].
      * left. cbn [nth] in Hin. exists (dst e, snd e). split; [|exact Hin].
        destruct e as [[s d] x]. unfold src, dst in *. cbn [fst snd] in *. f_equal. f_equal. lia.
      * right. exists k. cbn [length nth] in *. split; [lia|]. split; [lia|exact Hin].
Qed.

Lemma pairs_from_sorted : forall (g : list (list (N * L))) v,
  Forall (fun l => inc (map fst l)) g -> StronglySorted key_lt (pairs_from v g).
Proof.
  induction g as [|l g IH]; intros v Hg; [constructor|].
  inversion Hg as [|? ? Hl Hg']; subst. cbn [pairs_from].
  apply StronglySorted_app.
  - unfold inc in Hl. clear - Hl. induction l as [|dx l IHl]; [constructor|].
    cbn [map] in *. inversion Hl as [|? ? S F]; subst. constructor; [apply IHl; exact S|].
    rewrite Forall_forall in *. intros y Hy. apply in_map_iff in Hy. destruct Hy as (dy & <- & Hdy).
    unfold key_lt, pair_lt. cbn [fst snd]. right. split; [reflexivity|].
    apply F. apply in_map. exact Hdy.
  - apply IH. exact Hg'.
  - intros x y Hx Hy. apply in_map_iff in Hx. destruct Hx as (dx & <- & _).
    apply in_pairs_from in Hy. destruct Hy as (k & _ & Hs & _).
    unfold key_lt, pair_lt. cbn [fst snd]. left. unfold src in Hs. lia.
Qed.

Lemma blocks_step c b cuts (g : list (list (N * L))) :
  blocks (c :: b :: cuts) g
  = pairs_from c (firstn (N.to_nat (b - c)) g) :: blocks (b :: cuts) (skipn (N.to_nat (b - c)) g).
Proof. reflexivity. Qed.

Lemma blocks_concat : forall cuts c (g : list (list (N * L))),
  nondecreasing (c :: cuts) = true -> c + nlen g = last (c :: cuts) 0 ->
  concat (blocks (c :: cuts) g) = pairs_from c g /\ length (blocks (c :: cuts) g) = length cuts.
Proof.
  induction cuts as [|b cuts IH]; intros c g Hnd Hlast.
  - cbn [last] in Hlast. assert (E : g = []) by (destruct g; [reflexivity|unfold nlen in Hlast; cbn [length] in Hlast; lia]).
    subst g. split; reflexivity.
  - pose proof Hnd as Hnd0. cbn [nondecreasing] in Hnd. apply andb_prop in Hnd. destruct Hnd as [Hcb Hnd].
    apply N.leb_le in Hcb.
    change (last (c :: b :: cuts) 0) with (last (b :: cuts) 0) in Hlast.
    pose proof (nondecreasing_last cuts b Hnd) as Hbl.
    assert (Hk : (N.to_nat (b - c) <= length g)%nat) by (unfold nlen in Hlast; lia).
    rewrite blocks_step. cbn [concat length].
    destruct (IH b (skipn (N.to_nat (b - c)) g) Hnd) as [H1 H2].
    { unfold nlen in *. rewrite skipn_length. lia. }
    rewrite H1, H2. split; [|reflexivity].
    rewrite <- (firstn_skipn (N.to_nat (b - c)) g) at 3. rewrite pairs_from_app.
    f_equal. f_equal. unfold nlen. rewrite firstn_length. lia.
Qed.

Lemma par_input_perm (phi : lpair -> list lpair) cuts arrival (g : list (list (N * L))) :
  legal_schedule cuts arrival (nlen g) ->
  Permutation (arrive arrival (map (flat_map phi) (blocks cuts g)))
              (flat_map phi (pairs_from 0 g)).
Proof.
  intros [Hc Ha]. destruct (legal_cuts_inv cuts (nlen g) Hc) as (cuts' & E & Hne & Hnd & Hl).
  subst cuts. destruct (blocks_concat cuts' 0 g Hnd) as [H1 H2]; [rewrite Hl; lia|].
  rewrite <- H1, <- concat_map_flat_map. apply arrive_perm.
  rewrite map_length, H2. cbn [length] in Ha. replace (S (length cuts') - 1)%nat with (length cuts') in Ha by lia.
  exact Ha.
Qed.

(** * The generic pipeline *)

Lemma xform_correct srt (phi : lpair -> list lpair) nout p cuts arrival
  (g : list (list (N * L))) (R : N -> N -> bool) :
  (0 < p)%nat -> legal_schedule cuts arrival (nlen g) ->
  (forall X', Permutation X' (flat_map phi (pairs_from 0 g)) ->
              forall q, good (filter q X') (srt (filter q X'))) ->
  (forall e, In e (flat_map phi (pairs_from 0 g)) -> src e < nout /\ dst e < nout) ->
  (forall a b, a < nout -> b < nout ->
     (R a b = true <-> exists x, In x (flat_map phi (pairs_from 0 g)) /\ fst x = (a, b))) ->
  omap (map (map fst)) (xform_seq srt phi nout p g) = Some (lists_of_rel nout R)
  /\ omap (map (map fst)) (xform_par srt phi nout p cuts arrival g) = Some (lists_of_rel nout R).
Proof.
  intros Hp Hsch HG Hr HR. split.
  - unfold xform_seq. apply pipeline_good; [exact Hp|apply HG; apply Permutation_refl|exact Hr|exact HR].
  - unfold xform_par. pose proof (par_input_perm phi cuts arrival g Hsch) as HP.
    apply pipeline_good; [exact Hp|apply HG; exact HP| |].
    + intros e He. apply Hr. apply (Permutation_in _ HP). exact He.
    + intros a b Ha Hb. rewrite (HR a b Ha Hb). split; intros (x & Hx & Ex); exists x; split; try exact Ex.
      * apply (Permutation_in _ (Permutation_sym HP)). exact Hx.
      * apply (Permutation_in _ HP). exact Hx.
Qed.

(** the hypothesis on the sorter, from the two contracts *)
Lemma good_dedup sortd (X : list lpair) : sorterd_ok sortd ->
  forall X', Permutation X' X -> forall q, good (filter q X') (sortd (filter q X')).
Proof. intros Hok X' _ q. apply sorterd_good. exact Hok. Qed.

Lemma good_nodup sort (X : list lpair) : sorter_ok sort -> NoDup (map fst X) ->
  forall X', Permutation X' X -> forall q, good (filter q X') (sort (filter q X')).
Proof.
  intros Hok Hn X' HP q. apply sorter_good; [exact Hok|]. apply NoDup_map_filter.
  apply (Permutation_NoDup (l := map fst X)); [|exact Hn].
  apply Permutation_map. apply Permutation_sym. exact HP.
Qed.
End PairsFrom.

(** * Unlabelled graphs *)

Lemma has_arc_true g u v : has_arc g u v = true <-> In v (succ_of g u).
Proof.
  unfold has_arc, succ_of. rewrite existsb_exists. split.
  - intros (x & Hx & E). apply N.eqb_eq in E. subst x. exact Hx.
  - intros H. exists v. split; [exact H|apply N.eqb_refl].
Qed.

Lemma nlen_unit_labels g : nlen (unit_labels g) = nlen g.
Proof. unfold nlen, unit_labels. rewrite map_length. reflexivity. Qed.

Lemma in_pairs_unit g (e : @lpair unit) :
  In e (pairs_from 0 (unit_labels g)) <-> In (dst e) (succ_of g (src e)) /\ src e < nlen g.
Proof.
  rewrite in_pairs_from. unfold unit_labels, succ_of, nlen. rewrite map_length. split.
  - intros (k & Hk & Hs & Hin).
    change (@nil (N * unit)) with (map (fun d : N => (d, tt)) []) in Hin. rewrite map_nth in Hin.
    apply in_map_iff in Hin. destruct Hin as (d & E & Hd). inversion E; subst d.
    replace (N.to_nat (src e)) with k by lia. split; [exact Hd|lia].
  - intros [Hin Hlt]. exists (N.to_nat (src e)). split; [lia|]. split; [lia|].
    change (@nil (N * unit)) with (map (fun d : N => (d, tt)) []). rewrite map_nth.
    apply in_map_iff. exists (dst e). split; [|exact Hin]. destruct (snd e). reflexivity.
Qed.

Lemma wf_graph_forall g : wf_graph g = true ->
  Forall (fun l => inc l /\ forall d, In d l -> d < nlen g) g.
Proof.
  unfold wf_graph. intros H. rewrite forallb_forall in H. rewrite Forall_forall. intros l Hl.
  specialize (H l Hl). apply andb_prop in H. destruct H as [H1 H2]. split; [apply incb_true; exact H1|].
  rewrite forallb_forall in H2. intros d Hd. apply N.ltb_lt. apply H2. exact Hd.
Qed.

Lemma wf_succ g u v : wf_graph g = true -> In v (succ_of g u) -> u < nlen g /\ v < nlen g.
Proof.
  intros Hwf Hin. unfold succ_of in Hin.
  destruct (Nat.lt_ge_cases (N.to_nat u) (length g)) as [Hlt|Hge].
  - pose proof (wf_graph_forall g Hwf) as HF. rewrite Forall_forall in HF.
    destruct (HF (nth (N.to_nat u) g []) (nth_In g [] Hlt)) as [_ Hd].
    split; [unfold nlen; lia|apply Hd; exact Hin].
  - rewrite nth_overflow in Hin by exact Hge. destruct Hin.
Qed.

Lemma wf_succ_inc g u : wf_graph g = true -> inc (succ_of g u).
Proof.
  intros Hwf. unfold succ_of.
  destruct (Nat.lt_ge_cases (N.to_nat u) (length g)) as [Hlt|Hge].
  - pose proof (wf_graph_forall g Hwf) as HF. rewrite Forall_forall in HF.
    exact (proj1 (HF (nth (N.to_nat u) g []) (nth_In g [] Hlt))).
  - rewrite nth_overflow by exact Hge. constructor.
Qed.

Lemma wf_unit_sorted g : wf_graph g = true ->
  StronglySorted key_lt (pairs_from 0 (unit_labels g)).
Proof.
  intros Hwf. apply pairs_from_sorted. unfold unit_labels. rewrite Forall_forall. intros l Hl.
  apply in_map_iff in Hl. destruct Hl as (l0 & <- & Hl0). rewrite map_map. cbn [fst]. rewrite map_id.
  pose proof (wf_graph_forall g Hwf) as HF. rewrite Forall_forall in HF. exact (proj1 (HF l0 Hl0)).
Qed.

Lemma ss_key_lt_NoDup {L} : forall l : list (@lpair L), StronglySorted key_lt l -> NoDup (map fst l).
Proof.
  induction 1 as [|x l S IH F]; cbn [map]; constructor; [|exact IH].
  intros Hin. apply in_map_iff in Hin. destruct Hin as (y & E & Hy).
  rewrite Forall_forall in F. specialize (F y Hy). unfold key_lt in F. rewrite E in F.
  exact (pair_lt_irrefl _ F).
Qed.

Definition P (g : list (list N)) : list (@lpair unit) := pairs_from 0 (unit_labels g).

Lemma unit_pair_eq (x y : @lpair unit) : fst x = fst y -> x = y.
Proof. destruct x as [kx []], y as [ky []]. cbn [fst]. intros ->. reflexivity. Qed.

(** * Transposition *)

Lemma transpose_keys g a b :
  (exists x, In x (flat_map phi_transpose (P g)) /\ fst x = (a, b))
  <-> In a (succ_of g b) /\ b < nlen g.
Proof.
  unfold phi_transpose. rewrite flat_map_single. split.
  - intros (x & Hx & E). apply in_map_iff in Hx. destruct Hx as (e & <- & He).
    apply in_pairs_unit in He. unfold swap_pair in E. cbn [fst] in E. inversion E; subst. exact He.
  - intros [Hin Hb]. exists (swap_pair ((b, a), tt)). split; [|reflexivity].
    apply in_map. apply in_pairs_unit. exact (conj Hin Hb).
Qed.

Lemma transpose_nodup g : wf_graph g = true -> NoDup (map fst (flat_map phi_transpose (P g))).
Proof.
  intros Hwf. unfold phi_transpose. rewrite flat_map_single, map_map.
  apply NoDup_map_in.
  - intros x y _ _ E. unfold swap_pair, src, dst in E. cbn [fst] in E.
    apply unit_pair_eq. destruct x as [[a b] ?], y as [[c d] ?]. cbn [fst snd] in *. inversion E; subst. reflexivity.
  - apply (NoDup_map_inv fst). apply ss_key_lt_NoDup. apply wf_unit_sorted. exact Hwf.
Qed.

Lemma left_proj_eq (r : option (list (list (N * unit)))) :
  with_unit r = omap (map (map fst)) r.
Proof. reflexivity. Qed.

Theorem transpose_correct : S_transpose.
Proof.
  intros sort Hok g p cuts arrival Hwf Hp Hsch.
  unfold transpose_seq, transpose_par. rewrite !left_proj_eq. unfold transpose_spec.
  rewrite <- (nlen_unit_labels g) in Hsch.
  apply xform_correct; try assumption.
  - apply good_nodup; [exact Hok|]. apply transpose_nodup. exact Hwf.
  - intros e He. destruct e as [[a b] u].
    destruct (proj1 (transpose_keys g a b)) as [Hin Hb]; [exists ((a, b), u); split; [exact He|reflexivity]|].
    unfold src, dst. cbn [fst snd]. destruct (wf_succ g b a Hwf Hin). tauto.
  - intros a b Ha Hb. rewrite has_arc_true. fold (P g). rewrite transpose_keys. tauto.
Qed.
