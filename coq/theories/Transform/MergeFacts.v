(** [MergeDedupPairs]: merging two sorted streams of pairs with deduplication (and loop
    removal) gives the strictly sorted union. *)
From WG Require Import Base.Prelude Par.Splice Transform.Pipelines Transform.Statements
  Transform.OrderFacts.
Require Import ZifyBool ZifyN ZifyNat.
Local Open Scope N_scope.

Definition inab (a b : list (N * N)) (k : N * N) : Prop := In k a \/ In k b.
Definition nlcond (nl : bool) (k : N * N) : Prop := nl = true -> fst k <> snd k.

Definition merge_pre (a b : list (N * N)) (last : option (N * N)) : Prop :=
  StronglySorted pair_le a /\ StronglySorted pair_le b
  /\ (forall l, last = Some l -> forall k, inab a b k -> pair_le l k).

Definition merge_post (nl : bool) (a b : list (N * N)) (last : option (N * N))
  (M : list (N * N)) : Prop :=
  StronglySorted pair_lt M
  /\ (forall k, In k M -> inab a b k /\ nlcond nl k /\ (forall l, last = Some l -> pair_lt l k))
  /\ (forall k, inab a b k -> nlcond nl k -> In k M \/ last = Some k).

Lemma pick_none a b : pick a b = None -> a = [] /\ b = [].
Proof.
  destruct a as [|x a], b as [|y b]; cbn [pick]; try discriminate; [tauto|].
  destruct (pair_leb x y); discriminate.
Qed.

Lemma pick_some a b x a' b' :
  StronglySorted pair_le a -> StronglySorted pair_le b -> pick a b = Some (x, (a', b')) ->
  StronglySorted pair_le a' /\ StronglySorted pair_le b'
  /\ (length a' + length b' + 1 = length a + length b)%nat
  /\ (forall k, inab a b k <-> k = x \/ inab a' b' k)
  /\ (forall k, inab a' b' k -> pair_le x k).
Proof.
  intros Ha Hb Hp. unfold inab.
  destruct a as [|xa a0], b as [|yb b0]; cbn [pick] in Hp; try discriminate.
  - inversion Hp; subst. inversion Hb as [|? ? S F]; subst. rewrite Forall_forall in F.
    split; [constructor|]. split; [exact S|]. split; [cbn [length]; lia|]. split.
    + intros k. cbn [In]. split; intros H; [destruct H as [[]|[H|H]]|destruct H as [H|[[]|H]]]; auto.
    + intros k [[]|H]. apply F. exact H.
  - inversion Hp; subst. inversion Ha as [|? ? S F]; subst. rewrite Forall_forall in F.
    split; [exact S|]. split; [constructor|]. split; [cbn [length]; lia|]. split.
    + intros k. cbn [In]. split; intros H; [destruct H as [[H|H]|[]]|destruct H as [H|[H|[]]]]; auto.
    + intros k [H|[]]. apply F. exact H.
  - inversion Ha as [|? ? Sa Fa]; subst. inversion Hb as [|? ? Sb Fb]; subst.
    rewrite Forall_forall in Fa, Fb.
    destruct (pair_leb xa yb) eqn:E; inversion Hp; subst.
    + apply pair_leb_le in E. split; [exact Sa|]. split; [exact Hb|]. split; [cbn [length]; lia|]. split.
      * intros k. cbn [In]. split; intros H; [destruct H as [[H|H]|[H|H]]|destruct H as [H|[H|[H|H]]]]; auto.
      * intros k [H|[<-|H]]; [apply Fa; exact H|exact E|].
        apply (pair_le_trans _ yb); [exact E|apply Fb; exact H].
    + apply pair_leb_false in E. apply pair_lt_le in E.
      split; [exact Ha|]. split; [exact Sb|]. split; [cbn [length]; lia|]. split.
      * intros k. cbn [In]. split; intros H; [destruct H as [[H|H]|[H|H]]|destruct H as [H|[[H|H]|H]]]; auto.
      * intros k [[<-|H]|H]; [exact E| |apply Fb; exact H].
        apply (pair_le_trans _ xa); [exact E|apply Fa; exact H].
Qed.

Lemma opt_pair_eqb_true last x : opt_pair_eqb last x = true <-> last = Some x.
Proof.
  unfold opt_pair_eqb. destruct last as [y|]; [|split; discriminate].
  rewrite pair_eqb_eq. split; [intros ->; reflexivity|intros H; inversion H; reflexivity].
Qed.

Lemma merge_go_spec nl : forall fuel a b last,
  (length a + length b < fuel)%nat -> merge_pre a b last ->
  merge_post nl a b last (merge_dedup_go fuel nl a b last).
Proof.
  induction fuel as [|f IH]; intros a b last Hf (Ha & Hb & Hl); [lia|].
  cbn [merge_dedup_go]. destruct (pick a b) as [[x [a' b']]|] eqn:Hp.
  - destruct (pick_some a b x a' b' Ha Hb Hp) as (Ha' & Hb' & Hlen & Hin & Hmin).
    assert (Hx : inab a b x) by (apply Hin; left; reflexivity).
    destruct (opt_pair_eqb last x) eqn:Eq.
    + apply opt_pair_eqb_true in Eq.
      destruct (IH a' b' last) as (H1 & H2 & H3); [lia| |].
      { split; [exact Ha'|]. split; [exact Hb'|]. intros l El k Hk. apply (Hl l El). apply Hin. right. exact Hk. }
      split; [exact H1|]. split.
      * intros k Hk. destruct (H2 k Hk) as (K1 & K2 & K3). split; [apply Hin; right; exact K1|]. split; assumption.
      * intros k Hk Hc. apply Hin in Hk. destruct Hk as [->|Hk]; [right; exact Eq|]. apply H3; assumption.
    + assert (Hne : last <> Some x) by (intros E; apply opt_pair_eqb_true in E; congruence).
      assert (Hpre : merge_pre a' b' (Some x)).
      { split; [exact Ha'|]. split; [exact Hb'|]. intros l El k Hk. inversion El; subst l. apply Hmin. exact Hk. }
      destruct (IH a' b' (Some x)) as (H1 & H2 & H3); [lia|exact Hpre|].
      assert (Hlast : forall k, In k (merge_dedup_go f nl a' b' (Some x)) ->
                forall l, last = Some l -> pair_lt l k).
      { intros k Hk l El. destruct (H2 k Hk) as (_ & _ & K3).
        apply (pair_le_lt_trans _ x); [apply (Hl l El); exact Hx|apply K3; reflexivity]. }
      destruct (nl && (fst x =? snd x)) eqn:Eloop.
      * apply andb_prop in Eloop. destruct Eloop as [Enl Eloop]. apply N.eqb_eq in Eloop.
        split; [exact H1|]. split.
        -- intros k Hk. destruct (H2 k Hk) as (K1 & K2 & _). split; [apply Hin; right; exact K1|].
           split; [exact K2|apply Hlast; exact Hk].
        -- intros k Hk Hc. apply Hin in Hk. destruct Hk as [->|Hk]; [exfalso; apply (Hc Enl); exact Eloop|].
           destruct (H3 k Hk Hc) as [K|K]; [left; exact K|].
           inversion K; subst k. exfalso. apply (Hc Enl). exact Eloop.
      * assert (Hcx : nlcond nl x).
        { intros Enl Eloop'. rewrite Enl in Eloop. apply N.eqb_eq in Eloop'. rewrite Eloop' in Eloop. discriminate. }
        split; [|split].
        -- constructor; [exact H1|]. rewrite Forall_forall. intros k Hk.
           destruct (H2 k Hk) as (_ & _ & K3). apply K3. reflexivity.
        -- intros k [<-|Hk].
           ++ split; [exact Hx|]. split; [exact Hcx|]. intros l El.
              destruct (pair_le_cases _ _ (Hl l El x Hx)) as [H|H]; [exact H|]. subst l. contradiction.
           ++ destruct (H2 k Hk) as (K1 & K2 & _). split; [apply Hin; right; exact K1|].
              split; [exact K2|apply Hlast; exact Hk].
        -- intros k Hk Hc. apply Hin in Hk. destruct Hk as [->|Hk]; [left; left; reflexivity|].
           destruct (H3 k Hk Hc) as [K|K]; [left; right; exact K|]. inversion K; subst k. left. left. reflexivity.
  - apply pick_none in Hp. destruct Hp; subst a b. split; [constructor|]. split.
    + intros k [].
    + intros k [[]|[]].
Qed.

Lemma merge_dedup_spec nl a b :
  StronglySorted pair_le a -> StronglySorted pair_le b ->
  StronglySorted pair_lt (merge_dedup nl a b)
  /\ (forall k, In k (merge_dedup nl a b) <-> (In k a \/ In k b) /\ (nl = true -> fst k <> snd k)).
Proof.
  intros Ha Hb. unfold merge_dedup.
  destruct (merge_go_spec nl (S (length a + length b)) a b None) as (H1 & H2 & H3); [lia| |].
  { split; [exact Ha|]. split; [exact Hb|]. intros l El. discriminate. }
  split; [exact H1|]. intros k. split.
  - intros Hk. destruct (H2 k Hk) as (K1 & K2 & _). exact (conj K1 K2).
  - intros [K1 K2]. destruct (H3 k K1 K2) as [K|K]; [exact K|discriminate].
Qed.
