(** The function run by the model driver ([run_xop]): both ways of reading the result give
    the specification, for the sequential and the parallel variants of every transform. *)
From WG Require Import Base.Prelude Par.Splice Par.SpliceFacts Transform.Pipelines
  Transform.Statements Transform.OrderFacts Transform.SortFacts Transform.Facts Transform.Facts2
  Transform.Facts3 Transform.MergeFacts Transform.SortedParFacts Transform.ReadParFacts
  Transform.LabelFacts.
Require Import ZifyBool ZifyN ZifyNat.
Local Open Scope N_scope.

Section PartsRanged.
Context {L : Type}.
Notation lpair := (@lpair L).
Variable srt : list lpair -> list lpair.
Variables (n : N) (p : nat) (X : list lpair).
Hypothesis Hp : (0 < p)%nat.
Hypothesis Hsrc : forall e, In e X -> src e < n.
Hypothesis Hgood : forall q, good (filter q X) (srt (filter q X)).

Lemma parts_ranged : ranged (boundaries n p) (parts_of srt n p X).
Proof.
  unfold boundaries, parts_of.
  apply (ranged_map_seq (bnd n p)
           (fun i => srt (filter (fun e : lpair => src e / div_ceil n (N.of_nat p) =? N.of_nat i) X))).
  intros i Hi. split; [apply bnd_mono; lia|].
  pose proof (Hgood (fun e : lpair => src e / div_ceil n (N.of_nat p) =? N.of_nat i)) as HG.
  split; [exact (good_src_sorted _ _ HG)|].
  intros e He. destruct HG as (_ & H1 & _). apply H1 in He. apply filter_In in He.
  destruct He as [He Hi']. apply N.eqb_eq in Hi'. apply pid_bounds; [exact Hp|apply Hsrc; exact He|exact Hi'].
Qed.

Lemma lenders_eq_parts :
  read_par (boundaries n p) (parts_of srt n p X) = read_seq n (parts_of srt n p X).
Proof.
  pose proof parts_ranged as HR. rewrite boundaries_eq in HR |- *.
  destruct (read_par_eq _ _ _ HR) as (E & _). rewrite E. unfold read_seq. f_equal.
  destruct (boundaries_legal n p Hp) as (_ & Hl & _). rewrite boundaries_eq in Hl. rewrite Hl. lia.
Qed.
End PartsRanged.

(** the generic pipeline, both readers *)
Lemma run_parts_correct srt (phi : @lpair unit -> list (@lpair unit)) nout par p cuts arrival
  (g : list (list (N * unit))) (R : N -> N -> bool) :
  (0 < p)%nat -> legal_schedule cuts arrival (nlen g) ->
  (forall X', Permutation X' (flat_map phi (pairs_from 0 g)) ->
              forall q, good (filter q X') (srt (filter q X'))) ->
  (forall e, In e (flat_map phi (pairs_from 0 g)) -> src e < nout /\ dst e < nout) ->
  (forall a b, a < nout -> b < nout ->
     (R a b = true <-> exists x, In x (flat_map phi (pairs_from 0 g)) /\ fst x = (a, b))) ->
  let r := run_parts srt phi nout par p cuts arrival g in
  with_unit (fst r) = Some (lists_of_rel nout R) /\ with_unit (snd r) = Some (lists_of_rel nout R).
Proof.
  intros Hp Hsch HG Hr HR. cbv zeta.
  destruct (xform_correct srt phi nout p cuts arrival g R Hp Hsch HG Hr HR) as [Hs Hpar].
  unfold run_parts.
  set (input := if par then _ else _).
  assert (HP : Permutation input (flat_map phi (pairs_from 0 g))).
  { unfold input. destruct par; [apply par_input_perm; exact Hsch|apply Permutation_refl]. }
  assert (Hsrc : forall e, In e input -> src e < nout).
  { intros e He. apply (Permutation_in _ HP) in He. apply Hr in He. tauto. }
  assert (E : with_unit (match ext_sort srt nout p input with
                         | Some parts => read_seq nout parts | None => None end)
              = Some (lists_of_rel nout R)).
  { unfold input. destruct par; [exact Hpar|exact Hs]. }
  rewrite (ext_sort_parts srt nout p input Hsrc) in *. cbn [fst snd].
  rewrite (lenders_eq_parts srt nout p input Hp Hsrc (HG input HP)). split; exact E.
Qed.

Lemma map_facts f m g :
  wf_graph g = true -> nlen f = nlen g -> below m f = true ->
  (forall e, In e (flat_map (phi_map f) (P g)) -> src e < m /\ dst e < m)
  /\ (forall a b, a < m -> b < m ->
       (existsb (fun uv => (idx f (fst uv) =? a) && (idx f (snd uv) =? b)) (graph_arcs g) = true
        <-> exists x, In x (flat_map (phi_map f) (P g)) /\ fst x = (a, b))).
Proof.
  intros Hwf Hlen Hbelow. split.
  - intros e He. destruct e as [[a b] u].
    destruct (proj1 (map_keys f g a b)) as (u0 & v0 & Hin & Hu & Ea & Eb);
      [exists ((a, b), u); split; [exact He|reflexivity]|].
    destruct (wf_succ _ _ _ Hwf Hin) as [Hu' Hv']. unfold src, dst. cbn [fst snd]. subst a b.
    unfold nlen in *. split; apply idx_below; try assumption; lia.
  - intros a b Ha Hb. rewrite map_keys. apply map_spec_R.
Qed.

Theorem run_xop_correct : S_run_xop.
Proof.
  intros sort sortd Hok Hokd op g par p cuts arrival Hwf Hp Hsch Hop.
  assert (Hsch' : legal_schedule cuts arrival (nlen (unit_labels g))) by (rewrite nlen_unit_labels; exact Hsch).
  unfold run_xop.
  assert (G : forall srt phi nout R,
    (forall X', Permutation X' (flat_map phi (P g)) -> forall q, good (filter q X') (srt (filter q X'))) ->
    (forall e, In e (flat_map phi (P g)) -> src e < nout /\ dst e < nout) ->
    (forall a b, a < nout -> b < nout ->
       (R a b = true <-> exists x, In x (flat_map phi (P g)) /\ fst x = (a, b))) ->
    (with_unit (fst (run_parts srt phi nout par p cuts arrival (unit_labels g))),
     with_unit (snd (run_parts srt phi nout par p cuts arrival (unit_labels g))))
    = (Some (lists_of_rel nout R), Some (lists_of_rel nout R))).
  { intros srt phi nout R H1 H2 H3.
    destruct (run_parts_correct srt phi nout par p cuts arrival (unit_labels g) R Hp Hsch' H1 H2 H3) as [E1 E2].
    rewrite E1, E2. reflexivity. }
  destruct op as [|nl|perm|f m]; cbn [xop_check xop_dedup xop_phi xop_nout xop_spec xop_ok] in *.
  - unfold transpose_spec. apply G.
    + apply good_nodup; [exact Hok|]. apply transpose_nodup. exact Hwf.
    + intros e He. destruct e as [[a b] u].
      destruct (proj1 (transpose_keys g a b)) as [Hin Hb]; [exists ((a, b), u); split; [exact He|reflexivity]|].
      unfold src, dst. cbn [fst snd]. destruct (wf_succ g b a Hwf Hin). tauto.
    + intros a b Ha Hb. rewrite has_arc_true. rewrite transpose_keys. tauto.
  - unfold symmetrize_spec. apply G.
    + apply good_dedup. exact Hokd.
    + apply symm_range. exact Hwf.
    + intros a b _ _. apply symm_R. exact Hwf.
  - destruct Hop as (Hlen & Hb & Hnd). rewrite (proj2 (N.eqb_eq _ _) Hlen).
    unfold permute_spec, map_spec. destruct (map_facts perm (nlen g) g Hwf Hlen Hb) as [F1 F2]. apply G.
    + apply good_nodup; [exact Hok|]. apply permute_nodup; assumption.
    + exact F1.
    + exact F2.
  - destruct Hop as (Hlen & Hb). rewrite (proj2 (N.eqb_eq _ _) Hlen).
    unfold map_spec. destruct (map_facts f m g Hwf Hlen Hb) as [F1 F2]. apply G.
    + apply good_dedup. exact Hokd.
    + exact F1.
    + exact F2.
Qed.

Theorem out_of_range : S_out_of_range.
Proof. intros L srt n p X. apply ext_sort_none. Qed.

Theorem run_labeled_correct : S_run_labeled.
Proof.
  intros L lsort Hok g par p cuts arrival Hwf Hp Hsch. unfold run_parts.
  set (input := if par then _ else _).
  assert (HP : Permutation input (flat_map phi_transpose (pairs_from 0 g))).
  { unfold input. destruct par; [apply par_input_perm; exact Hsch|apply Permutation_refl]. }
  assert (Hsrc : forall e, In e input -> src e < nlen g).
  { intros e He. apply (Permutation_in _ HP) in He. apply (lX_range g Hwf) in He. tauto. }
  pose proof (labelled_pipeline lsort Hok g Hwf p input Hp HP) as E.
  rewrite (ext_sort_parts lsort (nlen g) p input Hsrc) in *.
  rewrite (lenders_eq_parts lsort (nlen g) p input Hp Hsrc).
  - rewrite E. reflexivity.
  - apply (good_nodup lsort _ Hok (lX_nodup g Hwf) input HP).
Qed.
