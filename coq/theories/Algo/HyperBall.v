(** HyperBall (algo/src/distances/hyperball.rs) over an arbitrary join-semilattice of
    counters.  Definitions only.

    - [sync_step]/[sync_iter]: the specification, c_{t+1}(v) = c_t(v) ⊔ ⨆_{w ∈ succ v} c_t(w).
    - [astep]: one iteration as [process_node] performs it on the ping-pong arrays (or on the
      external store): only successors flagged "modified" are merged, the write to the other
      array happens only when needed, and which nodes are scanned ([scan]) and checked
      ([chk]) is an ARGUMENT (the systolic / local optimisations decide it).
    - [sched_write]: the writes of an iteration performed block by block in an arbitrary
      order (the schedule of the worker threads is an argument).
    - [cstep]/[hb_run]: the concrete bookkeeping of [iterate] as the code is NOW
      ([cstep_prefix]/[hb_run_prefix]: with the rule for the local flag that the code had
      before its repair, kept for the refutation): [curr_modified],
      [next_modified], [must_be_checked], [next_must_be_checked], the local check list and
      the per-thread buffers, the systolic / local / pre-local flags decided from the number
      of modified counters exactly as the code does, the neighbourhood function (with an
      exact [size] in place of the floating-point estimate), and the loop of [run]. *)
From WG Require Import Base.Prelude.

Module HBallM.

Definition graph := list (list nat).
Definition succs (g : graph) (v : nat) : list nat := nth v g [].
Definition getb (l : list bool) (v : nat) : bool := nth v l false.
Definition memb (v : nat) (l : list nat) : bool := existsb (Nat.eqb v) l.
Definition tab {A} (n : nat) (f : nat -> A) : list A := map f (seq 0 n).
Definition count_true (l : list bool) : nat := length (filter (fun b => b) l).

(** [w] is within [t] steps of [v] *)
Inductive within (g : graph) : nat -> nat -> nat -> Prop :=
| within_refl : forall t v, within g t v v
| within_step : forall t v u w, In u (succs g v) -> within g t u w -> within g (S t) v w.

(** [gt] lists the predecessors of every node of [g] *)
Definition is_transpose (g gt : graph) : Prop :=
  length gt = length g /\ forall u v, In u (succs gt v) <-> In v (succs g u).

Section HyperBall.
  Variable L : Type.
  Variable join : L -> L -> L.
  Variable eqb : L -> L -> bool.
  Variable dflt : L.
  Variable size : L -> Z.

  Definition get (c : list L) (v : nat) : L := nth v c dflt.

  (** non-empty join of a list *)
  Definition bigjoin (a : L) (l : list L) : L := fold_left join l a.

  (** ** Specification: synchronous iteration *)
  Definition sync_node (g : graph) (c : list L) (v : nat) : L :=
    bigjoin (get c v) (map (get c) (succs g v)).
  Definition sync_step (g : graph) (c : list L) : list L := tab (length c) (sync_node g c).
  Fixpoint sync_iter (g : graph) (t : nat) (c : list L) : list L :=
    match t with O => c | S t' => sync_step g (sync_iter g t' c) end.

  (** ** One iteration as the code performs it (abstract skipping decisions) *)
  Record astate := mkA { a_curr : list L; a_next : list L; a_mod : list bool }.

  (** successors that are merged: different from the node and modified in the last round *)
  Definition live (md : list bool) (v w : nat) : bool := negb (Nat.eqb w v) && getb md w.
  Definition merged (g : graph) (c : list L) (md : list bool) (v : nat) : L :=
    bigjoin (get c v) (map (get c) (filter (live md v) (succs g v))).
  Definition anylive (g : graph) (md : list bool) (v : nat) : bool :=
    existsb (live md v) (succs g v).
  (** [estimator_modified] of a checked node *)
  Definition emod (g : graph) (c : list L) (md : list bool) (v : nat) : bool :=
    anylive g md v && negb (eqb (merged g c md v) (get c v)).

  (** what the node's slot of the array read in the NEXT iteration holds after this one.
      [ext = false]: ping-pong arrays, the slot is [next[v]] (stale, two rounds old, unless
      written); [ext = true]: spill store, the slot is [curr[v]] unless a record is
      scattered back. *)
  Definition node_value (ext : bool) (g : graph) (s : astate) (scan chk : nat -> bool) (v : nat) : L :=
    let stale := if ext then get (a_curr s) v else get (a_next s) v in
    if scan v then
      if chk v then
        if emod g (a_curr s) (a_mod s) v || (negb ext && getb (a_mod s) v)
        then merged g (a_curr s) (a_mod s) v else stale
      else if negb ext && getb (a_mod s) v then get (a_curr s) v else stale
    else stale.
  Definition node_mod (g : graph) (s : astate) (scan chk : nat -> bool) (v : nat) : bool :=
    scan v && chk v && emod g (a_curr s) (a_mod s) v.

  Definition astep (ext : bool) (g : graph) (s : astate) (scan chk : nat -> bool) : astate :=
    let n := length (a_curr s) in
    mkA (tab n (node_value ext g s scan chk)) (a_curr s) (tab n (node_mod g s scan chk)).

  (** the decisions are legal when a node that is not (scanned and checked) has no live
      successor, and (ping-pong only) a node that is not scanned was not modified *)
  Definition skip_ok (ext : bool) (g : graph) (md : list bool) (scan chk : nat -> bool) : Prop :=
    (forall v, scan v && chk v = false -> anylive g md v = false) /\
    (ext = false -> forall v, scan v = false -> getb md v = false).

  (** ** Schedules: the writes of one iteration, block by block in any order *)
  Fixpoint upd {A} (l : list A) (v : nat) (x : A) : list A :=
    match l, v with
    | [], _ => []
    | _ :: r, O => x :: r
    | y :: r, S v' => y :: upd r v' x
    end.
  (** every processed node writes [f v] at index [v] (if [wr v]); [order] is the
      concatenation of the blocks in the order in which the threads happened to finish *)
  Definition sched_write {A} (wr : nat -> bool) (f : nat -> A) (order : list nat) (arr : list A) : list A :=
    fold_left (fun a v => if wr v then upd a v (f v) else a) order arr.

  (** ** The concrete bookkeeping of [iterate] *)
  Record cstate := mkC {
    c_arr : astate;               (* curr_state, next_state, curr_modified *)
    c_nmod : list bool;           (* ic.next_modified before it is cleared *)
    c_mbc : list bool;            (* must_be_checked *)
    c_nmbc : list bool;           (* next_must_be_checked *)
    c_sys : bool; c_local : bool; c_prelocal : bool;   (* flags of the last iteration *)
    c_check : list nat;           (* local_checklist *)
    c_buf : list nat;             (* union of the per-thread local_next_must_be_checked *)
    c_count : nat;                (* modified_estimators of the last iteration *)
    c_iter : nat;
    c_last : Z;                   (* self.last *)
    c_nf : list Z                 (* neighborhood_function, most recent first *)
  }.

  Definition init_state (c0 : list L) : cstate :=
    let n := length c0 in
    mkC (mkA c0 (repeat dflt n) (repeat true n)) (repeat false n) (repeat false n) (repeat false n)
        false false false [] [] 0 0 (Z.of_nat n) [Z.of_nat n].

  Definition num_arcs (g : graph) : nat := fold_right (fun l a => length l + a) 0 g.

  (** the mode decisions of [iterate]: (systolic, pre_local) *)
  Definition decide (has_tr : bool) (n m iter count : nat) : bool * bool :=
    let sys := has_tr && negb (Nat.eqb iter 0) && (N.of_nat count <? N.of_nat n / 4)%N in
    let pl := sys && (N.of_nat count <? (N.of_nat n * N.of_nat n) / (N.of_nat m * 10))%N in
    (sys, pl).

  Fixpoint insert_nat (x : nat) (l : list nat) : list nat :=
    match l with
    | [] => [x]
    | y :: r => if Nat.ltb x y then x :: l else if Nat.eqb x y then l else y :: insert_nat x r
    end.
  (** sorted union without repetitions (sort + dedup per thread, then [kmerge_dedup]) *)
  Definition sort_dedup (l : list nat) : list nat := fold_right insert_nat [] l.

  Definition sumZ (l : list Z) : Z := fold_right Z.add 0%Z l.

  (** one call of [iterate] with the given flags.

      [repaired] selects the rule for the local flag.  As the code is NOW ([repaired = true])
      [ic.local = ic.pre_local && ic.systolic]: [systolic] is decided first from the number
      of modified counters, then [local], then the new [pre_local]; a standard
      (non-systolic) iteration never runs in local mode, so it scans every node and sums the
      neighbourhood function over all of them.  BEFORE the repair ([repaired = false]) the
      rule was [ic.local = ic.pre_local]: an iteration could be local but not systolic,
      scanning only the check list while summing the neighbourhood function from zero.
      The old rule is kept only to state the refutation [S_nf_refuted]. *)
  Definition cstep_gen (repaired : bool) (ext : bool) (g gt : graph) (s : cstate) (sys pl : bool) : cstate :=
    let a := c_arr s in
    let n := length (a_curr a) in
    let prev_sys := c_sys s in
    let prev_local := c_local s in
    let local := if repaired then c_prelocal s && sys else c_prelocal s in
    (* next_modified is cleared: entirely, or only on the old check list *)
    let nmod0 := if prev_local then tab n (fun v => getb (c_nmod s) v && negb (memb v (c_check s)))
                 else repeat false n in
    let check := if local then sort_dedup (c_buf s) else c_check s in
    let nmbc0 := if negb local && sys then repeat false n else c_nmbc s in
    let mbc0 := if negb local && sys && negb prev_sys then repeat true n else c_mbc s in
    let scan := fun v => if local then memb v check else true in
    let chk := fun v => negb sys || local || getb mbc0 v in
    let a' := astep ext g a scan chk in
    let md' := tab n (fun v => getb nmod0 v || node_mod g a scan chk v) in
    let modified := filter (fun v => node_mod g a scan chk v) (seq 0 n) in
    (* bookkeeping for the next round *)
    let buf' := if pl then flat_map (fun v => v :: succs gt v) modified else [] in
    let nmbc1 := if sys && negb pl
                 then tab n (fun u => getb nmbc0 u || existsb (fun v => memb u (succs gt v)) modified)
                 else nmbc0 in
    (* neighbourhood function *)
    let scanned := filter (fun v => scan v && chk v) (seq 0 n) in
    let nfv :=
      if sys then (c_last s + sumZ (map (fun v => size (get (a_curr a') v) - size (get (a_curr a) v)) modified))%Z
      else sumZ (map (fun v => size (merged g (a_curr a) (a_mod a) v)) scanned) in
    let last_out := hd 0%Z (c_nf s) in
    mkC (mkA (a_curr a') (a_next a') md') (a_mod a)
        (if sys then nmbc1 else mbc0) (if sys then mbc0 else nmbc1)
        sys local pl check buf' (length modified) (S (c_iter s)) nfv (Z.max nfv last_out :: c_nf s).

  (** the code as it is now *)
  Definition cstep := cstep_gen true.
  (** the code before the repair of the local flag (pre-fix behaviour) *)
  Definition cstep_prefix := cstep_gen false.

  (** [run]: at most [fuel] iterations, stopping after the first one that modifies nothing;
      returns the state after every iteration *)
  Fixpoint crun_gen (repaired : bool) (ext : bool) (has_tr : bool) (g gt : graph) (fuel : nat) (s : cstate)
    : list cstate :=
    match fuel with
    | O => []
    | S f =>
      let n := length (a_curr (c_arr s)) in
      let '(sys, pl) := decide has_tr n (num_arcs g) (c_iter s) (c_count s) in
      let s' := cstep_gen repaired ext g gt s sys pl in
      s' :: (if Nat.eqb (c_count s') 0 then [] else crun_gen repaired ext has_tr g gt f s')
    end.
  Definition crun := crun_gen true.

  (** [run(upper_bound)]: [upper_bound] is clipped to the number of nodes *)
  Definition hb_run_gen (repaired : bool) (ext has_tr : bool) (g gt : graph) (ub : nat) (c0 : list L) : list cstate :=
    crun_gen repaired ext has_tr g gt (Nat.min ub (length c0)) (init_state c0).
  (** the code as it is now *)
  Definition hb_run := hb_run_gen true.
  (** the code before the repair (only for the refutation) *)
  Definition hb_run_prefix := hb_run_gen false.

  (** plain iteration until nothing changes (for the reference values) *)
  Fixpoint sync_run (g : graph) (fuel : nat) (c : list L) : list L * nat :=
    match fuel with
    | O => (c, O)
    | S f =>
      let c' := sync_step g c in
      if forallb (fun v => eqb (get c' v) (get c v)) (seq 0 (length c)) then (c', 1)
      else let '(r, k) := sync_run g f c' in (r, S k)
    end.
End HyperBall.

(** ** Instances *)

(** register vectors under pointwise maximum (HyperLogLog, HyperLogLog8) *)
Fixpoint regs_join (a b : list N) : list N :=
  match a, b with
  | [], _ => b
  | _, [] => a
  | x :: a', y :: b' => N.max x y :: regs_join a' b'
  end.
Fixpoint regs_eqb (a b : list N) : bool :=
  match a, b with
  | [], [] => true
  | x :: a', y :: b' => N.eqb x y && regs_eqb a' b'
  | _, _ => false
  end.
Definition regs_size (a : list N) : Z := Z.of_N (fold_right N.add 0%N a).

(** node sets as bit vectors under pointwise disjunction: the exact balls *)
Fixpoint bits_join (a b : list bool) : list bool :=
  match a, b with
  | [], _ => b
  | _, [] => a
  | x :: a', y :: b' => (x || y) :: bits_join a' b'
  end.
Fixpoint bits_eqb (a b : list bool) : bool :=
  match a, b with
  | [], [] => true
  | x :: a', y :: b' => Bool.eqb x y && bits_eqb a' b'
  | _, _ => false
  end.
Definition bits_size (a : list bool) : Z := Z.of_nat (count_true a).
Definition singleton (n v : nat) : list bool := tab n (Nat.eqb v).
Definition singletons (n : nat) : list (list bool) := tab n (singleton n).

(** exact ball sizes after [t] rounds (or at stabilisation, whichever comes first) *)
Definition ball_sizes (g : graph) (t : nat) : list Z * nat :=
  let n := length g in
  let '(c, k) := sync_run (list bool) bits_join bits_eqb [] g t (singletons n) in
  (map bits_size c, k).

(** the run on registers: the state after every iteration *)
Definition hb_run_regs (ext has_tr : bool) (g gt : graph) (ub : nat) (c0 : list (list N)) :=
  hb_run (list N) regs_join regs_eqb [] regs_size ext has_tr g gt ub c0.
(** the same run under the rule for the local flag that the code had BEFORE its repair
    (used by the driver only to recognise a regression to the old behaviour) *)
Definition hb_run_regs_prefix (ext has_tr : bool) (g gt : graph) (ub : nat) (c0 : list (list N)) :=
  hb_run_prefix (list N) regs_join regs_eqb [] regs_size ext has_tr g gt ub c0.
Definition cs_curr (s : cstate (list N)) : list (list N) := a_curr _ (c_arr _ s).
Definition cs_mod (s : cstate (list N)) : list bool := a_mod _ (c_arr _ s).
Definition cs_flags (s : cstate (list N)) : (bool * bool * bool) * nat :=
  ((c_sys _ s, c_local _ s, c_prelocal _ s), c_count _ s).
Definition cs_check (s : cstate (list N)) : list nat := c_check _ s.

(** the plain iteration on registers *)
Definition regs_sync (g : graph) (t : nat) (c0 : list (list N)) : list (list N) :=
  sync_iter (list N) regs_join [] g t c0.

(** the builder refuses HyperLogLog register arrays that do not fill 64-bit words
    (5-bit registers for fewer than 2^32 elements) *)
Definition hb_refused (hll8 : bool) (log2m : N) : bool :=
  if hll8 then false else negb (N.eqb ((5 * 2 ^ log2m) mod 64) 0).


End HBallM.
Export HBallM.
