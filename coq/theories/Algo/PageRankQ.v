(** C18 — PageRank (algo/src/rank/pagerank.rs) over exact rationals.  Definitions only.

    The graph is given, as in the Rust constructor, by its TRANSPOSE: [pred i] is the
    successor list of [i] in the transpose, i.e. the list of predecessors of [i].
    Vectors are functions [nat -> Q] restricted to indices below [n]; the executable entry
    points at the end of the file take lists. *)
From Coq Require Export QArith Qabs Qreduction List Arith Bool.

Module PageRankM.
Export ListNotations.
Local Open Scope Q_scope.

Inductive prmode := StronglyPreferential | WeaklyPreferential | PseudoRank.

(** [sumn n f] = f 0 + ... + f (n-1);  [suml l f] = sum of [f j] over the entries of [l] *)
Fixpoint sumn (n : nat) (f : nat -> Q) : Q :=
  match n with O => 0 | S k => sumn k f + f k end.
Fixpoint suml (l : list nat) (f : nat -> Q) : Q :=
  match l with [] => 0 | j :: l' => f j + suml l' f end.

Definition memb (j : nat) (l : list nat) : bool := existsb (Nat.eqb j) l.
Fixpoint cnt (j : nat) (l : list nat) : nat :=
  match l with [] => O | a :: l' => (if Nat.eqb j a then 1 else 0) + cnt j l' end.

Section PageRank.
  Variable n : nat.
  Variable pred : nat -> list nat.
  Variable alpha : Q.
  Variable v : nat -> Q.
  Variable md : prmode.

  (** "Phase 1": [counts[j] += 1] for every occurrence of [j] in a successor list of the
      transpose; then inverted where non-zero. *)
  Fixpoint outdeg_upto (k : nat) (j : nat) : nat :=
    match k with O => O | S k' => outdeg_upto k' j + cnt j (pred k') end.
  Definition outdeg (j : nat) : nat := outdeg_upto n j.
  Definition inv (j : nat) : Q :=
    match outdeg j with O => 0 | S d => 1 # Pos.of_succ_nat d end.
  (** [inv_outdegrees[j] == 0.0] *)
  Definition dang (j : nat) : bool :=
    match outdeg j with O => true | S _ => false end.

  (** the dangling-node distribution u of the module documentation *)
  Definition uvec (i : nat) : Q :=
    match md with
    | StronglyPreferential => v i
    | WeaklyPreferential => match n with O => 0 | S k => 1 # Pos.of_succ_nat k end
    | PseudoRank => 0
    end.

  (** ** The documented linear system  x (I - alpha (P + d^T u)) = (1 - alpha) v *)
  (** row-normalised adjacency matrix, zero rows for dangling nodes *)
  Definition Pmat (j i : nat) : Q := if memb j (pred i) then inv j else 0.
  (** P + d^T u *)
  Definition Gmat (j i : nat) : Q := Pmat j i + (if dang j then uvec i else 0).
  (** I - alpha (P + d^T u) *)
  Definition Mmat (j i : nat) : Q := (if Nat.eqb j i then 1 else 0) - alpha * Gmat j i.
  (** component i of x M *)
  Definition lhs (x : nat -> Q) (i : nat) : Q := sumn n (fun j => x j * Mmat j i).
  Definition solves (x : nat -> Q) : Prop :=
    forall i, (i < n)%nat -> lhs x i == (1 - alpha) * v i.
  (** residual of the equivalent fixed-point form x = (1 - alpha) v + alpha x (P + d^T u) *)
  Definition resid (x : nat -> Q) (i : nat) : Q :=
    (1 - alpha) * v i + alpha * sumn n (fun j => x j * Gmat j i) - x i.

  (** ** The update of [run_with_logging] *)
  Definition dangling_rank (x : nat -> Q) : Q := sumn n (fun j => if dang j then x j else 0).

  (** [sigma] after the loop over the successors of [i] in the transpose *)
  Definition sigma_pred (x : nat -> Q) (i : nat) : Q :=
    suml (pred i) (fun j => if Nat.eqb j i then 0 else x j * inv j).
  Definition has_loop (i : nat) : bool := memb i (pred i).
  Definition self_loop_factor (i : nat) : Q :=
    if dang i then match md with PseudoRank => 1 | _ => 1 - alpha * uvec i end
    else if has_loop i then 1 - alpha * inv i else 1.
  (** the new rank of node [i] when the reads return [x] and the frozen dangling rank
      is [dr] *)
  Definition upd (x : nat -> Q) (dr : Q) (i : nat) : Q :=
    let sdr := if dang i then x i else 0 in
    let sigma := sigma_pred x i +
                 match md with PseudoRank => 0 | _ => (dr - sdr) * uvec i end in
    ((1 - alpha) * v i + alpha * sigma) / self_loop_factor i.
  (** a vector that every update leaves unchanged, with the dangling rank that the
      end of an iteration computes from it *)
  Definition fixedpt (x : nat -> Q) : Prop :=
    forall i, (i < n)%nat -> x i == upd x (dangling_rank x) i.

  (** one asynchronous iteration, as equations: every node [i] is rewritten once, from its
      own old value, the dangling rank of the old vector, and reads [r j] of the other
      nodes that return either the old value or the value written in this iteration.
      All reads old: a Jacobi step; new for [j < i]: the Gauss-Seidel sweep; any thread
      schedule with racy reads yields some such [r]. *)
  Definition async_step (x x' : nat -> Q) : Prop :=
    forall i, (i < n)%nat -> exists r : nat -> Q,
    x' i == upd r (dangling_rank x) i /\ r i == x i /\ forall j, r j == x j \/ r j == x' j.

  (** sparse form of component i of x M, used by the certificate checker *)
  Definition lhs_sparse (x : nat -> Q) (dr : Q) (i : nat) : Q :=
    x i - alpha * (suml (pred i) (fun j => x j * inv j) + dr * uvec i).
End PageRank.

(** well-formed inputs: a graph without repeated arcs on nodes [0..n), a damping factor
    in [0,1), a stochastic preference vector *)
Definition wf_graph (n : nat) (pred : nat -> list nat) : Prop :=
  forall i, (i < n)%nat -> NoDup (pred i) /\ (forall j, In j (pred i) -> (j < n)%nat).
Definition wf_alpha (alpha : Q) : Prop := 0 <= alpha /\ alpha < 1.
Definition stochastic (n : nat) (v : nat -> Q) : Prop :=
  (forall i, (i < n)%nat -> 0 <= v i) /\ sumn n v == 1.
Definition l1 (n : nat) (x : nat -> Q) : Q := sumn n (fun i => Qabs (x i)).

(** ** Executable entry points on lists *)
Definition vecf (l : list Q) : nat -> Q := fun i => nth i l 0.
Definition predf (gt : list (list nat)) : nat -> list nat := fun i => nth i gt [].

Fixpoint nodupb (l : list nat) : bool :=
  match l with [] => true | a :: l' => negb (memb a l') && nodupb l' end.
Definition wf_graphb (gt : list (list nat)) : bool :=
  forallb (fun l => nodupb l && forallb (fun j => Nat.ltb j (length gt)) l) gt.
Definition stochasticb (v : list Q) : bool :=
  forallb (fun a => Qle_bool 0 a) v && Qeq_bool (sumn (length v) (vecf v)) 1.
Definition wf_alphab (alpha : Q) : bool := Qle_bool 0 alpha && negb (Qle_bool 1 alpha).

(** the CERTIFICATE checker: [xs] is an exact solution of the documented system *)
Definition residual_zero (gt : list (list nat)) (alpha : Q) (v : list Q) (md : prmode)
    (xs : list Q) : bool :=
  let n := length gt in
  let pred := predf gt in
  let x := vecf xs in
  let dr := Qred (dangling_rank n pred x) in
  Nat.eqb (length xs) n &&
  forallb (fun i => Qeq_bool (lhs_sparse n pred alpha (vecf v) md x dr i) ((1 - alpha) * vecf v i))
          (seq 0 n).

(** the augmented transposed system, one row per equation (column of M) *)
Definition system_rows (gt : list (list nat)) (alpha : Q) (v : list Q) (md : prmode)
    : list (list Q) :=
  let n := length gt in
  let pred := predf gt in
  let invs := map (inv n pred) (seq 0 n) in
  let dangs := map (dang n pred) (seq 0 n) in
  map (fun i =>
         let ui := uvec n (vecf v) md i in
         let pi := pred i in
         map (fun j =>
                let p := if memb j pi then nth j invs 0 else 0 in
                let g := p + (if nth j dangs false then ui else 0) in
                Qred ((if Nat.eqb j i then 1 else 0) - alpha * g)) (seq 0 n)
         ++ [Qred ((1 - alpha) * vecf v i)])
      (seq 0 n).

(** Gauss-Jordan elimination on augmented rows [a_1 .. a_k | b] (no proof obligations:
    its result is accepted only through [residual_zero]) *)
Fixpoint find_pivot (rows : list (list Q)) : option (list Q * list (list Q)) :=
  match rows with
  | [] => None
  | r :: rs =>
    match r with
    | [] => None
    | h :: _ =>
      if Qeq_bool h 0 then
        match find_pivot rs with
        | Some (p, others) => Some (p, r :: others)
        | None => None
        end
      else Some (r, rs)
    end
  end.
Fixpoint row_sub (r p : list Q) (c : Q) : list Q :=
  match r, p with
  | a :: r', b :: p' => Qred (a - c * b) :: row_sub r' p' c
  | _, _ => []
  end.
Fixpoint dotq (a b : list Q) : Q :=
  match a, b with
  | x :: a', y :: b' => x * y + dotq a' b'
  | _, _ => 0
  end.
Fixpoint gauss (fuel : nat) (rows : list (list Q)) : option (list Q) :=
  match fuel with
  | O => Some []
  | S f =>
    match find_pivot rows with
    | None => None
    | Some (p, others) =>
      match p with
      | [] => None
      | h :: pt =>
        let pn := map (fun a => Qred (a / h)) pt in
        let rest := map (fun r => match r with [] => [] | a :: rt =>
                                   if Qeq_bool a 0 then rt else row_sub rt pn a end) others in
        match gauss f rest with
        | None => None
        | Some ys => Some (Qred (last pn 0 - dotq (removelast pn) ys) :: ys)
        end
      end
    end
  end.
Definition pr_solve (gt : list (list nat)) (alpha : Q) (v : list Q) (md : prmode)
    : option (list Q) :=
  gauss (length gt) (system_rows gt alpha v md).

(** ** One iteration of the main loop, as a sweep over the nodes in the order [order] in
    which the threads write them.  A read of node [j] made while node [i] is processed
    returns the value from the beginning of the iteration or the value already written
    in this iteration, as [stale i j] decides (all [false]: Gauss-Seidel; all [true]:
    Jacobi); nodes later in the order can only be seen with their old value. *)
Fixpoint set_nth (i : nat) (a : Q) (l : list Q) : list Q :=
  match l, i with
  | [], _ => []
  | _ :: l', O => a :: l'
  | b :: l', S i' => b :: set_nth i' a l'
  end.

Section Sweep.
  Variable gt : list (list nat).
  Variable alpha : Q.
  Variable v : list Q.
  Variable md : prmode.
  Let n := length gt.
  Let pred := predf gt.

  Definition sweep_step (old : list Q) (dr : Q) (stale : nat -> nat -> bool)
      (st : list Q * Q * Q) (i : nat) : list Q * Q * Q :=
    let '(cur, dacc, nacc) := st in
    let rd := fun j => if Nat.eqb j i then nth j cur 0
                       else if stale i j then nth j old 0 else nth j cur 0 in
    let nr := Qred (upd n pred alpha (vecf v) md rd dr i) in
    (set_nth i nr cur,
     if dang n pred i then Qred (dacc + nr) else dacc,
     Qred (nacc + Qabs (nr - nth i cur 0))).
  (** returns (new ranks, new dangling rank, l1 norm of the change) *)
  Definition sweep (order : list nat) (stale : nat -> nat -> bool) (xs : list Q) (dr : Q)
      : list Q * Q * Q :=
    fold_left (sweep_step xs dr stale) order (xs, 0, 0).

  (** [k] iterations from the preference vector; result: ranks and [norm_delta] *)
  Fixpoint iterate (k : nat) (order : list nat) (stale : nat -> nat -> nat -> bool)
      (xs : list Q) (dr : Q) (nd : Q) : list Q * Q :=
    match k with
    | O => (xs, nd)
    | S k' =>
      let '(xs', dr', nrm) := sweep order (stale k') xs dr in
      iterate k' order stale xs' dr' (Qred (nrm * alpha / (1 - alpha)))
    end.
  Definition pr_iterate (k : nat) (order : list nat) (stale : nat -> nat -> nat -> bool)
      : list Q * Q :=
    iterate k order stale v (Qred (dangling_rank n pred (vecf v))) 0.
End Sweep.

(** l1 distance of two lists *)
Fixpoint l1dist (a b : list Q) : Q :=
  match a, b with
  | x :: a', y :: b' => Qabs (x - y) + l1dist a' b'
  | _, _ => 0
  end.


End PageRankM.
Export PageRankM.
