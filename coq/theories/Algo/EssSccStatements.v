(** C16 — pinned statements about the DIRECTED branch of [all_cc_upper_bound]
    (Algo/EssScc.v): the component DAG of scc_graph.rs, the bounds propagated through it,
    the step as an operation of the bound-refinement machine.  Statements only. *)
From Coq Require Import List Arith Bool Lia.
Import ListNotations.
From WG Require Import Algo.EssSpec Algo.EssStatements Algo.Ess Algo.EssMachineStatements
  Algo.EssScc.

(** [comp] (component index of every node, indices below [k]) labels the strongly connected
    components: same index iff mutually reachable *)
Definition scc_ok (g : graph) (comp : list nat) (k : nat) : Prop :=
  length comp = length g /\
  (forall u, u < length g -> nth u comp 0 < k) /\
  (forall u v, u < length g -> v < length g ->
     (nth u comp 0 = nth v comp 0 <-> reachable g u v /\ reachable g v u)).

(** the numbering is reverse topological ("Tarjan's algorithm emits components in reverse
    topological order"): an arc never leads to a component of larger index *)
Definition topo_ok (g : graph) (comp : list nat) : Prop :=
  forall u v, u < length g -> In v (succs g u) -> nth v comp 0 <= nth u comp 0.

(** one pivot per component, a node of that component *)
Definition legal_pivots (g : graph) (comp : list nat) (k : nat) (piv : list nat) : Prop :=
  length piv = k /\
  forall c, c < k -> nth c piv 0 < length g /\ nth (nth c piv 0) comp 0 = c.

(** [SccGraph]: every connection (t, s, e) stored for component c is an arc s -> e of the
    graph from a node of c to a node of the different component t; and every component
    reached by an arc leaving c has a connection (any component array, no SCC hypothesis) *)
Definition S_scc_graph_sound : Prop :=
  forall g gt comp k c, length comp = length g -> c < k ->
  (forall t s e, In (t, (s, e)) (nth c (scc_graph g gt comp k) []) ->
     s < length g /\ In e (succs g s) /\ nth s comp 0 = c /\ nth e comp 0 = t /\ t <> c) /\
  (forall u v, u < length g -> In v (succs g u) -> nth u comp 0 = c -> nth v comp 0 <> c ->
     exists s e, In (nth v comp 0, (s, e)) (nth c (scc_graph g gt comp k) [])).

(** after the forward propagation loop the value of every component is an upper bound of
    the forward eccentricity (in the WHOLE graph) of its pivot *)
Definition S_ecc_pivot_f_bound : Prop :=
  forall g gt comp k radial piv x c, wf_graph g = true -> 0 < length g ->
  scc_ok g comp k -> topo_ok g comp -> legal_pivots g comp k piv -> inv g radial x -> c < k ->
  EF g (nth c piv 0) <= nth c (ecc_pivot_f (mk_sdata g gt comp k) piv (length g) x) 0.

(** after the backward propagation loop: an upper bound of the backward eccentricity *)
Definition S_ecc_pivot_b_bound : Prop :=
  forall g gt comp k radial piv x c, wf_graph g = true -> 0 < length g ->
  scc_ok g comp k -> topo_ok g comp -> legal_pivots g comp k piv -> inv g radial x -> c < k ->
  EB g (nth c piv 0) <= nth c (ecc_pivot_b (mk_sdata g gt comp k) piv (length g) x) 0.

(** the values the per-node loop compares with the current upper bounds are upper bounds:
    ecc+(v) <= d(v, pivot) + bound(comp v),  ecc-(v) <= d(pivot, v) + bound(comp v) *)
Definition S_scc_node_bounds : Prop :=
  forall g gt comp k radial piv x v, wf_graph g = true -> 0 < length g ->
  scc_ok g comp k -> topo_ok g comp -> legal_pivots g comp k piv -> inv g radial x ->
  v < length g ->
  EF g v <= node_val_f (mk_sdata g gt comp k) piv (length g) x v /\
  EB g v <= node_val_b (mk_sdata g gt comp k) piv (length g) x v.

(** legal operations of the directed machine WITH the SCC step: visits as before; for the
    SCC step any legal pivots and an iteration order that lists exactly the nodes *)
Definition legal_op_dir (g : graph) (comp : list nat) (k : nat) (o : op) : Prop :=
  match o with
  | OAll piv order => legal_pivots g comp k piv /\ (forall v, In v order <-> v < length g)
  | _ => legal_op g o
  end.

(** every operation, the SCC step included, preserves the invariant of the directed variant:
    for ANY legal pivots and any iteration order *)
Definition S_scc_step_invariant : Prop :=
  forall g gt comp k radial o x, wf_graph g = true -> 0 < length g ->
  scc_ok g comp k -> topo_ok g comp -> legal_op_dir g comp k o -> inv g radial x ->
  inv g radial (step_dir (dist_matrix g) (mk_sdata g gt comp k) radial o x).

Definition S_scc_run_invariant : Prop :=
  forall g gt comp k radial ops, wf_graph g = true -> 0 < length g ->
  scc_ok g comp k -> topo_ok g comp -> Forall (legal_op_dir g comp k) ops ->
  inv g radial (run_ops_dir (dist_matrix g) (mk_sdata g gt comp k) radial ops (init_st (length g) false)).

(** full property for the directed machine with SCC steps: any legal sequence of visits and
    SCC steps that reaches the exit condition of the level yields an output accepted by the
    complete checker *)
Definition S_machine_exact_dir : Prop :=
  forall g gt comp k radial ops l, wf_graph g = true -> 0 < length g ->
  scc_ok g comp k -> topo_ok g comp -> Forall (legal_op_dir g comp k) ops ->
  fst (replay_dir g gt comp k radial ops l) = 0 ->
  check_ess g radial (snd (replay_dir g gt comp k radial ops l)) l = true.

(** the pivots the model of [find_best_pivot] chooses are legal (whatever the state and the
    tie-break data), provided no component index below [k] is unused *)
Definition S_best_pivots_dir_legal : Prop :=
  forall g comp k use_tot tot x, length comp = length g ->
  (forall c, c < k -> exists u, u < length g /\ nth u comp 0 = c) ->
  legal_pivots g comp k (best_pivots_dir use_tot (length g) comp k tot x).

(** the boolean test the driver applies to OBSERVED pivots decides [legal_pivots] *)
Definition S_legal_pivotsb_spec : Prop :=
  forall g comp k piv, legal_pivotsb (length g) comp k piv = true <-> legal_pivots g comp k piv.
