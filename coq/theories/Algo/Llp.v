(** Layered label propagation (algo/src/llp/mod.rs, algo/src/llp/label_store.rs): the
    label-propagation update rule under an arbitrary schedule with arbitrarily stale
    reads, [combine], [combine_labels], [invert_permutation], [labels_to_ranks], and the
    permutation of a graph ([webgraph::transform::permute_seq]).  Definitions only.

    Labelings are lists of [N] of length [n]; arrays are read with [get] (default 0 out of
    range; the theorems never depend on the default) and written with [set] (no effect
    out of range: the Rust code would panic there, the public entry point
    [llp_combine_labels] refuses such inputs). *)
From WG Require Import Base.Prelude.

Module LlpM.
Local Open Scope N_scope.

(** * Arrays *)
Definition ids (n : nat) : list N := nseq 0 n.

Definition get (l : list N) (i : N) : N := nth (N.to_nat i) l 0.

Fixpoint set_nth (l : list N) (i : nat) (v : N) : list N :=
  match l, i with
  | [], _ => []
  | _ :: l', O => v :: l'
  | x :: l', S i' => x :: set_nth l' i' v
  end.
Definition set (l : list N) (i v : N) : list N := set_nth l (N.to_nat i) v.

(** * Sorting node identifiers by a key
    Both sorts of the Rust code compare node identifiers by a key that ends with the
    identifier itself ([combine]: explicitly, "to make it stable"; [labels_to_ranks]: a
    stable sort of the increasing sequence of identifiers), hence by a total order without
    ties: the sorted sequence is unique whatever (parallel, unstable) algorithm computes
    it.  The model sorts the 4-tuples with the stdlib merge sort. *)
Definition key : Type := (N * N * N * N)%type.

Definition key_leb (x y : key) : bool :=
  let '(x1, x2, x3, x4) := x in
  let '(y1, y2, y3, y4) := y in
  if x1 <? y1 then true else if y1 <? x1 then false else
  if x2 <? y2 then true else if y2 <? x2 then false else
  if x3 <? y3 then true else if y3 <? x3 then false else
  x4 <=? y4.

Module KeyOrder <: TotalLeBool.
  Definition t := key.
  Definition leb := key_leb.
  Theorem leb_total : forall a1 a2, leb a1 a2 = true \/ leb a2 a1 = true.
  Proof.
    intros [[[a1 a2] a3] a4] [[[b1 b2] b3] b4]. unfold leb, key_leb.
    destruct (N.ltb_spec a1 b1); [left; reflexivity|].
    destruct (N.ltb_spec b1 a1); [right; reflexivity|].
    destruct (N.ltb_spec a2 b2); [left; reflexivity|].
    destruct (N.ltb_spec b2 a2); [right; reflexivity|].
    destruct (N.ltb_spec a3 b3); [left; reflexivity|].
    destruct (N.ltb_spec b3 a3); [right; reflexivity|].
    destruct (N.leb_spec a4 b4); [left; reflexivity|right].
    apply N.leb_le. lia.
  Qed.
End KeyOrder.
Module KeySort := Sort KeyOrder.

Definition key_id (k : key) : N := snd k.

Definition sort_ids (kf : N -> key) (l : list N) : list N :=
  map key_id (KeySort.sort (map kf l)).

(** * [combine] *)
(** the comparator of [combine]: (result[labels[a]], labels[a], result[a], a) *)
Definition ckey (result labels : list N) (a : N) : key :=
  (get result (get labels a), get labels a, get result a, a).

Definition pair_eqb (p q : N * N) : bool := (fst p =? fst q) && (snd p =? snd q).

(** the relabelling loop, in place: [result] is read at [temp_perm[i]] after the entries
    at [temp_perm[0..i)] have been overwritten *)
Fixpoint relabel_loop (perm labels : list N) (prev : N * N) (cur : N) (result : list N)
  : list N * N :=
  match perm with
  | [] => (result, cur)
  | a :: rest =>
    let p := (get result a, get labels a) in
    let cur' := if pair_eqb prev p then cur else cur + 1 in
    relabel_loop rest labels p cur' (set result a cur')
  end.

(** [combine(result, labels, temp_perm)]: the new [result] and the number of labels.  On
    empty arrays the Rust function would panic ([temp_perm[0]]); [combine_labels] never
    gets there (see [llp_combine_labels]). *)
Definition llp_combine (result labels : list N) : list N * N :=
  match sort_ids (ckey result labels) (ids (length result)) with
  | [] => (result, 1)
  | a0 :: rest =>
    let prev := (get result a0, get labels a0) in
    let '(r, cur) := relabel_loop rest labels prev 0 (set result a0 0) in
    (r, cur + 1)
  end.

(** * [combine_labels] *)
(** A stored labeling with its log-gap cost (as a key of [f64::total_cmp]).
    [gammas.sort_by(|a, b| b.total_cmp(a))]: stable, descending. *)
Definition stored : Type := (Z * list N)%type.

Fixpoint insert_desc (x : stored) (l : list stored) : list stored :=
  match l with
  | [] => [x]
  | y :: l' => if (fst y <=? fst x)%Z then x :: l else y :: insert_desc x l'
  end.
Fixpoint sort_desc (l : list stored) : list stored :=
  match l with [] => [] | x :: l' => insert_desc x (sort_desc l') end.

(** what [combine_labels] needs not to fail: equal lengths, and (when there are at least
    two nodes, so that the comparator runs) labels that are node identifiers *)
Definition labels_ok (n : nat) (l : list N) : bool :=
  (length l =? n)%nat && ((n <=? 1)%nat || forallb (fun v => v <? N.of_nat n) l).

Definition combine_step (best : list N) (r : list N) (g : stored) : list N :=
  fst (llp_combine (fst (llp_combine r (snd g))) best).

(** [fam]: the stored labelings in directory order.  [None] = error return or panic. *)
Definition llp_combine_labels (fam : list stored) : option (list N) :=
  match fam with
  | [] => None
  | (_, l0) :: _ =>
    let n := length l0 in
    if (n =? 0)%nat then None
    else if negb (forallb (fun g => labels_ok n (snd g)) fam) then None
    else
      let sorted := sort_desc fam in
      let best := snd (last sorted (0%Z, [])) in
      Some (fold_left (combine_step best) sorted best)
  end.

(** * [invert_permutation] and [labels_to_ranks] *)
(** [inv_perm[perm[i]] = i] for every [i], in the order [sched] in which the parallel
    iterator happens to perform the writes *)
Definition invert_sched (sched : list N) (perm inv : list N) : list N :=
  fold_left (fun inv i => set inv (get perm i) i) sched inv.

Definition invert_permutation (perm : list N) : list N :=
  invert_sched (ids (length perm)) perm (repeat 0 (length perm)).

(** stable sort of 0..n by label = sort by (label, id) *)
Definition rkey (labels : list N) (a : N) : key := (0, 0, get labels a, a).

Definition labels_to_ranks (labels : list N) : list N :=
  invert_permutation (sort_ids (rkey labels) (ids (length labels))).

(** * Permuting a graph *)
Definition graph : Type := list (list N).

Definition arcs_of (g : graph) : list (N * N) :=
  flat_map (fun us => map (pair (fst us)) (snd us)) (List.combine (ids (length g)) g).

Definition permute_arcs (pi : list N) (a : list (N * N)) : list (N * N) :=
  map (fun uv => (get pi (fst uv), get pi (snd uv))) a.

Definition graph_of_arcs (n : nat) (a : list (N * N)) : graph :=
  map (fun x => nsort (map snd (filter (fun p => fst p =? x) a))) (ids n).

Definition permute_graph (pi : list N) (g : graph) : graph :=
  graph_of_arcs (length g) (permute_arcs pi (arcs_of g)).

Definition has_arc (g : graph) (u v : N) : Prop := In v (nth (N.to_nat u) g []).

(** * The label-propagation update rule
    [LabelStore]: the label of each node and the number of nodes carrying each label.  A
    step [(node, src, age)] is what one iteration of the inner loop of
    [layered_label_propagation_labels_only] can do to the store: the node takes the label
    that [src] — itself or one of its successors — carried [age] updates ago (the read of
    a neighbour's label and the write are not atomic, other threads update the store in
    between), and the volumes follow.  Which label is chosen (gamma, volumes, the
    random tie-break) and when the loop stops (the predicate) only select a schedule. *)
Record lp_state := mkLp { lp_labels : list N; lp_volumes : list N }.

Definition lp_init (n : nat) : lp_state := mkLp (ids n) (repeat 1 n).

Definition lp_update (st : lp_state) (node new : N) : lp_state :=
  let old := get (lp_labels st) node in
  let v1 := set (lp_volumes st) old (get (lp_volumes st) old - 1) in
  mkLp (set (lp_labels st) node new) (set v1 new (get v1 new + 1)).

Definition lp_legal (g : graph) (node src : N) : bool :=
  (node <? nlen g) && ((src =? node) || existsb (N.eqb src) (nth (N.to_nat node) g [])).

(** [hist]: the states so far, most recent first *)
Definition lp_step (g : graph) (hist : list lp_state) (e : N * N * nat) : list lp_state :=
  let '(node, src, age) := e in
  match hist with
  | [] => []
  | cur :: _ =>
    if lp_legal g node src then
      let new := get (lp_labels (nth age hist cur)) src in
      if new =? get (lp_labels cur) node then hist else lp_update cur node new :: hist
    else hist
  end.

Definition lp_run (g : graph) (sched : list (N * N * nat)) : list lp_state :=
  fold_left (lp_step g) sched [lp_init (length g)].

Definition lp_final (g : graph) (sched : list (N * N * nat)) : lp_state :=
  hd (lp_init (length g)) (lp_run g sched).

Fixpoint ncount (x : N) (l : list N) : N :=
  match l with [] => 0 | y :: l' => (if y =? x then 1 else 0) + ncount x l' end.

(** * Checkers (specifications of the oracle) *)
Definition check_lt (n : N) (l : list N) : bool := forallb (fun v => v <? n) l.

Definition check_perm (p : list N) : bool :=
  forallb (fun i => existsb (N.eqb i) p) (ids (length p)).

(** downward closed: every positive value has its predecessor *)
Definition check_dense (r : list N) : bool :=
  forallb (fun v => (v =? 0) || existsb (N.eqb (v - 1)) r) r.

Fixpoint list_eqb (l1 l2 : list N) : bool :=
  match l1, l2 with
  | [], [] => true
  | x :: l1', y :: l2' => (x =? y) && list_eqb l1' l2'
  | _, _ => false
  end.

Definition rows (r : list N) (fam : list (list N)) : list (N * list N) :=
  map (fun a => (get r a, map (fun l => get l a) fam)) (ids (length r)).

Definition check_refinement (r : list N) (fam : list (list N)) : bool :=
  let rs := rows r fam in
  forallb (fun x => forallb (fun y =>
    Bool.eqb (fst x =? fst y) (list_eqb (snd x) (snd y))) rs) rs.

(** [q] is a left inverse of [p] *)
Definition check_inverse (p q : list N) : bool :=
  (length q =? length p)%nat && forallb (fun i => get q (get p i) =? i) (ids (length p)).

Definition check_monotone (labels ranks : list N) : bool :=
  let n := length labels in
  forallb (fun a => forallb (fun b =>
    let la := get labels a in
    let lb := get labels b in
    if (la <? lb) || ((la =? lb) && (a <? b)) then get ranks a <? get ranks b else true)
    (ids n)) (ids n).

Definition has_arcb (g : graph) (u v : N) : bool :=
  existsb (N.eqb v) (nth (N.to_nat u) g []).

(** every arc of [g] is mapped by [pi] to an arc of [h] and every arc of [h] is mapped by
    the inverse of [pi] to an arc of [g] *)
Definition check_iso (pi : list N) (g h : graph) : bool :=
  let inv := invert_permutation pi in
  (length g =? length h)%nat &&
  forallb (fun uv => has_arcb h (get pi (fst uv)) (get pi (snd uv))) (arcs_of g) &&
  forallb (fun xy => has_arcb g (get inv (fst xy)) (get inv (snd xy))) (arcs_of h).


End LlpM.
Export LlpM.
