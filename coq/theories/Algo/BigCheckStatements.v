(** Pinned statements about the n log n checkers of Algo/BigCheck.v (the oracles of the
    large-n probes of C15 and C17).  Statements only.

    Each checker DECIDES its specification, and the specification is the one of the small-n
    machinery: [check_perm] / [check_inverse] / [check_monotone] of Algo/Llp.v (themselves
    proved to decide the Prop-level specifications in C17) and the conclusion of
    [S_sort_by_size] (C15). *)
From WG Require Import Base.Prelude Algo.Scc Algo.SccStatements.
From WG Require Import Algo.Llp Algo.LlpStatements Algo.BigCheck.
Local Open Scope N_scope.

(** ** The merge sort: a permutation of its input, sorted by the first component *)
Definition S_ksort_correct : Prop :=
  forall (A : Type) (l : list (N * A)),
  Permutation (ksort l) l /\ StronglySorted N.le (map fst (ksort l)).

(** ** [invert_permutation] *)
Definition S_big_inverse_spec : Prop :=
  forall p q : list N,
  big_check_inverse p q = true <-> (check_perm p = true /\ check_inverse p q = true).

(** the same against the Prop-level specification ([S_check_perm], [S_check_inverse]) *)
Definition S_big_inverse_prop : Prop :=
  forall p q : list N,
  big_check_inverse p q = true <->
  (is_perm p /\ length q = length p /\ forall i, i < nlen p -> get q (get p i) = i).

(** the checker accepts exactly the output of the model of [invert_permutation] (which does
    not depend on the order of the parallel writes, [S_invert_perm]) *)
Definition S_big_inverse_model : Prop :=
  forall p q : list N,
  big_check_inverse p q = true <-> (is_perm p /\ q = invert_permutation p).

(** ** [labels_to_ranks] *)
Definition S_big_ranks_spec : Prop :=
  forall labels ranks : list N,
  big_check_ranks labels ranks = true <->
  (length ranks = length labels /\ check_perm ranks = true /\
   check_monotone labels ranks = true).

(** the same against the Prop-level specification ([S_check_perm], [S_check_monotone]; the
    conclusions of [S_ranks_perm] and [S_ranks_monotone]) *)
Definition S_big_ranks_prop : Prop :=
  forall labels ranks : list N,
  big_check_ranks labels ranks = true <->
  (length ranks = length labels /\ is_perm ranks /\
   forall a b, a < nlen labels -> b < nlen labels ->
     (get labels a < get labels b -> get ranks a < get ranks b) /\
     (get labels a = get labels b -> a < b -> get ranks a < get ranks b)).

(** the checker accepts the output of the model of [labels_to_ranks] on arbitrary labels *)
Definition S_big_ranks_model : Prop :=
  forall labels : list N, big_check_ranks labels (labels_to_ranks labels) = true.

(** ** [sort_by_size] / [par_sort_by_size]
    The hypothesis of [S_sort_by_size] on the old array and the five conclusions about the
    arrays (same length, same partition, new indices below [k], the returned sizes are the
    sizes of the new numbering and are non-increasing). *)
Definition sort_by_size_post (k : nat) (comp comp' sizes' : list nat) : Prop :=
  (Forall (fun c => c < k) comp
   /\ length comp' = length comp
   /\ (forall u v, u < length comp -> v < length comp ->
         (nth u comp' 0 = nth v comp' 0 <-> nth u comp 0 = nth v comp 0))
   /\ Forall (fun c => c < k) comp'
   /\ sizes' = SccM.compute_sizes comp' k
   /\ Sorted ge sizes')%nat.

Definition S_big_sort_by_size_spec : Prop :=
  forall (k : N) (old new sizes : list N),
  big_check_sort_by_size k old new sizes = true <->
  sort_by_size_post (N.to_nat k) (map N.to_nat old) (map N.to_nat new) (map N.to_nat sizes).

(** the checker accepts what the model of [sort_by_size] returns, for every permutation the
    unstable sort of the component indices may produce *)
Definition S_big_sort_by_size_model : Prop :=
  forall (comp : list nat) (k : nat) (perm : list nat),
  Forall (fun c => (c < k)%nat) comp ->
  SccM.sorts_by_size (SccM.compute_sizes comp k) perm ->
  big_check_sort_by_size (N.of_nat k) (map N.of_nat comp)
    (map N.of_nat (fst (SccM.sort_by_size comp k perm)))
    (map N.of_nat (snd (SccM.sort_by_size comp k perm))) = true.
