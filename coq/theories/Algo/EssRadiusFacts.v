(** C16a — proofs: a connected component on m nodes has a node of eccentricity <= m/2; the
    symmetric exit theorems without the hypothesis "radius <= n/2". *)
From Coq Require Import List Arith Bool Lia.
Import ListNotations.
From WG Require Import Algo.EssSpec Algo.EssStatements Algo.EssSpecFacts Algo.Ess
  Algo.EssMachineStatements Algo.EssFacts Algo.EssSymmStatements Algo.EssSymmFacts
  Algo.EssRadiusStatements.

(** ---- counting ---- *)
Lemma NoDup_map_local : forall (f : nat -> nat) l,
  (forall x y, In x l -> In y l -> f x = f y -> x = y) -> NoDup l -> NoDup (map f l).
Proof.
  intros f l. induction l as [|a l IH]; intros Hinj Hnd; cbn [map]; [constructor|].
  inversion Hnd as [|a' l' Ha Hl]; subst. constructor.
  - intros Hin. apply in_map_iff in Hin. destruct Hin as [b [Hfb Hb]].
    assert (b = a) by (apply Hinj; [right; exact Hb | left; reflexivity | exact Hfb]).
    subst b. contradiction.
  - apply IH; [|exact Hl]. intros x y Hx Hy. apply Hinj; right; assumption.
Qed.

Lemma filter_length_le_local : forall (f : nat -> bool) l, length (filter f l) <= length l.
Proof.
  intros f l. induction l as [|a l IH]; cbn [filter length]; [lia|].
  destruct (f a); cbn [length]; lia.
Qed.

(** ---- walks as functions [position -> node] ---- *)
Definition arcs_along (g : graph) (p : nat -> nat) (k : nat) : Prop :=
  forall i, i < k -> In (p (S i)) (succs g (p i)).

Lemma walk_path_fun : forall g s v k, walk g s v k ->
  exists p, p 0 = s /\ p k = v /\ arcs_along g p k.
Proof.
  intros g s v k H. induction H as [|u v k H IH Hin].
  - exists (fun _ => s). split; [reflexivity|]. split; [reflexivity|]. intros i Hi. lia.
  - destruct IH as [p [H0 [Hk Ha]]].
    exists (fun i => if i =? S k then v else p i). split; [|split].
    + cbn. exact H0.
    + rewrite Nat.eqb_refl. reflexivity.
    + intros i Hi. assert (E1 : (i =? S k) = false) by (apply Nat.eqb_neq; lia). rewrite E1.
      destruct (Nat.eq_dec i k) as [->|Hne].
      * rewrite Nat.eqb_refl, Hk. exact Hin.
      * assert (E2 : (S i =? S k) = false) by (apply Nat.eqb_neq; lia). rewrite E2.
        apply Ha. lia.
Qed.

Lemma path_walk : forall g p k, arcs_along g p k ->
  forall d a, a + d <= k -> walk g (p a) (p (a + d)) d.
Proof.
  intros g p k Ha d. induction d as [|d IH]; intros a Hle.
  - rewrite Nat.add_0_r. constructor.
  - rewrite Nat.add_succ_r. eapply walk_step; [apply IH; lia | apply Ha; lia].
Qed.

Lemma path_walk_to : forall g p k a b, arcs_along g p k -> a <= b -> b <= k ->
  walk g (p a) (p b) (b - a).
Proof.
  intros g p k a b Ha Hab Hbk. replace b with (a + (b - a)) at 1 by lia.
  eapply path_walk; [exact Ha | lia].
Qed.

(** along a shortest walk, the node at position [i] is at distance [i] *)
Lemma path_dist : forall g s v k p, is_dist g s v k -> p 0 = s -> p k = v -> arcs_along g p k ->
  forall i, i <= k -> is_dist g s (p i) i.
Proof.
  intros g s v k p [Hw Hmin] H0 Hk Ha i Hi. split.
  - pose proof (path_walk_to g p k 0 i Ha (Nat.le_0_l i) Hi) as W.
    rewrite H0, Nat.sub_0_r in W. exact W.
  - intros j Hj. pose proof (path_walk_to g p k i k Ha Hi (le_n k)) as W. rewrite Hk in W.
    pose proof (Hmin _ (walk_app _ _ _ _ _ _ Hj W)). lia.
Qed.

Section Radius.
  Variable g : graph.
  Hypothesis Hwf : wf_graph g = true.
  Hypothesis Hsym : symmetric_graph g.
  Let dm := dist_matrix g.

  Lemma EF_is_ecc : forall v, v < length g -> is_ecc_f g v (EF g v).
  Proof. intros v Hv. apply ecc_spec; assumption. Qed.

  (** the two shortest paths of the argument share no node besides their origin: a common
      node would give a walk of length k - 1 from p1 to z *)
  Lemma two_paths_cross : forall c e k p q z e1,
    arcs_along g p e -> arcs_along g q k -> p 0 = c -> q 0 = c -> q k = z ->
    (forall i, i <= e -> is_dist g c (p i) i) -> (forall j, j <= k -> is_dist g c (q j) j) ->
    is_dist g (p 1) z e1 -> k <= e1 ->
    forall i j, i <= e -> 1 <= j -> j <= k -> p i = q j -> False.
  Proof.
    intros c e k p q z e1 Hap Haq Hp0 Hq0 Hqk Hdp Hdq [_ Hz] Hke1 i j Hi Hj1 Hjk Heq.
    assert (Hij : i = j).
    { eapply is_dist_unique; [apply Hdp; exact Hi|]. rewrite Heq. apply Hdq. exact Hjk. }
    subst j.
    pose proof (path_walk_to g p e 1 i Hap Hj1 Hi) as W1.
    pose proof (path_walk_to g q k i k Haq Hjk (le_n k)) as W2.
    rewrite Hqk, <- Heq in W2.
    pose proof (Hz _ (walk_app _ _ _ _ _ _ W1 W2)). lia.
  Qed.

  (** the core counting argument: if the first node p1 of a shortest path from c to a
      farthest node has eccentricity >= ecc(c) = e >= 1, then c reaches 2e distinct nodes *)
  Lemma two_paths_count : forall c e w p z e1,
    (forall x k, is_dist g c x k -> k <= e) -> is_dist g c w e -> 1 <= e ->
    p 0 = c -> p e = w -> arcs_along g p e ->
    is_dist g (p 1) z e1 -> e <= e1 ->
    exists L, NoDup L /\ (forall x, In x L -> reachable g c x) /\ 2 * e <= length L.
  Proof.
    intros c e w p z e1 Hecc Hw He1 Hp0 Hpe Hap Hz Hee1.
    pose proof (path_dist g c w e p Hw Hp0 Hpe Hap) as Hdp.
    (* p1 is a neighbour of c *)
    assert (Wc1 : walk g c (p 1) 1).
    { pose proof (path_walk_to g p e 0 1 Hap (Nat.le_0_l 1) He1) as W. rewrite Hp0 in W. exact W. }
    assert (W1c : walk g (p 1) c 1) by (apply walk_rev; assumption).
    (* z is reachable from c, at a distance k with e1 - 1 <= k <= e *)
    destruct Hz as [Wz Hzmin].
    destruct (walk_min g c z _ (walk_app _ _ _ _ _ _ Wc1 Wz)) as [k Hk].
    assert (Hke : k <= e) by (eapply Hecc; exact Hk).
    assert (He1k : e1 <= 1 + k).
    { destruct Hk as [Wk _]. apply Hzmin. eapply walk_app; [exact W1c | exact Wk]. }
    destruct (walk_path_fun g c z k (proj1 Hk)) as [q [Hq0 [Hqk Haq]]].
    pose proof (path_dist g c z k q Hk Hq0 Hqk Haq) as Hdq.
    assert (Hcross : forall i j, i <= e -> 1 <= j -> j <= k -> p i = q j -> False).
    { apply (two_paths_cross c e k p q z e1); try assumption; [split; assumption | lia]. }
    set (f := fun i => if i <=? e then p i else q (i - e)).
    exists (map f (seq 0 (e + k + 1))). split; [|split].
    - apply NoDup_map_local; [|apply seq_NoDup].
      intros x y Hx Hy Hf. apply in_seq in Hx. apply in_seq in Hy. unfold f in Hf.
      destruct (x <=? e) eqn:Ex; destruct (y <=? e) eqn:Ey.
      + apply Nat.leb_le in Ex. apply Nat.leb_le in Ey.
        eapply is_dist_unique; [apply Hdp; exact Ex|]. rewrite Hf. apply Hdp. exact Ey.
      + apply Nat.leb_le in Ex. apply Nat.leb_gt in Ey. exfalso.
        apply (Hcross x (y - e)); [exact Ex | lia | lia | exact Hf].
      + apply Nat.leb_gt in Ex. apply Nat.leb_le in Ey. exfalso.
        apply (Hcross y (x - e)); [exact Ey | lia | lia | symmetry; exact Hf].
      + apply Nat.leb_gt in Ex. apply Nat.leb_gt in Ey.
        assert (x - e = y - e); [|lia].
        eapply is_dist_unique; [apply Hdq; lia|]. rewrite Hf. apply Hdq. lia.
    - intros x Hx. apply in_map_iff in Hx. destruct Hx as [i [<- Hi]]. apply in_seq in Hi.
      unfold f. destruct (i <=? e) eqn:Ei.
      + apply Nat.leb_le in Ei. exists i. apply Hdp. exact Ei.
      + apply Nat.leb_gt in Ei. exists (i - e). apply Hdq. lia.
    - rewrite map_length, seq_length. lia.
  Qed.

  (** one step towards a centre: from a node of positive eccentricity, either a neighbour has
      smaller eccentricity or the component is at least twice as large as the eccentricity *)
  Lemma center_step : forall c, c < length g -> 0 < EF g c ->
    exists p1, In p1 (succs g c) /\
      (EF g p1 < EF g c \/
       exists L, NoDup L /\ (forall x, In x L -> reachable g c x) /\ 2 * EF g c <= length L).
  Proof.
    intros c Hc He. destruct (EF_is_ecc c Hc) as [[w Hw] Hmax].
    destruct (walk_path_fun g c w _ (proj1 Hw)) as [p [Hp0 [Hpe Hap]]].
    assert (Harc : In (p 1) (succs g c)) by (rewrite <- Hp0; apply Hap; lia).
    exists (p 1). split; [exact Harc|].
    destruct (Nat.lt_ge_cases (EF g (p 1)) (EF g c)) as [Hlt|Hge]; [left; exact Hlt | right].
    assert (Hp1 : p 1 < length g) by (eapply succs_lt; eassumption).
    destruct (EF_is_ecc (p 1) Hp1) as [[z Hz] _].
    apply (two_paths_count c (EF g c) w p z (EF g (p 1))); try assumption; lia.
  Qed.

  Lemma center_exists : forall m c, EF g c <= m -> c < length g ->
    exists c' L, reachable g c c' /\ NoDup L /\ (forall x, In x L -> reachable g c x) /\
                 2 * EF g c' <= length L.
  Proof.
    induction m as [|m IH]; intros c Hm Hc.
    - exists c, []. split; [exists 0; constructor|]. split; [constructor|].
      split; [intros x []|]. lia.
    - destruct (Nat.eq_0_gt_0_cases (EF g c)) as [H0|Hpos].
      { exists c, []. split; [exists 0; constructor|]. split; [constructor|].
        split; [intros x []|]. lia. }
      destruct (center_step c Hc Hpos) as [p1 [Harc [Hlt|[L [Hnd [Hr Hlen]]]]]].
      + assert (Hp1 : p1 < length g) by (eapply succs_lt; eassumption).
        assert (Wc1 : walk g c p1 1) by (eapply walk_step; [constructor | exact Harc]).
        destruct (IH p1 ltac:(lia) Hp1) as [c' [L [[k Hk] [Hnd [Hr Hlen]]]]].
        exists c', L. split; [exists (1 + k); eapply walk_app; eassumption|].
        split; [exact Hnd|]. split; [|exact Hlen].
        intros x Hx. destruct (Hr x Hx) as [j Hj]. exists (1 + j). eapply walk_app; eassumption.
      + exists c, L. split; [exists 0; constructor|]. split; [exact Hnd|]. split; assumption.
  Qed.

  Lemma reaches_dget : forall v w, reaches dm v w = true <-> dget dm v w <> None.
  Proof.
    intros v w. unfold reaches. destruct (dget dm v w); split; intros H; try reflexivity;
      try discriminate; congruence.
  Qed.

  (** distinct nodes reachable from v0 are counted by [scc_size] *)
  Lemma reachable_count : forall v0 L, v0 < length g -> NoDup L ->
    (forall x, In x L -> reachable g v0 x) -> length L <= scc_size dm v0.
  Proof.
    intros v0 L Hv0 Hnd Hr. unfold scc_size. apply NoDup_incl_length; [exact Hnd|].
    intros x Hx. specialize (Hr x Hx).
    assert (Hxl : x < length g) by (destruct Hr as [k Hk]; eapply walk_lt; eassumption).
    apply filter_In. split.
    - apply in_seq. unfold dm. rewrite dist_matrix_length. lia.
    - apply andb_true_iff. split.
      + apply (reaches_iff g v0 x); assumption.
      + apply (reaches_iff g x v0); try assumption.
        destruct Hr as [k Hk]. exists k. apply walk_rev; assumption.
  Qed.

  Lemma scc_size_le_n : forall v0, scc_size dm v0 <= length g.
  Proof.
    intros v0. unfold scc_size.
    etransitivity; [apply filter_length_le_local|]. rewrite seq_length. unfold dm.
    rewrite dist_matrix_length. lia.
  Qed.

  Lemma component_center_g : forall v0, v0 < length g ->
    exists c, c < length g /\ dget dm v0 c <> None /\ 2 * EF g c <= scc_size dm v0.
  Proof.
    intros v0 Hv0. destruct (center_exists (EF g v0) v0 (le_n _) Hv0) as [c [L [Hc [Hnd [Hr Hlen]]]]].
    assert (Hcl : c < length g) by (destruct Hc as [k Hk]; eapply walk_lt; eassumption).
    exists c. split; [exact Hcl|]. split.
    - apply reaches_dget. apply (reaches_iff g v0 c); assumption.
    - pose proof (reachable_count v0 L Hv0 Hnd Hr). lia.
  Qed.

  Lemma component_radius_half_size_g : forall radial v0 r,
    v0 < length g -> nth v0 radial false = true ->
    (forall v, v < length g -> dget dm v0 v <> None -> nth v radial false = true) ->
    radius_from (eccs_f dm) radial = Some r -> r <= scc_size dm v0 / 2.
  Proof.
    intros radial v0 r Hv0 _ Hcl Hr.
    destruct (component_center_g v0 Hv0) as [c [Hc [Hd Hle]]].
    assert (Hn : 0 < length g) by lia.
    assert (Hrc : r <= EF g c) by (eapply radius_le_radial; [exact Hr | exact Hc | exact (Hcl c Hc Hd)]).
    apply Nat.div_le_lower_bound; lia.
  Qed.

  Lemma component_radius_half_g : forall radial r, contains_component g radial ->
    radius_from (eccs_f dm) radial = Some r -> r <= length g / 2.
  Proof.
    intros radial r [v0 [Hv0 [Hrad Hcl]]] Hr.
    pose proof (component_radius_half_size_g radial v0 r Hv0 Hrad Hcl Hr) as H.
    etransitivity; [exact H|]. apply Nat.div_le_mono; [lia | apply scc_size_le_n].
  Qed.

  Lemma radial_closed_radius_half_g : forall radial, radial_closed g radial ->
    forall r, radius_from (eccs_f dm) radial = Some r -> r <= length g / 2.
  Proof.
    intros radial [Hnone|Hcomp] r Hr; [|eapply component_radius_half_g; eassumption].
    exfalso. assert (E : radius_from (eccs_f dm) radial = None); [|congruence].
    apply radius_from_none. unfold dm. rewrite eccs_f_length. exact Hnone.
  Qed.

  Lemma default_radial_closed_g : forall c, c < length g -> contains_component g (radial_of dm c).
  Proof.
    intros c Hc. exists c.
    assert (Hnth : forall v, v < length g -> nth v (radial_of dm c) false = reaches dm v c).
    { intros v Hv. unfold radial_of, dm. rewrite dist_matrix_length.
      apply (nth_map_seq (fun u => reaches (dist_matrix g) u c)). exact Hv. }
    split; [exact Hc|]. split.
    - rewrite Hnth by exact Hc. apply (reaches_iff g c c); try assumption. exists 0. constructor.
    - intros v Hv Hd. rewrite Hnth by exact Hv. apply reaches_dget.
      unfold dm. rewrite (symm_dist g v c Hwf Hsym Hv Hc). exact Hd.
  Qed.
End Radius.

Theorem component_center : S_component_center.
Proof. intros g v0 Hwf Hsym Hv0. apply component_center_g; assumption. Qed.

Theorem component_radius_half_size : S_component_radius_half_size.
Proof.
  intros g radial v0 r Hwf Hsym Hv0 Hrad Hcl Hr. eapply component_radius_half_size_g; eassumption.
Qed.

Theorem component_radius_half : S_component_radius_half.
Proof. intros g radial r Hwf Hsym Hc Hr. eapply component_radius_half_g; eassumption. Qed.

Theorem radial_closed_radius_half : S_radial_closed_radius_half.
Proof. intros g radial Hwf Hsym Hc. apply radial_closed_radius_half_g; assumption. Qed.

Theorem symm_run_invariant_closed : S_symm_run_invariant_closed.
Proof.
  intros g radial ops Hwf Hn Hsym Hl Hc. apply symm_run_invariant; try assumption.
  intros r Hr. pose proof (radial_closed_radius_half g radial Hwf Hsym Hc r Hr). lia.
Qed.

Theorem symm_exit_exact_closed : S_symm_exit_exact_closed.
Proof.
  intros g radial l x Hwf Hn Hsym I Hc Hm. apply symm_exit_exact; try assumption.
  apply radial_closed_radius_half; assumption.
Qed.

Theorem symm_machine_exact_closed : S_symm_machine_exact_closed.
Proof.
  intros g radial ops l Hwf Hn Hsym Hl Hc Hz. apply symm_machine_exact; try assumption.
  apply radial_closed_radius_half; assumption.
Qed.

Theorem symm_default_radial_closed : S_symm_default_radial_closed.
Proof. intros g c Hwf Hsym Hc. apply default_radial_closed_g; assumption. Qed.

Theorem symm_machine_exact_default : S_symm_machine_exact_default.
Proof.
  intros g c ops l Hwf Hsym Hc Hl Hz. apply symm_machine_exact_closed; try assumption; [lia|].
  right. apply symm_default_radial_closed; assumption.
Qed.

Theorem symm_machine_exact_default_checker : S_symm_machine_exact_default_checker.
Proof.
  intros g c ops l Hwf Hsym Hin Hl Hz.
  assert (Hc : c < length g).
  { unfold largest_scc_nodes in Hin. apply filter_In in Hin. destruct Hin as [Hin _].
    apply in_seq in Hin. rewrite dist_matrix_length in Hin. lia. }
  unfold check_ess_default. apply existsb_exists. exists c. split; [exact Hin|].
  apply (symm_machine_exact_default g c ops l); assumption.
Qed.
