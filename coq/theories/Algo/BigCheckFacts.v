(** Proofs of the statements of Algo/BigCheckStatements.v. *)
From WG Require Import Base.Prelude Algo.Scc Algo.SccStatements Algo.SccFacts.
From WG Require Import Algo.Llp Algo.LlpStatements Algo.LlpFacts.
From WG Require Import Algo.BigCheck Algo.BigCheckStatements.
From Coq Require Import ZifyBool ZifyN ZifyNat.
Local Open Scope N_scope.

(** * The merge sort *)
Definition ksorted {A} (l : list (N * A)) : Prop := StronglySorted N.le (map fst l).

Section KSortFacts.
  Context {A : Type}.
  Implicit Types l : list (N * A).
  Implicit Types ls : list (list (N * A)).

  Lemma kmerge_nil_l l : kmerge [] l = l.
  Proof. destruct l; reflexivity. Qed.

  Lemma kmerge_nil_r l : kmerge l [] = l.
  Proof. destruct l; reflexivity. Qed.

  Lemma kmerge_cons (x1 : N * A) r1 (x2 : N * A) r2 :
    kmerge (x1 :: r1) (x2 :: r2) =
    if fst x1 <=? fst x2 then x1 :: kmerge r1 (x2 :: r2) else x2 :: kmerge (x1 :: r1) r2.
  Proof. reflexivity. Qed.

  Lemma kmerge_perm l1 : forall l2, Permutation (kmerge l1 l2) (l1 ++ l2).
  Proof.
    induction l1 as [|x1 r1 IH1]; intros l2; [rewrite kmerge_nil_l; reflexivity|].
    induction l2 as [|x2 r2 IH2]; [rewrite kmerge_nil_r, app_nil_r; reflexivity|].
    rewrite kmerge_cons. destruct (fst x1 <=? fst x2).
    - cbn [app]. constructor. apply IH1.
    - rewrite IH2. apply Permutation_middle.
  Qed.

  Lemma ksorted_cons_inv (x : N * A) l :
    ksorted (x :: l) -> ksorted l /\ forall y, In y l -> fst x <= fst y.
  Proof.
    unfold ksorted. cbn [map]. intros H. inversion H as [|? ? Hs Hall]; subst.
    split; [exact Hs|]. intros y Hy. rewrite Forall_forall in Hall. apply Hall.
    apply in_map. exact Hy.
  Qed.

  Lemma ksorted_cons (x : N * A) l :
    ksorted l -> (forall y, In y l -> fst x <= fst y) -> ksorted (x :: l).
  Proof.
    unfold ksorted. cbn [map]. intros Hs Hall. constructor; [exact Hs|].
    apply Forall_forall. intros k Hk. apply in_map_iff in Hk. destruct Hk as [y [<- Hy]].
    apply Hall. exact Hy.
  Qed.

  Lemma kmerge_sorted l1 : forall l2, ksorted l1 -> ksorted l2 -> ksorted (kmerge l1 l2).
  Proof.
    induction l1 as [|x1 r1 IH1]; intros l2 H1 H2; [rewrite kmerge_nil_l; exact H2|].
    induction l2 as [|x2 r2 IH2]; [rewrite kmerge_nil_r; exact H1|].
    rewrite kmerge_cons.
    destruct (ksorted_cons_inv _ _ H1) as [H1' Hx1]. destruct (ksorted_cons_inv _ _ H2) as [H2' Hx2].
    destruct (fst x1 <=? fst x2) eqn:E.
    - apply N.leb_le in E. apply ksorted_cons; [apply IH1; assumption|].
      intros y Hy. apply (Permutation_in _ (kmerge_perm _ _)) in Hy. apply in_app_or in Hy.
      destruct Hy as [Hy|[<-|Hy]]; [apply Hx1; exact Hy|exact E|].
      specialize (Hx2 y Hy). lia.
    - apply N.leb_gt in E. apply ksorted_cons; [apply IH2; assumption|].
      intros y Hy. apply (Permutation_in _ (kmerge_perm _ _)) in Hy. apply in_app_or in Hy.
      destruct Hy as [[<-|Hy]|Hy]; [lia| |apply Hx2; exact Hy].
      specialize (Hx1 y Hy). lia.
  Qed.

  Lemma kmerge_pairs_ind (P : list (list (N * A)) -> Prop) :
    P [] -> (forall a, P [a]) -> (forall a b r, P r -> P (a :: b :: r)) -> forall ls, P ls.
  Proof.
    intros H0 H1 H2. fix IH 1. intros [|a [|b r]]; [exact H0|apply H1|apply H2, IH].
  Qed.

  Lemma kmerge_pairs_perm ls : Permutation (concat (kmerge_pairs ls)) (concat ls).
  Proof.
    induction ls as [|a|a b r IH] using kmerge_pairs_ind; [reflexivity|reflexivity|].
    cbn [kmerge_pairs concat]. rewrite kmerge_perm, IH, app_assoc. reflexivity.
  Qed.

  Lemma kmerge_pairs_sorted ls : Forall ksorted ls -> Forall ksorted (kmerge_pairs ls).
  Proof.
    induction ls as [|a|a b r IH] using kmerge_pairs_ind; intros H; [exact H|exact H|].
    cbn [kmerge_pairs]. inversion H as [|? ? Ha H']; subst. inversion H' as [|? ? Hb Hr]; subst.
    constructor; [apply kmerge_sorted; assumption|apply IH; exact Hr].
  Qed.

  Lemma fold_kmerge_correct ls :
    Forall ksorted ls ->
    Permutation (fold_right kmerge [] ls) (concat ls) /\ ksorted (fold_right kmerge [] ls).
  Proof.
    induction ls as [|a ls IH]; intros H; cbn [fold_right concat].
    - split; [reflexivity|constructor].
    - inversion H as [|? ? Ha H']; subst. destruct (IH H') as [Hp Hs]. split.
      + rewrite kmerge_perm, Hp. reflexivity.
      + apply kmerge_sorted; assumption.
  Qed.

  Lemma kmerge_all_correct fuel : forall ls,
    Forall ksorted ls ->
    Permutation (kmerge_all fuel ls) (concat ls) /\ ksorted (kmerge_all fuel ls).
  Proof.
    induction fuel as [|f IH]; intros [|a [|b r]] H; cbn [kmerge_all concat].
    - split; [reflexivity|constructor].
    - inversion H; subst. rewrite app_nil_r. split; [reflexivity|assumption].
    - apply (fold_kmerge_correct (a :: b :: r)). exact H.
    - split; [reflexivity|constructor].
    - inversion H; subst. rewrite app_nil_r. split; [reflexivity|assumption].
    - destruct (IH (kmerge_pairs (a :: b :: r)) (kmerge_pairs_sorted _ H)) as [Hp Hs].
      split; [|exact Hs]. rewrite Hp, kmerge_pairs_perm. reflexivity.
  Qed.

  Lemma concat_singletons l : concat (map (fun x => [x]) l) = l.
  Proof. induction l as [|x l IH]; cbn; [reflexivity|now rewrite IH]. Qed.

  Lemma ksort_perm l : Permutation (ksort l) l.
  Proof.
    unfold ksort. rewrite <- (concat_singletons l) at 3. apply kmerge_all_correct.
    apply Forall_forall. intros s Hs. apply in_map_iff in Hs. destruct Hs as [x [<- _]].
    repeat constructor.
  Qed.

  Lemma ksort_sorted l : ksorted (ksort l).
  Proof.
    unfold ksort. apply kmerge_all_correct.
    apply Forall_forall. intros s Hs. apply in_map_iff in Hs. destruct Hs as [x [<- _]].
    repeat constructor.
  Qed.

  Lemma ksort_length l : length (ksort l) = length l.
  Proof. apply Permutation_length, ksort_perm. Qed.

  Lemma ksort_in l x : In x (ksort l) <-> In x l.
  Proof. split; apply Permutation_in; [|symmetry]; apply ksort_perm. Qed.
End KSortFacts.

Theorem ksort_correct : S_ksort_correct.
Proof. intros A l. split; [apply ksort_perm|apply ksort_sorted]. Qed.

(** * Sorting pairs whose keys are a permutation of 0..n-1 *)
Lemma list_eqb_spec l1 : forall l2, list_eqb l1 l2 = true <-> l1 = l2.
Proof.
  induction l1 as [|x l1 IH]; intros [|y l2]; cbn [list_eqb]; try (split; [discriminate|discriminate]).
  - split; reflexivity.
  - rewrite andb_true_iff, N.eqb_eq, IH. split; [intros [-> ->]; reflexivity|].
    intros E. inversion E. split; reflexivity.
Qed.

Lemma ids_sorted n : StronglySorted N.le (ids n).
Proof.
  apply strongly_sorted_of_nth with (d := 0). intros i j Hij. rewrite ids_length in Hij.
  unfold ids. rewrite !nth_nseq by lia. lia.
Qed.

Lemma nle_antisym (x y : N) : x <= y -> y <= x -> x = y.
Proof. lia. Qed.

Lemma nth_ids n i : (i < n)%nat -> nth i (ids n) 0 = N.of_nat i.
Proof. intros H. unfold ids. rewrite nth_nseq by exact H. lia. Qed.

Section Keyed.
  Context {A : Type}.
  Variable keys : list N.
  Variable pl : list A.
  Variable n : nat.
  Hypothesis Hkeys : length keys = n.
  Hypothesis Hpl : length pl = n.

  Let s := ksort (List.combine keys pl).

  Lemma keyed_fst_perm : Permutation (map fst s) keys.
  Proof.
    unfold s. rewrite (Permutation_map fst (ksort_perm _)).
    rewrite map_fst_combine by lia. reflexivity.
  Qed.

  Lemma keyed_length : length s = n.
  Proof. unfold s. rewrite ksort_length, combine_length. lia. Qed.

  (** the keys are a permutation of 0..n-1 iff the sorted keys are 0, 1, .., n-1 *)
  Lemma keyed_ids_iff : map fst s = ids n <-> Permutation keys (ids n).
  Proof.
    split.
    - intros E. rewrite <- E. symmetry. apply keyed_fst_perm.
    - intros Hp. apply (sorted_perm_unique N.le nle_antisym).
      + apply (ksort_sorted (List.combine keys pl)).
      + apply ids_sorted.
      + rewrite keyed_fst_perm. exact Hp.
  Qed.

  (** ... and then the payloads, in sorted order, are indexed by key *)
  Lemma keyed_lookup (d : A) (a : nat) :
    map fst s = ids n -> (a < n)%nat ->
    nth (N.to_nat (nth a keys 0)) (map snd s) d = nth a pl d.
  Proof.
    intros E Ha.
    assert (Hin : In (nth a keys 0, nth a pl d) s).
    { unfold s. apply ksort_in. rewrite <- combine_nth by lia. apply nth_In.
      rewrite combine_length. lia. }
    destruct (In_nth s _ (0, d) Hin) as [j [Hj Hnth]]. rewrite keyed_length in Hj.
    assert (Hk : nth j (map fst s) 0 = nth a keys 0).
    { change 0 with (fst (0, d)). rewrite map_nth, Hnth. reflexivity. }
    rewrite E, nth_ids in Hk by exact Hj. rewrite <- Hk, Nat2N.id.
    change d with (snd (0, d)) at 1. rewrite map_nth, Hnth. reflexivity.
  Qed.

  Lemma keyed_snd_length : length (map snd s) = n.
  Proof. rewrite map_length. apply keyed_length. Qed.
End Keyed.

(** every index is a key *)
Lemma perm_ids_surj keys n j :
  length keys = n -> Permutation keys (ids n) -> (j < n)%nat ->
  exists a, (a < n)%nat /\ nth a keys 0 = N.of_nat j.
Proof.
  intros Hl Hp Hj.
  assert (Hin : In (N.of_nat j) keys).
  { eapply Permutation_in; [symmetry; exact Hp|]. apply In_ids. lia. }
  destruct (In_nth keys _ 0 Hin) as [a [Ha E]]. exists a. split; [lia|exact E].
Qed.

Lemma perm_ids_lt keys n a :
  length keys = n -> Permutation keys (ids n) -> (a < n)%nat -> (N.to_nat (nth a keys 0%N) < n)%nat.
Proof.
  intros Hl Hp Ha.
  assert (Hin : In (nth a keys 0) (ids n)).
  { eapply Permutation_in; [exact Hp|]. apply nth_In. lia. }
  apply In_ids in Hin. lia.
Qed.

(** * [big_check_inverse] *)
Theorem big_inverse_prop : S_big_inverse_prop.
Proof.
  intros p q. unfold big_check_inverse. cbv zeta.
  set (n := length p).
  assert (Hn : length (ids n) = n) by apply ids_length.
  rewrite andb_true_iff, !list_eqb_spec. unfold is_perm. fold n.
  rewrite (keyed_ids_iff p (ids n) n eq_refl Hn).
  split.
  - intros [Hp Hq]. split; [exact Hp|].
    pose proof (proj2 (keyed_ids_iff p (ids n) n eq_refl Hn) Hp) as E.
    split; [rewrite <- Hq; apply (keyed_snd_length p (ids n) n eq_refl Hn)|].
    intros i Hi. unfold nlen in Hi. fold n in Hi. unfold get. rewrite <- Hq.
    rewrite (keyed_lookup p (ids n) n eq_refl Hn 0 (N.to_nat i) E) by lia.
    rewrite nth_ids by lia. lia.
  - intros [Hp [Hl Hinv]]. split; [exact Hp|].
    pose proof (proj2 (keyed_ids_iff p (ids n) n eq_refl Hn) Hp) as E.
    apply nth_ext with (d := 0) (d' := 0).
    + rewrite (keyed_snd_length p (ids n) n eq_refl Hn). lia.
    + intros j Hj. rewrite (keyed_snd_length p (ids n) n eq_refl Hn) in Hj.
      destruct (perm_ids_surj p n j eq_refl Hp Hj) as [a [Ha Ea]].
      rewrite <- (Nat2N.id j), <- Ea.
      rewrite (keyed_lookup p (ids n) n eq_refl Hn 0 a E Ha), nth_ids by exact Ha.
      specialize (Hinv (N.of_nat a)). unfold get, nlen in Hinv. rewrite Nat2N.id in Hinv.
      symmetry. apply Hinv. fold n. lia.
Qed.

Theorem big_inverse_spec : S_big_inverse_spec.
Proof.
  intros p q. rewrite (big_inverse_prop p q), (check_perm_spec p), (check_inverse_spec p q). tauto.
Qed.

Theorem big_inverse_model : S_big_inverse_model.
Proof.
  intros p q. rewrite (big_inverse_prop p q). split.
  - intros [Hp [Hl Hinv]]. split; [exact Hp|].
    destruct (invert_perm p (ids (length p)) (repeat 0 (length p)) Hp (Permutation_refl _)
                (repeat_length _ _)) as [_ [_ [Hl' [Hinv' _]]]].
    fold (invert_permutation p) in Hl', Hinv'.
    apply list_ext_get; [lia|]. intros j Hj. unfold nlen in Hj. rewrite Hl in Hj.
    destruct (in_get p j (is_perm_in p j Hp Hj)) as [a [Ha <-]].
    rewrite Hinv by exact Ha. symmetry. apply Hinv'. exact Ha.
  - intros [Hp ->]. split; [exact Hp|].
    destruct (invert_perm p (ids (length p)) (repeat 0 (length p)) Hp (Permutation_refl _)
                (repeat_length _ _)) as [_ [_ [Hl' [Hinv' _]]]].
    fold (invert_permutation p) in Hl', Hinv'.
    split; [exact Hl'|]. intros i Hi. apply Hinv'. exact Hi.
Qed.

(** * [big_check_ranks] *)
Definition lex_lt (x y : N * N) : Prop :=
  fst x < fst y \/ (fst x = fst y /\ snd x < snd y).

Lemma lex_ltb_spec x y : lex_ltb x y = true <-> lex_lt x y.
Proof. unfold lex_ltb, lex_lt. lia. Qed.

Lemma lex_lt_trans x y z : lex_lt x y -> lex_lt y z -> lex_lt x z.
Proof. unfold lex_lt. lia. Qed.

Lemma lex_lt_irrefl x : ~ lex_lt x x.
Proof. unfold lex_lt. lia. Qed.

Lemma lex_total x y : lex_lt x y \/ x = y \/ lex_lt y x.
Proof.
  destruct x as [x1 x2], y as [y1 y2]. unfold lex_lt. cbn [fst snd].
  destruct (N.lt_trichotomy x1 y1) as [H|[H|H]]; [left; lia| |right; right; lia].
  destruct (N.lt_trichotomy x2 y2) as [H'|[H'|H']]; [left; lia| |right; right; lia].
  right; left. subst. reflexivity.
Qed.

Lemma lex_inc_from_spec l : forall x, lex_inc_from x l = true <-> StronglySorted lex_lt (x :: l).
Proof.
  induction l as [|y l IH]; intros x; cbn [lex_inc_from].
  - split; [intros _; repeat constructor|reflexivity].
  - rewrite andb_true_iff, lex_ltb_spec, IH. split.
    + intros [Hxy Hs]. constructor; [exact Hs|]. constructor; [exact Hxy|].
      inversion Hs as [|? ? _ Hall]; subst. rewrite Forall_forall in *.
      intros z Hz. eapply lex_lt_trans; [exact Hxy|apply Hall; exact Hz].
    + intros Hs. inversion Hs as [|? ? Hs' Hall]; subst. split; [|exact Hs'].
      inversion Hall; assumption.
Qed.

Lemma lex_inc_spec l : lex_inc l = true <-> StronglySorted lex_lt l.
Proof.
  destruct l as [|x l]; [split; [constructor|reflexivity]|]. apply lex_inc_from_spec.
Qed.

Theorem big_ranks_prop : S_big_ranks_prop.
Proof.
  intros labels ranks. unfold big_check_ranks. cbv zeta.
  set (n := length labels). set (pl := List.combine labels (ids n)).
  assert (Hpl : length pl = n) by (unfold pl; rewrite combine_length, ids_length; lia).
  assert (Hnth : forall a, (a < n)%nat -> nth a pl (0, 0) = (nth a labels 0, N.of_nat a)).
  { intros a Ha. unfold pl. rewrite combine_nth by (rewrite ids_length; reflexivity).
    rewrite nth_ids by exact Ha. reflexivity. }
  rewrite !andb_true_iff, Nat.eqb_eq, list_eqb_spec, lex_inc_spec. unfold is_perm, nlen. fold n.
  split.
  - intros [Hl [E Hs]]. split; [exact Hl|]. rewrite Hl.
    pose proof (proj1 (keyed_ids_iff ranks pl n Hl Hpl) E) as Hp. split; [exact Hp|].
    assert (Hlex : forall a b, (a < n)%nat -> (b < n)%nat ->
              lex_lt (nth a labels 0, N.of_nat a) (nth b labels 0, N.of_nat b) ->
              nth a ranks 0 < nth b ranks 0).
    { intros a b Ha Hb Hab.
      pose proof (keyed_lookup ranks pl n Hl Hpl (0, 0) a E Ha) as La.
      pose proof (keyed_lookup ranks pl n Hl Hpl (0, 0) b E Hb) as Lb.
      rewrite Hnth in La, Lb by assumption.
      pose proof (perm_ids_lt ranks n a Hl Hp Ha) as Ra.
      pose proof (perm_ids_lt ranks n b Hl Hp Hb) as Rb.
      destruct (N.lt_trichotomy (nth a ranks 0) (nth b ranks 0)) as [H|[H|H]]; [exact H| |].
      - rewrite H, Lb in La. rewrite La in Hab. exfalso. exact (lex_lt_irrefl _ Hab).
      - exfalso.
        assert (Hba : lex_lt (nth b labels 0, N.of_nat b) (nth a labels 0, N.of_nat a)).
        { rewrite <- La, <- Lb. apply strongly_sorted_nth; [exact Hs|lia|].
          rewrite (keyed_snd_length ranks pl n Hl Hpl). exact Ra. }
        exact (lex_lt_irrefl _ (lex_lt_trans _ _ _ Hab Hba)). }
    intros a b Ha Hb. unfold get.
    split.
    + intros Hlt. apply Hlex; [lia|lia|]. left. exact Hlt.
    + intros Heq Hab. apply Hlex; [lia|lia|]. right. cbn [fst snd]. split; [exact Heq|lia].
  - intros [Hl [Hp Hmono]]. rewrite Hl in Hp. split; [exact Hl|].
    pose proof (proj2 (keyed_ids_iff ranks pl n Hl Hpl) Hp) as E. split; [exact E|].
    apply strongly_sorted_of_nth with (d := (0, 0)). intros i j Hij.
    rewrite (keyed_snd_length ranks pl n Hl Hpl) in Hij.
    destruct (perm_ids_surj ranks n i Hl Hp ltac:(lia)) as [a [Ha Ea]].
    destruct (perm_ids_surj ranks n j Hl Hp ltac:(lia)) as [b [Hb Eb]].
    pose proof (keyed_lookup ranks pl n Hl Hpl (0, 0) a E Ha) as La.
    pose proof (keyed_lookup ranks pl n Hl Hpl (0, 0) b E Hb) as Lb.
    rewrite Hnth in La, Lb by assumption. rewrite Ea, Nat2N.id in La. rewrite Eb, Nat2N.id in Lb.
    rewrite La, Lb.
    destruct (Hmono (N.of_nat a) (N.of_nat b) ltac:(lia) ltac:(lia)) as [M1 M2].
    destruct (Hmono (N.of_nat b) (N.of_nat a) ltac:(lia) ltac:(lia)) as [M3 M4].
    unfold get in M1, M2, M3, M4. rewrite !Nat2N.id in M1, M2, M3, M4.
    destruct (lex_total (nth a labels 0, N.of_nat a) (nth b labels 0, N.of_nat b)) as [H|[H|H]];
      [exact H| |]; exfalso.
    + inversion H. assert (a = b) by lia. subst b. rewrite Ea in Eb. lia.
    + destruct H as [H|[H1 H2]]; cbn [fst snd] in *.
      * specialize (M3 H). lia.
      * specialize (M4 H1 H2). lia.
Qed.

Theorem big_ranks_spec : S_big_ranks_spec.
Proof.
  intros labels ranks.
  rewrite (big_ranks_prop labels ranks), (check_perm_spec ranks), (check_monotone_spec labels ranks).
  tauto.
Qed.

Theorem big_ranks_model : S_big_ranks_model.
Proof.
  intros labels. apply big_ranks_prop. destruct (ranks_perm labels) as [Hp Hl].
  split; [exact Hl|]. split; [exact Hp|]. intros a b Ha Hb. apply ranks_monotone; assumption.
Qed.

(** * [big_check_sort_by_size] *)
(** ** Functional relations *)
Definition functional (s : list (N * N)) : Prop :=
  forall x y, In x s -> In y s -> fst x = fst y -> snd x = snd y.

Lemma fun_from_spec l : forall x,
  ksorted (x :: l) -> (fun_from x l = true <-> functional (x :: l)).
Proof.
  induction l as [|y l IH]; intros x Hs; cbn [fun_from].
  - split; [|reflexivity]. intros _ a b [<-|[]] [<-|[]] _. reflexivity.
  - destruct (ksorted_cons_inv _ _ Hs) as [Hs' Hx].
    destruct (ksorted_cons_inv _ _ Hs') as [_ Hy].
    rewrite andb_true_iff, (IH y Hs'). split.
    + intros [Hxy Hf].
      assert (Hxb : forall b, In b (y :: l) -> fst x = fst b -> snd x = snd b).
      { intros b Hb E.
        assert (Ey : fst x = fst y).
        { destruct Hb as [<-|Hb]; [exact E|]. specialize (Hy b Hb). specialize (Hx y (or_introl eq_refl)). lia. }
        assert (snd x = snd y) as -> by lia.
        apply Hf; [now left|exact Hb|congruence]. }
      intros a b [<-|Ha] [<-|Hb] E.
      * reflexivity.
      * apply Hxb; assumption.
      * symmetry. apply Hxb; [assumption|congruence].
      * apply Hf; assumption.
    + intros Hf. split.
      * destruct (fst x =? fst y) eqn:E; [|reflexivity]. apply N.eqb_eq in E. cbn [negb orb].
        apply N.eqb_eq. apply Hf; [now left|right; now left|exact E].
      * intros a b Ha Hb. apply Hf; right; assumption.
Qed.

Lemma fun_adj_spec s : ksorted s -> (fun_adj s = true <-> functional s).
Proof.
  destruct s as [|x s]; [|apply fun_from_spec].
  intros _. split; [intros _ a b []|reflexivity].
Qed.

Lemma in_combine_nth (a b : list N) x :
  length a = length b ->
  (In x (List.combine a b) <-> exists u, (u < length a)%nat /\ x = (nth u a 0, nth u b 0)).
Proof.
  intros Hl. split.
  - intros Hin. destruct (In_nth _ _ (0, 0) Hin) as [u [Hu E]].
    rewrite combine_length in Hu. exists u. split; [lia|].
    rewrite combine_nth in E by exact Hl. symmetry. exact E.
  - intros [u [Hu ->]]. rewrite <- combine_nth by exact Hl. apply nth_In.
    rewrite combine_length. lia.
Qed.

Lemma fun_check_spec (a b : list N) :
  length a = length b ->
  (fun_adj (ksort (List.combine a b)) = true <->
   forall u v, (u < length a)%nat -> (v < length a)%nat ->
     nth u a 0 = nth v a 0 -> nth u b 0 = nth v b 0).
Proof.
  intros Hl. rewrite (fun_adj_spec _ (ksort_sorted _)). unfold functional. split.
  - intros H u v Hu Hv E.
    apply (H (nth u a 0, nth u b 0) (nth v a 0, nth v b 0)); [| |exact E];
      apply ksort_in; apply in_combine_nth; try exact Hl; eexists; split; try reflexivity; assumption.
  - intros H x y Hx Hy E. apply ksort_in, in_combine_nth in Hx; [|exact Hl].
    apply ksort_in, in_combine_nth in Hy; [|exact Hl].
    destruct Hx as [u [Hu ->]]. destruct Hy as [v [Hv ->]]. cbn [fst snd] in *.
    apply H; assumption.
Qed.

(** ** Non-increasing sizes *)
Lemma non_incr_from_spec l : forall x,
  non_incr_from x l = true <-> Sorted ge (map N.to_nat (x :: l)).
Proof.
  induction l as [|y l IH]; intros x; cbn [non_incr_from map].
  - split; [intros _; repeat constructor|reflexivity].
  - rewrite andb_true_iff, IH. cbn [map]. split.
    + intros [Hxy Hs]. constructor; [exact Hs|]. constructor. unfold ge. lia.
    + intros Hs. inversion Hs as [|? ? Hs' Hh]; subst. split; [|exact Hs'].
      inversion Hh as [|? ? Hge]; subst. unfold ge in Hge. lia.
Qed.

Lemma non_incr_spec l : non_incr l = true <-> Sorted ge (map N.to_nat l).
Proof.
  destruct l as [|x l]; [split; [constructor|reflexivity]|]. apply non_incr_from_spec.
Qed.

(** ** Counting by sorting *)
Lemma repeat_sorted (c : N) n : StronglySorted N.le (repeat c n).
Proof.
  induction n as [|n IH]; cbn [repeat]; constructor; [exact IH|].
  apply Forall_forall. intros x Hx. apply repeat_spec in Hx. lia.
Qed.

Lemma strongly_sorted_app {A} (R : A -> A -> Prop) l1 l2 :
  StronglySorted R l1 -> StronglySorted R l2 ->
  (forall x y, In x l1 -> In y l2 -> R x y) -> StronglySorted R (l1 ++ l2).
Proof.
  induction l1 as [|a l1 IH]; intros H1 H2 H; [exact H2|].
  inversion H1 as [|? ? H1' Hall]; subst. cbn [app]. constructor.
  - apply IH; [exact H1'|exact H2|]. intros x y Hx Hy. apply H; [now right|exact Hy].
  - apply Forall_app. split; [exact Hall|]. apply Forall_forall. intros y Hy.
    apply H; [now left|exact Hy].
Qed.

Lemma expand_in sizes : forall c x, In x (expand c sizes) -> c <= x < c + nlen sizes.
Proof.
  induction sizes as [|s r IH]; intros c x Hx; cbn [expand] in Hx; [contradiction|].
  unfold nlen. cbn [length]. apply in_app_or in Hx. destruct Hx as [Hx|Hx].
  - apply repeat_spec in Hx. lia.
  - apply IH in Hx. unfold nlen in Hx. lia.
Qed.

Lemma expand_sorted sizes : forall c, StronglySorted N.le (expand c sizes).
Proof.
  induction sizes as [|s r IH]; intros c; cbn [expand]; [constructor|].
  apply strongly_sorted_app; [apply repeat_sorted|apply IH|].
  intros x y Hx Hy. apply repeat_spec in Hx. apply expand_in in Hy. lia.
Qed.

Lemma expand_length sizes : forall c, length (expand c sizes) = N.to_nat (nsum sizes).
Proof.
  induction sizes as [|s r IH]; intros c; cbn [expand nsum]; [reflexivity|].
  rewrite app_length, repeat_length, IH. lia.
Qed.

Lemma expand_count sizes : forall c i,
  (i < length sizes)%nat ->
  count_occ N.eq_dec (expand c sizes) (c + N.of_nat i) = N.to_nat (nth i sizes 0).
Proof.
  induction sizes as [|s r IH]; intros c i Hi; cbn [length] in Hi; [lia|].
  cbn [expand]. rewrite count_occ_app. destruct i as [|i]; cbn [nth].
  - rewrite count_occ_repeat_eq by lia.
    rewrite (proj1 (count_occ_not_In N.eq_dec _ _)); [lia|].
    intros Hin. apply expand_in in Hin. lia.
  - rewrite count_occ_repeat_neq by lia.
    replace (c + N.of_nat (S i)) with ((c + 1) + N.of_nat i) by lia.
    rewrite IH by lia. reflexivity.
Qed.

Definition sorted_vals (l : list N) : list N := map fst (ksort (map (fun c => (c, 0)) l)).

Lemma sorted_vals_perm l : Permutation (sorted_vals l) l.
Proof.
  unfold sorted_vals. rewrite (Permutation_map fst (ksort_perm _)), map_map. cbn [fst].
  rewrite map_id. reflexivity.
Qed.

Lemma sorted_vals_sorted l : StronglySorted N.le (sorted_vals l).
Proof. apply (ksort_sorted (map (fun c => (c, 0)) l)). Qed.

(** [sizes] counts the values of [new], all of which are below [length sizes] *)
Definition counts (sizes new : list N) : Prop :=
  Forall (fun c => c < nlen sizes) new /\
  forall i, (i < length sizes)%nat ->
    count_occ N.eq_dec new (N.of_nat i) = N.to_nat (nth i sizes 0).

Lemma count_check_spec sizes new :
  (if nsum sizes =? nlen new then list_eqb (sorted_vals new) (expand 0 sizes) else false) = true
  <-> counts sizes new.
Proof.
  split.
  - destruct (nsum sizes =? nlen new); [|discriminate]. rewrite list_eqb_spec. intros E.
    assert (Hp : Permutation new (expand 0 sizes)).
    { rewrite <- E. symmetry. apply sorted_vals_perm. }
    split.
    + apply Forall_forall. intros x Hx. apply (Permutation_in _ Hp) in Hx.
      apply expand_in in Hx. lia.
    + intros i Hi. rewrite (proj1 (Permutation_count_occ N.eq_dec _ _) Hp).
      rewrite <- (expand_count sizes 0 i Hi). f_equal.
  - intros [Hlt Hc].
    assert (Hp : Permutation new (expand 0 sizes)).
    { apply (Permutation_count_occ N.eq_dec). intros x.
      destruct (N.lt_ge_cases x (nlen sizes)) as [Hx|Hx].
      - specialize (Hc (N.to_nat x)). rewrite N2Nat.id in Hc. rewrite Hc by (unfold nlen in Hx; lia).
        rewrite <- (expand_count sizes 0 (N.to_nat x)) by (unfold nlen in Hx; lia).
        f_equal. lia.
      - rewrite (proj1 (count_occ_not_In N.eq_dec _ _)).
        + symmetry. apply count_occ_not_In. intros Hin. apply expand_in in Hin. lia.
        + intros Hin. rewrite Forall_forall in Hlt. specialize (Hlt x Hin). lia. }
    assert (Hsum : nsum sizes = nlen new).
    { pose proof (Permutation_length Hp) as L. rewrite expand_length in L. unfold nlen. lia. }
    rewrite Hsum, N.eqb_refl. apply list_eqb_spec.
    apply (sorted_perm_unique N.le nle_antisym); [apply sorted_vals_sorted|apply expand_sorted|].
    rewrite sorted_vals_perm. exact Hp.
Qed.

(** ** From [N] to the [nat] arrays of Algo/Scc.v *)
Lemma nth_map_to_nat l u : nth u (map N.to_nat l) 0%nat = N.to_nat (nth u l 0).
Proof. change 0%nat with (N.to_nat 0). apply map_nth. Qed.

Lemma forall_lt_to_nat k l :
  Forall (fun c => (c < N.to_nat k)%nat) (map N.to_nat l) <-> Forall (fun c => c < k) l.
Proof.
  rewrite !Forall_forall. split.
  - intros H x Hx. specialize (H (N.to_nat x) (in_map _ _ _ Hx)). lia.
  - intros H x Hx. apply in_map_iff in Hx. destruct Hx as [y [<- Hy]]. specialize (H y Hy). lia.
Qed.

Lemma count_occ_to_nat l i :
  count_occ Nat.eq_dec (map N.to_nat l) i = count_occ N.eq_dec l (N.of_nat i).
Proof.
  rewrite <- (Nat2N.id i) at 1. symmetry. apply count_occ_map. apply N2Nat.inj.
Qed.

Lemma compute_sizes_counts k sizes new :
  nlen sizes = k ->
  (Forall (fun c => (c < N.to_nat k)%nat) (map N.to_nat new) /\
   map N.to_nat sizes = SccM.compute_sizes (map N.to_nat new) (N.to_nat k)) <->
  counts sizes new.
Proof.
  intros Hk. unfold counts, SccM.compute_sizes. rewrite forall_lt_to_nat, Hk.
  assert (Hlen : length sizes = N.to_nat k) by (unfold nlen in Hk; lia).
  split; intros [Hlt H]; (split; [exact Hlt|]).
  - intros i Hi. rewrite <- nth_map_to_nat, H, nth_map_seq by lia. symmetry. apply count_occ_to_nat.
  - apply nth_ext with (d := 0%nat) (d' := 0%nat).
    + rewrite !map_length, seq_length. exact Hlen.
    + intros i Hi. rewrite map_length in Hi. rewrite nth_map_to_nat, nth_map_seq by lia.
      rewrite count_occ_to_nat. symmetry. apply H. exact Hi.
Qed.

Lemma forallb_ltb k l : forallb (fun c => c <? k) l = true <-> Forall (fun c => c < k) l.
Proof.
  rewrite forallb_forall, Forall_forall. split; intros H x Hx; specialize (H x Hx); lia.
Qed.

Theorem big_sort_by_size_spec : S_big_sort_by_size_spec.
Proof.
  intros k old new sizes. unfold big_check_sort_by_size, sort_by_size_post.
  fold (sorted_vals new).
  rewrite !andb_true_iff, Nat.eqb_eq, N.eqb_eq, forallb_ltb, non_incr_spec, count_check_spec.
  rewrite forall_lt_to_nat, !map_length.
  split.
  - intros [[[[[[Hl Hold] Hk] Hni] Hc] Hf1] Hf2].
    rewrite (fun_check_spec old new (eq_sym Hl)) in Hf1.
    rewrite (fun_check_spec new old Hl) in Hf2.
    apply (compute_sizes_counts k sizes new Hk) in Hc. destruct Hc as [Hnew Hsz].
    split; [exact Hold|]. split; [exact Hl|]. split; [|split; [exact Hnew|split; [exact Hsz|exact Hni]]].
    intros u v Hu Hv. rewrite !nth_map_to_nat, !N2Nat.inj_iff. split.
    + apply Hf2; lia.
    + apply Hf1; assumption.
  - intros [Hold [Hl [Hpart [Hnew [Hsz Hni]]]]].
    assert (Hk : nlen sizes = k).
    { apply (f_equal (@length nat)) in Hsz. unfold SccM.compute_sizes in Hsz.
      rewrite !map_length, seq_length in Hsz. unfold nlen. lia. }
    refine (conj (conj (conj (conj (conj (conj Hl Hold) Hk) Hni) _) _) _).
    + apply (compute_sizes_counts k sizes new Hk). split; assumption.
    + apply (fun_check_spec old new (eq_sym Hl)). intros u v Hu Hv E.
      specialize (Hpart u v Hu Hv). rewrite !nth_map_to_nat, !N2Nat.inj_iff in Hpart.
      apply Hpart. exact E.
    + apply (fun_check_spec new old Hl). intros u v Hu Hv E.
      specialize (Hpart u v ltac:(lia) ltac:(lia)). rewrite !nth_map_to_nat, !N2Nat.inj_iff in Hpart.
      apply Hpart. exact E.
Qed.

Lemma map_to_nat_of_nat l : map N.to_nat (map N.of_nat l) = l.
Proof.
  rewrite map_map. rewrite <- (map_id l) at 2. apply map_ext. intros x. apply Nat2N.id.
Qed.

Theorem big_sort_by_size_model : S_big_sort_by_size_model.
Proof.
  intros comp k perm Hf Hs. apply big_sort_by_size_spec. unfold sort_by_size_post.
  rewrite !map_to_nat_of_nat, Nat2N.id.
  destruct (sort_by_size_correct comp k perm Hf Hs) as [H1 [H2 [H3 [H4 [H5 _]]]]].
  repeat split; try assumption; apply H2; assumption.
Qed.
