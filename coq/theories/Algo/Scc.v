(** Strongly connected components (C15): specification, executable checker, and models of
    [tarjan], [kosaraju], [symm_seq], [symm_par] (algo/src/sccs/*.rs) and of
    [Sccs::sort_by_size] / [par_sort_by_size] (algo/src/sccs/mod.rs).
    Definitions only; the proofs are in Algo/SccFacts.v.

    Nodes are [nat] (indices into the adjacency list); a graph is the list of the successor
    lists in the order in which the Rust iterators yield them. *)
From WG Require Import Base.Prelude.

Module SccM.
Local Open Scope nat_scope.

Definition graph := list (list nat).
Definition succs (g : graph) (u : nat) : list nat := nth u g [].
Definition arc (g : graph) (u v : nat) : Prop := In v (succs g u).

Inductive reachable (g : graph) : nat -> nat -> Prop :=
| reach_refl : forall u, reachable g u u
| reach_step : forall u w v, arc g u w -> reachable g w v -> reachable g u v.

Definition same_scc (g : graph) (u v : nat) : Prop := reachable g u v /\ reachable g v u.

Definition wf_graph (g : graph) : Prop := Forall (Forall (fun v => v < length g)) g.
Definition wf_graphb (g : graph) : bool := forallb (forallb (fun v => v <? length g)) g.
Definition symmetric (g : graph) : Prop := forall u v, arc g u v -> arc g v u.
Definition is_transpose (g gt : graph) : Prop :=
  length gt = length g /\ forall u v, arc gt v u <-> arc g u v.

(** [comp] (component index of every node) with [k] components is the partition into
    strongly connected components with dense indices *)
Definition is_scc_partition (g : graph) (comp : list nat) (k : nat) : Prop :=
  length comp = length g
  /\ (forall u, u < length g -> nth u comp 0 < k)
  /\ (forall c, c < k -> exists u, u < length g /\ nth u comp 0 = c)
  /\ (forall u v, u < length g -> v < length g ->
        (nth u comp 0 = nth v comp 0 <-> same_scc g u v)).

(** the same with connectivity (symmetric graphs) *)
Definition is_cc_partition (g : graph) (comp : list nat) (k : nat) : Prop :=
  length comp = length g
  /\ (forall u, u < length g -> nth u comp 0 < k)
  /\ (forall c, c < k -> exists u, u < length g /\ nth u comp 0 = c)
  /\ (forall u v, u < length g -> v < length g ->
        (nth u comp 0 = nth v comp 0 <-> reachable g u v)).

Definition memb (x : nat) (l : list nat) : bool := existsb (Nat.eqb x) l.

Fixpoint upd {A} (l : list A) (i : nat) (x : A) : list A :=
  match l, i with
  | [], _ => []
  | _ :: l', O => x :: l'
  | y :: l', S i' => y :: upd l' i' x
  end.

(** * Breadth-first visit by levels under a schedule (webgraph/src/visits/breadth_first/par_fair.rs)

    The nodes of a frontier are processed concurrently: the successors of all frontier
    nodes are offered to the atomic [visited.swap] in an order chosen by the schedule
    ([sched i cand] is a permutation of the candidates; [i] = number of nodes visited so
    far, so every level of every visit may use a different order); the first offer of a
    node wins and puts it into the next frontier. *)
Fixpoint claim (cand vis next : list nat) : list nat * list nat :=
  match cand with
  | [] => (next, vis)
  | v :: c => if memb v vis then claim c vis next else claim c (v :: vis) (v :: next)
  end.

Fixpoint bfs (sched : nat -> list nat -> list nat) (fuel : nat) (g : graph)
         (frontier vis : list nat) : list nat :=
  match fuel with
  | O => vis
  | S f =>
    match frontier with
    | [] => vis
    | _ =>
      let cand := sched (length vis) (flat_map (succs g) frontier) in
      let '(next, vis') := claim cand vis [] in
      bfs sched f g next vis'
    end
  end.

(** [par_visit_with [root]] on an unvisited root: the new visited set *)
Definition bfs_visit (sched : nat -> list nat -> list nat) (g : graph) (root : nat) (vis : list nat) : list nat :=
  bfs sched (S (length g)) g [root] (root :: vis).

Definition id_sched (i : nat) (l : list nat) : list nat := l.

(** executable reachability: the nodes reachable from [u] *)
Definition reach (g : graph) (u : nat) : list nat := bfs_visit id_sched g u [].

(** * The checker: decides [is_scc_partition] *)
Definition reach_table (g : graph) : list (list nat) := map (reach g) (seq 0 (length g)).

(** [R] is the reachability table (computed once per graph by the driver) *)
Definition check_scc_tab (g : graph) (R : list (list nat)) (comp : list nat) (k : nat) : bool :=
  let n := length g in
  wf_graphb g && (length comp =? n)
  && forallb (fun c => c <? k) comp
  && forallb (fun c => memb c comp) (seq 0 k)
  && forallb (fun u => forallb (fun v =>
        Bool.eqb (nth u comp 0 =? nth v comp 0) (memb v (nth u R []) && memb u (nth v R [])))
        (seq 0 n)) (seq 0 n).

Definition check_scc (g : graph) (comp : list nat) (k : nat) : bool :=
  check_scc_tab g (reach_table g) comp k.

(** * Sequential depth-first visit (webgraph/src/visits/depth_first/seq.rs)

    State: the visited nodes (latest previsit first) and the finished nodes (latest
    postvisit first).  [dfs f g u st] is the part of the visit between the previsit of [u]
    (already in the visited list) and its postvisit. *)
Definition dstate := (list nat * list nat)%type.

Fixpoint dfs (fuel : nat) (g : graph) (u : nat) (st : dstate) : dstate :=
  match fuel with
  | O => st
  | S f =>
    let st' := fold_left (fun st v => if memb v (fst st) then st else dfs f g v (v :: fst st, snd st))
                         (succs g u) st in
    (fst st', u :: snd st')
  end.

Definition dfs_root (g : graph) (root : nat) (st : dstate) : dstate :=
  if memb root (fst st) then st else dfs (length g) g root (root :: fst st, snd st).

Definition dfs_roots (g : graph) (roots : list nat) (st : dstate) : dstate :=
  fold_left (fun st r => dfs_root g r st) roots st.

(** visit from an unvisited root, as a function on visited sets *)
Definition dfs_visit (g : graph) (root : nat) (vis : list nat) : list nat :=
  fst (dfs (length g) g root (root :: vis, [])).

(** [top_sort] (algo/src/top_sort.rs): nodes by decreasing postvisit time *)
Definition top_sort (g : graph) : list nat := snd (dfs_roots g (seq 0 (length g)) ([], [])).

(** * Component numbering by successive visits
    ([component[node] = number_of_components] on Previsit/Visit, [+= 1] on Done) *)
Definition assign (comp nodes : list nat) (c : nat) : list nat :=
  fold_left (fun cm v => upd cm v c) nodes comp.
(** the nodes visited by the last visit are the new prefix of the visited list *)
Definition assign_new (comp vis vis' : list nat) (c : nat) : list nat :=
  assign comp (firstn (length vis' - length vis) vis') c.

Definition cstate := (list nat * list nat * nat)%type.

Definition comp_step (visit : nat -> list nat -> list nat) (st : cstate) (r : nat) : cstate :=
  let '(vis, comp, k) := st in
  if memb r vis then st
  else let vis' := visit r vis in (vis', assign_new comp vis vis' k, S k).

Definition comp_loop (visit : nat -> list nat -> list nat) (roots : list nat) (n : nat) : list nat * nat :=
  let '(_, comp, k) := fold_left (comp_step visit) roots ([], repeat 0 n, 0) in (comp, k).

Definition symm_seq (g : graph) : list nat * nat :=
  comp_loop (dfs_visit g) (seq 0 (length g)) (length g).

Definition symm_par (sched : nat -> list nat -> list nat) (g : graph) : list nat * nat :=
  comp_loop (bfs_visit sched g) (seq 0 (length g)) (length g).

Definition kosaraju (g gt : graph) : list nat * nat :=
  comp_loop (dfs_visit gt) (top_sort g) (length g).

(** the transpose with sorted successor lists *)
Definition transpose (g : graph) : graph :=
  map (fun v => filter (fun u => memb v (succs g u)) (seq 0 (length g))) (seq 0 (length g)).

(** the finishing-order property Kosaraju's second phase relies on: a node [x] that comes
    after [r] in the order and reaches [r] is reached by [r], unless its component has a
    member before [r] *)
Definition finish_ordered (g : graph) (order : list nat) : Prop :=
  forall l1 r l2 x, order = l1 ++ r :: l2 -> In x l2 -> reachable g x r ->
    reachable g r x \/ exists y, In y l1 /\ same_scc g y x.

Fixpoint finish_orderedb_aux (R : list (list nat)) (l1 order : list nat) : bool :=
  match order with
  | [] => true
  | r :: l2 => forallb (fun x => negb (memb r (nth x R [])) || memb x (nth r R [])
                                 || existsb (fun y => memb x (nth y R []) && memb y (nth x R [])) l1) l2
               && finish_orderedb_aux R (l1 ++ [r]) l2
  end.
Definition finish_orderedb (g : graph) (order : list nat) : bool :=
  finish_orderedb_aux (reach_table g) [] order.

(** * Tarjan (algo/src/sccs/tarjan.rs), mirroring the event handler *)
Record tstate := mkT {
  t_known : list bool;      (* the visit's [known] bits *)
  t_high : list nat;        (* high_link, reused as the output *)
  t_lead : list bool;       (* bit stack, top first, with the sentinel at the bottom *)
  t_cstack : list nat;      (* component_stack, top first *)
  t_index : nat;
  t_root_high : nat;
  t_noc : nat               (* number_of_components *)
}.

Definition set_top (l : list bool) (b : bool) : list bool :=
  match l with [] => [] | _ :: l' => b :: l' end.

Definition t_previsit (st : tstate) (curr : nat) : tstate :=
  mkT (upd (t_known st) curr true) (upd (t_high st) curr (t_index st)) (true :: t_lead st)
      (t_cstack st) (t_index st - 1) (t_root_high st) (t_noc st).

(** [Revisit { node, pred }]; the result flag is [Break] *)
Definition t_revisit (st : tstate) (node pred : nat) : tstate * bool :=
  let hn := nth node (t_high st) 0 in
  if nth pred (t_high st) 0 <? hn then
    let high := upd (t_high st) pred hn in
    let lead := set_top (t_lead st) false in
    if (hn =? t_root_high st) && (t_index st =? 0) then
      let high1 := upd high pred (t_noc st) in
      let high2 := fold_left (fun h x => upd h x (t_noc st)) (rev (t_cstack st)) high1 in
      (mkT (t_known st) high2 lead (t_cstack st) (t_index st) (t_root_high st) (t_noc st), true)
    else (mkT (t_known st) high lead (t_cstack st) (t_index st) (t_root_high st) (t_noc st), false)
  else (st, false).

(** the [while let Some(comp_node) = component_stack.pop()] loop of a leader's postvisit *)
Fixpoint t_pop (hnode noc : nat) (cstack : list nat) (high : list nat) (index : nat)
  : list nat * list nat * nat :=
  match cstack with
  | [] => ([], high, index)
  | c :: cs => if hnode <? nth c high 0 then (cstack, high, index)
               else t_pop hnode noc cs (upd high c noc) (S index)
  end.

Definition t_postvisit (st : tstate) (node pred : nat) : tstate :=
  match t_lead st with
  | [] => st
  | b :: lead =>
    if b then
      let '(cs, high, index) := t_pop (nth node (t_high st) 0) (t_noc st) (t_cstack st) (t_high st) (t_index st) in
      mkT (t_known st) (upd high node (t_noc st)) lead cs (S index) (t_root_high st) (S (t_noc st))
    else
      let cs := node :: t_cstack st in
      let hn := nth node (t_high st) 0 in
      if nth pred (t_high st) 0 <? hn then
        mkT (t_known st) (upd (t_high st) pred hn) (set_top lead false) cs (t_index st) (t_root_high st) (t_noc st)
      else mkT (t_known st) (t_high st) lead cs (t_index st) (t_root_high st) (t_noc st)
  end.

(** the successors loop of the node [curr]; on [Break] the nodes of the visit path other
    than the last one are assigned the last component ([for node in visit.stack()]) *)
Fixpoint t_visit (fuel : nat) (g : graph) (curr parent : nat) (st : tstate) : tstate * bool :=
  match fuel with
  | O => (st, false)
  | S f =>
    let fix loop (l : list nat) (st : tstate) : tstate * bool :=
      match l with
      | [] => (st, false)
      | s :: rest =>
        if nth s (t_known st) false then
          let '(st1, brk) := t_revisit st s curr in
          if brk then (st1, true) else loop rest st1
        else
          let '(st2, brk) := t_visit f g s curr (t_previsit st s) in
          if brk then
            (mkT (t_known st2) (upd (t_high st2) curr (t_noc st2)) (t_lead st2) (t_cstack st2)
                 (t_index st2) (t_root_high st2) (t_noc st2), true)
          else loop rest st2
      end in
    let '(st', brk) := loop (succs g curr) st in
    if brk then (st', true) else (t_postvisit st' curr parent, false)
  end.

Fixpoint t_roots (g : graph) (roots : list nat) (st : tstate) : tstate * bool :=
  match roots with
  | [] => (st, false)
  | r :: rest =>
    if nth r (t_known st) false then t_roots g rest st
    else
      let st0 := mkT (t_known st) (t_high st) (t_lead st) (t_cstack st) (t_index st) (t_index st) (t_noc st) in
      let '(st1, brk) := t_visit (length g) g r r (t_previsit st0 r) in
      if brk then (st1, true) else t_roots g rest st1
  end.

Definition tarjan_run (g : graph) : tstate * bool :=
  let n := length g in
  t_roots g (seq 0 n) (mkT (repeat false n) (repeat 0 n) [true] [] n 0 0).

Definition tarjan (g : graph) : list nat * nat :=
  let '(st, brk) := tarjan_run g in
  (t_high st, if brk then S (t_noc st) else t_noc st).

(** whether the early exit was taken (coverage statistics of the driver) *)
Definition tarjan_early (g : graph) : bool := snd (tarjan_run g).

(** * Renumbering by size (Sccs::sort_by_size / par_sort_by_size)

    [perm] is the result of the unstable sort of the component indices by decreasing
    size (the tie-break is the sort's business: any [perm] that sorts the sizes). *)
Definition compute_sizes (comp : list nat) (k : nat) : list nat :=
  map (fun c => count_occ Nat.eq_dec comp c) (seq 0 k).

Fixpoint index_of (x : nat) (l : list nat) : nat :=
  match l with
  | [] => 0
  | y :: l' => if x =? y then 0 else S (index_of x l')
  end.

(** [inv_perm[x] = i] for [(i, x)] in [sort_perm.enumerate()]: the new index of the
    component [x] is its position in [perm] *)
Definition renumber (perm comp : list nat) : list nat := map (fun c => index_of c perm) comp.

Definition sorts_by_size (sizes perm : list nat) : Prop :=
  Permutation perm (seq 0 (length sizes))
  /\ Sorted ge (map (fun c => nth c sizes 0) perm).

Fixpoint non_increasing (l : list nat) : bool :=
  match l with
  | [] => true
  | x :: l' => match l' with [] => true | y :: _ => (y <=? x) && non_increasing l' end
  end.

Definition sorts_by_sizeb (sizes perm : list nat) : bool :=
  let k := length sizes in
  (length perm =? k) && forallb (fun c => memb c perm) (seq 0 k)
  && non_increasing (map (fun c => nth c sizes 0) perm).

Module NatDescOrder <: TotalLeBool.
  Definition t := nat.
  Definition leb (a b : nat) := b <=? a.
  Theorem leb_total : forall a1 a2, leb a1 a2 = true \/ leb a2 a1 = true.
  Proof. intros a b. unfold leb. destruct (Nat.leb_spec b a); [left; reflexivity|right].
         apply Nat.leb_le. lia. Qed.
End NatDescOrder.
Module NatDescSort := Sort NatDescOrder.

(** the sizes returned: [sizes.sort_by_key(Reverse)] *)
Definition sort_by_size (comp : list nat) (k : nat) (perm : list nat) : list nat * list nat :=
  (renumber perm comp, NatDescSort.sort (compute_sizes comp k)).

(** all graphs on [n] nodes with sorted successor lists (bounded exhaustive theorems) *)
Fixpoint sublists (l : list nat) : list (list nat) :=
  match l with
  | [] => [[]]
  | x :: l' => let r := sublists l' in r ++ map (cons x) r
  end.
Fixpoint lists_of (n : nat) (choices : list (list nat)) : list (list (list nat)) :=
  match n with
  | O => [[]]
  | S n' => flat_map (fun t => map (fun c => c :: t) choices) (lists_of n' choices)
  end.
Definition all_graphs (n : nat) : list graph := lists_of n (sublists (seq 0 n)).

Definition pairb (f : graph -> list nat * nat) (g : graph) : bool :=
  let '(comp, k) := f g in check_scc g comp k.

(** equality of the partitions induced by two component arrays (driver side) *)
Definition same_partitionb (c1 c2 : list nat) : bool :=
  (length c1 =? length c2)
  && forallb (fun u => forallb (fun v =>
       Bool.eqb (nth u c1 0 =? nth v c1 0) (nth u c2 0 =? nth v c2 0)) (seq 0 (length c1))) (seq 0 (length c1)).


End SccM.
Export SccM.
