(** Pinned statements for C15 (strongly connected components).  Statements only. *)
From WG Require Import Base.Prelude Algo.Scc.
Local Open Scope nat_scope.

(** the executable closure computes reachability *)
Definition S_reach_correct : Prop :=
  forall g u v, wf_graph g -> u < length g -> (In v (reach g u) <-> reachable g u v).

(** the checker decides the specification (no size bound) *)
Definition S_checker_sound_complete : Prop :=
  forall g comp k, check_scc g comp k = true <-> (wf_graph g /\ is_scc_partition g comp k).

(** renumbering by size, for every permutation the unstable sort may produce *)
Definition S_sort_by_size : Prop :=
  forall comp k perm,
    Forall (fun c => c < k) comp ->
    sorts_by_size (compute_sizes comp k) perm ->
    let comp' := fst (sort_by_size comp k perm) in
    let sizes' := snd (sort_by_size comp k perm) in
    length comp' = length comp
    /\ (forall u v, u < length comp -> v < length comp ->
          (nth u comp' 0 = nth v comp' 0 <-> nth u comp 0 = nth v comp 0))
    /\ Forall (fun c => c < k) comp'
    /\ sizes' = compute_sizes comp' k
    /\ Sorted ge sizes'
    /\ (forall g, is_scc_partition g comp k -> is_scc_partition g comp' k).

(** the executable test used by the driver to validate the reconstructed permutation *)
Definition S_sorts_by_sizeb_sound : Prop :=
  forall sizes perm, sorts_by_sizeb sizes perm = true -> sorts_by_size sizes perm.

(** sequential connected components of a symmetric graph *)
Definition S_symm_seq : Prop :=
  forall g, wf_graph g -> symmetric g ->
    is_cc_partition g (fst (symm_seq g)) (snd (symm_seq g))
    /\ is_scc_partition g (fst (symm_seq g)) (snd (symm_seq g)).

(** parallel connected components: for every schedule *)
Definition S_symm_par : Prop :=
  forall sched g, (forall i l, Permutation (sched i l) l) -> wf_graph g -> symmetric g ->
    is_cc_partition g (fst (symm_par sched g)) (snd (symm_par sched g))
    /\ is_scc_partition g (fst (symm_par sched g)) (snd (symm_par sched g)).

(** moreover the result does not depend on the schedule at all: it is the sequential one,
    numbering included *)
Definition S_symm_par_eq_seq : Prop :=
  forall sched g, (forall i l, Permutation (sched i l) l) -> wf_graph g -> symmetric g ->
    symm_par sched g = symm_seq g.

Definition S_kosaraju : Prop :=
  forall g gt, wf_graph g -> is_transpose g gt ->
    is_scc_partition g (fst (kosaraju g gt)) (snd (kosaraju g gt)).

(** the hypothesis of [S_kosaraju] is satisfiable for every graph *)
Definition S_transpose_ok : Prop := forall g, wf_graph g -> is_transpose g (transpose g).

Definition S_tarjan : Prop :=
  forall g, wf_graph g -> is_scc_partition g (fst (tarjan g)) (snd (tarjan g)).

(** Kosaraju's second phase is correct for every root order that contains all nodes and has
    the finishing-order property *)
Definition S_kosaraju_phase2 : Prop :=
  forall g gt order, wf_graph g -> is_transpose g gt ->
    (forall u, In u order <-> u < length g) ->
    finish_ordered g order ->
    let r := comp_loop (dfs_visit gt) order (length g) in
    is_scc_partition g (fst r) (snd r).

(** the gap between [S_kosaraju_phase2] and [S_kosaraju] *)
Definition S_top_sort_finish_ordered : Prop :=
  forall g, wf_graph g ->
    (forall u, In u (top_sort g) <-> u < length g) /\ finish_ordered g (top_sort g).

Definition S_finish_orderedb_sound : Prop :=
  forall g order, wf_graph g -> Forall (fun u => u < length g) order ->
    finish_orderedb g order = true -> finish_ordered g order.

(** bounded exhaustive instances: all digraphs (self-loops included) on at most 4 nodes *)
Definition S_tarjan_upto4 : Prop :=
  forall n g, n <= 4 -> In g (all_graphs n) -> is_scc_partition g (fst (tarjan g)) (snd (tarjan g)).
Definition S_kosaraju_upto4 : Prop :=
  forall n g, n <= 4 -> In g (all_graphs n) ->
    is_scc_partition g (fst (kosaraju g (transpose g))) (snd (kosaraju g (transpose g))).
