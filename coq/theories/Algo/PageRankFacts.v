(** C18 — proofs about the PageRank model (Algo/PageRankM.v). *)
From WG Require Import Algo.PageRankQ Algo.PageRankStatements.
From Coq Require Import Lia Lqa Setoid Morphisms Permutation.
Local Open Scope Q_scope.


Lemma sumn_ext n f g : (forall i, (i < n)%nat -> f i == g i) -> sumn n f == sumn n g.
Proof.
  induction n as [|k IH]; intros H; cbn [sumn]; [reflexivity|].
  rewrite IH by (intros; apply H; lia). rewrite (H k) by lia. reflexivity.
Qed.
Lemma sumn_plus n f g : sumn n (fun i => f i + g i) == sumn n f + sumn n g.
Proof. induction n as [|k IH]; cbn [sumn]; [reflexivity|]. rewrite IH. ring. Qed.
Lemma sumn_minus n f g : sumn n (fun i => f i - g i) == sumn n f - sumn n g.
Proof. induction n as [|k IH]; cbn [sumn]; [reflexivity|]. rewrite IH. ring. Qed.
Lemma sumn_scale n c f : sumn n (fun i => c * f i) == c * sumn n f.
Proof. induction n as [|k IH]; cbn [sumn]; [ring|]. rewrite IH. ring. Qed.
Lemma sumn_scale_r n c f : sumn n (fun i => f i * c) == sumn n f * c.
Proof. induction n as [|k IH]; cbn [sumn]; [ring|]. rewrite IH. ring. Qed.
Lemma sumn_zero n : sumn n (fun _ => 0) == 0.
Proof. induction n as [|k IH]; cbn [sumn]; [reflexivity|]. rewrite IH. ring. Qed.
Lemma sumn_le n f g : (forall i, (i < n)%nat -> f i <= g i) -> sumn n f <= sumn n g.
Proof.
  induction n as [|k IH]; intros H; cbn [sumn]; [apply Qle_refl|].
  apply Qplus_le_compat; [apply IH; intros; apply H; lia | apply H; lia].
Qed.
Lemma sumn_nonneg n f : (forall i, (i < n)%nat -> 0 <= f i) -> 0 <= sumn n f.
Proof.
  intros H. rewrite <- (sumn_zero n). apply sumn_le. exact H.
Qed.
Lemma sumn_swap n m (f : nat -> nat -> Q) :
  sumn n (fun i => sumn m (fun j => f i j)) == sumn m (fun j => sumn n (fun i => f i j)).
Proof.
  induction n as [|k IH]; cbn [sumn].
  - rewrite sumn_zero. reflexivity.
  - rewrite IH. rewrite <- sumn_plus. reflexivity.
Qed.
Lemma sumn_abs n f : Qabs (sumn n f) <= sumn n (fun i => Qabs (f i)).
Proof.
  induction n as [|k IH]; cbn [sumn]; [apply Qle_refl|].
  eapply Qle_trans; [apply Qabs_triangle|]. apply Qplus_le_compat; [exact IH|apply Qle_refl].
Qed.
(** a sum of non-positive terms that is non-negative has only zero terms *)
Lemma sumn_nonpos_zero n f :
  (forall i, (i < n)%nat -> f i <= 0) -> 0 <= sumn n f -> forall i, (i < n)%nat -> f i == 0.
Proof.
  induction n as [|k IH]; intros Hf Hs i Hi; [lia|].
  cbn [sumn] in Hs.
  assert (Hk : f k <= 0) by (apply Hf; lia).
  assert (Hsk : sumn k f <= 0).
  { rewrite <- (sumn_zero k). apply sumn_le. intros; apply Hf; lia. }
  destruct (Nat.eq_dec i k) as [->|Hne].
  - lra.
  - apply IH; [intros; apply Hf; lia | lra | lia].
Qed.
Lemma sumn_delta n a f : (a < n)%nat ->
  sumn n (fun j => if Nat.eqb j a then f j else 0) == f a.
Proof.
  induction n as [|k IH]; intros Ha; [lia|]. cbn [sumn].
  destruct (Nat.eq_dec a k) as [->|Hne].
  - rewrite Nat.eqb_refl.
    rewrite (sumn_ext k _ (fun _ => 0)).
    + rewrite sumn_zero. ring.
    + intros i Hi. destruct (Nat.eqb i k) eqn:E; [apply Nat.eqb_eq in E; lia|reflexivity].
  - rewrite IH by lia. destruct (Nat.eqb k a) eqn:E; [apply Nat.eqb_eq in E; lia|ring].
Qed.
Lemma suml_ext l f g : (forall j, In j l -> f j == g j) -> suml l f == suml l g.
Proof.
  induction l as [|a l IH]; intros H; cbn [suml]; [reflexivity|].
  rewrite IH by (intros; apply H; right; assumption). rewrite (H a) by (left; reflexivity). reflexivity.
Qed.
Lemma memb_In j l : memb j l = true <-> In j l.
Proof.
  unfold memb. rewrite existsb_exists. split.
  - intros [x [Hx E]]. apply Nat.eqb_eq in E. subst. exact Hx.
  - intros H. exists j. split; [exact H|apply Nat.eqb_refl].
Qed.
(** the dense sum of an indicator is the sparse sum *)
Lemma sumn_indicator n l f : NoDup l -> (forall j, In j l -> (j < n)%nat) ->
  sumn n (fun j => if memb j l then f j else 0) == suml l f.
Proof.
  induction l as [|a l IH]; intros Hnd Hr.
  - cbn [suml]. rewrite (sumn_ext n _ (fun _ => 0)); [apply sumn_zero|reflexivity].
  - inversion Hnd as [|a' l' Hna Hnd']; subst. cbn [suml].
    rewrite <- IH; [|exact Hnd'|intros; apply Hr; right; assumption].
    rewrite <- (sumn_delta n a f) by (apply Hr; left; reflexivity).
    rewrite <- sumn_plus. apply sumn_ext. intros j Hj.
    unfold memb. cbn [existsb]. fold (memb j l).
    destruct (Nat.eqb j a) eqn:E.
    + apply Nat.eqb_eq in E. subst j.
      destruct (memb a l) eqn:M; [apply memb_In in M; contradiction|]. cbn. ring.
    + cbn. destruct (memb j l); ring.
Qed.


Lemma cnt_nodup j l : NoDup l -> cnt j l = if memb j l then 1%nat else 0%nat.
Proof.
  induction l as [|a l IH]; intros Hnd; [reflexivity|].
  inversion Hnd as [|a' l' Hna Hnd']; subst.
  cbn [cnt]. unfold memb. cbn [existsb]. fold (memb j l). rewrite IH by exact Hnd'.
  destruct (Nat.eqb j a) eqn:E; [|reflexivity].
  apply Nat.eqb_eq in E. subst.
  destruct (memb a l) eqn:M; [apply memb_In in M; contradiction|reflexivity].
Qed.

Lemma inject_nat_S d : inject_Z (Z.of_nat (S d)) * (1 # Pos.of_succ_nat d) == 1.
Proof.
  unfold Qeq, Qmult, inject_Z. cbn [Qnum Qden].
  lia.
Qed.

Section Facts.
  Variable n : nat.
  Variable pred : nat -> list nat.
  Variable alpha : Q.
  Variable v : nat -> Q.
  Hypothesis Hg : wf_graph n pred.
  Hypothesis Ha : wf_alpha alpha.
  Hypothesis Hv : stochastic n v.

  Notation inv := (inv n pred).
  Notation dang := (dang n pred).
  Notation outdeg := (outdeg n pred).

  Lemma inv_nonneg j : 0 <= inv j.
  Proof. unfold PageRankM.inv. destruct outdeg; [apply Qle_refl|]. unfold Qle. cbn. lia. Qed.
  Lemma inv_le1 j : inv j <= 1.
  Proof. unfold PageRankM.inv. destruct outdeg; [lra|]. unfold Qle. cbn. lia. Qed.
  Lemma dang_inv j : dang j = true -> inv j = 0.
  Proof. unfold PageRankM.dang, PageRankM.inv. destruct outdeg; [reflexivity|discriminate]. Qed.

  (** row sums of P *)
  Lemma Pmat_row_upto j k : (k <= n)%nat ->
    sumn k (fun i => if memb j (pred i) then 1 else 0) == inject_Z (Z.of_nat (outdeg_upto pred k j)).
  Proof.
    induction k as [|k IH]; intros Hk; cbn [sumn outdeg_upto]; [reflexivity|].
    rewrite IH by lia. destruct (Hg k) as [Hnd _]; [lia|].
    rewrite (cnt_nodup j _ Hnd). rewrite Nat2Z.inj_add, inject_Z_plus.
    destruct (memb j (pred k)); reflexivity.
  Qed.
  Lemma Pmat_row j : sumn n (fun i => Pmat n pred j i) == if dang j then 0 else 1.
  Proof.
    unfold Pmat.
    rewrite (sumn_ext n _ (fun i => (if memb j (pred i) then 1 else 0) * inv j)).
    2:{ intros i _. destruct (memb j (pred i)); ring. }
    rewrite sumn_scale_r, Pmat_row_upto by lia.
    unfold PageRankM.inv, PageRankM.dang, PageRankM.outdeg.
    destruct (outdeg_upto pred n j) as [|d]; [ring|apply inject_nat_S].
  Qed.
  Lemma Pmat_nonneg j i : 0 <= Pmat n pred j i.
  Proof. unfold Pmat. destruct memb; [apply inv_nonneg|apply Qle_refl]. Qed.

  Lemma v_le1 i : (i < n)%nat -> v i <= 1.
  Proof.
    intros Hi. destruct Hv as [Hv0 Hv1]. rewrite <- Hv1.
    rewrite <- (sumn_delta n i v Hi). apply sumn_le. intros j Hj.
    destruct (Nat.eqb j i); [apply Qle_refl|apply Hv0; exact Hj].
  Qed.

  Section Mode.
  Variable md : prmode.
  Notation uvec := (uvec n v md).
  Notation Gmat := (Gmat n pred v md).

  Lemma uvec_nonneg i : (i < n)%nat -> 0 <= uvec i.
  Proof.
    intros Hi. unfold PageRankM.uvec. destruct md.
    - apply Hv; exact Hi.
    - destruct n; [lia|]. unfold Qle; cbn; lia.
    - apply Qle_refl.
  Qed.
  Lemma uvec_le1 i : (i < n)%nat -> uvec i <= 1.
  Proof.
    intros Hi. unfold PageRankM.uvec. destruct md.
    - apply v_le1; exact Hi.
    - destruct n; [lia|]. unfold Qle; cbn; lia.
    - lra.
  Qed.
  Lemma inv_n_sum k : sumn (S k) (fun _ => 1 # Pos.of_succ_nat k) == 1.
  Proof.
    rewrite (sumn_ext _ _ (fun _ => 1 * (1 # Pos.of_succ_nat k))) by (intros; ring).
    rewrite sumn_scale_r.
    assert (H : forall m, sumn m (fun _ => 1) == inject_Z (Z.of_nat m)).
    { induction m as [|m IH]; cbn [sumn]; [reflexivity|]. rewrite IH, Nat2Z.inj_succ.
      unfold Z.succ. rewrite inject_Z_plus. reflexivity. }
    rewrite H. apply inject_nat_S.
  Qed.
  Lemma uvec_sum : sumn n uvec == match md with PseudoRank => 0 | _ => 1 end.
  Proof.
    unfold PageRankM.uvec. destruct md.
    - apply Hv.
    - destruct n as [|k] eqn:E.
      + destruct Hv as [_ H1]. cbn in H1. lra.
      + apply inv_n_sum.
    - apply sumn_zero.
  Qed.
  Lemma Gmat_nonneg j i : (i < n)%nat -> 0 <= Gmat j i.
  Proof.
    intros Hi. unfold PageRankM.Gmat. pose proof (Pmat_nonneg j i). pose proof (uvec_nonneg i Hi).
    destruct (dang j); lra.
  Qed.
  Lemma Gmat_row j : sumn n (fun i => Gmat j i) ==
    if dang j then match md with PseudoRank => 0 | _ => 1 end else 1.
  Proof.
    unfold PageRankM.Gmat. rewrite sumn_plus, Pmat_row.
    destruct (dang j).
    - rewrite uvec_sum. ring.
    - rewrite sumn_zero. ring.
  Qed.
  Lemma Gmat_row_le1 j : sumn n (fun i => Gmat j i) <= 1.
  Proof. rewrite Gmat_row. destruct (dang j); [destruct md|]; lra. Qed.
  End Mode.
End Facts.


Section Thms.
  Variable n : nat.
  Variable pred : nat -> list nat.
  Variable alpha : Q.
  Variable v : nat -> Q.
  Hypothesis Hg : wf_graph n pred.
  Hypothesis Ha : wf_alpha alpha.
  Hypothesis Hv : stochastic n v.
  Variable md : prmode.
  Notation Gmat := (Gmat n pred v md).
  Notation solves := (solves n pred alpha v md).
  Notation resid := (resid n pred alpha v md).

  Lemma lhs_split x i : (i < n)%nat ->
    lhs n pred alpha v md x i == x i - alpha * sumn n (fun j => x j * Gmat j i).
  Proof.
    intros Hi. unfold lhs, Mmat.
    rewrite (sumn_ext n _ (fun j => (if Nat.eqb j i then x j else 0) - alpha * (x j * Gmat j i))).
    2:{ intros j _. destruct (Nat.eqb j i); ring. }
    rewrite sumn_minus, sumn_scale, sumn_delta by exact Hi. reflexivity.
  Qed.
  Lemma solves_resid x : solves x <-> (forall i, (i < n)%nat -> resid x i == 0).
  Proof.
    unfold PageRankM.solves, PageRankM.resid. split; intros H i Hi; specialize (H i Hi).
    - rewrite lhs_split in H by exact Hi. lra.
    - rewrite lhs_split by exact Hi. lra.
  Qed.

  (** x -> x (P + d^T u) does not increase the l1 norm *)
  Lemma G_contract z :
    sumn n (fun i => Qabs (sumn n (fun j => z j * Gmat j i))) <= l1 n z.
  Proof.
    eapply Qle_trans.
    { apply sumn_le. intros i Hi. eapply Qle_trans; [apply sumn_abs|].
      apply (sumn_le n _ (fun j => Qabs (z j) * Gmat j i)). intros j Hj.
      rewrite Qabs_Qmult. rewrite (Qabs_pos (Gmat j i)); [apply Qle_refl|].
      apply Gmat_nonneg; assumption. }
    rewrite sumn_swap. unfold l1. apply sumn_le. intros j Hj.
    rewrite sumn_scale.
    pose proof (Gmat_row_le1 n pred v Hg Hv md j) as H1.
    pose proof (Qabs_nonneg (z j)) as H0.
    change (sumn n (fun i => Gmat j i)) with (sumn n (Gmat j)) in H1. nra.
  Qed.

  (** a-posteriori bound: the l1 distance from a solution is at most the l1 norm of the
      fixed-point residual divided by (1 - alpha) *)
  Theorem residual_bound x y : solves y ->
    (1 - alpha) * sumn n (fun i => Qabs (x i - y i)) <= l1 n (resid x).
  Proof.
    intros Hy. pose proof (proj1 (solves_resid _) Hy) as Hy'; clear Hy; rename Hy' into Hy.
    set (e := fun i => x i - y i).
    assert (He : forall i, (i < n)%nat ->
              e i == alpha * sumn n (fun j => e j * Gmat j i) - resid x i).
    { intros i Hi. specialize (Hy i Hi). unfold PageRankM.resid in *. unfold e.
      rewrite (sumn_ext n (fun j => (x j - y j) * Gmat j i)
                 (fun j => x j * Gmat j i - y j * Gmat j i)) by (intros; ring).
      rewrite sumn_minus. lra. }
    assert (H1 : sumn n (fun i => Qabs (e i)) <=
                 alpha * sumn n (fun i => Qabs (sumn n (fun j => e j * Gmat j i))) + l1 n (resid x)).
    { unfold l1. rewrite <- sumn_scale, <- sumn_plus. apply sumn_le. intros i Hi.
      rewrite (He i Hi). eapply Qle_trans; [apply Qabs_triangle|].
      rewrite Qabs_opp, Qabs_Qmult. rewrite (Qabs_pos alpha) by apply Ha. apply Qle_refl. }
    pose proof (G_contract e) as H2. unfold l1 in H2.
    destruct Ha as [Ha0 Ha1].
    change (sumn n (fun i => Qabs (x i - y i))) with (sumn n (fun i => Qabs (e i))).
    set (E := sumn n (fun i => Qabs (e i))) in *.
    set (A := sumn n (fun i => Qabs (sumn n (fun j => e j * Gmat j i)))) in *.
    nra.
  Qed.

  Theorem unique x y : solves x -> solves y -> forall i, (i < n)%nat -> x i == y i.
  Proof.
    intros Hx Hy.
    pose proof (residual_bound x y Hy) as Hb.
    assert (Hr : l1 n (resid x) == 0).
    { unfold l1. pose proof (proj1 (solves_resid _) Hx) as Hx'; clear Hx; rename Hx' into Hx.
      rewrite (sumn_ext n _ (fun _ => 0)); [apply sumn_zero|].
      intros i Hi. rewrite (Hx i Hi). reflexivity. }
    assert (Hs : sumn n (fun i => Qabs (x i - y i)) <= 0).
    { destruct Ha as [Ha0 Ha1]. nra. }
    intros i Hi.
    assert (Hz : - Qabs (x i - y i) == 0).
    { apply (sumn_nonpos_zero n (fun i => - Qabs (x i - y i))); [| |exact Hi].
      - intros k _. pose proof (Qabs_nonneg (x k - y k)). lra.
      - rewrite (sumn_ext n _ (fun i => (-1) * Qabs (x i - y i))) by (intros; ring).
        rewrite sumn_scale. lra. }
    assert (Hz' : Qabs (x i - y i) == 0) by lra.
    pose proof (Qabs_Qle_condition (x i - y i) 0) as [Hc _].
    assert (Hc' : Qabs (x i - y i) <= 0) by lra. apply Hc in Hc'. lra.
  Qed.

  (** a solution has no negative component *)
  Theorem nonneg x : solves x -> forall i, (i < n)%nat -> 0 <= x i.
  Proof.
    intros Hx. pose proof (proj1 (solves_resid _) Hx) as Hx'; clear Hx; rename Hx' into Hx.
    set (w := fun i => if Qlt_le_dec (x i) 0 then 1 else 0).
    assert (Hw : forall i, w i == 0 \/ w i == 1).
    { intros i. unfold w. destruct Qlt_le_dec; [right|left]; reflexivity. }
    set (r := fun j => sumn n (fun i => w i * Gmat j i)).
    assert (Hr0 : forall j, 0 <= r j).
    { intros j. apply sumn_nonneg. intros i Hi. assert (0 <= Gmat j i) by (apply Gmat_nonneg; assumption).
      destruct (Hw i) as [E|E]; rewrite E; lra. }
    assert (Hr1 : forall j, r j <= 1).
    { intros j. eapply Qle_trans; [|apply (Gmat_row_le1 n pred v Hg Hv md j)].
      apply sumn_le. intros i Hi. assert (0 <= Gmat j i) by (apply Gmat_nonneg; assumption).
      destruct (Hw i) as [E|E]; rewrite E; lra. }
    set (S := sumn n (fun i => w i * x i)).
    assert (Hterm : forall i, w i * x i <= 0).
    { intros i. unfold w. destruct Qlt_le_dec; lra. }
    assert (HS : alpha * S <= S).
    { unfold S at 2.
      (* S = (1-alpha) sum w v + alpha sum_j x_j r_j *)
      rewrite (sumn_ext n (fun i => w i * x i)
        (fun i => (1 - alpha) * (w i * v i) + alpha * sumn n (fun j => x j * (w i * Gmat j i)))).
      2:{ intros i Hi. specialize (Hx i Hi). unfold PageRankM.resid in Hx.
          rewrite (sumn_ext n (fun j => x j * (w i * Gmat j i)) (fun j => w i * (x j * Gmat j i)))
            by (intros; ring).
          rewrite sumn_scale. set (s := sumn n (fun j => x j * Gmat j i)) in *.
          assert (Hxi : x i == (1 - alpha) * v i + alpha * s) by lra.
          transitivity (w i * ((1 - alpha) * v i + alpha * s));
            [apply Qmult_comp; [reflexivity|exact Hxi] | ring]. }
      rewrite sumn_plus, !sumn_scale, sumn_swap.
      rewrite (sumn_ext n (fun j => sumn n (fun i => x j * (w i * Gmat j i))) (fun j => x j * r j)).
      2:{ intros j Hj. unfold r. rewrite sumn_scale. reflexivity. }
      assert (H1 : 0 <= sumn n (fun i => w i * v i)).
      { apply sumn_nonneg. intros i Hi. destruct Hv as [Hv0 _]. specialize (Hv0 i Hi).
        destruct (Hw i) as [E|E]; rewrite E; lra. }
      assert (H2 : S <= sumn n (fun j => x j * r j)).
      { unfold S. apply sumn_le. intros j Hj. specialize (Hr0 j). specialize (Hr1 j).
        unfold w. destruct Qlt_le_dec; nra. }
      destruct Ha as [Ha0 Ha1]. nra. }
    assert (HS0 : 0 <= S). { destruct Ha as [Ha0 Ha1]. nra. }
    intros i Hi.
    pose proof (sumn_nonpos_zero n (fun i => w i * x i) (fun i _ => Hterm i) HS0 i Hi) as Hz.
    cbv beta in Hz. unfold w in Hz. destruct (Qlt_le_dec (x i) 0); lra.
  Qed.

  (** total mass *)
  Lemma mass x : solves x ->
    sumn n x == (1 - alpha) + alpha * sumn n (fun j => x j * sumn n (fun i => Gmat j i)).
  Proof.
    intros Hx. pose proof (proj1 (solves_resid _) Hx) as Hx'; clear Hx; rename Hx' into Hx.
    rewrite (sumn_ext n x (fun i => (1 - alpha) * v i + alpha * sumn n (fun j => x j * Gmat j i))).
    2:{ intros i Hi. specialize (Hx i Hi). unfold PageRankM.resid in Hx. lra. }
    rewrite sumn_plus, !sumn_scale, sumn_swap.
    destruct Hv as [_ Hv1]. rewrite Hv1.
    rewrite (sumn_ext n (fun j => sumn n (fun i => x j * Gmat j i))
               (fun j => x j * sumn n (fun i => Gmat j i))).
    2:{ intros j _. rewrite sumn_scale. reflexivity. }
    ring.
  Qed.
End Thms.


Lemma suml_loop_split l i (f : nat -> Q) : NoDup l ->
  suml l f == suml l (fun j => if Nat.eqb j i then 0 else f j) + (if memb i l then f i else 0).
Proof.
  induction l as [|a l IH]; intros Hnd; cbn [suml]; [cbn; ring|].
  inversion Hnd as [|a' l' Hna Hnd']; subst.
  rewrite (IH Hnd'). unfold memb. cbn [existsb]. fold (memb i l).
  destruct (Nat.eqb a i) eqn:E.
  - apply Nat.eqb_eq in E. subst a. rewrite Nat.eqb_refl. cbn [orb].
    destruct (memb i l) eqn:M; [apply memb_In in M; contradiction|]. ring.
  - rewrite Nat.eqb_sym, E. cbn [orb]. ring.
Qed.

Section Thms2.
  Variable n : nat.
  Variable pred : nat -> list nat.
  Variable alpha : Q.
  Variable v : nat -> Q.
  Hypothesis Hg : wf_graph n pred.
  Hypothesis Ha : wf_alpha alpha.
  Hypothesis Hv : stochastic n v.

  Theorem stochastic_sum md x : md <> PseudoRank -> solves n pred alpha v md x -> sumn n x == 1.
  Proof.
    intros Hmd Hx. pose proof (mass n pred alpha v Hv md x Hx) as Hm.
    rewrite (sumn_ext n (fun j => x j * sumn n (fun i => Gmat n pred v md j i)) x) in Hm.
    - destruct Ha as [Ha0 Ha1]. nra.
    - intros j Hj. rewrite (Gmat_row n pred v Hg Hv md j).
      destruct (dang n pred j); [destruct md; [ring|ring|contradiction]|ring].
  Qed.

  Lemma lhs_sparse_eq md x i : (i < n)%nat ->
    lhs n pred alpha v md x i == lhs_sparse n pred alpha v md x (dangling_rank n pred x) i.
  Proof.
    intros Hi. rewrite lhs_split by exact Hi. unfold lhs_sparse, Gmat.
    rewrite (sumn_ext n _ (fun j => (if memb j (pred i) then x j * inv n pred j else 0)
                                   + (if dang n pred j then x j else 0) * uvec n v md i)).
    2:{ intros j _. unfold Pmat. destruct (memb j (pred i)); destruct (dang n pred j); ring. }
    rewrite sumn_plus, sumn_scale_r.
    destruct (Hg i Hi) as [Hnd Hr].
    rewrite (sumn_indicator n (pred i) (fun j => x j * inv n pred j) Hnd Hr).
    reflexivity.
  Qed.

  Theorem fixed_point_is_solution md x : fixedpt n pred alpha v md x -> solves n pred alpha v md x.
  Proof.
    intros Hf i Hi. specialize (Hf i Hi).
    rewrite lhs_sparse_eq by exact Hi. unfold lhs_sparse.
    set (D := dangling_rank n pred x) in *.
    destruct (Hg i Hi) as [Hnd Hr].
    rewrite (suml_loop_split (pred i) i (fun j => x j * inv n pred j) Hnd).
    unfold upd in Hf. fold (sigma_pred n pred x i) in Hf. unfold sigma_pred in *.
    set (S' := suml (pred i) (fun j => if Nat.eqb j i then 0 else x j * inv n pred j)) in *.
    assert (Hu0 : 0 <= uvec n v md i) by (eapply uvec_nonneg; eassumption).
    assert (Hu1 : uvec n v md i <= 1) by (eapply uvec_le1; eassumption).
    pose proof (inv_nonneg n pred i) as Hi0.
    pose proof (inv_le1 n pred i) as Hi1.
    destruct Ha as [Ha0 Ha1].
    assert (Hslf : 0 < self_loop_factor n pred alpha v md i).
    { unfold self_loop_factor. destruct (dang n pred i); [destruct md|destruct (has_loop pred i)]; nra. }
    assert (Hmul : x i * self_loop_factor n pred alpha v md i ==
                   (1 - alpha) * v i + alpha * (S' + match md with PseudoRank => 0 | _ =>
                       (D - (if dang n pred i then x i else 0)) * uvec n v md i end)).
    { rewrite Hf at 1. rewrite Qmult_comm. apply Qmult_div_r. lra. }
    clear Hf. unfold self_loop_factor, has_loop in Hmul.
    destruct (dang n pred i) eqn:Ed.
    - rewrite (dang_inv n pred i Ed) in *.
      destruct md; cbn [uvec] in *; destruct (memb i (pred i)); lra.
    - destruct md; cbn [uvec] in *; destruct (memb i (pred i)); lra.
  Qed.
End Thms2.


Section Thms3.
  Variable n : nat.
  Variable pred : nat -> list nat.
  Variable alpha : Q.
  Variable v : nat -> Q.
  Hypothesis Hg : wf_graph n pred.
  Hypothesis Ha : wf_alpha alpha.
  Hypothesis Hv : stochastic n v.

  Lemma pseudo_mass y : solves n pred alpha v PseudoRank y ->
    (1 - alpha) * sumn n y == (1 - alpha) - alpha * dangling_rank n pred y.
  Proof.
    intros Hy. pose proof (mass n pred alpha v Hv PseudoRank y Hy) as Hm.
    rewrite (sumn_ext n (fun j => y j * sumn n (fun i => Gmat n pred v PseudoRank j i))
               (fun j => y j - (if dang n pred j then y j else 0))) in Hm.
    - rewrite sumn_minus in Hm. unfold dangling_rank. lra.
    - intros j Hj. rewrite (Gmat_row n pred v Hg Hv PseudoRank j).
      destruct (dang n pred j); ring.
  Qed.

  Lemma pseudo_mass_pos y : solves n pred alpha v PseudoRank y -> 1 - alpha <= sumn n y.
  Proof.
    intros Hy. pose proof (mass n pred alpha v Hv PseudoRank y Hy) as Hm.
    pose proof (nonneg n pred alpha v Hg Ha Hv PseudoRank y Hy) as Hn.
    assert (H0 : 0 <= sumn n (fun j => y j * sumn n (fun i => Gmat n pred v PseudoRank j i))).
    { apply sumn_nonneg. intros j Hj. specialize (Hn j Hj).
      assert (0 <= sumn n (fun i => Gmat n pred v PseudoRank j i)).
      { apply sumn_nonneg. intros i Hi. eapply Gmat_nonneg; eassumption. }
      nra. }
    destruct Ha as [Ha0 Ha1]. nra.
  Qed.

  (** the normalised pseudorank solves the strongly preferential system *)
  Lemma pseudo_normalised y : solves n pred alpha v PseudoRank y ->
    solves n pred alpha v StronglyPreferential (fun i => y i / sumn n y).
  Proof.
    intros Hy. pose proof (pseudo_mass y Hy) as Hm. pose proof (pseudo_mass_pos y Hy) as Hp.
    pose proof Ha as [Ha0 Ha1].
    set (T := sumn n y) in *.
    assert (HT : ~ T == 0) by lra.
    apply (proj2 (solves_resid n pred alpha v _ _)). intros i Hi.
    pose proof (proj1 (solves_resid n pred alpha v PseudoRank y) Hy i Hi) as Hyi.
    unfold resid in *.
    rewrite (sumn_ext n (fun j => y j / T * Gmat n pred v StronglyPreferential j i)
               (fun j => (/ T) * (y j * Gmat n pred v PseudoRank j i
                                  + (if dang n pred j then y j else 0) * v i))).
    2:{ intros j _. unfold Gmat, uvec. destruct (dang n pred j); field; exact HT. }
    rewrite sumn_scale, sumn_plus, sumn_scale_r.
    fold (dangling_rank n pred y).
    set (A := sumn n (fun j => y j * Gmat n pred v PseudoRank j i)) in *.
    set (s := dangling_rank n pred y) in *.
    assert (E : (1 - alpha) * v i + alpha * (/ T * (A + s * v i)) - y i / T ==
                (/ T) * ((1 - alpha) * T * v i + alpha * (A + s * v i) - y i)) by (field; exact HT).
    rewrite E.
    assert (Hm' : (1 - alpha) * T * v i == (1 - alpha - alpha * s) * v i)
      by (rewrite Hm; reflexivity).
    assert (E2 : (1 - alpha) * T * v i + alpha * (A + s * v i) - y i == 0) by lra.
    rewrite E2. ring.
  Qed.

  Theorem pseudorank_proportional x y :
    solves n pred alpha v StronglyPreferential x -> solves n pred alpha v PseudoRank y ->
    0 < sumn n y /\ forall i, (i < n)%nat -> x i == y i / sumn n y.
  Proof.
    intros Hx Hy. split.
    - pose proof (pseudo_mass_pos y Hy). destruct Ha. lra.
    - apply (unique n pred alpha v Hg Ha Hv StronglyPreferential); [exact Hx|].
      apply pseudo_normalised. exact Hy.
  Qed.
End Thms3.


Lemma nodupb_NoDup l : nodupb l = true -> NoDup l.
Proof.
  induction l as [|a l IH]; intros H; [constructor|].
  cbn [nodupb] in H. apply andb_true_iff in H. destruct H as [H1 H2].
  constructor; [|apply IH; exact H2].
  intros Hin. apply memb_In in Hin. rewrite Hin in H1. discriminate.
Qed.

Lemma wf_graphb_wf gt : wf_graphb gt = true -> wf_graph (length gt) (predf gt).
Proof.
  unfold wf_graphb. rewrite forallb_forall. intros H i Hi.
  assert (Hin : In (predf gt i) gt) by (unfold predf; apply nth_In; exact Hi).
  specialize (H _ Hin). apply andb_true_iff in H. destruct H as [H1 H2].
  split; [apply nodupb_NoDup; exact H1|].
  rewrite forallb_forall in H2. intros j Hj. specialize (H2 j Hj).
  apply Nat.ltb_lt in H2. exact H2.
Qed.

Lemma wf_alphab_wf alpha : wf_alphab alpha = true -> wf_alpha alpha.
Proof.
  unfold wf_alphab, wf_alpha. intros H. apply andb_true_iff in H. destruct H as [H1 H2].
  apply Qle_bool_iff in H1. split; [exact H1|].
  apply negb_true_iff in H2. apply Qnot_le_lt. intros Hc. apply Qle_bool_iff in Hc.
  rewrite Hc in H2. discriminate.
Qed.

Lemma stochasticb_wf v : stochasticb v = true -> stochastic (length v) (vecf v).
Proof.
  unfold stochasticb, stochastic. intros H. apply andb_true_iff in H. destruct H as [H1 H2].
  split.
  - rewrite forallb_forall in H1. intros i Hi. apply Qle_bool_iff. apply H1.
    unfold vecf. apply nth_In. exact Hi.
  - apply Qeq_bool_iff. exact H2.
Qed.

Theorem exact_certificate gt alpha v md xs :
  wf_graphb gt = true -> residual_zero gt alpha v md xs = true ->
  solves (length gt) (predf gt) alpha (vecf v) md (vecf xs).
Proof.
  intros Hwf Hr. apply wf_graphb_wf in Hwf.
  unfold residual_zero in Hr. apply andb_true_iff in Hr. destruct Hr as [_ Hr].
  rewrite forallb_forall in Hr. intros i Hi.
  assert (Hin : In i (seq 0 (length gt))) by (apply in_seq; lia).
  specialize (Hr i Hin). apply Qeq_bool_iff in Hr.
  rewrite <- Hr. erewrite lhs_sparse_eq by eassumption.
  unfold lhs_sparse. rewrite Qred_correct. reflexivity.
Qed.


Section Converse.
  Variable n : nat.
  Variable pred : nat -> list nat.
  Variable alpha : Q.
  Variable v : nat -> Q.
  Hypothesis Hg : wf_graph n pred.
  Hypothesis Ha : wf_alpha alpha.
  Hypothesis Hv : stochastic n v.

  Theorem solution_is_fixed_point_aux md x :
    solves n pred alpha v md x -> fixedpt n pred alpha v md x.
  Proof.
    intros Hs i Hi. specialize (Hs i Hi).
    rewrite lhs_sparse_eq in Hs by eassumption. unfold lhs_sparse in Hs.
    set (D := dangling_rank n pred x) in *.
    destruct (Hg i Hi) as [Hnd Hr].
    rewrite (suml_loop_split (pred i) i (fun j => x j * inv n pred j) Hnd) in Hs.
    unfold upd. fold (sigma_pred n pred x i). unfold sigma_pred in *.
    set (S' := suml (pred i) (fun j => if Nat.eqb j i then 0 else x j * inv n pred j)) in *.
    assert (Hu0 : 0 <= uvec n v md i) by (eapply uvec_nonneg; eassumption).
    assert (Hu1 : uvec n v md i <= 1) by (eapply uvec_le1; eassumption).
    pose proof (inv_nonneg n pred i) as Hi0.
    pose proof (inv_le1 n pred i) as Hi1.
    destruct Ha as [Ha0 Ha1].
    assert (Hslf : 0 < self_loop_factor n pred alpha v md i).
    { unfold self_loop_factor. destruct (dang n pred i); [destruct md|destruct (has_loop pred i)]; nra. }
    assert (Hmul : x i * self_loop_factor n pred alpha v md i ==
                   (1 - alpha) * v i + alpha * (S' + match md with PseudoRank => 0 | _ =>
                       (D - (if dang n pred i then x i else 0)) * uvec n v md i end)).
    { unfold self_loop_factor, has_loop.
      destruct (dang n pred i) eqn:Ed.
      - rewrite (dang_inv n pred i Ed) in *.
        destruct md; cbn [uvec] in *; destruct (memb i (pred i)); lra.
      - destruct md; cbn [uvec] in *; destruct (memb i (pred i)); lra. }
    rewrite <- Hmul. symmetry. apply Qdiv_mult_l. lra.
  Qed.
End Converse.


Lemma sumn_remove n i f : (i < n)%nat ->
  sumn n (fun j => if Nat.eqb j i then 0 else f j) == sumn n f - f i.
Proof.
  intros Hi. rewrite <- (sumn_delta n i f Hi). rewrite <- sumn_minus.
  apply sumn_ext. intros j _. destruct (Nat.eqb j i); ring.
Qed.

Section Async.
  Variable n : nat.
  Variable pred : nat -> list nat.
  Variable alpha : Q.
  Variable v : nat -> Q.
  Hypothesis Hg : wf_graph n pred.
  Hypothesis Ha : wf_alpha alpha.
  Hypothesis Hv : stochastic n v.
  Variable md : prmode.
  Notation Gmat := (Gmat n pred v md).
  Notation slf := (self_loop_factor n pred alpha v md).

  Lemma slf_G i : (i < n)%nat -> slf i == 1 - alpha * Gmat i i.
  Proof.
    intros Hi. unfold self_loop_factor, PageRankM.Gmat, Pmat, has_loop.
    destruct (dang n pred i) eqn:Ed.
    - rewrite (dang_inv n pred i Ed).
      destruct md; cbn [uvec]; destruct (memb i (pred i)); ring.
    - destruct (memb i (pred i)); ring.
  Qed.

  Lemma slf_pos i : (i < n)%nat -> 0 < slf i.
  Proof.
    intros Hi.
    assert (Hu0 : 0 <= uvec n v md i) by (eapply uvec_nonneg; eassumption).
    assert (Hu1 : uvec n v md i <= 1) by (eapply uvec_le1; eassumption).
    pose proof (inv_nonneg n pred i) as Hi0.
    pose proof (inv_le1 n pred i) as Hi1.
    destruct Ha as [Ha0 Ha1].
    unfold self_loop_factor. destruct (dang n pred i); [destruct md|destruct (has_loop pred i)]; nra.
  Qed.

  (** the update in dense form: reads [r], own old value [r i], dangling rank of [x] *)
  Lemma upd_dense r x i : (i < n)%nat -> r i == x i ->
    upd n pred alpha v md r (dangling_rank n pred x) i * slf i ==
    (1 - alpha) * v i +
    alpha * sumn n (fun j => if Nat.eqb j i then 0
                             else r j * Pmat n pred j i + (if dang n pred j then x j else 0) * uvec n v md i).
  Proof.
    intros Hi Hri. unfold upd.
    rewrite Qmult_comm, Qmult_div_r by (pose proof (slf_pos i Hi); lra).
    destruct (Hg i Hi) as [Hnd Hr].
    rewrite (sumn_ext n _ (fun j => (if memb j (pred i) then (if Nat.eqb j i then 0 else r j * inv n pred j) else 0)
                 + (if Nat.eqb j i then 0 else (if dang n pred j then x j else 0)) * uvec n v md i)).
    2:{ intros j _. unfold Pmat. destruct (Nat.eqb j i); destruct (memb j (pred i)); ring. }
    rewrite sumn_plus, sumn_scale_r.
    rewrite (sumn_indicator n (pred i) (fun j => if Nat.eqb j i then 0 else r j * inv n pred j) Hnd Hr).
    rewrite (sumn_remove n i (fun j => if dang n pred j then x j else 0) Hi).
    fold (dangling_rank n pred x). unfold sigma_pred.
    destruct md; cbn [uvec]; destruct (dang n pred i); rewrite ?Hri; ring.
  Qed.

  Variable x x' y : nat -> Q.
  Hypothesis Hstep : async_step n pred alpha v md x x'.
  Hypothesis Hy : solves n pred alpha v md y.
  Let w (j : nat) : Q := Qabs (x' j - y j) + Qabs (x' j - x j).

  Lemma abs_tri3 a b c : Qabs (a - c) <= Qabs (b - c) + Qabs (b - a).
  Proof.
    setoid_replace (a - c) with ((b - c) + - (b - a)) by ring.
    eapply Qle_trans; [apply Qabs_triangle|]. rewrite Qabs_opp. apply Qle_refl.
  Qed.

  Lemma async_node i : (i < n)%nat ->
    Qabs (x' i - y i) <= alpha * sumn n (fun j => w j * Gmat j i).
  Proof.
    intros Hi.
    pose proof (solution_is_fixed_point_aux n pred alpha v Hg Ha Hv md y Hy i Hi) as Hyi.
    destruct (Hstep i Hi) as (r & Hr1 & Hr2 & Hr3).
    assert (A : x' i * slf i == (1 - alpha) * v i +
      alpha * sumn n (fun j => if Nat.eqb j i then 0
         else r j * Pmat n pred j i + (if dang n pred j then x j else 0) * uvec n v md i)).
    { rewrite Hr1 at 1. apply upd_dense; [exact Hi|exact Hr2]. }
    assert (B : y i * slf i == (1 - alpha) * v i +
      alpha * sumn n (fun j => if Nat.eqb j i then 0
         else y j * Pmat n pred j i + (if dang n pred j then y j else 0) * uvec n v md i)).
    { rewrite Hyi at 1. apply upd_dense; [exact Hi|reflexivity]. }
    assert (C : (x' i - y i) * slf i == alpha * sumn n (fun j => if Nat.eqb j i then 0
         else (r j - y j) * Pmat n pred j i + (if dang n pred j then x j - y j else 0) * uvec n v md i)).
    { setoid_replace ((x' i - y i) * slf i) with (x' i * slf i - y i * slf i) by ring.
      rewrite A, B.
      setoid_replace ((1 - alpha) * v i + alpha * sumn n (fun j => if Nat.eqb j i then 0
           else r j * Pmat n pred j i + (if dang n pred j then x j else 0) * uvec n v md i) -
         ((1 - alpha) * v i + alpha * sumn n (fun j => if Nat.eqb j i then 0
           else y j * Pmat n pred j i + (if dang n pred j then y j else 0) * uvec n v md i)))
        with (alpha * (sumn n (fun j => if Nat.eqb j i then 0
           else r j * Pmat n pred j i + (if dang n pred j then x j else 0) * uvec n v md i) -
          sumn n (fun j => if Nat.eqb j i then 0
           else y j * Pmat n pred j i + (if dang n pred j then y j else 0) * uvec n v md i))) by ring.
      rewrite <- sumn_minus. apply Qmult_comp; [reflexivity|]. apply sumn_ext. intros j _.
      destruct (Nat.eqb j i); [ring|]. destruct (dang n pred j); ring. }
    pose proof (slf_pos i Hi) as Hpos.
    assert (Hu0 : 0 <= uvec n v md i) by (eapply uvec_nonneg; eassumption).
    assert (D : Qabs (x' i - y i) * slf i <=
                alpha * sumn n (fun j => if Nat.eqb j i then 0 else w j * Gmat j i)).
    { rewrite <- (Qabs_pos (slf i)) at 1 by lra. rewrite <- Qabs_Qmult, C, Qabs_Qmult.
      rewrite (Qabs_pos alpha) by apply Ha.
      rewrite !(Qmult_comm alpha). apply Qmult_le_compat_r; [|apply Ha].
      eapply Qle_trans; [apply sumn_abs|]. apply sumn_le. intros j Hj.
      destruct (Nat.eqb j i) eqn:E; [cbn; apply Qle_refl|].
      eapply Qle_trans; [apply Qabs_triangle|]. rewrite !Qabs_Qmult.
      pose proof (Pmat_nonneg n pred j i) as HP.
      rewrite (Qabs_pos (Pmat n pred j i)) by exact HP.
      rewrite (Qabs_pos (uvec n v md i)) by exact Hu0.
      assert (H1 : Qabs (r j - y j) <= w j).
      { unfold w. destruct (Hr3 j) as [Er|Er]; rewrite Er.
        - apply abs_tri3.
        - pose proof (Qabs_nonneg (x' j - x j)). lra. }
      assert (H2 : Qabs (if dang n pred j then x j - y j else 0) <= w j).
      { unfold w. destruct (dang n pred j).
        - apply abs_tri3.
        - pose proof (Qabs_nonneg (x' j - x j)). pose proof (Qabs_nonneg (x' j - y j)). change (Qabs 0) with 0. lra. }
      unfold PageRankM.Gmat.
      assert (H3 : Qabs (if dang n pred j then x j - y j else 0) * uvec n v md i <=
                   w j * (if dang n pred j then uvec n v md i else 0)).
      { destruct (dang n pred j); [nra|]. change (Qabs 0) with 0. lra. }
      nra. }
    rewrite (sumn_remove n i (fun j => w j * Gmat j i) Hi) in D.
    rewrite (slf_G i Hi) in D.
    assert (Hw : Qabs (x' i - y i) <= w i).
    { unfold w. pose proof (Qabs_nonneg (x' i - x i)). lra. }
    assert (HG : 0 <= Gmat i i) by (eapply Gmat_nonneg; eassumption).
    destruct Ha as [Ha0 Ha1].
    set (S := sumn n (fun j => w j * Gmat j i)) in *.
    assert (HK : 0 <= alpha * Gmat i i * (w i - Qabs (x' i - y i))).
    { apply Qmult_le_0_compat; [apply Qmult_le_0_compat; lra|lra]. }
    lra.
  Qed.

  Theorem async_error_bound :
    (1 - alpha) * sumn n (fun i => Qabs (x' i - y i)) <= alpha * sumn n (fun i => Qabs (x' i - x i)).
  Proof.
    assert (H1 : sumn n (fun i => Qabs (x' i - y i)) <=
                 alpha * sumn n (fun i => sumn n (fun j => w j * Gmat j i))).
    { rewrite <- sumn_scale. apply sumn_le. intros i Hi. apply async_node. exact Hi. }
    rewrite sumn_swap in H1.
    assert (H2 : sumn n (fun j => sumn n (fun i => w j * Gmat j i)) <= sumn n w).
    { apply sumn_le. intros j Hj. rewrite sumn_scale.
      pose proof (Gmat_row_le1 n pred v Hg Hv md j) as Hr.
      change (sumn n (fun i => Gmat j i)) with (sumn n (Gmat j)) in Hr.
      assert (0 <= w j).
      { unfold w. pose proof (Qabs_nonneg (x' j - x j)). pose proof (Qabs_nonneg (x' j - y j)). lra. }
      nra. }
    assert (H3 : sumn n w == sumn n (fun i => Qabs (x' i - y i)) + sumn n (fun i => Qabs (x' i - x i))).
    { unfold w. rewrite sumn_plus. reflexivity. }
    destruct Ha as [Ha0 Ha1].
    set (E := sumn n (fun i => Qabs (x' i - y i))) in *.
    set (Dl := sumn n (fun i => Qabs (x' i - x i))) in *.
    set (W := sumn n (fun j => sumn n (fun i => w j * Gmat j i))) in *.
    nra.
  Qed.
End Async.

(** ** The pinned statements *)
Theorem exact_certificate_thm : S_exact_certificate.
Proof. exact exact_certificate. Qed.

Theorem residual_bound_thm : S_residual_bound.
Proof. intros n pred alpha v md x y (Hg & Ha & Hv). apply residual_bound; assumption. Qed.

Theorem unique_thm : S_unique.
Proof. intros n pred alpha v md x y (Hg & Ha & Hv). apply unique; assumption. Qed.

Theorem fixed_point_is_solution_thm : S_fixed_point_is_solution.
Proof. intros n pred alpha v md x (Hg & Ha & Hv). apply fixed_point_is_solution; assumption. Qed.

Theorem solution_is_fixed_point_thm : S_solution_is_fixed_point.
Proof. intros n pred alpha v md x (Hg & Ha & Hv). apply solution_is_fixed_point_aux; assumption. Qed.

Theorem nonneg_thm : S_nonneg.
Proof. intros n pred alpha v md x (Hg & Ha & Hv). apply nonneg; assumption. Qed.

Theorem stochastic_thm : S_stochastic.
Proof. intros n pred alpha v md x (Hg & Ha & Hv). apply stochastic_sum; assumption. Qed.

Theorem pseudorank_proportional_thm : S_pseudorank_proportional.
Proof. intros n pred alpha v x y (Hg & Ha & Hv). apply pseudorank_proportional; assumption. Qed.

Theorem certified_oracle_thm : S_certified_oracle.
Proof.
  intros gt alpha v md xs Hc. unfold certified in Hc.
  apply andb_true_iff in Hc. destruct Hc as [Hc Hres].
  apply andb_true_iff in Hc. destruct Hc as [Hc Hlen].
  apply andb_true_iff in Hc. destruct Hc as [Hc Hst].
  apply andb_true_iff in Hc. destruct Hc as [Hgb Hab].
  pose proof (wf_graphb_wf gt Hgb) as Hg.
  pose proof (wf_alphab_wf alpha Hab) as Ha.
  pose proof (stochasticb_wf v Hst) as Hv.
  apply Nat.eqb_eq in Hlen. rewrite Hlen in Hv.
  pose proof (exact_certificate gt alpha v md xs Hgb Hres) as Hs.
  cbv zeta. split; [exact Hs|]. split; [|split].
  - intros y Hy. apply (unique _ _ _ _ Hg Ha Hv md); assumption.
  - apply (nonneg _ _ _ _ Hg Ha Hv md). exact Hs.
  - intros Hmd. apply (stochastic_sum _ _ _ _ Hg Ha Hv md); assumption.
Qed.

Theorem async_error_bound_thm : S_async_error_bound.
Proof.
  intros n pred alpha v md x x' y (Hg & Ha & Hv) Hstep Hy.
  apply (async_error_bound n pred alpha v Hg Ha Hv md x x' y); assumption.
Qed.

(** ** The executable sweep satisfies the equations of an asynchronous iteration *)

Lemma set_nth_length i a l : length (set_nth i a l) = length l.
Proof. revert i; induction l as [|b l IH]; intros [|i]; cbn; auto. Qed.
Lemma set_nth_same i a l : (i < length l)%nat -> nth i (set_nth i a l) 0 = a.
Proof. revert i; induction l as [|b l IH]; intros [|i] H; cbn in *; try lia; auto. apply IH; lia. Qed.
Lemma set_nth_other i j a l : i <> j -> nth j (set_nth i a l) 0 = nth j l 0.
Proof.
  revert i j; induction l as [|b l IH]; intros [|i] [|j] H; cbn; auto; try lia.
  all: try (apply IH; lia).
Qed.

Lemma suml_perm l l' f : Permutation l l' -> suml l f == suml l' f.
Proof.
  induction 1; cbn [suml]; try reflexivity.
  - rewrite IHPermutation. reflexivity.
  - ring.
  - rewrite IHPermutation1. exact IHPermutation2.
Qed.
Lemma suml_seq n f : suml (seq 0 n) f == sumn n f.
Proof.
  induction n as [|k IH]; [reflexivity|].
  rewrite seq_S. cbn [sumn Nat.add]. rewrite <- IH.
  generalize (seq 0 k). intros l. induction l as [|a l IHl]; cbn [suml app]; [ring|].
  rewrite IHl. ring.
Qed.
Lemma l1dist_sumn a b : length a = length b ->
  l1dist a b == sumn (length a) (fun i => Qabs (vecf a i - vecf b i)).
Proof.
  revert b. induction a as [|x a IH]; intros [|y b] H; cbn in H; try lia; [reflexivity|].
  cbn [l1dist length]. rewrite IH by lia.
  (* sumn (S n) f == f 0 + sumn n (fun i => f (S i)) *)
  assert (Hs : forall n (f : nat -> Q), sumn (S n) f == f O + sumn n (fun i => f (S i))).
  { induction n as [|k IHk]; intros f; cbn [sumn]; [ring|].
    cbn [sumn] in IHk. rewrite IHk. ring. }
  rewrite Hs. unfold vecf. cbn [nth]. reflexivity.
Qed.

Section SweepLink.
  Variable gt : list (list nat).
  Variable alpha : Q.
  Variable v : list Q.
  Variable md : prmode.
  Variable old : list Q.
  Variable dr : Q.
  Variable stale : nat -> nat -> bool.
  Notation n := (length gt).
  Notation step := (sweep_step gt alpha v md old dr stale).

  Lemma fold_inv l : forall cur d a, NoDup l -> (forall i, In i l -> (i < length cur)%nat) ->
    match fold_left step l (cur, d, a) with
    | (cur', _, a') =>
      length cur' = length cur /\
      (forall j, ~ In j l -> nth j cur' 0 = nth j cur 0) /\
      (forall i, In i l -> exists r : nat -> Q,
          nth i cur' 0 == upd n (predf gt) alpha (vecf v) md r dr i /\ r i = nth i cur 0 /\
          forall j, r j = nth j old 0 \/ r j = nth j cur' 0 \/ r j = nth j cur 0) /\
      a' == a + suml l (fun i => Qabs (nth i cur' 0 - nth i cur 0))
    end.
  Proof.
    induction l as [|i0 l IH]; intros cur d a Hnd Hr.
    - cbn. repeat split; auto; try (intros ? []). ring.
    - inversion Hnd as [|? ? Hni Hnd']; subst.
      cbn [fold_left]. unfold sweep_step at 2.
      set (rd := fun j => if Nat.eqb j i0 then nth j cur 0
                          else if stale i0 j then nth j old 0 else nth j cur 0).
      set (nr := Qred (upd n (predf gt) alpha (vecf v) md rd dr i0)).
      set (cur1 := set_nth i0 nr cur).
      match goal with |- context [fold_left step l (cur1, ?d1, ?a1)] =>
        specialize (IH cur1 d1 a1 Hnd') end.
      assert (Hi0 : (i0 < length cur)%nat) by (apply Hr; left; reflexivity).
      assert (Hlen1 : length cur1 = length cur) by apply set_nth_length.
      destruct (fold_left step l _) as [[cur' d'] a'].
      destruct IH as (Hlen & Hout & Hin & Hacc).
      { intros i Hi. rewrite Hlen1. apply Hr. right. exact Hi. }
      assert (Hc'0 : nth i0 cur' 0 = nr).
      { rewrite (Hout i0 Hni). apply set_nth_same. exact Hi0. }
      split; [lia|]. split; [|split].
      + intros j Hj. rewrite Hout by (intros Hc; apply Hj; right; exact Hc).
        apply set_nth_other. intros ->. apply Hj. left. reflexivity.
      + intros i [<-|Hi].
        * exists rd. split; [rewrite Hc'0; unfold nr; apply Qred_correct|].
          split; [unfold rd; rewrite Nat.eqb_refl; reflexivity|].
          intros j. unfold rd. destruct (Nat.eqb j i0); [right; right; reflexivity|].
          destruct (stale i0 j); [left|right; right]; reflexivity.
        * destruct (Hin i Hi) as (r & Hr1 & Hr2 & Hr3).
          assert (Hne : i0 <> i) by (intros ->; contradiction).
          exists r. split; [exact Hr1|]. split.
          { rewrite Hr2. apply set_nth_other. exact Hne. }
          intros j. destruct (Hr3 j) as [H|[H|H]]; [left; exact H|right; left; exact H|].
          destruct (Nat.eq_dec i0 j) as [<-|Hne'].
          { right. left. rewrite H, Hc'0. apply set_nth_same. exact Hi0. }
          { right. right. rewrite H. apply set_nth_other. exact Hne'. }
      + rewrite Hacc. rewrite Qred_correct. cbn [suml]. rewrite Hc'0.
        rewrite (suml_ext l (fun i => Qabs (nth i cur' 0 - nth i cur1 0))
                   (fun i => Qabs (nth i cur' 0 - nth i cur 0))).
        * ring.
        * intros j Hj. unfold cur1. rewrite set_nth_other; [reflexivity|].
          intros ->. contradiction.
  Qed.
End SweepLink.

Theorem error_bound_thm : S_error_bound.
Proof.
  intros gt alpha v md order stale xs sol Hc Hperm Hlen.
  pose proof (certified_oracle_thm gt alpha v md sol Hc) as (Hsol & _).
  unfold certified in Hc.
  apply andb_true_iff in Hc. destruct Hc as [Hc Hres].
  apply andb_true_iff in Hc. destruct Hc as [Hc Hlv].
  apply andb_true_iff in Hc. destruct Hc as [Hc Hst].
  apply andb_true_iff in Hc. destruct Hc as [Hgb Hab].
  pose proof (wf_graphb_wf gt Hgb) as Hg.
  pose proof (wf_alphab_wf alpha Hab) as Ha.
  pose proof (stochasticb_wf v Hst) as Hv.
  apply Nat.eqb_eq in Hlv. rewrite Hlv in Hv.
  assert (Hlsol : length sol = length gt).
  { unfold residual_zero in Hres. apply andb_true_iff in Hres. destruct Hres as [H _].
    apply Nat.eqb_eq in H. exact H. }
  set (n := length gt) in *.
  set (dr := dangling_rank n (predf gt) (vecf xs)).
  assert (Hnd : NoDup order).
  { apply (Permutation_NoDup (Permutation_sym Hperm)). apply seq_NoDup. }
  assert (Hrange : forall i, In i order -> (i < length xs)%nat).
  { intros i Hi. apply (Permutation_in _ Hperm) in Hi. apply in_seq in Hi. lia. }
  pose proof (fold_inv gt alpha v md xs dr stale order xs 0 0 Hnd Hrange) as Hinv.
  unfold sweep. fold n. fold dr.
  destruct (fold_left (sweep_step gt alpha v md xs dr stale) order (xs, 0, 0)) as [[xs' d'] nrm].
  destruct Hinv as (Hlen' & _ & Hin & Hacc).
  assert (Hstep : async_step n (predf gt) alpha (vecf v) md (vecf xs) (vecf xs')).
  { intros i Hi.
    assert (Hio : In i order).
    { apply (Permutation_in _ (Permutation_sym Hperm)). apply in_seq. lia. }
    destruct (Hin i Hio) as (r & Hr1 & Hr2 & Hr3).
    exists r. unfold vecf. split; [exact Hr1|]. split; [rewrite Hr2; reflexivity|].
    intros j. destruct (Hr3 j) as [H|[H|H]]; rewrite H; [left|right|left]; reflexivity. }
  pose proof (async_error_bound n (predf gt) alpha (vecf v) Hg Ha Hv md (vecf xs) (vecf xs') (vecf sol)
                Hstep Hsol) as Hb.
  rewrite l1dist_sumn by lia. rewrite Hlen', Hlen. fold n.
  rewrite Hacc. rewrite (suml_perm _ _ _ Hperm). fold n. rewrite suml_seq.
  unfold vecf in *. lra.
Qed.
