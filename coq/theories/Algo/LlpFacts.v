(** Proofs of the statements of Algo/LlpStatements.v. *)
From WG Require Import Base.Prelude Algo.Llp Algo.LlpStatements.
From Coq Require Import ZifyBool ZifyN ZifyNat.
Local Open Scope N_scope.

(** * Arrays *)
Lemma nseq_len a n : length (nseq a n) = n.
Proof. revert a; induction n; intros; cbn; [reflexivity|now rewrite IHn]. Qed.

Lemma In_nseq x a n : In x (nseq a n) <-> a <= x < a + N.of_nat n.
Proof.
  revert a; induction n; intros a; cbn [nseq In].
  - lia.
  - rewrite IHn. lia.
Qed.

Lemma NoDup_nseq a n : NoDup (nseq a n).
Proof.
  revert a; induction n; intros a; cbn [nseq]; constructor.
  - rewrite In_nseq. lia.
  - apply IHn.
Qed.

Lemma nth_nseq a n i : (i < n)%nat -> nth i (nseq a n) 0 = a + N.of_nat i.
Proof.
  revert a i; induction n; intros a i Hi; [lia|].
  destruct i; cbn [nseq nth]; [lia|]. rewrite IHn by lia. lia.
Qed.

Lemma ids_length n : length (ids n) = n.
Proof. apply nseq_len. Qed.

Lemma In_ids a n : In a (ids n) <-> a < N.of_nat n.
Proof. unfold ids. rewrite In_nseq. lia. Qed.

Lemma NoDup_ids n : NoDup (ids n).
Proof. apply NoDup_nseq. Qed.

Lemma get_ids n a : a < N.of_nat n -> get (ids n) a = a.
Proof. intros H. unfold get, ids. rewrite nth_nseq by lia. lia. Qed.

Lemma get_in l a : a < nlen l -> In (get l a) l.
Proof. intros H. unfold get. apply nth_In. unfold nlen in H. lia. Qed.

Lemma in_get l x : In x l -> exists a, a < nlen l /\ get l a = x.
Proof.
  intros H. destruct (In_nth l x 0 H) as [i [Hi Hx]].
  exists (N.of_nat i). unfold get, nlen. rewrite Nat2N.id. split; [lia|exact Hx].
Qed.

Lemma get_or_default l a : get l a = 0 \/ In (get l a) l.
Proof. unfold get. destruct (nth_in_or_default (N.to_nat a) l 0); [right|left]; assumption. Qed.

Lemma map_get_ids l : map (get l) (ids (length l)) = l.
Proof.
  apply nth_ext with (d := get l 0) (d' := 0).
  - now rewrite map_length, ids_length.
  - intros i Hi. rewrite map_length, ids_length in Hi.
    rewrite map_nth with (d := 0). unfold ids. rewrite nth_nseq by lia.
    unfold get. f_equal. lia.
Qed.

Lemma list_ext_get l l' :
  length l = length l' -> (forall j, j < nlen l -> get l j = get l' j) -> l = l'.
Proof.
  intros Hl H. apply nth_ext with (d := 0) (d' := 0); [exact Hl|].
  intros i Hi. specialize (H (N.of_nat i)). unfold get, nlen in H. rewrite Nat2N.id in H.
  apply H. lia.
Qed.

Lemma set_nth_length l i v : length (set_nth l i v) = length l.
Proof. revert i; induction l; intros [|i]; cbn; auto. Qed.

Lemma set_length l i v : length (set l i v) = length l.
Proof. apply set_nth_length. Qed.

Lemma nth_set_nth_same l i v : (i < length l)%nat -> nth i (set_nth l i v) 0 = v.
Proof. revert i; induction l; intros [|i] H; cbn in *; try lia; auto. apply IHl. lia. Qed.

Lemma nth_set_nth_other l i j v : i <> j -> nth j (set_nth l i v) 0 = nth j l 0.
Proof.
  revert i j; induction l; intros [|i] [|j] H; cbn; try reflexivity; try lia.
  apply IHl. lia.
Qed.

Lemma get_set_same l a v : a < nlen l -> get (set l a v) a = v.
Proof. intros H. unfold get, set. apply nth_set_nth_same. unfold nlen in H. lia. Qed.

Lemma get_set_other l a b v : a <> b -> get (set l a v) b = get l b.
Proof. intros H. unfold get, set. apply nth_set_nth_other. lia. Qed.

Lemma Forall_set_nth (P : N -> Prop) l i v : Forall P l -> P v -> Forall P (set_nth l i v).
Proof.
  intros Hl Hv. revert i; induction Hl; intros [|i]; cbn; constructor; auto.
Qed.

(** writing a list of (index, value) pairs *)
Definition write_all (zs : list (N * N)) (r : list N) : list N :=
  fold_left (fun r z => set r (fst z) (snd z)) zs r.

Lemma write_all_cons z zs r : write_all (z :: zs) r = write_all zs (set r (fst z) (snd z)).
Proof. reflexivity. Qed.

Lemma write_all_length zs r : length (write_all zs r) = length r.
Proof.
  revert r; induction zs as [|z zs IH]; intros r; [reflexivity|].
  rewrite write_all_cons, IH. apply set_length.
Qed.

Lemma get_write_all_notin zs r a :
  ~ In a (map fst zs) -> get (write_all zs r) a = get r a.
Proof.
  revert r; induction zs as [|z zs IH]; intros r H; [reflexivity|].
  cbn [map In] in H. rewrite write_all_cons, IH by tauto.
  apply get_set_other. tauto.
Qed.

Lemma get_write_all_in zs r a c :
  NoDup (map fst zs) -> In (a, c) zs -> a < nlen r -> get (write_all zs r) a = c.
Proof.
  revert r; induction zs as [|z zs IH]; intros r Hnd Hin Ha; [destruct Hin|].
  cbn [map] in Hnd. inversion Hnd as [|? ? Hnotin Hnd']; subst.
  rewrite write_all_cons. destruct Hin as [Hz|Hin].
  - subst z. cbn [fst snd] in *.
    rewrite get_write_all_notin by exact Hnotin.
    apply get_set_same. exact Ha.
  - apply IH; [exact Hnd'|exact Hin|]. unfold nlen in *. rewrite set_length. exact Ha.
Qed.

Lemma in_combine_exists {A B} (l : list A) (l' : list B) a :
  length l = length l' -> In a l -> exists c, In (a, c) (List.combine l l').
Proof.
  revert l'; induction l as [|x l IH]; intros [|y l'] Hl Hin; cbn in *; try lia; try tauto.
  destruct Hin as [->|Hin]; [exists y; now left|].
  destruct (IH l' ltac:(lia) Hin) as [c Hc]. exists c. now right.
Qed.

Lemma in_combine_exists_r {A B} (l : list A) (l' : list B) c :
  length l = length l' -> In c l' -> exists a, In (a, c) (List.combine l l').
Proof.
  revert l'; induction l as [|x l IH]; intros [|y l'] Hl Hin; cbn in *; try lia; try tauto.
  destruct Hin as [->|Hin]; [exists x; now left|].
  destruct (IH l' ltac:(lia) Hin) as [a Ha]. exists a. now right.
Qed.

Lemma combine_map_l {A B C} (f : A -> C) (l : list A) (l' : list B) :
  List.combine (map f l) l' = map (fun z => (f (fst z), snd z)) (List.combine l l').
Proof.
  revert l'; induction l as [|x l IH]; intros [|y l']; cbn; try reflexivity.
  now rewrite IH.
Qed.

Lemma map_fst_combine {A B} (l : list A) (l' : list B) :
  length l = length l' -> map fst (List.combine l l') = l.
Proof.
  revert l'; induction l as [|x l IH]; intros [|y l'] H; cbn in *; try lia; try reflexivity.
  now rewrite IH by lia.
Qed.

Lemma last_cons {A} (x : A) l d : last (x :: l) d = last l x.
Proof.
  revert x d; induction l as [|y l IH]; intros x d; [reflexivity|].
  change (last (x :: y :: l) d) with (last (y :: l) d).
  rewrite (IH y d), (IH y x). reflexivity.
Qed.
